//! F13' ("two clogged connections"): a plain distributed hash join of two parallel sources that
//! never returns from `execute_blocking`, on the unmodified engine, with a finite input and only
//! finite sleeps in user code (the longest one ends at T_GATE0 seconds, default 50).
//!
//! Build:  CARGO_NET_OFFLINE=true cargo build --offline --example f13_twoclog
//! Run:    target/debug/examples/f13_twoclog            (expected: RESULT: HANG after TIMEOUT s)
//!         CONTROL=1 target/debug/examples/f13_twoclog  (expected: RESULT: OK shortly after 50 s)
//!
//! Two hosts in one process: X = host 0 with 2 cores, Y = host 1 with NY (default 20) cores.
//!   SL (stream_par_iter, BatchMode::fixed(2)) --group_by--> B.left  \  B = join(ship_hash,
//!   SR (stream_par_iter, BatchMode::fixed(2)) --group_by--> B.right /  local_hash, inner).map(..)
//! Replicas of B in sender order: Bx0, Bx1 (on X), By0 = a, By1 = b, By2, ... (on Y).
//!
//! See REPORT.md for the schedule.  Output: progress lines on stderr, then either
//! "RESULT: OK .." or, when the watchdog (TIMEOUT, default 90 s) expires, a gdb dump of all
//! threads in $F13_DUMP (default /tmp/wt_f13_out/twoclog_threads.txt) and "RESULT: HANG ..".
//!
//! CONTROL=1 differs in one thing only: the two stragglers (replica 0 of SL and of SR) emit NO
//! item before ending instead of ONE item (so their End does not flush one destination early).

use std::sync::atomic::{AtomicUsize, Ordering};
use std::sync::{Arc, OnceLock};
use std::time::{Duration, Instant};

use renoir::config::{ConfigBuilder, HostConfig};
use renoir::prelude::*;

fn knob(name: &str, default: u64) -> u64 {
    std::env::var(name)
        .ok()
        .and_then(|v| v.parse().ok())
        .unwrap_or(default)
}

static START: OnceLock<Instant> = OnceLock::new();
static JOINED: AtomicUsize = AtomicUsize::new(0);
static SRC_RUNNING: AtomicUsize = AtomicUsize::new(0);
static SLEEPING_GATES: AtomicUsize = AtomicUsize::new(0);

fn now() -> f32 {
    START.get().unwrap().elapsed().as_secs_f32()
}

/// Sleep until `secs` seconds after the start of the program (no-op if already past).
fn sleep_until(secs: u64) {
    let target = *START.get().unwrap() + Duration::from_secs(secs);
    let now = Instant::now();
    if target > now {
        std::thread::sleep(target - now);
    }
}

/// The `n`-th key (n = 0, 1, ..) that the group_by of the join routes to replica `dest` of B.
fn key_for(dest: u64, n: u64, nb: u64) -> u64 {
    let mut found = 0;
    let mut k = 1u64;
    loop {
        if renoir::group_by_hash(&k) % nb == dest {
            if found == n {
                return k;
            }
            found += 1;
        }
        k += 1;
    }
}

#[derive(Clone, Copy)]
struct Plan {
    nb: u64,
    t_fill: u64,
    t_herd: u64,
    t_straggler: u64,
    control: bool,
    /// straggler's single item goes to this replica of B (a for the left source, b for the right)
    straggler_dest: u64,
}

const BX0: u64 = 0;
const BX1: u64 = 1;
const A: u64 = 2; // By0
const B: u64 = 3; // By1
const BY2: u64 = 4;

/// Items emitted by source replica `id` (same script for SL and SR, except `straggler_dest`).
fn script(id: u64, p: Plan) -> impl Iterator<Item = u64> + Send {
    SRC_RUNNING.fetch_add(1, Ordering::SeqCst);
    let mut items: Vec<(u64, u64)> = vec![]; // (emit not before second, key)
    match id {
        // the straggler (on X): one single item, late
        0 => {
            if !p.control {
                items.push((p.t_straggler, key_for(p.straggler_dest, 1000, p.nb)));
            }
        }
        // the helper (on X): gate items, then (later) the fillers, then it ends
        1 => {
            for g in [BX0, BX1, BY2] {
                items.push((0, key_for(g, 0, p.nb))); // gate key: the closure in B sleeps on it
                items.push((0, key_for(g, 1, p.nb))); // completes the batch of 2
            }
            // fillers: 14 batches for Bx0, 15 for Bx1, 15 for By2 (batches of 2 items)
            for (g, batches) in [(BX0, 14), (BX1, 15), (BY2, 15)] {
                for n in 0..2 * batches {
                    items.push((p.t_fill, key_for(g, 2 + n, p.nb)));
                }
            }
        }
        // the herd (on Y): no items at all
        _ => {}
    }
    let end_at = match id {
        0 => p.t_straggler,
        1 => p.t_fill,
        _ => p.t_herd,
    };
    let mut it = items.into_iter();
    let mut done = false;
    std::iter::from_fn(move || match it.next() {
        Some((at, k)) => {
            sleep_until(at);
            Some(k)
        }
        None => {
            if !done {
                done = true;
                sleep_until(end_at);
                SRC_RUNNING.fetch_sub(1, Ordering::SeqCst);
            }
            None
        }
    })
}

fn build_job(env: &StreamContext) {
    let ny = knob("NY", 20);
    let nb = 2 + ny;
    let plan = Plan {
        nb,
        t_fill: knob("T_FILL", 6),
        t_herd: knob("T_HERD", 12),
        t_straggler: knob("T_STRAGGLER", 20),
        control: knob("CONTROL", 0) == 1,
        straggler_dest: A,
    };
    let wake = [
        (key_for(BX0, 0, nb), knob("T_GATE0", 50)),
        (key_for(BX1, 0, nb), knob("T_GATE1", 40)),
        (key_for(BY2, 0, nb), knob("T_GATE2", 30)),
    ];
    let bm = BatchMode::fixed(2);

    let left = env
        .stream_par_iter(move |id, _n| script(id, plan))
        .batch_mode(bm);
    let plan_r = Plan {
        straggler_dest: B,
        ..plan
    };
    let right = env
        .stream_par_iter(move |id, _n| script(id, plan_r))
        .batch_mode(bm);

    left.join(right, |l: &u64| *l, |r: &u64| *r)
        .map(move |(k, _)| {
            let k = *k;
            JOINED.fetch_add(1, Ordering::Relaxed);
            for (gate_key, until) in wake {
                if k == gate_key {
                    SLEEPING_GATES.fetch_add(1, Ordering::SeqCst);
                    eprintln!("[{:5.1}s] a replica of B starts a sleep that ends at {until}s", now());
                    sleep_until(until);
                    eprintln!("[{:5.1}s] that replica of B wakes up", now());
                    SLEEPING_GATES.fetch_sub(1, Ordering::SeqCst);
                }
            }
            k
        })
        .for_each(|_| {});
}

fn dump_threads(path: &str) {
    // gdb stops the whole process (this thread too): its output must go straight to a file
    let file = std::fs::File::create(path).unwrap();
    let _ = std::process::Command::new("gdb")
        .args([
            "-p",
            &std::process::id().to_string(),
            "-batch",
            "-ex",
            "set pagination off",
            "-ex",
            "thread apply all bt 40",
        ])
        .stdin(std::process::Stdio::null())
        .stdout(file)
        .stderr(std::process::Stdio::null())
        .status();
}

fn main() {
    let _ = env_logger::try_init();
    START.set(Instant::now()).unwrap();
    let ny = knob("NY", 20);
    let ip3 = knob("IP3", 83);
    let port = knob("PORT", 24567) as u16;
    let timeout = knob("TIMEOUT", 90);

    let hosts: Vec<HostConfig> = [2, ny]
        .iter()
        .enumerate()
        .map(|(h, &cores)| HostConfig {
            address: format!("127.201.{ip3}.{}", h + 1),
            base_port: port,
            num_cores: cores,
            ssh: Default::default(),
            perf_path: None,
        })
        .collect();

    let done = Arc::new(AtomicUsize::new(0));
    for host_id in 0..hosts.len() as u64 {
        let config = ConfigBuilder::new_remote()
            .add_hosts(&hosts)
            .host_id(host_id)
            .build()
            .unwrap();
        let done = done.clone();
        std::thread::Builder::new()
            .name(format!("host{host_id}"))
            .spawn(move || {
                let env = StreamContext::new(config);
                build_job(&env);
                env.execute_blocking();
                eprintln!("[{:5.1}s] host {host_id} returned from execute_blocking", now());
                done.fetch_add(1, Ordering::SeqCst);
            })
            .unwrap();
    }

    let mut last = (usize::MAX, usize::MAX, usize::MAX);
    while now() < timeout as f32 {
        if done.load(Ordering::SeqCst) == hosts.len() {
            println!(
                "RESULT: OK {:.1}s joined={}",
                now(),
                JOINED.load(Ordering::SeqCst)
            );
            return;
        }
        std::thread::sleep(Duration::from_millis(500));
        let cur = (
            SRC_RUNNING.load(Ordering::SeqCst),
            JOINED.load(Ordering::SeqCst),
            SLEEPING_GATES.load(Ordering::SeqCst),
        );
        if cur != last {
            eprintln!(
                "[{:5.1}s] source replicas still running: {}  joined items: {}  user closures sleeping: {}",
                now(),
                cur.0,
                cur.1,
                cur.2
            );
            last = cur;
        }
    }
    let dump =
        std::env::var("F13_DUMP").unwrap_or_else(|_| "/tmp/wt_f13_out/twoclog_threads.txt".into());
    eprintln!("watchdog expired: dumping threads to {dump}");
    dump_threads(&dump);
    println!(
        "RESULT: HANG hosts_done={} source_replicas_running={} user_closures_sleeping={} joined={}",
        done.load(Ordering::SeqCst),
        SRC_RUNNING.load(Ordering::SeqCst),
        SLEEPING_GATES.load(Ordering::SeqCst),
        JOINED.load(Ordering::SeqCst)
    );
    std::process::exit(2);
}

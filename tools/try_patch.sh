#!/bin/bash
# tools/try_patch.sh <patch.diff> <label> <prop> [<prop> ...] : apply a candidate change to /repo, run
# the quick checks, undo it. Serialised by a lock: only one change is ever applied to /repo.
patch=$1; label=$2; shift 2
exec 9>/tmp/try_patch.lock; flock 9
cd /verif
if [ -n "$(git -C /repo status --porcelain --untracked-files=no)" ]; then echo "$label: /repo dirty"; exit 2; fi
git -C /repo apply "$patch" || { echo "$label: patch does not apply"; exit 2; }
for p in "$@"; do
  r=$(./nv check $p --tier quick 2>&1 | grep -E "^(VIOLATION|OK )" | tail -1)
  echo "$label $p :: $r"
done
git -C /repo checkout -- .

#!/usr/bin/env python3
"""tools/import_trials.py <log ...>: fold the lines `<id> <prop> :: <verdict>` written by
tools/try_patch.sh (the same procedure as run_seeded.py, one change at a time under a lock)
into seeded/RESULTS.json and regenerate seeded/README.md. Only ids stored under seeded/ count."""
import json, os, re, sys
ROOT = os.path.dirname(os.path.dirname(os.path.abspath(__file__)))
sys.path.insert(0, os.path.join(ROOT, "tools"))
import run_seeded
rp = os.path.join(ROOT, "seeded", "RESULTS.json")
res = json.load(open(rp))
for f in sys.argv[1:]:
    for line in open(f):
        m = re.match(r"(\S+) (C\d\d) :: (.*)", line.strip())
        if not m: continue
        sid, prop, verdict = m.groups()
        if not os.path.isfile(os.path.join(ROOT, "seeded", sid, "meta.json")): continue
        e = res.setdefault(sid, {"property": sid[:3], "checks": {}})
        e.setdefault("checks", {})[prop] = {"exit": 1 if verdict.startswith("VIOLATION") else 0, "verdict": verdict}
        e["caught"] = any(v["exit"] != 0 for v in e["checks"].values())
json.dump(res, open(rp, "w"), indent=1)
run_seeded.write_readme(res)

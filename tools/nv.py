#!/usr/bin/env python3
"""noir-verif orchestrator.

  ./nv setup                          build Coq development + Rust harness
  ./nv check Cxx [--tier quick|thorough]
  ./nv replay <replay.json>
  ./nv axioms                         coqchk -o over the property files (slow)

A check = (1) the Coq proofs of the property compile, with clean `Print Assumptions`,
(2) the harness, built against /repo's *current working tree*, runs the real code on
generated inputs and writes Coq case files, (3) `coqc` evaluates, with vm_compute, the model
and the property's decidable predicate on every recorded implementation behaviour.
"""
import concurrent.futures as cf
import fcntl
import glob
import hashlib
import json
import os
import re
import shutil
import subprocess
import sys
import time

ROOT = os.path.dirname(os.path.dirname(os.path.abspath(__file__)))
COQ = os.path.join(ROOT, "coq")
HARNESS = os.path.join(ROOT, "harness")
BUILD = os.path.join(ROOT, "build")
EVID = os.path.join(ROOT, "evidence")
REPLAYS = os.path.join(ROOT, "replays")
REPO = "/repo"

sys.path.insert(0, os.path.join(ROOT, "tools"))
from registry import REGISTRY, ALLOWED_AXIOMS, TRUSTED_BASE  # noqa: E402

ENV = dict(os.environ, CARGO_NET_OFFLINE="true")


def log(*a):
    print("[nv]", *a, file=sys.stderr, flush=True)


def sh(cmd, timeout, cwd=None, env=None):
    """run a command under a hard timeout; returns (rc, stdout+stderr)"""
    try:
        p = subprocess.run(cmd, cwd=cwd, env=env or ENV, stdout=subprocess.PIPE, stderr=subprocess.STDOUT,
                           timeout=timeout, text=True, errors="replace")
        return p.returncode, p.stdout
    except subprocess.TimeoutExpired as e:
        out = e.stdout if isinstance(e.stdout, str) else (e.stdout or b"").decode(errors="replace")
        return 124, (out or "") + "\n[nv] TIMEOUT after %ss" % timeout


class Lock:
    def __init__(self, name):
        os.makedirs(BUILD, exist_ok=True)
        self.path = os.path.join(BUILD, name + ".lock")

    def __enter__(self):
        self.f = open(self.path, "w")
        fcntl.flock(self.f, fcntl.LOCK_EX)

    def __exit__(self, *a):
        fcntl.flock(self.f, fcntl.LOCK_UN)
        self.f.close()


# ----------------------------------------------------------------------------- Coq side

def strip_comments(src):
    out, depth, i = [], 0, 0
    while i < len(src):
        if src.startswith("(*", i):
            depth += 1
            i += 2
        elif src.startswith("*)", i) and depth > 0:
            depth -= 1
            i += 2
        else:
            if depth == 0:
                out.append(src[i])
            i += 1
    return "".join(out)


FORBIDDEN = re.compile(
    r"\b(Admitted|admit|Axiom|Axioms|Parameter|Parameters|Conjecture|Conjectures|Admit Obligations|bypass_check)\b"
    r"|Unset\s+Guard|Unset\s+Positivity|Unset\s+Universe|type-in-type|impredicative-set|native_compute")


def scan_forbidden():
    """no Admitted/admit/Axiom/... anywhere in the development (comments ignored)"""
    bad = []
    for f in sorted(glob.glob(os.path.join(COQ, "theories", "**", "*.v"), recursive=True)):
        code = strip_comments(open(f).read())
        for m in FORBIDDEN.finditer(code):
            bad.append("%s: %s" % (os.path.relpath(f, COQ), m.group(0)))
    proj = open(os.path.join(COQ, "_CoqProject")).read()
    if re.search(r"type-in-type|impredicative-set|-vos|-vok", proj):
        bad.append("_CoqProject: forbidden flag")
    return bad


def gen_consts():
    """Regenerate Gen/Consts.v from /repo's sources (constants the executable model uses)."""
    rc, out = sh([sys.executable, os.path.join(ROOT, "tools", "gen_consts.py")], 60)
    return rc == 0, out


def coq_project():
    files = sorted(os.path.relpath(f, COQ) for f in glob.glob(os.path.join(COQ, "theories", "**", "*.v"), recursive=True))
    head = "-Q theories Noir\n-arg -w -arg -notation-overridden,-deprecated-hint-without-locality,-deprecated-instance-without-locality\n"
    new = head + "\n".join(files) + "\n"
    p = os.path.join(COQ, "_CoqProject")
    old = open(p).read() if os.path.exists(p) else ""
    changed = old != new
    if changed:
        open(p, "w").write(new)
    if changed or not os.path.exists(os.path.join(COQ, "Makefile")):
        rc, out = sh(["coq_makefile", "-f", "_CoqProject", "-o", "Makefile"], 120, cwd=COQ)
        if rc != 0:
            raise RuntimeError("coq_makefile failed:\n" + out)


def coq_make(targets=None, timeout=3000):
    """full .vo build (never -vos/-vok) of the given targets, incremental"""
    with Lock("coq"):
        coq_project()
        cmd = ["make", "-j16"] + (targets or [])
        rc, out = sh(cmd, timeout, cwd=COQ)
        return rc, out


def theorems_of(prop):
    src = strip_comments(open(os.path.join(COQ, "theories", "Props", prop + ".v")).read())
    return re.findall(r"^\s*(?:Theorem|Lemma|Corollary|Example)\s+([A-Za-z0-9_']+)", src, re.M)


def print_assumptions(prop, names):
    """ask Coq for the axioms each theorem of Props/<prop>.v depends on"""
    d = os.path.join(BUILD, "assume")
    os.makedirs(d, exist_ok=True)
    f = os.path.join(d, "Assume_%s.v" % prop)
    with open(f, "w") as fh:
        fh.write("From Noir Require Import Props.%s.\n" % prop)
        for n in names:
            fh.write("Print Assumptions %s.\n" % n)
    rc, out = sh(["coqc", "-noglob", "-Q", os.path.join(COQ, "theories"), "Noir", f], 600, cwd=d)
    if rc != 0:
        return None, out
    chunks = re.split(r"(?m)^(?=Closed under the global context|Axioms:)", out)
    chunks = [c for c in chunks if c.startswith("Closed under") or c.startswith("Axioms:")]
    res = {}
    for n, c in zip(names, chunks):
        if c.startswith("Closed"):
            res[n] = []
        else:
            res[n] = re.findall(r"(?m)^([A-Za-z_][\w.']*)\s*:", c[len("Axioms:"):])
    if len(chunks) != len(names):
        return None, "could not parse Print Assumptions output:\n" + out
    return res, out


# ----------------------------------------------------------------------------- Rust side

def build_harness(timeout=2400):
    with Lock("cargo"):
        lock = os.path.join(HARNESS, "Cargo.lock")
        if not os.path.exists(lock):
            shutil.copy(os.path.join(REPO, "Cargo.lock"), lock)
        rc, out = sh(["cargo", "build", "--offline", "--bin", "nvh"], timeout, cwd=HARNESS)
        return rc, out


def run_harness(prop, tier, seed, outdir, extra=None, timeout=1800):
    if os.path.isdir(outdir):
        shutil.rmtree(outdir)
    os.makedirs(outdir)
    cmd = [os.path.join(HARNESS, "target", "debug", "nvh"), prop, "--tier", tier, "--seed", str(seed), "--out", outdir]
    if extra:
        cmd += extra
    return sh(cmd, timeout, cwd=ROOT)


def eval_shard(path):
    d = os.path.dirname(path)
    t0 = time.time()
    rc, out = sh(["bash", "-c", "ulimit -s unlimited 2>/dev/null; exec coqc -noglob -Q %s Noir %s" % (os.path.join(COQ, "theories"), os.path.basename(path))], 1500, cwd=d)
    for ext in (".vo", ".vok", ".vos", ".glob"):
        try:
            os.remove(path[:-2] + ext)
        except OSError:
            pass
    if rc != 0:
        return path, None, None, out, time.time() - t0
    m = re.search(r"=\s*\(tt,\s*(\[.*?\])\s*\)\s*:\s*unit", out, re.S)
    if not m:
        return path, None, None, out, time.time() - t0
    rows = re.findall(r"\(\s*(\d+)%N\s*,\s*(true|false)\s*,\s*(true|false)\s*,\s*(\d+)%N\s*\)", m.group(1))
    fail = [int(i) for i, a, b, c in rows if a == "false"]
    viol = {int(i): int(c) for i, a, b, c in rows if b == "false"}
    return path, fail, viol, out, time.time() - t0


def eval_cases(casedir):
    shards = sorted(glob.glob(os.path.join(casedir, "cases_*.v")), key=lambda p: int(re.findall(r"cases_(\d+)\.v", p)[0]))
    results = []
    with cf.ThreadPoolExecutor(max_workers=16) as ex:
        for r in ex.map(eval_shard, shards):
            results.append(r)
    return results


# ----------------------------------------------------------------------------- known findings

def known_findings(prop):
    p = os.path.join(ROOT, "known_findings.json")
    if not os.path.exists(p):
        return []
    return [f for f in json.load(open(p))["findings"] if f["property"] == prop]


# ----------------------------------------------------------------------------- check

def write_evidence(prop, tier, seed, coverage, assumptions, wall, violations):
    os.makedirs(EVID, exist_ok=True)
    ev = {
        "property_id": prop, "tier": tier, "seed": seed, "level": "proof",
        "coverage": coverage, "assumptions": assumptions, "wall_s": round(wall, 2), "violations": violations,
    }
    with open(os.path.join(EVID, prop + ".json"), "w") as f:
        json.dump(ev, f, indent=1)


def write_replay(prop, seed, tier, kind, payload):
    os.makedirs(REPLAYS, exist_ok=True)
    path = os.path.join(REPLAYS, "%s-%s-%s.json" % (prop, tier, seed))
    payload = dict(payload, property=prop, seed=seed, tier=tier, kind=kind)
    with open(path, "w") as f:
        json.dump(payload, f, indent=1)
    return path


def case_size(d):
    return len(json.dumps(d))


def check(prop, tier, seed, only=None, quiet=False):
    t0 = time.time()
    reg = REGISTRY[prop]
    violations = []      # (kind, payload)
    known_lines = []
    notes = []

    # 0. constants regenerated from source
    ok, out = gen_consts()
    if not ok:
        violations.append(("correspondence-broken", {"broken": "Gen/Consts.v regeneration (a modelled constant is no longer found in /repo)", "output": out[-2000:]}))

    # 1. proofs
    bad = scan_forbidden()
    theorems = theorems_of(prop)
    rc, out = coq_make(["theories/Props/%s.vo" % prop, "theories/Corr/%s.vo" % reg.get("corr", prop)])
    proofs_ok = rc == 0 and not bad
    assum = {}
    if rc != 0:
        m = re.findall(r'File "([^"]+)", line (\d+)', out)
        violations.append(("proof-broken", {"broken": "Coq build of Props/%s.vo failed at %s" % (prop, m[-1] if m else "?"), "output": out[-3000:]}))
    if bad:
        violations.append(("proof-broken", {"broken": "forbidden constructs in the development", "where": bad}))
    if rc == 0:
        assum, aout = print_assumptions(prop, theorems)
        if assum is None:
            proofs_ok = False
            assum = {}
            violations.append(("proof-broken", {"broken": "Print Assumptions failed", "output": aout[-2000:]}))
        else:
            for n, ax in assum.items():
                extra = [a for a in ax if a.split(".")[-1] not in ALLOWED_AXIOMS]
                if extra:
                    proofs_ok = False
                    violations.append(("proof-broken", {"broken": "theorem %s depends on non-allowed axioms" % n, "axioms": extra}))
    discharged = len([n for n in theorems if n in assum and all(a.split(".")[-1] in ALLOWED_AXIOMS for a in assum[n])]) if proofs_ok else 0

    # 1b. thorough tier: re-check the compiled property file and everything it depends on with
    # the independent checker, and read the axioms it reports
    coqchk_summary = None
    if proofs_ok and tier == "thorough":
        with Lock("coq"):
            rcc, outc = sh(["coqchk", "-silent", "-o", "-Q", "theories", "Noir", "Noir.Props.%s" % prop], 3000, cwd=COQ)
        m = re.search(r"\* Axioms:(.*?)\n\s*\n\* Constants/Inductives relying on type-in-type", outc, re.S)
        axioms_reported = m.group(1).strip() if m else "?"
        coqchk_summary = {"rc": rcc, "axioms": axioms_reported}
        if rcc != 0 or axioms_reported != "<none>":
            proofs_ok = False
            discharged = 0
            violations.append(("proof-broken", {"broken": "coqchk on Props/%s.vo: rc=%s axioms=%s" % (prop, rcc, axioms_reported), "output": outc[-2000:]}))

    # 2. implementation runs
    meta = {}
    results = []
    casedir = os.path.join(BUILD, "cases", prop)
    rc, out = build_harness()
    if rc != 0:
        violations.append(("correspondence-broken", {"broken": "harness no longer builds against /repo (hooks or public API changed)", "output": out[-3000:]}))
    else:
        extra = ["--only", str(only)] if only is not None else None
        rc, out = run_harness(prop, tier, seed, casedir, extra, timeout=reg.get("harness_timeout", 1800))
        if rc != 0:
            violations.append(("correspondence-broken", {"broken": "harness run failed (rc=%s)" % rc, "output": out[-3000:]}))
        else:
            meta = json.load(open(os.path.join(casedir, "meta.json")))
            if proofs_ok or os.path.exists(os.path.join(COQ, "theories", "Corr", reg.get("corr", prop) + ".vo")):
                results = eval_cases(casedir)

    # 3. classify
    n_fail = n_viol = 0
    viol_cases, fail_cases = [], []
    for path, fail, viol, cout, dt in results:
        if fail is None:
            violations.append(("correspondence-broken", {"broken": "coqc evaluation of %s failed" % os.path.basename(path), "output": cout[-3000:]}))
            continue
        descr = json.load(open(path[:-2] + ".json"))
        for i, cls in viol.items():
            viol_cases.append((descr[i], i in fail, cls))
        for i in fail:
            if i not in viol:
                fail_cases.append(descr[i])
        n_fail += len(fail)
        n_viol += len(viol)

    kf = known_findings(prop)
    known_hit = {}
    unexplained = []
    classes = reg.get("classes", {})
    for d, also_corr, cls in viol_cases:
        fid = classes.get(cls)
        match = [f for f in kf if f.get("status") == "known" and fid and f["id"] == fid]
        if match and not also_corr:
            known_hit.setdefault(fid, (match[0], d))
        else:
            unexplained.append(d)
    for fid, (f, d) in sorted(known_hit.items()):
        known_lines.append("KNOWN-FINDING: property=%s %s [%s]" % (prop, f["what"], fid))

    if unexplained:
        unexplained.sort(key=case_size)
        violations.insert(0, ("property-violated", {"failing_input": unexplained[0], "n_violating_cases": len(unexplained),
                                                      "theorem_predicate": "Corr.%s.prop_ok" % reg.get("corr", prop)}))
    elif fail_cases:
        fail_cases.sort(key=case_size)
        violations.append(("correspondence-broken", {"broken": "Corr.%s.corr_ok: model and implementation differ" % reg.get("corr", prop),
                                                     "diverging_input": fail_cases[0], "n_diverging_cases": len(fail_cases),
                                                     "search": "all %d generated cases evaluated against the property predicate: none violates it" % meta.get("evaluations", 0)}))

    # 4. evidence + verdict
    wall = time.time() - t0
    coverage = {
        "obligations": len(theorems), "discharged": discharged,
        "checker_cmd": "make -C coq theories/Props/%s.vo (coqc 8.16.1 full .vo build) + Print Assumptions on every theorem; correspondence: coqc vm_compute of Corr.%s.corr_failing/prop_violating on harness-recorded behaviour" % (prop, reg.get("corr", prop)),
        "trusted_base": TRUSTED_BASE + reg.get("trusted", []),
        "theorems": {n: (assum.get(n) if assum else None) for n in theorems},
        "traces_validated_against_impl": meta.get("evaluations", 0),
        "evaluations": meta.get("evaluations", 0),
        "distinct_nontrivial": meta.get("distinct_nontrivial", 0),
        "rule": meta.get("rule", ""),
        "samples": meta.get("samples", []),
        "input_distribution": meta.get("distribution", {}),
        "model_vs_impl_disagreements": n_fail,
        "property_predicate_failures": n_viol,
        "known_findings_reproduced": sorted(known_hit.keys()),
        "exhaustive": False,
        "explanation": reg.get("explanation", ""),
        "coqchk": coqchk_summary,
        "extra": meta.get("extra", {}),
    }
    write_evidence(prop, tier, seed, coverage, reg.get("assumptions", []), wall, len(violations))
    for l in known_lines:
        print(l)
    if violations:
        kind, payload = violations[0]
        payload = dict(payload, all_problems=[{"kind": k, "summary": (p.get("broken") or "property predicate false on implementation output")} for k, p in violations])
        path = write_replay(prop, seed, tier, kind, payload)
        suffix = "" if kind == "property-violated" else " no-failing-input-found"
        print("VIOLATION property=%s replay=%s%s" % (prop, path, suffix))
        return 1
    if not quiet:
        print("OK property=%s tier=%s theorems=%d/%d cases=%d distinct_nontrivial=%d wall=%.1fs" % (
            prop, tier, discharged, len(theorems), meta.get("evaluations", 0), meta.get("distinct_nontrivial", 0), wall))
    return 0


def setup():
    t0 = time.time()
    ok, out = gen_consts()
    if not ok:
        print(out)
        return 1
    rc, out = coq_make(timeout=6000)
    if rc != 0:
        print(out[-6000:])
        return 1
    log("coq build ok (%.0fs)" % (time.time() - t0))
    rc, out = build_harness(timeout=3000)
    if rc != 0:
        print(out[-6000:])
        return 1
    log("harness build ok (%.0fs)" % (time.time() - t0))
    return 0


def replay(path):
    r = json.load(open(path))
    prop, seed, tier = r["property"], r["seed"], r["tier"]
    print("replaying %s (seed %s, tier %s): re-running the check with the recorded seed" % (prop, seed, tier))
    return check(prop, tier, seed)


def main():
    a = sys.argv[1:]
    if not a:
        print(__doc__)
        return 2
    if a[0] == "setup":
        return setup()
    if a[0] == "check":
        prop = a[1]
        tier = os.environ.get("VERIF_TIER", "quick")
        if "--tier" in a:
            tier = a[a.index("--tier") + 1]
        seed = int(os.environ.get("VERIF_SEED", "1") or 1)
        if "--seed" in a:
            seed = int(a[a.index("--seed") + 1])
        if prop not in REGISTRY:
            print("unknown property", prop)
            return 2
        return check(prop, tier, seed)
    if a[0] == "replay":
        return replay(a[1])
    if a[0] == "axioms":
        with Lock("coq"):
            vos = sorted(glob.glob(os.path.join(COQ, "theories", "Props", "*.vo")))
            mods = ["Noir.Props." + os.path.basename(v)[:-3] for v in vos]
            rc, out = sh(["coqchk", "-silent", "-o", "-Q", "theories", "Noir"] + mods, 3600, cwd=COQ)
            print(out[-4000:])
            return rc
    print(__doc__)
    return 2


if __name__ == "__main__":
    sys.exit(main())

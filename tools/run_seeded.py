#!/usr/bin/env python3
"""Self-validation (not a registered check): apply each confirmed breaking change under
seeded/<id>/patch.diff to /repo, run the quick check of the property it breaks (and of the
properties listed in meta.json "also_run"), undo the change straight afterwards, and record
which checks reported a violation in seeded/RESULTS.json.

  tools/run_seeded.py [id ...]
"""
import json
import os
import subprocess
import sys

ROOT = os.path.dirname(os.path.dirname(os.path.abspath(__file__)))
SEEDED = os.path.join(ROOT, "seeded")


def sh(cmd, **kw):
    return subprocess.run(cmd, stdout=subprocess.PIPE, stderr=subprocess.STDOUT, text=True, **kw)


def main():
    ids = sys.argv[1:] or sorted(d for d in os.listdir(SEEDED) if os.path.isdir(os.path.join(SEEDED, d)))
    results_path = os.path.join(SEEDED, "RESULTS.json")
    results = json.load(open(results_path)) if os.path.exists(results_path) else {}
    dirty = sh(["git", "-C", "/repo", "status", "--porcelain", "--untracked-files=no"]).stdout.strip()
    if dirty:
        print("refusing to run: /repo has uncommitted changes:\n" + dirty)
        return 2
    for sid in ids:
        d = os.path.join(SEEDED, sid)
        meta = json.load(open(os.path.join(d, "meta.json")))
        props = [meta["property"]] + meta.get("also_run", [])
        r = sh(["git", "-C", "/repo", "apply", os.path.join(d, "patch.diff")])
        if r.returncode != 0:
            results[sid] = {"error": "patch does not apply: " + r.stdout[-300:]}
            continue
        try:
            res = {}
            for p in props:
                out = sh([os.path.join(ROOT, "nv"), "check", p, "--tier", "quick"], cwd=ROOT)
                lines = [l for l in out.stdout.splitlines() if l.startswith("VIOLATION") or l.startswith("OK ")]
                res[p] = {"exit": out.returncode, "verdict": lines[-1] if lines else out.stdout[-200:]}
                print(sid, p, res[p]["verdict"])
            results[sid] = {"property": meta["property"], "checks": res,
                            "caught": any(v["exit"] != 0 for v in res.values())}
        finally:
            sh(["git", "-C", "/repo", "checkout", "--", "."])
    json.dump(results, open(results_path, "w"), indent=1)
    return 0


if __name__ == "__main__":
    sys.exit(main())

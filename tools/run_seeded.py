#!/usr/bin/env python3
"""Self-validation (not a registered check): apply each confirmed breaking change under
seeded/<id>/patch.diff to /repo, run the quick check of the property it breaks (and of the
properties listed in meta.json "also_run"), undo the change straight afterwards, and record
which checks reported a violation in seeded/RESULTS.json.

  tools/run_seeded.py [id ...]
"""
import json
import os
import subprocess
import sys

ROOT = os.path.dirname(os.path.dirname(os.path.abspath(__file__)))
SEEDED = os.path.join(ROOT, "seeded")


def sh(cmd, **kw):
    return subprocess.run(cmd, stdout=subprocess.PIPE, stderr=subprocess.STDOUT, text=True, **kw)


def main():
    ids = sys.argv[1:] or sorted(d for d in os.listdir(SEEDED) if os.path.isfile(os.path.join(SEEDED, d, "meta.json")))
    results_path = os.path.join(SEEDED, "RESULTS.json")
    results = json.load(open(results_path)) if os.path.exists(results_path) else {}
    dirty = sh(["git", "-C", "/repo", "status", "--porcelain", "--untracked-files=no"]).stdout.strip()
    if dirty:
        print("refusing to run: /repo has uncommitted changes:\n" + dirty)
        return 2
    for sid in ids:
        d = os.path.join(SEEDED, sid)
        meta = json.load(open(os.path.join(d, "meta.json")))
        props = [meta["property"]] + meta.get("also_run", [])
        r = sh(["git", "-C", "/repo", "apply", os.path.join(d, "patch.diff")])
        if r.returncode != 0:
            results[sid] = {"error": "patch does not apply: " + r.stdout[-300:]}
            continue
        try:
            res = {}
            for p in props:
                out = sh([os.path.join(ROOT, "nv"), "check", p, "--tier", "quick"], cwd=ROOT)
                lines = [l for l in out.stdout.splitlines() if l.startswith("VIOLATION") or l.startswith("OK ")]
                res[p] = {"exit": out.returncode, "verdict": lines[-1] if lines else out.stdout[-200:]}
                print(sid, p, res[p]["verdict"])
            results[sid] = {"property": meta["property"], "checks": res,
                            "caught": any(v["exit"] != 0 for v in res.values())}
        finally:
            sh(["git", "-C", "/repo", "checkout", "--", "."])
    json.dump(results, open(results_path, "w"), indent=1)
    write_readme(results)
    return 0


def write_readme(results):
    """seeded/README.md: one row per confirmed breaking change, from meta.json and RESULTS.json"""
    rows = []
    for sid in sorted(d for d in os.listdir(SEEDED) if os.path.isfile(os.path.join(SEEDED, d, "meta.json"))):
        meta = json.load(open(os.path.join(SEEDED, sid, "meta.json")))
        res = results.get(sid, {})
        checks = res.get("checks", {})
        caught_by = [p for p, v in checks.items() if v.get("exit") != 0]
        missed_by = [p for p, v in checks.items() if v.get("exit") == 0]
        files = ", ".join(meta.get("files_changed") or [])
        summary = (meta.get("summary") or "").replace("|", "/").replace("\n", " ")
        needs = (meta.get("needs") or "").replace("|", "/").replace("\n", " ")
        rows.append("| %s | %s | %s | %s | %s | %s | %s |" % (
            sid, meta["property"], files, summary[:400], needs[:300],
            ", ".join(caught_by) or "-", ", ".join(missed_by) or "-"))
    text = """# Seeded breaking changes

Each directory holds a change to deib-polimi/noir made by a fresh sub-agent that saw only the
text of one property and a scratch worktree (nothing from /verif): `patch.diff` (apply with
`git -C /repo apply`), `demo.rs` (a test that fails with the change and passes without it) and
`meta.json`. Every change compiles and passes the repository's own test suite (confirmed in the
scratch worktree: 238 passed, 0 failed) and was confirmed to make the demo fail / pass.
`tools/run_seeded.py` applies each to /repo, runs the quick check of the property (and of the
neighbouring properties in `also_run`), undoes it, and rewrites this table and `RESULTS.json`.
`strengthened.md` records what was changed in the checks after a miss.

| id | property | files | change | needs | checks that report a VIOLATION | checks run that stay OK |
|---|---|---|---|---|---|---|
""" + "\n".join(rows) + "\n"
    open(os.path.join(SEEDED, "README.md"), "w").write(text)


if __name__ == "__main__":
    sys.exit(main())

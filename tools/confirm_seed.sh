#!/bin/bash
# Confirm a candidate breaking change produced by a sub-agent in its scratch worktree:
#   tools/confirm_seed.sh <id>          (worktree /tmp/wt/<id>, deliverables in _out/)
# 1. clean tree + demo  -> demo must PASS      2. patch + demo -> demo must FAIL
# 3. patch, no demo     -> the whole suite must pass (0 failed)
# Writes /tmp/wt/<id>/_out/confirm.json ; never touches /repo.
id=$1; wt=/tmp/wt/$id; out=$wt/_out
cd "$wt" || exit 2
export CARGO_NET_OFFLINE=true RSTREAM_TEST_TIMEOUT=90
git checkout -q -- . ; rm -f tests/demo_mutant.rs
git apply --check "$out/patch.diff" || { echo '{"error":"patch does not apply"}' > "$out/confirm.json"; exit 1; }
cp "$out/demo.rs" tests/demo_mutant.rs
cargo test --offline -j 8 --test demo_mutant --no-run > /dev/null 2>&1
NS=""; if unshare -n true 2>/dev/null; then NS="unshare -n"; fi
$NS sh -c 'ip link set lo up 2>/dev/null; exec cargo test --offline -j 8 --test demo_mutant -- --test-threads 1' > "$out/c_clean.log" 2>&1; clean=$?
git apply "$out/patch.diff"
cargo test --offline -j 8 --test demo_mutant --no-run > /dev/null 2>&1
$NS sh -c 'ip link set lo up 2>/dev/null; exec cargo test --offline -j 8 --test demo_mutant -- --test-threads 1' > "$out/c_patch.log" 2>&1; patched=$?
rm -f tests/demo_mutant.rs
cargo test --workspace --no-run --offline -j 8 > "$out/c_suite_build.log" 2>&1
# private network namespace: other suites on this machine bind the same 127.x.y.z test sockets
if unshare -n true 2>/dev/null; then
  unshare -n sh -c 'ip link set lo up; exec cargo test --workspace --no-fail-fast --offline -j 8' > "$out/c_suite.log" 2>&1; suite=$?
else
  cargo test --workspace --no-fail-fast --offline -j 8 > "$out/c_suite.log" 2>&1; suite=$?
fi
passed=$(grep -o '[0-9]* passed' "$out/c_suite.log" | awk '{s+=$1} END{print s+0}')
failed=$(grep -o '[0-9]* failed' "$out/c_suite.log" | awk '{s+=$1} END{print s+0}')
git checkout -q -- .
printf '{"demo_clean_exit":%d,"demo_patched_exit":%d,"suite_exit":%d,"suite_passed":%d,"suite_failed":%d}\n' $clean $patched $suite $passed $failed > "$out/confirm.json"
cat "$out/confirm.json"

#!/usr/bin/env python3
"""Write MANIFEST.json from tools/registry.py (claimed checks) and properties.jsonl."""
import json
import os
import subprocess
import sys

ROOT = os.path.dirname(os.path.dirname(os.path.abspath(__file__)))
sys.path.insert(0, os.path.join(ROOT, "tools"))
from registry import REGISTRY  # noqa: E402

props = [json.loads(l) for l in open(os.path.join(ROOT, "properties.jsonl"))]
hook_commits = subprocess.run(["git", "-C", "/repo", "log", "--format=%H %s"], stdout=subprocess.PIPE, text=True).stdout.splitlines()
hooks = [l.split()[0] for l in hook_commits if l.split(" ", 1)[1].startswith("verif hooks")]

checks, na = [], []
for p in props:
    pid = p["id"]
    if pid in REGISTRY:
        r = REGISTRY[pid]
        checks.append({
            "property_id": pid,
            "quick_cmd": "./nv check %s --tier quick" % pid,
            "thorough_cmd": "./nv check %s --tier thorough" % pid,
            "evidence_file": "evidence/%s.json" % pid,
            "replay_cmd_template": "./nv replay {path}",
            "engine": "coq-proof+correspondence",
            "level_claimed": {"category": "proof", "text": r["level_text"], "design_ref": r.get("design_ref", "DESIGN.md section 5, " + pid)},
            "level_note": r["level_note"],
            "technique": r.get("technique", "Coq proof over a Gallina model + in-Coq correspondence check against the real code"),
        })
    else:
        na.append({"property_id": pid, "reason": "no check registered yet in this revision (model/proof/correspondence under construction; see DESIGN.md section 5)"})

manifest = {
    "version": 1,
    "setup_cmd": "./nv setup",
    "hooks": {
        "guard": "cargo feature `verif` of the renoir crate (off by default)",
        "enable": "the harness crate /verif/harness depends on renoir = { path = \"/repo\", features = [\"verif\"] }; every check runs `cargo build --offline` there against /repo's working tree",
        "baseline_off_cmd": "cd /repo && cargo nextest run --workspace --no-fail-fast --test-threads 8 --offline || cargo test --workspace --no-fail-fast --offline",
        "source_commits": hooks,
        "add_only": True,
    },
    "engines": [{
        "name": "coq-proof+correspondence", "path": "coq/ harness/ tools/nv.py",
        "serves_properties": sorted(REGISTRY.keys()),
        "kind_free_text": "Coq 8.16.1 theorems about hand-written executable Gallina models (coq/theories/Props), plus a correspondence check: a Rust harness runs the real renoir components on generated inputs and coqc evaluates model and property predicate on the recorded behaviour with vm_compute",
    }],
    "checks": checks,
    "not_applicable": na,
    "notes": "Single entry point ./nv (tools/nv.py). Known findings: known_findings.json. Seeded breaking changes used for self-validation: seeded/.",
}
json.dump(manifest, open(os.path.join(ROOT, "MANIFEST.json"), "w"), indent=1)
print("MANIFEST.json: %d checks, %d not claimed" % (len(checks), len(na)))

#!/usr/bin/env python3
"""Store a confirmed breaking change: tools/store_seed.py <id> [also_run ...]
Reads /tmp/wt/<id>/_out/{patch.diff,demo.rs,meta.json,confirm.json} (the sub-agent's deliverables
and the result of tools/confirm_seed.sh) and writes seeded/<id>/{patch.diff,demo.rs,meta.json}.
Refuses unless the confirmation shows: demo passes on the clean tree, fails with the patch,
and the repository's whole suite passes with the patch."""
import json
import os
import shutil
import sys

ROOT = os.path.dirname(os.path.dirname(os.path.abspath(__file__)))


def main():
    sid = sys.argv[1]
    also = sys.argv[2:]
    out = "/tmp/wt/%s/_out" % sid
    conf = json.load(open(os.path.join(out, "confirm.json")))
    ok = conf.get("demo_clean_exit") == 0 and conf.get("demo_patched_exit") != 0 and conf.get("suite_failed") == 0 and conf.get("suite_exit") == 0
    if not ok:
        print("NOT confirmed:", conf)
        return 1
    try:
        am = json.load(open(os.path.join(out, "meta.json")))
    except Exception as e:  # the agent's file may be malformed
        am = {"summary": "(agent meta.json unreadable: %s)" % e}
    d = os.path.join(ROOT, "seeded", sid)
    os.makedirs(d, exist_ok=True)
    shutil.copy(os.path.join(out, "patch.diff"), os.path.join(d, "patch.diff"))
    shutil.copy(os.path.join(out, "demo.rs"), os.path.join(d, "demo.rs"))
    meta = {
        "id": sid,
        "property": sid[:3],
        "origin": "fresh sub-agent (third round: given the property text, the list of ideas already used for this property, and a scratch worktree of /repo; nothing from /verif)",
        "summary": am.get("summary", ""),
        "needs": am.get("needs", ""),
        "files_changed": am.get("files_changed", []),
        "demo": "demo.rs (install as tests/demo_mutant.rs in a worktree; cargo test --offline --test demo_mutant -- --test-threads 1)",
        "agent_test_suite_result": str(am.get("suite_result_with_patch", "")),
        "agent_demo_fail_rate_with_patch": str(am.get("demo_fail_rate_with_patch", "")),
        "confirmed_by_me": "tools/confirm_seed.sh in the scratch worktree: demo PASSES on the clean tree (exit %d), FAILS with patch.diff applied (exit %d); whole suite with the patch applied and the demo removed: %d passed, %d failed" % (
            conf["demo_clean_exit"], conf["demo_patched_exit"], conf["suite_passed"], conf["suite_failed"]),
        "also_run": also,
    }
    json.dump(meta, open(os.path.join(d, "meta.json"), "w"), indent=1)
    print("stored", d)
    return 0


if __name__ == "__main__":
    sys.exit(main())

"""Per-property configuration of the checks."""

# standard-library axioms that may appear in `Print Assumptions` (each is named in the
# trusted base); the development itself declares none
ALLOWED_AXIOMS = {
    "functional_extensionality_dep", "eq_rect_eq", "proof_irrelevance", "classic", "JMeq_eq",
    "propositional_extensionality",
}

TRUSTED_BASE = [
    "Coq 8.16.1 kernel and its vm_compute reduction machine (used for the correspondence evaluation, finite sweeps and concrete witnesses); no native_compute",
    "axioms: none declared by the development; per-theorem `Print Assumptions` output is recorded under coverage.theorems (empty list = closed under the global context)",
    "hand-written Gallina model of the named Rust components; tied to /repo by the correspondence check only (same inputs through the real code and the model, compared inside Coq)",
    "Rust harness (/verif/harness): input generators, drivers of the real components, printer of Rust values as Gallina terms; python orchestration (/verif/tools/nv.py) and its parsing of coqc's printed result lists",
    "renoir::verif hook module (cargo feature `verif`): constructs/drives existing internal structs, changes no behaviour",
    "rustc/cargo, flume channels, std collections behave as specified",
]

REGISTRY = {
    "C12": {
        "corr": "C12",
        "trusted": [
            "modelled: CountWindowManager::process, WindowOperator::next, KeyedWindowManager (HashMap as association list; outputs compared up to per-segment key order), window Fold accumulator instantiated with Vec::push",
            "not modelled: the pull-style `next()` loop structure (its observable output sequence is what is compared)",
        ],
        "assumptions": [
            "HashMap iteration order is unspecified: data emitted between two control elements is compared after a stable sort by key",
            "1 <= slide <= size (the property's range); size = 0 or slide = 0 panic in the implementation and are outside the claim",
        ],
        "level_text": "Proof: the count-window manager and the keyed window operator are modelled in Gallina and the full statement (exact sliding groups, emission at the size-th element, end-of-round flush, no mixing of keys or rounds, arbitrary accumulator) is proved for all sizes, slides, inputs and accumulators; the model is tied to the code by running the real operator chain on scripted inputs (exhaustive small scope + random) and comparing inside Coq; a third of the random inputs also go through the window aggregators count, sum, max, min, first, last, fold_first and collect_vec+map, each of which must yield the aggregate of exactly the collected window.",
        "level_note": "Trusted: Coq kernel/vm_compute, the hand-written model (checked by correspondence, not generated), harness and orchestration; HashMap iteration order abstracted (outputs compared per key). No axioms.",
        "explanation": "Theorems C12_* (Props/C12.v) are proved for every size/slide/exact, every arrival sequence, every accumulator; the correspondence runs the real key_by+window(CountWindow)+fold chain single-threaded on scripted inputs and compares every returned element with the model, and evaluates the theorem's right-hand side directly on the implementation output.",
    },
    "C15": {
        "corr": "C15",
        "trusted": [
            "modelled: IntoParallelSource::generate_iterator for Range<T> (i64 detour, saturating ops, truncating division, try_into panics explicit), FileSource::setup/next over a byte list, the byte-range arithmetic of CsvSource::setup, IteratorSource/ChannelSource output shape",
            "modelled only (not verified): BufRead::read_until/read_line and Seek semantics; the csv crate's record parser (the correspondence uses plain numeric records; quoted fields containing terminators are outside the claim); UTF-8 validity of files",
        ],
        "assumptions": [
            "ranges of at most 2^62 elements, 1 <= replicas <= 2^32",
            "csv terminator is '\\n' or '\\r\\n'; no quoted record terminators",
        ],
        "level_text": "Proof: range splitting (all integer types, saturation/overflow explicit), the line-based file source and the CSV byte-range alignment are modelled in Gallina; partition theorems are proved for every range, file content and replica count. Tied to the code by calling the real generate_iterator / FileSource / CsvSource for every replica on generated inputs (boundary-biased ranges, exhaustive small files, records and lines of 9-20 KB that outgrow the 8 KiB reader buffers) and comparing inside Coq.",
        "level_note": "Trusted: Coq kernel/vm_compute, hand-written model (checked by correspondence), harness; read_until/read_line/seek and the csv record parser are assumed, not verified. No axioms.",
        "explanation": "Theorems C15_* proved for all inputs; correspondence on 10 integer types, files and csv inputs.",
    },
    "C17": {
        "corr": "C17",
        "classes": {1: "F1"},
        "trusted": [
            "modelled: WatermarkFrontier (new/update/reset/compute_frontier) and Start::next over a SimpleStartReceiver as a push machine over the arrival sequence; the specification machine ispec_machine (active minimum) is hand-written",
            "not modelled: receive time-outs (FlushBatch injection; stripped before comparing), the iteration state lock",
        ],
        "assumptions": [
            "watermark values below Timestamp::MAX; sender indices below the number of upstream replicas",
            "arrival order at a Start = order of the batches in its single input channel (flume FIFO, assumed)",
        ],
        "level_text": "Proof: the watermark frontier and Start are modelled as a machine over arbitrary arrival interleavings; the full progress statement is refuted by a concrete history (known finding F1) and proved for every arrival sequence outside that class (no replica end raises the active minimum). Tied to the code by driving the real Start (hook: hand-driven network) with explicit arrival orders and comparing inside Coq.",
        "level_note": "Trusted: Coq kernel/vm_compute, hand-written model and specification machine (model checked by correspondence), harness; flume FIFO assumed. Known finding F1 is reported as KNOWN-FINDING only when the faithful model reproduces it exactly. No axioms.",
        "explanation": "C17_progress_outside_known_class proved for all n and arrival sequences; C17_progress_refuted is the F1 witness.",
    },
    "C14": {
        "corr": "C14",
        "trusted": [
            "modelled: SessionWindowManager::process, ProcessingTimeWindowManager::process and the keyed WindowOperator, with the reading of Instant::now() as an explicit input (hook: renoir::verif::now mock clock, add-only cfg lines at the two call sites)",
            "assumed: Instant::now() is monotone (used by the processing-time theorems only); HashMap iteration order abstracted",
        ],
        "assumptions": ["0 < slide <= size for processing-time windows; gap > 0"],
        "level_text": "Proof: session and processing-time window managers are modelled with the clock as an input; partition (session, tumbling) and cover (sliding: 1..ceil(size/slide)) theorems are proved for every clock sequence, every input, every accumulator, plus the per-key lifting. Tied to the code by running the real keyed window chain under a mocked clock (bursts, long pauses, readings on boundaries) and comparing inside Coq.",
        "level_note": "Trusted: Coq kernel/vm_compute, hand-written model (checked by correspondence), harness, mock-clock hook. The real wall clock is replaced by a scripted one; monotonicity of Instant::now() is assumed. No axioms.",
        "explanation": "C14_* proved for all clocks/inputs; correspondence with mocked clock.",
    },
    "C07": {
        "corr": "C07",
        "trusted": [
            "modelled: Fold::next, KeyedFold::next, keyed RichMap, KeyBy, and the consumer-side Start; fold/fold_assoc/group_by_fold/reduce/sum/... are compositions of these (stream API glue read from src/operator/mod.rs, compared through real chains)",
            "HashMap drain order abstracted (results of one round compared as multisets per key)",
        ],
        "assumptions": [
            "user functions associative and commutative for the order/partition-independence statements; init neutral for the global function in two-phase forms (documented contract, N2)",
            "arrival interleavings respect round synchronisation (theorem of the loop protocol, C10)",
        ],
        "level_text": "Proof: Fold and KeyedFold are modelled as machines and proved to output per round exactly the sequential fold (per key), with max timestamp, nothing carried over; order and partition independence for commutative monoids; and the end-to-end two-phase theorem over the real Start model for every partition and arrival interleaving. Tied to the code by driving the real Start->Fold / Start->KeyBy->KeyedFold / second phase of group_by_fold chains with 1..5 hand-driven upstream replicas, and by whole jobs through every aggregation entry point of the API named by the property (fold, fold_assoc, reduce, reduce_assoc, group_by_fold / _reduce / _sum / _count / _avg / _min_element / _max_element, group_by + fold / reduce, unique_assoc) on local(1..8) with all batch modes and every kind of sink, compared in Coq with the sequential meaning.",
        "level_note": "Trusted: Coq kernel/vm_compute, hand-written models (checked by correspondence), harness; user closures are universally quantified in the theorems and instantiated with collect/sum in the correspondence. No axioms.",
        "explanation": "C07_* proved; correspondence over real chains behind the real Start.",
    },
    "C11": {
        "corr": "C11",
        "trusted": [
            "modelled: BinaryStartReceiver::select (decision list verbatim), SideReceiver (cache, cache_pointer, counters), process_side, and Start::next on top; each input channel is a FIFO queue, deliveries are followed by a drain",
            "not modelled: receive time-outs (with the F10 fix a timed-out first-message receive no longer clears first_message), the flume select fairness (the driver keeps at most one batch in flight)",
        ],
        "assumptions": [
            "delivery sequences are consumption orders (every delivered batch is readable by the operator when delivered); proved theorem: side input on the left; the symmetric case (cache on the right) is covered by the correspondence only",
        ],
        "level_text": "Proof: the two-input Start with a cached side is modelled verbatim; for every number of side-input replicas and of loop-side replicas, every batching, every interleaving of the side input with the loop side's first round and of the loop replicas within every later round, any number of rounds and any order of the final Terminates, the model's output satisfies the replay predicate (theorem C11_replay_general). The pinned tree violated it with >= 2 loop-side replicas (F10), repaired by a fix: commit. Tied to the code by driving the real Start::multiple with explicit delivery orders and comparing inside Coq.",
        "level_note": "Trusted: Coq kernel/vm_compute, hand-written model (checked by correspondence), harness pacing (one batch in flight), flume FIFO. No axioms.",
        "explanation": "C11_replay_general proved for all shapes; F10 fixed.",
    },
    "C13": {
        "corr": "C13",
        "classes": {1: "F4"},
        "trusted": [
            "modelled: EventTimeWindowManager (alloc_windows with the skip-empty rule, feed, fire on watermark with the F5 fix, recycle), TransactionWindowManager, the keyed WindowOperator; a panic of the implementation is an explicit model state",
            "HashMap iteration order abstracted (per-key comparison)",
        ],
        "assumptions": [
            "event-time inputs respect the watermark contract (timestamped, above the last watermark); 0 < slide <= size",
            "exactly-once (tumbling) / at-least-once (sliding) coverage is proved for EVERY in-contract arrival order for every element outside the known class F4, which is characterised exactly: the element arrives when its key has pending slots and its timestamp is below the start of the oldest one (C13_known_class_characterised); the class is empty for in-order arrivals with non-decreasing watermarks",
        ],
        "level_text": "Proof: event-time and transaction window managers are modelled verbatim; proved for all sizes/slides/inputs/accumulators: no panic on in-contract input, every result = one interval of one key in arrival order, at most ceil(size/slide) results per element, results fire exactly at the first watermark >= their end or at round end, transaction commits = the segments cut by the user logic. Coverage: for every in-contract arrival order every element outside the exactly characterised known class F4 (older than its key's oldest pending slot) is in exactly one result (tumbling) / at least one (sliding), and the elements of the class are in none; the unrestricted statement is refuted by a concrete history (F4). Tied to the code by running the real keyed window chain on generated scripts.",
        "level_note": "Trusted: Coq kernel/vm_compute, hand-written model (checked by correspondence), harness. F4 is reported as KNOWN-FINDING only when the faithful model itself loses the element. No axioms.",
        "explanation": "C13_* proved; F4 witness; correspondence over the real window chain.",
    },
    "C16": {
        "corr": "C16",
        "trusted": [
            "modelled: consumer-side Start with a single producer, Map/Filter/FlatMap chains as compositions, Reorder (buffer, stable sort on watermark / round end); every element-wise API operator as an instance of one stateful flat-map machine (Model/Ops2.v: filter_map, flatten, inspect, rich_map / rich_flat_map / rich_filter_map plain and keyed, keyed flat_map / filter_map / flatten, key_by / unkey / drop_key), add_timestamps (with its panic on timestamped input) and drop_timestamps",
            "assumed: glidesort sorts stably; a flume channel is FIFO; Batcher emits the producer's elements in order (C02)",
        ],
        "assumptions": ["reorder inputs are consistent with their watermarks (wm_safe)"],
        "level_text": "Proof: a single producer's stream cut into arbitrary batches passes the consumer's Start unchanged (identity theorem); chains are compositions of element-wise operator semantics; every element-wise API operator (filter_map, flatten, inspect, the rich_* family, keyed forms) emits exactly the sequential scan of its closure over the arriving values, per key for keyed state; add/drop_timestamps keep every value in place; reorder() output is sorted, a permutation of its input per round, released only when covered, stable for ties. Tied to the code by driving a real Start->map->filter->flat_map chain with one sender and arbitrary batch cuttings, random chains of 1-5 element-wise API operators built through the public API (operator zoo: compared element by element with the model and value by value with an independent iterator-chain oracle), and the real reorder chain with out-of-order scripts full of ties.",
        "level_note": "Trusted: Coq kernel/vm_compute, hand-written model (checked by correspondence), harness. No axioms.",
        "explanation": "C16_* proved; correspondence on sequential links and reorder.",
    },
    "C19": {
        "corr": "C19",
        "trusted": [
            "modelled: Scheduler::local_block_info / remote_block_info (replicas and global ids), build_execution_graph (incl. the forward-edge fallback), NetworkTopology::connect/build (demultiplexer port numbering); job graph (blocks, replication, edges, flags) taken from the scheduler's own records through the hook",
            "hook: StreamContext::verif_execution_graph builds graph and addresses without starting workers (add-only, cfg feature verif)",
        ],
        "assumptions": ["base_port + offset does not overflow u16 (explicit debug panic in the implementation, outside the model)"],
        "level_text": "Proof: placement, wiring and socket numbering are modelled as pure functions of (deployment, job graph) — no host identity, no enumeration order — and proved: stated replica counts per host, global ids bijective, forward edges exactly one consumer (same-index if present), all-to-all otherwise, ports total / collision-free / dependent on the set of demultiplexers only. Tied to the code by building random jobs (diamonds, loops, routes, multi-sink) under local and 1..4-host heterogeneous deployments, once per host id, dumping each host's graph and comparing with the model inside Coq.",
        "level_note": "Trusted: Coq kernel/vm_compute, hand-written model (checked by correspondence), harness, dump hook. No axioms.",
        "explanation": "C19_* proved; per-host dumps compared with the model and with each other.",
    },
    "C08": {
        "corr": "C08",
        "trusted": [
            "modelled: JoinLocalHash / JoinKeyedOuter (add_item, side_ended, assertions at FlushAndRestart), JoinKeyedInner, JoinLocalSortMerge (advance / discard_right on sorted vectors), IntervalJoin (advance with the per-key deques), merge_distinct + Reorder in front of the interval join, and the two-input Start they sit behind",
            "assumed: sort_unstable_by sorts (order of equal keys immaterial: outputs compared as multisets); HashMap drain order immaterial",
            "the distribution of a join over replicas (ship_hash / ship_broadcast_right) is the routing of C03 plus whole-pipeline runs (C01)",
        ],
        "assumptions": ["joins take non-timestamped items (timestamped input panics in the implementation: explicit model state); interval join input sorted by timestamp, timestamps >= 0"],
        "level_text": "Proof: every local join algorithm is modelled verbatim and proved, for all inputs (duplicate keys, one-sided keys, empty sides) and every interleaving of the two sides and of their end markers, to output a permutation of the relational join per iteration, with the end-of-iteration assertions holding and nothing carried over; the interval join outputs exactly the pairs inside the interval for all bounds. Tied to the code by driving the real Start::multiple -> join chains built with the public API with explicit delivery orders on both inputs, and by whole jobs left.join(right) through the API (inner / left / outer x hash / broadcast shipping x hash / sort-merge) on local and two-host deployments, sink multiset against the relational join.",
        "level_note": "Trusted: Coq kernel/vm_compute, hand-written models (checked by correspondence), harness pacing (one batch in flight). No axioms.",
        "explanation": "C08_* proved for all interleavings; correspondence over real join chains.",
    },
    "C02": {
        "corr": "C02",
        "trusted": [
            "modelled: Batcher in all three modes — Fixed, Single and Adaptive(n, max_delay) with the clock as a universally quantified input (last_send per batcher, strict comparison, an empty flush leaves last_send alone) —, End::next over several downstream blocks, the wire format of remote_send / remote_recv (20-byte header + opaque body)",
            "assumed, not verified: flume channels and TCP connections are reliable FIFO streams; bincode deserialize(serialize m) = m and serialized_size exact (bodies are opaque bytes in the model; the correspondence checks that the real decoder returns what was sent)",
            "multiplexer / demultiplexer threads only call remote_send / remote_recv in a loop and look the endpoint up in a map; exercised by the multi-host pipeline runs of C01",
        ],
        "assumptions": ["payload sizes below 2^32 bytes", "the correspondence drives the adaptive batcher under a mock clock (hook 87c48ac) with readings in multiples of 10 ms and delays of 5/15/45 ms: a reading exactly max_delay after last_send is avoided because coarsetime rounds each operand to 2^-32 s ticks there"],
        "level_text": "Proof: per receiving replica, the sequence received over a link is exactly the sequence the producer's End addressed to it, in order, for every strategy, every batch mode (fixed, single, adaptive with ANY clock: the clock only decides where batches are cut, never content or order; every adaptive batch has 1..n elements) and number of downstream blocks (batcher sequence + End invariant), and the wire format round-trips frames of several replicas on one connection. Tied to the code by driving the real End with hand-made receivers (batch boundaries compared exactly) and the real remote_send / remote_recv over byte buffers (header bytes compared with the model encoder), plus whole jobs over real TCP links: an idle link (12 s) and four senders mixing ~70 KB and tiny one-element messages over a shared multiplexed connection (per sender: exact sequence, in order). Partial: channel/TCP reliability and bincode are assumed.",
        "level_note": "Trusted: Coq kernel/vm_compute, hand-written model (checked by correspondence), harness; flume/TCP FIFO reliability and bincode round-trip assumed. No axioms.",
        "explanation": "C02_* proved; End and framing driven directly.",
    },
    "C03": {
        "corr": "C03",
        "trusted": [
            "modelled: NextStrategy::index and End's choice of the receiving replica per downstream block, broadcast of control elements; forward-edge wiring from the scheduler model (C19)",
            "assumed: group_by_hash is a deterministic function of the key (the harness passes the real hash values into the model); the random index of shuffle is arbitrary",
        ],
        "assumptions": ["all producers of a block see the same replica list (all-to-all wiring, C19) sorted by coordinate"],
        "level_text": "Proof: for every strategy the set of receiving replicas of a data element is characterised (exactly one per downstream block; all for broadcast; a function of the key hash only for group-by, so equal keys from any producer meet), control elements reach every replica, forward edges are wired to exactly one consumer (same index when it exists). Tied to the code by driving the real End operator towards 1..3 downstream blocks with 1..5 hand-made replicas each, using the real group_by_hash values.",
        "level_note": "Trusted: Coq kernel/vm_compute, hand-written model (checked by correspondence), harness. No axioms.",
        "explanation": "C03_* proved; real End driven directly.",
    },
    "C09": {
        "corr": "C09",
        "trusted": [
            "modelled: Zip (stashes, pairing, clearing at FlushAndRestart), merge (filter_map over the two-input Start), End towards several downstream blocks (split) and with the All strategy (broadcast)",
            "modelled: RoutingEnd (route): first matching predicate per data element (none: dropped), control elements to every route, one batcher per route in route order, all batch modes with the clock as input (Model/Route.v); the wiring of the route blocks is the forward wiring of C19/C03",
        ],
        "assumptions": ["zip inputs are either all timestamped or all plain (mixing panics in the implementation: explicit model state)"],
        "level_text": "Proof: zip pairs positionally and one-to-one with exactly min(|a|,|b|) pairs for every interleaving of its inputs; merge is the multiset union; broadcast reaches every replica; split delivers to every branch exactly the producer's sequence; route delivers every data element to the first route whose predicate holds (to none if none holds, never to two) and every control element to all routes, each route receiving exactly its subsequence in order, complete at every round end, for every batch mode and clock. Tied to the code by driving the real Start::multiple -> Zip / merge chains and the real End towards several blocks, and the real RoutingEnd (hook route_chain) towards 1..4 routes with exact batch sequences. ",
        "level_note": "Trusted: Coq kernel/vm_compute, hand-written models (checked by correspondence), harness. No axioms.",
        "explanation": "C09_* proved; zip/merge/End/RoutingEnd driven directly.",
    },
    "C05": {
        "corr": "C05",
        "trusted": [
            "modelled: every component named in the theorems (Start, two-input Start, Map/Filter/FlatMap/KeyBy/Fold/KeyedFold/Reorder, every element-wise API operator as an instance of the stateful flat-map machine of Model/Ops2.v (filter_map, flatten, inspect, rich_* plain and keyed), add_timestamps / drop_timestamps, window operator with count / event-time / transaction managers, hash / sort-merge / keyed joins, zip, merge)",
            "RoundSync (no replica's next-iteration data overtakes another's FlushAndRestart) is a hypothesis at a block input; inside loops it is what the loop protocol provides (C10)",
        ],
        "assumptions": ["upstream replicas run the same number of iterations (necessary: counterexample theorem)"],
        "level_text": "Proof: the protocol grammar is preserved by the block input for every number of upstream replicas and every arrival interleaving of their markers, by every chain operator and by compositions; stateful operators are round-local (all results before the FlushAndRestart, initial state afterwards) — fold, keyed fold, reorder, count windows, hash join, zip — with the keyed rich_map state recorded as the by-design exception. Tied to the code by re-evaluating the grammar and per-round exactness on the outputs of the real components (all component drivers).",
        "level_note": "Trusted: Coq kernel/vm_compute, hand-written models (checked by correspondence), harness. No axioms.",
        "explanation": "C05_* proved; component outputs checked against the grammar.",
    },
    "C06": {
        "corr": "C06",
        "classes": {1: "F6"},
        "trusted": [
            "modelled: WatermarkFrontier + Start, chain operators (incl. every element-wise API operator, Model/Ops2.v), add_timestamps (the origin of watermarks: safe under monotone user timestamps, C06_add_timestamps; refuted without) / drop_timestamps, reorder, zip, merge, window operator with count and event-time managers (with the F5 fix)",
            "interval join swallows watermarks and add_timestamps relies on the user's watermark generator: outside the proved set",
        ],
        "assumptions": ["inputs respect the contract per upstream replica; count windows over timestamped-only input"],
        "level_text": "Proof: watermark safety is preserved by the block input (minimum over active replicas, any interleaving), by every chain operator, reorder, zip, merge, event-time windows and exact count windows, and by compositions; non-exact count windows are refuted by a concrete history (known finding F6). Tied to the code by evaluating watermark safety on the outputs of the real components whenever their inputs are safe.",
        "level_note": "Trusted: Coq kernel/vm_compute, hand-written models (checked by correspondence), harness. F6 reported as KNOWN-FINDING only when the faithful model reproduces it. No axioms.",
        "explanation": "C06_* proved; F6 witness.",
    },
    "C01": {
        "corr": "C01",
        "classes": {1: "F9", 2: "F11", 3: "F12"},
        "harness_timeout": 3000,
        "trusted": [
            "modelled: the pipeline algebra and its sequential meaning (Model/Pipe.v, same closed vocabulary of user functions in Rust and Gallina), the distributed meaning over partitions and exchanges (Model/PipeDist.v)",
            "abstracted in the distributed meaning: worker threads, channels, sockets and batching — a block boundary is an exchange that preserves the multiset and (group-by) keeps equal keys together, with arbitrary arrival order; this abstraction is justified by the component theorems C02 (links), C03 (routing), C05 (block input), and tied to the engine end to end by sampled whole-job runs",
            "order-sensitive operators (count windows, zip) are outside the order-insensitive algebra: deterministic only behind single-producer links (C12, C09, C16)",
        ],
        "assumptions": ["user functions associative and commutative where the API requires it (the vocabulary uses +, max, min, count)"],
        "level_text": "Proof: for every pipeline of the algebra and every distributed execution admitted by the partition/exchange semantics (any parallelism, partitioning, arrival order, single- or two-phase aggregation, hash or broadcast join shipping, loops round by round), the sink multiset equals the sequential meaning (theorem C01_transparency, structural, unbounded). Tied to the code by executing random pipelines on the real engine under local(1), local(1..8) and 2..3 loopback hosts with all batch modes and comparing each sink with the sequential meaning inside Coq. Thread/socket interleavings of the real engine are sampled, not proved.",
        "level_note": "Trusted: Coq kernel/vm_compute, the two hand-written semantics, harness (pipeline builder over the public API), the link between exchange semantics and engine (component theorems + sampled runs). Known findings F9 (iterate deadlock) and F11 (forward edge to a wider block panics at start) are recognised only when every other run of the case is right. No axioms.",
        "explanation": "C01_transparency proved; whole jobs run on the real engine.",
    },
    "C10": {
        "corr": "C10",
        "classes": {1: "F9", 2: "F11", 3: "F12"},
        "harness_timeout": 3000,
        "trusted": [
            "modelled: the round-by-round semantics of replay / iterate / nested loops over distributed bodies (Model/PipeDist.v dloop, diter) against the sequential fixed point (Model/Pipe.v); leader and state-publication protocol (Model/Loop.v) when present",
            "trusted primitives: Condvar / Barrier / memory ordering of the state cell (the UnsafeCell in IterationStateRef); the protocol argument is at model level",
        ],
        "assumptions": ["local and global folds associative-commutative (sum in the vocabulary); loop bodies end in the loop's feedback (every body block leads to the IterationEnd)"],
        "level_text": "Proof: replay and iterate loops over arbitrarily distributed bodies compute exactly the sequential fixed point — same state sequence, same stop round, same final elements — including nested loops (theorems C10_replay, C10_iterate, C10_nested_restarts). Tied to the code by running loop jobs whose bodies add the loop state to every value (a stale or too-new state changes the sink) on local and multi-host deployments. Partial: which state a replica reads is argued at protocol-model level; Condvar/Barrier are trusted.",
        "level_note": "Trusted: Coq kernel/vm_compute, hand-written semantics, harness, OS synchronisation primitives. No axioms.",
        "explanation": "C10_* proved; loop jobs run on the real engine.",
    },
    "C18": {
        "corr": "C18",
        "classes": {1: "F9", 2: "F11", 3: "F12"},
        "harness_timeout": 3000,
        "trusted": [
            "modelled: End + Batcher in all modes incl. Adaptive with the clock as input (flush points: size, elapsed delay at the next enqueue, FlushAndRestart, FlushBatch, Terminate), the receive part of Start::next with adaptive batching (already_timed_out), ChannelSource::next (MAX_RETRY polls, one FlushBatch, blocking recv), linear pipelines of k block boundaries",
            "observed, not proved: the real-time bound (k x max_delay + processing): the timing part of the check only flags data that is withheld (bound 20 x delay x (depth+1) + 2 s)",
            "noted while modelling: an Adaptive Batcher checks its elapsed time only on its own enqueue, so under CONTINUING input to other replicas a lone element can wait for its batch to fill; outside the property's no-further-input clause",
        ],
        "assumptions": ["adaptive batching for the delay statements; input stops but the sender stays open"],
        "level_text": "Proof: every buffered element is delivered at the latest at the end of its iteration or when idleness is signalled, for every batch mode, strategy and number of downstream blocks; what was received plus what is buffered is always exactly what was addressed (nothing is dropped); with adaptive batching an element enqueued after the delay has elapsed since the batcher's last send leaves the buffer empty (C18_adaptive_late_flush, any clock); neither a block input nor the channel source blocks indefinitely before having emitted FlushBatch since the last arrival; in a k-boundary pipeline quiescence implies everything was delivered in order with at most one timed wait per boundary. Tied to the code by whole jobs under all six batch modes (results equal the sequential meaning), by the real End driven with FlushBatch / round ends in all modes (adaptive under a mock clock, batch boundaries compared exactly), and by a timing probe on a real channel-source pipeline. Partial: the wall-clock bound is observed.",
        "level_note": "Trusted: Coq kernel/vm_compute, hand-written models (End checked by correspondence; idle machines read off the code), harness, OS timers. No axioms.",
        "explanation": "C18_* proved; batch-mode independence and flushes checked on the engine.",
    },
    "C20": {
        "corr": "C20",
        "harness_timeout": 3000,
        "trusted": [
            "modelled: crash propagation over an acyclic execution graph with per-link Terminate flags and shared sender handles (Model/Crash.v), abstracting data; fairness = maximality of executions",
            "trusted: panic unwinding, drop of channel endpoints, JoinHandle::join, TCP teardown between hosts",
        ],
        "assumptions": ["acyclic jobs; the panic happens in user code before the replica delivered Terminate; reading of the property: sinks downstream of the failed replica never publish (a sink in an independent component may complete while execute_blocking still fails on the affected hosts)"],
        "level_text": "Proof: in every maximal execution after a user panic in replica r, every replica is Done or Crashed (nobody blocks forever), everything downstream of r is Crashed, no downstream sink ever published, and every host running r or anything downstream fails; executions are finite. Tied to the code by running random acyclic jobs on the real engine with a user function that panics on a data-dependent element, on local and multi-host deployments, observing per host whether execute_blocking failed and whether the sink handle holds a result. Partial: unwinding/join/socket teardown are Rust's and the OS's.",
        "level_note": "Trusted: Coq kernel, abstract crash model (tied by whole-job observations only), harness. No axioms.",
        "explanation": "C20_fail_stop proved on the crash model; injected panics on the engine.",
    },
    "C04": {
        "corr": "C04",
        "classes": {1: "F9", 2: "F11", 3: "F12", 4: "F13"},
        "harness_timeout": 3000,
        "trusted": [
            "modelled: a job as a network of replicas over bounded FIFO channels (Model/Net.v: blocking send on a full channel, blocking receive on empty wanted channels); the marker-level replica r_sem (counts FlushAndRestart / Terminate per side, broadcasts them in End's order, forwards data batches, reads only the side that has not ended the round); the detailed marker accounting of Start (Model/Start.v) and of the two-input Start's select (Model/BinaryStart.v)",
            "the marker-level replica is an abstraction of Start + operator chain + End that is read off the code and justified by the operator-level theorems (C04_start_*, C04_binary_*, C02/C05); it is tied to the engine end to end by whole-job runs; the static premises of the theorems are checked inside Coq on the execution graphs the real scheduler derives for the generated acyclic jobs (dag_okb on one host; mstruct_okb and the capacity condition mcap_okb on 2..3-host layouts, where a graph that violates only the capacity condition is reported under known finding F13)",
            "covered by theorems: every acyclic job on ONE host unconditionally (channels per (consumer replica, previous block), any fan-in/fan-out, self-joins, any capacity >= 1, any data), and every acyclic MULTI-HOST job (connections multiplexed per block pair and host pair, blocking demultiplexers) provided no side of a two-input block has more producers than its channel holds (mcap_ok; engine: at most 16 producer replicas per input of a join/merge/zip). Without that condition the model has reachable deadlocks (C04_mux_deadlock_in_model, C04_capacity_condition_deadlock); the second shape was reproduced on the engine and is known finding F13 (harness/src/props/muxjoin.rs). NOT covered in general: loops (feedback edges) — instances only (C04_replay_instance_no_deadlock for every routing, C04_iterate_*), Model/Loop.v and C10, whole-job runs",
            "trusted: thread scheduling fairness, flume channels, TCP, JoinHandle::join",
        ],
        "assumptions": ["finite sources; user functions terminate; static well-formedness dag_ok of the execution graph (decidable; it excludes exactly the start-up panic of known finding F11: a consumer replica without producer)"],
        "level_text": "Proof: for every acyclic network of marker-level replicas without demultiplexers (every non-iterative one-host job), every capacity, data volume and schedule, no reachable state is a deadlock, every execution is finite and ends with all replicas exited (C04_dag_no_deadlock, C04_dag_job_terminates: global counting invariant over channels + the generic level argument C04_no_deadlock); the same for multi-host networks with multiplexed connections and blocking demultiplexers when no input of a two-input block has more producers than its channel capacity (C04_multi_host_no_deadlock, C04_multi_host_job_terminates), a condition that cannot be dropped (C04_capacity_condition_deadlock = known finding F13); block inputs are proved to keep reading until every producer's Terminate arrived, to emit Terminate exactly once and last, and to block only on empty sides that still owe a marker. Completeness of each sink is C01's theorem. Tied to the code by whole jobs on the real engine (loops, side inputs, diamonds, empty inputs, inputs larger than the total channel capacity, all batch modes, local and multi-host) under a watchdog, results compared with the sequential meaning. Partial: loops are covered by instances only; the marker-level replica is an abstraction tied to the engine end to end.",
        "level_note": "Trusted: Coq kernel/vm_compute, network model (tied to the engine by whole-job runs under a watchdog, by dag_okb on the real scheduler's graphs and by the engine replays of the two model deadlocks), harness watchdogs. Known findings F9 (iterate hang), F11, F12, F13 (multi-host join deadlock). No axioms.",
        "explanation": "C04_* proved on the network model (all acyclic one-host jobs); whole jobs run on the engine under a watchdog.",
    },
}

(** Executable comparison helpers for the correspondence checks (run by vm_compute on the
    implementation's recorded outputs). *)
From Noir Require Export Base.Elem.
From Coq Require Import NArith.
Open Scope Z_scope.

Section Eqb.
  Context {A : Type} (eqA : A -> A -> bool).
  Definition elem_eqb (a b : elem A) : bool :=
    match a, b with
    | Item x, Item y => eqA x y
    | Tst x t, Tst y u => eqA x y && Z.eqb t u
    | Wm t, Wm u => Z.eqb t u
    | FlushBatch, FlushBatch | Terminate, Terminate | FAR, FAR => true
    | _, _ => false
    end.
  Fixpoint list_eqb (a b : list A) : bool :=
    match a, b with
    | [], [] => true
    | x :: a', y :: b' => eqA x y && list_eqb a' b'
    | _, _ => false
    end.
  Definition option_eqb (a b : option A) : bool :=
    match a, b with
    | Some x, Some y => eqA x y
    | None, None => true
    | _, _ => false
    end.
End Eqb.
Definition pair_eqb {A B} (ea : A -> A -> bool) (eb : B -> B -> bool) (a b : A * B) : bool :=
  ea (fst a) (fst b) && eb (snd a) (snd b).

(** stable merge sort by a Z key (bottom-up, O(n log n): the whole-job checks sort tens of
    thousands of results) *)
Section Sort.
  Context {A : Type} (key : A -> Z).
  (* on equal keys the element of the LEFT list goes first *)
  Fixpoint merge_by (l1 : list A) : list A -> list A :=
    fix aux (l2 : list A) : list A :=
      match l1, l2 with
      | [], _ => l2
      | _, [] => l1
      | a :: l1', b :: l2' => if Z.ltb (key b) (key a) then b :: aux l2' else a :: merge_by l1' l2
      end.
  (* stack of runs, newest first; the run at depth i has 2^i elements; older runs hold
     earlier elements and are always the left argument of a merge *)
  Fixpoint push_run (stack : list (option (list A))) (l : list A) : list (option (list A)) :=
    match stack with
    | [] => [Some l]
    | None :: stack' => Some l :: stack'
    | Some l' :: stack' => None :: push_run stack' (merge_by l' l)
    end.
  Fixpoint merge_runs (stack : list (option (list A))) (acc : list A) : list A :=
    match stack with
    | [] => acc
    | None :: stack' => merge_runs stack' acc
    | Some l :: stack' => merge_runs stack' (merge_by l acc)
    end.
  Fixpoint sort_iter (stack : list (option (list A))) (l : list A) : list A :=
    match l with
    | [] => merge_runs stack []
    | a :: l' => sort_iter (push_run stack [a]) l'
    end.
  Definition sort_by (l : list A) : list A := sort_iter [] l.
End Sort.

(** lexicographic order on lists of Z, for sorting values that are lists *)
Fixpoint zlist_ltb (a b : list Z) : bool :=
  match a, b with
  | [], [] => false
  | [], _ => true
  | _, [] => false
  | x :: a', y :: b' => if Z.ltb x y then true else if Z.ltb y x then false else zlist_ltb a' b'
  end.

(** Keyed streams: data runs between control elements are sorted (stably) by key, which
    removes the unspecified `HashMap` iteration order and nothing else. *)
Section CanonKeyed.
  Context {X : Type}.
  Definition kkey (e : elem (Z * X)) : Z :=
    match e with Item (k, _) | Tst (k, _) _ => k | _ => 0 end.
  Fixpoint canon_keyed_aux (run : list (elem (Z * X))) (l : list (elem (Z * X)))
    : list (elem (Z * X)) :=
    match l with
    | [] => sort_by kkey (rev run)
    | e :: l' =>
        if is_data e then canon_keyed_aux (e :: run) l'
        else sort_by kkey (rev run) ++ e :: canon_keyed_aux [] l'
    end.
  Definition canon_keyed := canon_keyed_aux [].
End CanonKeyed.

Definition strip_fb {A} (l : list (elem A)) : list (elem A) :=
  filter (fun e => negb (is_flush_batch e)) l.

(** indices (from 0) of the cases on which [f] is false *)
Fixpoint failing_from {T} (f : T -> bool) (i : N) (l : list T) : list N :=
  match l with
  | [] => []
  | c :: l' => if f c then failing_from f (N.succ i) l' else i :: failing_from f (N.succ i) l'
  end.
Definition failing {T} (f : T -> bool) (l : list T) : list N := failing_from f 0%N l.

(** one report line per case on which the correspondence or the property predicate fails:
    (index, corr_ok, prop_ok, known-finding class of the input, 0 = none) *)
Fixpoint classify_from {T} (corr prop : T -> bool) (cls : T -> N) (i : N) (l : list T)
  : list (N * bool * bool * N) :=
  match l with
  | [] => []
  | c :: l' =>
      let a := corr c in let b := prop c in
      if a && b then classify_from corr prop cls (N.succ i) l'
      else (i, a, b, cls c) :: classify_from corr prop cls (N.succ i) l'
  end.
Definition classify {T} (corr prop : T -> bool) (cls : T -> N) (l : list T) :=
  classify_from corr prop cls 0%N l.

(** split a stream into rounds at FAR (the FAR itself is dropped; a trailing piece after
    the last FAR is kept) *)
Fixpoint rounds_aux {A} (cur : list (elem A)) (l : list (elem A)) : list (list (elem A)) :=
  match l with
  | [] => [rev cur]
  | FAR :: l' => rev cur :: rounds_aux [] l'
  | e :: l' => rounds_aux (e :: cur) l'
  end.
Definition rounds {A} (l : list (elem A)) := rounds_aux [] l.

Fixpoint dedup_Z (l : list Z) : list Z :=
  match l with
  | [] => []
  | x :: l' => x :: filter (fun y => negb (Z.eqb x y)) (dedup_Z l')
  end.

(** Correspondence and property evaluation for C18 (batching never withholds data).
    CModes : one job under EVERY batch mode: the result never depends on it (and equals the
             sequential meaning)
    CFlush : the real `End` operator: whatever was enqueued is delivered at the latest when
             the iteration ends / the source signals idleness (FlushBatch), for every mode
    CDelay : a streaming (channel) source with adaptive batching through `depth` block
             boundaries: an element sent alone, with no further input, reached the sink within
             the bound (milliseconds measured by the harness; the bound is deliberately loose:
             it detects data that is withheld, not scheduling jitter) *)
From Noir Require Import Base.Elem Model.End Model.Pipe Corr.Canon Corr.LinkCorr.
From Noir Require Corr.C01.
From Coq Require Import NArith.
Open Scope Z_scope.

Inductive case :=
| CModes (c : C01.case)
| CFlush (c : lcase)
| CDelay (depth delay_ms observed_ms bound_ms : Z) (delivered : bool).

Definition corr_ok (c : case) : bool :=
  match c with
  | CModes x => C01.corr_ok x
  | CFlush l => link_corr_ok l
  | CDelay _ _ _ _ _ => true
  end.

(** everything enqueued before a FAR / FlushBatch / Terminate of the input has been
    received by the time that marker was processed: since the harness drains the receivers
    after every `next()`, it suffices that nothing addressed to a receiver is missing at the
    end and that each round's elements precede the round's FAR in the received sequence *)
Definition flush_ok (l : lcase) : bool :=
  forallb (fun '(b, r) =>
    let got := concat (impl_recv l b r) in
    (* control elements all there, in order *)
    list_eqb zel_eqb (filter (fun e => negb (is_data e)) got)
             (filter (fun e => negb (is_data e) && negb (is_flush_batch e)) (map fst (l_input l))))
    (all_receivers l) &&
  (* conservation of data per block *)
  forallb (fun b =>
    let n := nth b (l_blocks l) 0%nat in
    let all := flat_map (fun r => filter is_data (concat (impl_recv l b r))) (seq 0 n) in
    let sent := filter is_data (map fst (l_input l)) in
    Nat.eqb (length all) (match l_strategy l with SAll => length sent * n | _ => length sent end)%nat)
    (seq 0 (length (l_blocks l))).

Definition prop_ok (c : case) : bool :=
  match c with
  | CModes x => C01.prop_ok x
  | CFlush l => flush_ok l
  | CDelay depth delay observed bound delivered => delivered && (observed <=? bound)
  end.

Definition known_class (c : case) : N :=
  match c with CModes x => C01.known_class x | _ => 0%N end.
Definition report (cs : list case) := classify corr_ok prop_ok known_class cs.

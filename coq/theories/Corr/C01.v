(** Correspondence and property evaluation for C01 (deployment transparency), C04
    (termination), C10 (loops), C18 (batch-mode independence): random pipelines are built on
    the real engine and executed to completion under several deployments (local parallelism
    1..8, 2..3 loopback hosts with heterogeneous cores) and batch modes; each run's sink
    content is compared, as a multiset, with the pipeline's sequential meaning [denote]. *)
From Noir Require Import Model.Pipe Corr.Canon.
From Coq Require Import NArith.
Open Scope Z_scope.

(** outcome of one run *)
Inductive outcome := ODone (res : list P) | OHang | OPanic
  | ODoneR (res : list P)    (* completed on a multi-host deployment *)
  | OHangB (batch par : Z).  (* did not terminate; the run's batch size (1 for `Single`) and its
                                total parallelism (replicas of an unlimited block) *)

Record case := {
  c_pipe : pipe;
  c_runs : list outcome
}.

Definition pkey (x : P) : Z := fst x * 1000003 + snd x.
Definition pl_eqb := list_eqb (pair_eqb Z.eqb Z.eqb).
Definition canon (l : list P) : list P := sort_by pkey (sort_by snd l).

Definition run_ok (expected : list P) (o : outcome) : bool :=
  match o with
  | ODone res | ODoneR res => pl_eqb (canon res) expected
  | _ => false
  end.

(** here the model is the specification itself: the sequential meaning *)
Definition prop_ok (c : case) : bool :=
  let expected := canon (denote (c_pipe c)) in
  forallb (run_ok expected) (c_runs c).

(** known finding F9 (class 1): a run of a pipeline containing `iterate` did not terminate:
    feedback / body deadlock when the body emits, per element the head pulls, more MESSAGES
    than the channels of the feedback cycle hold (model: capacity + 1, i.e. 17;
    C04_iterate_feedback_deadlock_in_model). [iter_expansion] is the largest number of
    elements an `iterate` body can make of one element (product of its flat_map factors); with
    batches of [b] elements that is at most ceil(expansion / b) messages. *)
Definition ops_expansion (os : list op1) : Z :=
  fold_left (fun acc o => match o with OFlatRep n => acc * Z.max n 1 | _ => acc end) os 1.
Fixpoint iter_expansion (p : pipe) : Z :=
  match p with
  | PSrc _ _ => 0
  | POp p _ | PSplit p _ _ _ | PReplay p _ _ _ => iter_expansion p
  | PIterate p _ _ body _ => Z.max (ops_expansion body) (iter_expansion p)
  | PJoin l r _ _ _ | PMerge l r => Z.max (iter_expansion l) (iter_expansion r)
  end.
(** elements entering an `iterate` loop times what its body makes of one element: the first
    round's traffic on the feedback cycle *)
Fixpoint iter_volume (p : pipe) : Z :=
  match p with
  | PSrc _ _ => 0
  | POp p _ | PSplit p _ _ _ | PReplay p _ _ _ => iter_volume p
  | PIterate p _ _ body _ => Z.max (Z.of_nat (length (denote p)) * ops_expansion body) (iter_volume p)
  | PJoin l r _ _ _ | PMerge l r => Z.max (iter_volume l) (iter_volume r)
  end.
(** with ONE replica the head drains its feedback channel before every element it pulls, so
    the cycle deadlocks only if ONE element makes more messages than the cycle holds
    (>= capacity + 1 = 17); with several replicas a head blocked in a send stops draining
    while the other heads keep producing, so it is enough that a round's traffic exceeds one
    channel (16 messages) *)
Definition f9_possible (p : pipe) (batch par : Z) : bool :=
  let b := Z.max batch 1 in
  if par <=? 1 then 17 <=? (iter_expansion p + b - 1) / b
  else 16 <? (iter_volume p + b - 1) / b.

Fixpoint has_iterate (p : pipe) : bool :=
  match p with
  | PSrc _ _ => false
  | POp p _ | PSplit p _ _ _ | PReplay p _ _ _ => has_iterate p
  | PIterate _ _ _ _ _ => true
  | PJoin l r _ _ _ | PMerge l r => has_iterate l || has_iterate r
  end.

(** known finding F11 (class 2): a forward connection (`replication(r)`) from a block with
    fewer replicas to one with more: the consumer replicas that no producer is wired to panic
    at start-up ("Channel for endpoint ... not registered"). The parallelism a stream has at
    each point is inferred from the pipeline. *)
Definition repl_raises (cur r : repl) : bool :=
  match cur, r with
  | RpUnlimited, _ | _, RpOne => false
  | RpLimited m, RpLimited n => m <? n
  | RpHost, RpHost => false
  | _, _ => true
  end.
Fixpoint cur_ops (cur : repl) (os : list op1) : repl * bool :=
  match os with
  | [] => (cur, false)
  | o :: os' =>
      let '(c1, raised) :=
        match o with
        | ORepl r => (r, repl_raises cur r)
        | OShuffle | OGroupBySum | OGroupByCount | OGroupByMax | OGroupByMin | OGroupByFoldSum
        | OGroupByThenFoldSum | OGroupByReduceMax | ONested _ _ _ | ONestedO _ _ _
        | OJoinSide _ _ _ | OJoinSideL _ _ _ => (RpUnlimited, false)
        | OFoldSum | OFoldAssocSum | OReduceMax | OReduceAssocMax => (RpOne, false)
        | _ => (cur, false)
        end in
      let '(c2, r2) := cur_ops c1 os' in (c2, raised || r2)
  end.
Fixpoint cur_repl (p : pipe) : repl * bool :=
  match p with
  | PSrc par _ => (if par then RpUnlimited else RpOne, false)
  | POp p o => let '(c, r) := cur_repl p in let '(c1, r1) := cur_ops c [o] in (c1, r || r1)
  | PJoin l r _ sh _ =>
      let '(cl, rl) := cur_repl l in let '(cr, rr) := cur_repl r in
      (match sh with ShHash => RpUnlimited | ShBroadcast => cl end, rl || rr)
  | PMerge l r => let '(cl, rl) := cur_repl l in let '(_, rr) := cur_repl r in (cl, rl || rr)
  | PSplit p a b v =>
      let '(c, r) := cur_repl p in
      let '(ca, ra) := cur_ops c a in let '(_, rb) := cur_ops c b in
      (match v with None => ca | Some _ => RpUnlimited end, r || ra || rb)
  | PReplay p _ _ _ | PIterate p _ _ _ _ => let '(_, r) := cur_repl p in (RpUnlimited, r)
  end.

Definition all_but (bad : outcome -> bool) (c : case) : bool :=
  forallb (fun o => match o with
                    | ODone res | ODoneR res => pl_eqb (canon res) (canon (denote (c_pipe c))) || bad o
                    | o' => bad o' end) (c_runs c).

(** known finding F12 (class 3): an operator inside a NESTED loop body that reads the state of
    an ENCLOSING loop may see a stale value of it on several hosts (every block input waits
    on the innermost loop's state lock only): runs on a multi-host deployment may complete
    with a wrong result; every single-host run is right. [has_outer_read] is defined below. *)


(** ---- nested loops whose body reads the ENCLOSING loop's state ([ONestedO]) ---- *)

(** the op reads the state it is evaluated with: it is [OAddState], or an [ONestedO] whose
    body (evaluated with that same state) does; an [ONested] body reads its OWN state, so it
    is not looked into *)
Fixpoint op_reads_state (o : op1) : bool :=
  match o with
  | OAddState => true
  | ONestedO _ _ b =>
      (fix go (os : list op1) : bool :=
         match os with [] => false | o' :: os' => op_reads_state o' || go os' end) b
  | _ => false
  end.
Fixpoint reads_state (os : list op1) : bool :=
  match os with [] => false | o :: os' => op_reads_state o || reads_state os' end.

(** the op is, or contains at any depth reachable through [ONested] / [ONestedO] bodies, an
    [ONestedO _ _ b] with [reads_state b = true] *)
Fixpoint op_outer_read (o : op1) : bool :=
  match o with
  | ONested _ _ b =>
      (fix go (os : list op1) : bool :=
         match os with [] => false | o' :: os' => op_outer_read o' || go os' end) b
  | ONestedO _ _ b =>
      reads_state b
      || (fix go (os : list op1) : bool :=
            match os with [] => false | o' :: os' => op_outer_read o' || go os' end) b
  | _ => false
  end.
Fixpoint ops_outer_read (os : list op1) : bool :=
  match os with [] => false | o :: os' => op_outer_read o || ops_outer_read os' end.

(** the pipe contains a replay / iterate loop whose body contains such an [ONestedO] *)
Fixpoint has_outer_read (p : pipe) : bool :=
  match p with
  | PSrc _ _ => false
  | POp p _ | PSplit p _ _ _ => has_outer_read p
  | PReplay p _ _ body | PIterate p _ _ body _ => ops_outer_read body || has_outer_read p
  | PJoin l r _ _ _ | PMerge l r => has_outer_read l || has_outer_read r
  end.

(** unfolding equations of the nested fixpoints *)
Lemma op_reads_state_nestedO n limit b : op_reads_state (ONestedO n limit b) = reads_state b.
Proof. reflexivity. Qed.
Lemma op_reads_state_nested n limit b : op_reads_state (ONested n limit b) = false.
Proof. reflexivity. Qed.
Lemma op_outer_read_nested n limit b : op_outer_read (ONested n limit b) = ops_outer_read b.
Proof. reflexivity. Qed.
Lemma op_outer_read_nestedO n limit b :
  op_outer_read (ONestedO n limit b) = reads_state b || ops_outer_read b.
Proof. reflexivity. Qed.

Example reads_state_ex1 : reads_state [OMapAdd 1; ONestedO 2 10 [OShuffle; ONestedO 2 10 [OAddState]]] = true.
Proof. reflexivity. Qed.
Example reads_state_ex2 : reads_state [OMapAdd 1; ONested 2 10 [OAddState]] = false.
Proof. reflexivity. Qed.
Example has_outer_read_ex1 :
  has_outer_read (POp (PReplay (PSrc true []) 2 10 [ONested 2 10 [OMapAdd 1; ONestedO 3 10 [OAddState]]]) OFoldSum) = true.
Proof. reflexivity. Qed.
Example has_outer_read_ex2 :
  has_outer_read (PIterate (PSrc true []) 2 10 [ONestedO 3 10 [ONested 2 10 [OAddState]]; OAddState] false) = false.
Proof. reflexivity. Qed.
Example has_outer_read_ex3 : (* not inside a replay / iterate body *)
  has_outer_read (POp (PSrc true []) (ONestedO 3 10 [OAddState])) = false.
Proof. reflexivity. Qed.

(** ---- joins with a constant side input ([OJoinSide]: on the right, [OJoinSideL]: on the
    left) ---- *)

(** [OJoinSide] / [OJoinSideL] never read the loop state (its side input is constant), in particular not an
    enclosing loop's; like the group-by ops it is preceded by an exchange by key, so the
    stream has unlimited replication after it and no forward connection is raised *)
Lemma op_reads_state_join_side v lo side : op_reads_state (OJoinSide v lo side) = false.
Proof. reflexivity. Qed.
Lemma op_outer_read_join_side v lo side : op_outer_read (OJoinSide v lo side) = false.
Proof. reflexivity. Qed.
Lemma cur_ops_join_side cur v lo side os :
  cur_ops cur (OJoinSide v lo side :: os) = cur_ops RpUnlimited os.
Proof. cbn [cur_ops]. destruct (cur_ops RpUnlimited os). reflexivity. Qed.

Lemma op_reads_state_join_side_l v lo side : op_reads_state (OJoinSideL v lo side) = false.
Proof. reflexivity. Qed.
Lemma op_outer_read_join_side_l v lo side : op_outer_read (OJoinSideL v lo side) = false.
Proof. reflexivity. Qed.
Lemma cur_ops_join_side_l cur v lo side os :
  cur_ops cur (OJoinSideL v lo side :: os) = cur_ops RpUnlimited os.
Proof. cbn [cur_ops]. destruct (cur_ops RpUnlimited os). reflexivity. Qed.

(** the op is, or contains at any depth, a join with a side input (on either side) *)
Fixpoint op_join_side (o : op1) : bool :=
  match o with
  | OJoinSide _ _ _ | OJoinSideL _ _ _ => true
  | ONested _ _ b | ONestedO _ _ b =>
      (fix go (os : list op1) : bool :=
         match os with [] => false | o' :: os' => op_join_side o' || go os' end) b
  | _ => false
  end.
Fixpoint ops_join_side (os : list op1) : bool :=
  match os with [] => false | o :: os' => op_join_side o || ops_join_side os' end.
(** the pipe contains a replay / iterate loop whose body joins with a side input (coverage) *)
Fixpoint has_loop_join_side (p : pipe) : bool :=
  match p with
  | PSrc _ _ => false
  | POp p _ | PSplit p _ _ _ => has_loop_join_side p
  | PReplay p _ _ body | PIterate p _ _ body _ => ops_join_side body || has_loop_join_side p
  | PJoin l r _ _ _ | PMerge l r => has_loop_join_side l || has_loop_join_side r
  end.

Example cur_ops_join_side_ex :
  cur_ops RpOne [OJoinSide JvInner LoHash [(1, 10)]; ORepl (RpLimited 2)] = (RpLimited 2, false).
Proof. reflexivity. Qed.
Example reads_state_join_side_ex :
  reads_state [OJoinSide JvInner LoHash [(1, 10)]; ONestedO 2 10 [OJoinSide JvLeft LoSortMerge []]] = false.
Proof. reflexivity. Qed.
Example has_loop_join_side_ex :
  has_loop_join_side (PReplay (PSrc true []) 2 10 [OAddState; ONested 2 10 [OJoinSide JvInner LoHash [(1, 10)]]]) = true.
Proof. reflexivity. Qed.
Example cur_ops_join_side_l_ex :
  cur_ops RpOne [OJoinSideL JvLeft LoHash [(1, 10)]; ORepl (RpLimited 2)] = (RpLimited 2, false).
Proof. reflexivity. Qed.
Example reads_state_join_side_l_ex :
  reads_state [OJoinSideL JvInner LoHash [(1, 10)]; ONestedO 2 10 [OJoinSideL JvLeft LoSortMerge []]] = false.
Proof. reflexivity. Qed.
Example has_loop_join_side_l_ex :
  has_loop_join_side (PIterate (PSrc true []) 2 10 [ONestedO 2 10 [OJoinSideL JvOuter LoSortMerge [(1, 10)]]] true) = true.
Proof. reflexivity. Qed.
Example join_side_l_run_ok :
  prop_ok {| c_pipe := PReplay (PSrc true [(1,5);(3,7)]) 2 1000000 [OAddState; OJoinSideL JvLeft LoHash [(1,10);(2,20)]];
             c_runs := [ODone [(0, 96882)]; ODoneR [(0, 96882)]] |} = true.
Proof. vm_compute. reflexivity. Qed.
Example join_side_run_ok :
  prop_ok {| c_pipe := PReplay (PSrc true [(1,5);(3,7)]) 2 1000000 [OAddState; OJoinSide JvInner LoHash [(1,10)]];
             c_runs := [ODone [(0, 131697)]; ODoneR [(0, 131697)]] |} = true.
Proof. vm_compute. reflexivity. Qed.

Definition known_class (c : case) : N :=
  if has_iterate (c_pipe c) && all_but (fun o => match o with OHangB b par => f9_possible (c_pipe c) b par | _ => false end) c then 1%N
  else if snd (cur_repl (c_pipe c)) && all_but (fun o => match o with OPanic => true | _ => false end) c then 2%N
  else if has_outer_read (c_pipe c) && all_but (fun o => match o with ODoneR _ => true | _ => false end) c then 3%N
  else 0%N.

(** there is no separate machine model at this level: a case is "explained" when it meets the
    specification, or deviates from it exactly as a recorded known finding does (the affected
    runs panic at start-up / hang, every other run is right) *)
Definition corr_ok (c : case) : bool := prop_ok c || negb (N.eqb (known_class c) 0%N).

Definition report (cs : list case) := classify corr_ok prop_ok known_class cs.

(** Correspondence and property evaluation for C01 (deployment transparency), C04
    (termination), C10 (loops), C18 (batch-mode independence): random pipelines are built on
    the real engine and executed to completion under several deployments (local parallelism
    1..8, 2..3 loopback hosts with heterogeneous cores) and batch modes; each run's sink
    content is compared, as a multiset, with the pipeline's sequential meaning [denote]. *)
From Noir Require Import Model.Pipe Corr.Canon.
From Coq Require Import NArith.
Open Scope Z_scope.

(** outcome of one run *)
Inductive outcome := ODone (res : list P) | OHang | OPanic.

Record case := {
  c_pipe : pipe;
  c_runs : list outcome
}.

Definition pkey (x : P) : Z := fst x * 1000003 + snd x.
Definition pl_eqb := list_eqb (pair_eqb Z.eqb Z.eqb).
Definition canon (l : list P) : list P := sort_by pkey (sort_by snd l).

Definition run_ok (expected : list P) (o : outcome) : bool :=
  match o with
  | ODone res => pl_eqb (canon res) expected
  | _ => false
  end.

(** here the model is the specification itself: the sequential meaning *)
Definition prop_ok (c : case) : bool :=
  let expected := canon (denote (c_pipe c)) in
  forallb (run_ok expected) (c_runs c).

(** known finding F9 (class 1): a run of a pipeline containing `iterate` did not terminate
    (feedback / body deadlock when the body emits more than the channel capacities) *)
Fixpoint has_iterate (p : pipe) : bool :=
  match p with
  | PSrc _ _ => false
  | POp p _ | PSplit p _ _ _ | PReplay p _ _ _ => has_iterate p
  | PIterate _ _ _ _ _ => true
  | PJoin l r _ _ _ | PMerge l r => has_iterate l || has_iterate r
  end.

(** known finding F11 (class 2): a forward connection (`replication(r)`) from a block with
    fewer replicas to one with more: the consumer replicas that no producer is wired to panic
    at start-up ("Channel for endpoint ... not registered"). The parallelism a stream has at
    each point is inferred from the pipeline. *)
Definition repl_raises (cur r : repl) : bool :=
  match cur, r with
  | RpUnlimited, _ | _, RpOne => false
  | RpLimited m, RpLimited n => m <? n
  | RpHost, RpHost => false
  | _, _ => true
  end.
Fixpoint cur_ops (cur : repl) (os : list op1) : repl * bool :=
  match os with
  | [] => (cur, false)
  | o :: os' =>
      let '(c1, raised) :=
        match o with
        | ORepl r => (r, repl_raises cur r)
        | OShuffle | OGroupBySum | OGroupByCount | OGroupByMax | OGroupByMin | OGroupByFoldSum
        | OGroupByThenFoldSum | OGroupByReduceMax | ONested _ _ _ => (RpUnlimited, false)
        | OFoldSum | OFoldAssocSum | OReduceMax | OReduceAssocMax => (RpOne, false)
        | _ => (cur, false)
        end in
      let '(c2, r2) := cur_ops c1 os' in (c2, raised || r2)
  end.
Fixpoint cur_repl (p : pipe) : repl * bool :=
  match p with
  | PSrc par _ => (if par then RpUnlimited else RpOne, false)
  | POp p o => let '(c, r) := cur_repl p in let '(c1, r1) := cur_ops c [o] in (c1, r || r1)
  | PJoin l r _ sh _ =>
      let '(cl, rl) := cur_repl l in let '(cr, rr) := cur_repl r in
      (match sh with ShHash => RpUnlimited | ShBroadcast => cl end, rl || rr)
  | PMerge l r => let '(cl, rl) := cur_repl l in let '(_, rr) := cur_repl r in (cl, rl || rr)
  | PSplit p a b v =>
      let '(c, r) := cur_repl p in
      let '(ca, ra) := cur_ops c a in let '(_, rb) := cur_ops c b in
      (match v with None => ca | Some _ => RpUnlimited end, r || ra || rb)
  | PReplay p _ _ _ | PIterate p _ _ _ _ => let '(_, r) := cur_repl p in (RpUnlimited, r)
  end.

Definition all_but (bad : outcome -> bool) (c : case) : bool :=
  forallb (fun o => match o with
                    | ODone res => pl_eqb (canon res) (canon (denote (c_pipe c)))
                    | o' => bad o' end) (c_runs c).
Definition known_class (c : case) : N :=
  if has_iterate (c_pipe c) && all_but (fun o => match o with OHang => true | _ => false end) c then 1%N
  else if snd (cur_repl (c_pipe c)) && all_but (fun o => match o with OPanic => true | _ => false end) c then 2%N
  else 0%N.

(** there is no separate machine model at this level: a case is "explained" when it meets the
    specification, or deviates from it exactly as a recorded known finding does (the affected
    runs panic at start-up / hang, every other run is right) *)
Definition corr_ok (c : case) : bool := prop_ok c || negb (N.eqb (known_class c) 0%N).

Definition report (cs : list case) := classify corr_ok prop_ok known_class cs.

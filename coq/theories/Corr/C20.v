(** Correspondence and property evaluation for C20 (fail-stop). Acyclic random jobs on the
    real engine with a user function that panics on one chosen element (at some operator,
    on whichever replica receives that element, at whatever position). Observed per host:
    whether `execute_blocking` failed and whether the sink handle held a result afterwards. *)
From Noir Require Import Model.Pipe Corr.Canon.
From Noir Require Corr.C01.
From Coq Require Import NArith.
Open Scope Z_scope.

Inductive obs := OFinished (fired : bool) (hosts : list (bool * bool)) (result : option (list P))
                                   (* per host: (execute_blocking failed, sink published) *)
               | OHung.

Record case := { c_pipe : pipe; c_obs : obs }.

Definition prop_ok (c : case) : bool :=
  match c_obs c with
  | OHung => false                                     (* a worker blocked forever *)
  | OFinished true hosts result =>
      (* the panic fired: no sink published anything, partial or complete, and the host that
         runs the sink (host 0: the collecting sink has a single replica) failed *)
      forallb (fun h => negb (snd h)) hosts &&
      match hosts with h0 :: _ => fst h0 | [] => false end &&
      match result with None => true | Some _ => false end
  | OFinished false hosts result =>
      (* the chosen element never reached the panicking function: an ordinary run *)
      forallb (fun h => negb (fst h)) hosts &&
      match result with
      | Some res => C01.pl_eqb (C01.canon res) (C01.canon (denote (c_pipe c)))
      | None => false
      end
  end.
(** no separate machine model at this level (the crash-propagation model of Model/Crash.v is
    an abstract transition system): a case is explained iff it meets the property *)
Definition corr_ok (c : case) : bool := prop_ok c.
Definition known_class (c : case) : N := 0%N.
Definition report (cs : list case) := classify corr_ok prop_ok known_class cs.

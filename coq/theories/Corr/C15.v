(** Correspondence and property evaluation for C15 (sources). *)
From Noir Require Import Base.Elem Model.SrcRange Model.SrcFile Proofs.SrcSpec Corr.Canon.
From Coq Require Import NArith.
Open Scope Z_scope.

Inductive ikind := KSigned (t : ity) | KU64.

Inductive case :=
| CRange (k : ikind) (lo hi peers : Z) (outs : list (option (Z * Z)))
    (* per replica: the (start, end) of the returned Range, None = panicked *)
| CFile (bytes : list Z) (n : nat) (outs : list (option (list (list Z))))
    (* per replica: the emitted lines as bytes *)
| CCsv (bytes : list Z) (has_header : bool) (n : nat) (outs : list (option (list (Z * Z))))
    (* per replica: the emitted (a, b) records *)
| CSeq (xs : list Z) (out : list (elem Z)).
    (* non-parallel sources: single replica, everything it returned *)

(** ---- ranges ---- *)
Definition model_range (k : ikind) (lo hi peers : Z) : list (option (Z * Z)) :=
  map (fun i => match k with
                | KSigned t => gen_signed t lo hi (Z.of_nat i) peers
                | KU64 => gen_u64 lo hi (Z.of_nat i) peers
                end) (seq 0 (Z.to_nat peers)).

(** two chunks are the same if they contain the same integers *)
Definition chunk_eqb (a b : option (Z * Z)) : bool :=
  match a, b with
  | Some (s, e), Some (s', e') =>
      if (s <? e) || (s' <? e') then Z.eqb s s' && Z.eqb e e' else true
  | None, None => true
  | _, _ => false
  end.

(** decidable form of [partitions]: nobody panicked; the non-empty chunks, sorted by
    start, tile [lo, hi) exactly; for an empty or reversed range every chunk is empty *)
Fixpoint tiles (cur hi : Z) (l : list (Z * Z)) : bool :=
  match l with
  | [] => Z.eqb cur hi
  | (s, e) :: l' => Z.eqb s cur && tiles e hi l'
  end.
Definition range_prop (lo hi : Z) (outs : list (option (Z * Z))) : bool :=
  forallb (fun o => match o with Some _ => true | None => false end) outs &&
  let ne := filter (fun r => fst r <? snd r)
              (flat_map (fun o => match o with Some r => [r] | None => [] end) outs) in
  if lo <? hi then tiles lo hi (sort_by fst ne) else match ne with [] => true | _ => false end.

(** ---- files ---- *)
Definition zll_eqb := list_eqb (list_eqb Z.eqb).
Definition model_file (bytes : list Z) (n : nat) : list (option (list (list Z))) :=
  map (fun i => Some (file_replica bytes n i)) (seq 0 n).
Fixpoint ins_line (x : list Z) (l : list (list Z)) : list (list Z) :=
  match l with [] => [x] | y :: l' => if zlist_ltb y x then y :: ins_line x l' else x :: l end.
Definition sort_lines (l : list (list Z)) : list (list Z) := fold_right ins_line [] l.
Definition file_prop (bytes : list Z) (outs : list (option (list (list Z)))) : bool :=
  forallb (fun o => match o with Some _ => true | None => false end) outs &&
  (* each line exactly once across all replicas: as a multiset, the emitted lines are the
     file's lines (order across replicas is not part of the claim) *)
  let got := flat_map (fun o => match o with Some l => l | None => [] end) outs in
  list_eqb (list_eqb Z.eqb) (sort_lines got) (sort_lines (lines bytes)).

(** ---- csv: the simple numeric format the harness generates ---- *)
Definition CR : Z := 13. Definition COMMA : Z := 44.
Fixpoint parse_num (acc : Z) (seen : bool) (l : list Z) : option (Z * list Z) :=
  match l with
  | d :: l' => if (48 <=? d) && (d <=? 57) then parse_num (acc * 10 + (d - 48)) true l'
               else if seen then Some (acc, l) else None
  | [] => if seen then Some (acc, []) else None
  end.
Definition parse_rec (line : list Z) : option (Z * Z) :=
  match parse_num 0 false line with
  | Some (a, c :: rest) =>
      if Z.eqb c COMMA then
        match parse_num 0 false rest with Some (b, []) => Some (a, b) | _ => None end
      else None
  | _ => None
  end.
Definition strip_eol (line : list Z) : list Z :=
  filter (fun b => negb (Z.eqb b NL || Z.eqb b CR)) line.
(** records of a byte range: non-empty lines, parsed (the csv crate skips empty lines) *)
Definition records_of (bs : list Z) : list (option (Z * Z)) :=
  flat_map (fun l => match strip_eol l with [] => [] | s => [parse_rec s] end) (lines bs).
Definition opt_all {A} (l : list (option A)) : option (list A) :=
  fold_right (fun o acc => match o, acc with Some x, Some r => Some (x :: r) | _, _ => None end) (Some []) l.
Definition model_csv (bytes : list Z) (h : bool) (n : nat) : list (option (list (Z * Z))) :=
  map (fun i => opt_all (records_of (csv_bytes bytes h n i))) (seq 0 n).
Definition zz_eqb := pair_eqb Z.eqb Z.eqb.
Definition zz_key (p : Z * Z) : Z := fst p * 1000003 + snd p.
Definition csv_prop (bytes : list Z) (h : bool) (outs : list (option (list (Z * Z)))) : bool :=
  forallb (fun o => match o with Some _ => true | None => false end) outs &&
  match opt_all (records_of (skipn (csv_header_size bytes h) bytes)) with
  | Some all =>
      let got := flat_map (fun o => match o with Some l => l | None => [] end) outs in
      list_eqb zz_eqb (sort_by zz_key got) (sort_by zz_key all)
  | None => true   (* file outside the generated format: no claim *)
  end.

(** ---- dispatch ---- *)
Definition corr_ok (c : case) : bool :=
  match c with
  | CRange k lo hi peers outs => list_eqb chunk_eqb (model_range k lo hi peers) outs
  | CFile bytes n outs => list_eqb (option_eqb zll_eqb) (model_file bytes n) outs
  | CCsv bytes h n outs => list_eqb (option_eqb (list_eqb zz_eqb)) (model_csv bytes h n) outs
  | CSeq xs out => list_eqb (elem_eqb Z.eqb) (items xs ++ [FAR; Terminate]) (strip_fb out)
  end.

Definition prop_ok (c : case) : bool :=
  match c with
  | CRange _ lo hi _ outs => range_prop lo hi outs
  | CFile bytes _ outs => file_prop bytes outs
  | CCsv bytes h _ outs => csv_prop bytes h outs
  | CSeq xs out => list_eqb Z.eqb (payloads out) xs
  end.

Definition known_class (c : case) : N := 0%N.
Definition report (cs : list case) := classify corr_ok prop_ok known_class cs.

(** Shared executable helpers for cases driven through the two-input Start. *)
From Noir Require Export Base.Elem Model.Start Model.BinaryStart Corr.Canon.
From Coq Require Import NArith.
Open Scope Z_scope.

Definition bz := bin Z Z.
Definition bin_eqb (a b : bz) : bool :=
  match a, b with
  | BL x, BL y | BR x, BR y => Z.eqb x y
  | BLEnd, BLEnd | BREnd, BREnd => true
  | _, _ => false
  end.
Definition bout_eqb := list_eqb (elem_eqb bin_eqb).

Definition del := @delivery Z Z.

(** data a side delivered, in delivery order *)
Definition side_data (left : bool) (ds : list del) : list (elem Z) :=
  flat_map (fun d => match d, left with
                     | DL _ b, true => filter is_data b
                     | DR _ b, false => filter is_data b
                     | _, _ => []
                     end) ds.
Definition side_fars (left : bool) (ds : list del) : nat :=
  length (flat_map (fun d => match d, left with
                     | DL _ b, true | DR _ b, false => filter (fun e => match e with FAR => true | _ => false end) b
                     | _, _ => []
                     end) ds).

Definition is_left (e : elem bz) : bool :=
  match e with Item (BL _) | Tst (BL _) _ => true | _ => false end.
Definition is_right (e : elem bz) : bool :=
  match e with Item (BR _) | Tst (BR _) _ => true | _ => false end.
Definition unbin (e : elem bz) : elem Z :=
  emap (fun b => match b with BL v | BR v => v | _ => 0 end) e.
Definition count_item (m : bz) (l : list (elem bz)) : nat :=
  length (filter (fun e => match e with Item x => bin_eqb x m | _ => false end) l).

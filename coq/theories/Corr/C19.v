(** Correspondence and property evaluation for C19 (execution graph).
    A case: a deployment, the job graph as the scheduler recorded it (blocks with their
    replication requirement, edges with forward/fragile flags) and, for EVERY host of the
    deployment, the execution graph that host's scheduler derived (hook
    `StreamContext::verif_execution_graph`): replicas with global ids, links, socket ports. *)
From Noir Require Import Model.Sched.
From Coq Require Import List ZArith NArith Arith Bool.
Import ListNotations.
Open Scope nat_scope.

Definition rep := (coord * nat)%type.                 (* replica, global id *)
Definition link := (coord * coord * bool)%type.
Definition port := (demux * nat)%type.                (* demultiplexer, port offset from base_port *)

Record dump := { h_id : nat; h_reps : list rep; h_links : list link; h_ports : list port }.

Record case := {
  c_dep : deployment;
  c_blocks : list block;
  c_edges : list edge;
  c_dumps : list dump;
  c_inter : list (replication * replication * replication);  (* (a, b, what the real `Replication::intersect` answers) *)
  c_expect_fwd : list nat   (* blocks closed by `.replication(..)` / `.route()`: their outgoing connections must be forward *)
}.

(** generic insertion sort with a boolean order, for canonical forms *)
Section Sort.
  Context {T : Type} (ltb : T -> T -> bool).
  Fixpoint ins (x : T) (l : list T) : list T :=
    match l with [] => [x] | y :: l' => if ltb x y then x :: l else y :: ins x l' end.
  Definition sort (l : list T) : list T := fold_right ins [] l.
End Sort.
Fixpoint leqb {T} (eqb : T -> T -> bool) (a b : list T) : bool :=
  match a, b with
  | [], [] => true
  | x :: a', y :: b' => eqb x y && leqb eqb a' b'
  | _, _ => false
  end.

Definition rep_ltb (a b : rep) := coord_ltb (fst a) (fst b).
Definition rep_eqb (a b : rep) := coord_eqb (fst a) (fst b) && Nat.eqb (snd a) (snd b).
Definition link_ltb (a b : link) :=
  let '(f1, t1, _) := a in let '(f2, t2, _) := b in
  if coord_ltb f1 f2 then true else if coord_ltb f2 f1 then false else coord_ltb t1 t2.
Definition link_eqb (a b : link) :=
  let '(f1, t1, g1) := a in let '(f2, t2, g2) := b in coord_eqb f1 f2 && coord_eqb t1 t2 && Bool.eqb g1 g2.
Definition port_ltb (a b : port) := demux_ltb (fst a) (fst b).
Definition port_eqb (a b : port) := demux_eqb (fst a) (fst b) && Nat.eqb (snd a) (snd b).

(** the model's execution graph *)
Definition model_reps (c : case) : list rep :=
  flat_map (fun b => let rs := block_replicas (c_dep c) (b_id b) (b_repl b) in combine rs (seq 0 (length rs)))
           (c_blocks c).
Definition model_links (c : case) : list link := links (c_dep c) (c_blocks c) (c_edges c).
Definition model_ports (c : case) : list port :=
  match c_dep c with Local _ => [] | Remote _ => port_offsets (model_links c) end.

Definition repl_eqb (a b : replication) : bool :=
  match a, b with
  | RUnlimited, RUnlimited | RHost, RHost | ROne, ROne => true
  | RLimited n, RLimited m => Nat.eqb n m
  | _, _ => false
  end.
(** the requirement of a block that inherits two requirements (`.replication(r)` on a block,
    two-input blocks, zip's `One`) is their intersection *)
Definition inter_matches (c : case) : bool :=
  forallb (fun x => let '(a, b, r) := x in repl_eqb (intersect a b) r) (c_inter c).

Definition dump_matches (c : case) (d : dump) : bool :=
  leqb rep_eqb (sort rep_ltb (model_reps c)) (sort rep_ltb (h_reps d)) &&
  leqb link_eqb (sort link_ltb (model_links c)) (sort link_ltb (h_links d)) &&
  leqb port_eqb (sort port_ltb (model_ports c)) (sort port_ltb (h_ports d)).

Definition corr_ok (c : case) : bool := forallb (dump_matches c) (c_dumps c) && inter_matches c.

(** ---- the property, on the dumps themselves ---- *)
Definition hosts_of (d : deployment) : list nat :=
  match d with Local _ => [1] | Remote cs => cs end.   (* Local: one host (core count irrelevant here) *)

(** (a) every host derived the same graph *)
Definition all_equal (c : case) : bool :=
  match c_dumps c with
  | [] => false
  | d0 :: ds =>
      forallb (fun d =>
        leqb rep_eqb (sort rep_ltb (h_reps d0)) (sort rep_ltb (h_reps d)) &&
        leqb link_eqb (sort link_ltb (h_links d0)) (sort link_ltb (h_links d)) &&
        leqb port_eqb (sort port_ltb (h_ports d0)) (sort port_ltb (h_ports d))) ds
  end.

(** (b) placement: the stated number of replicas on each host *)
Definition expected_on_host (d : deployment) (r : replication) (h : nat) : nat :=
  match d with
  | Local p => if Nat.eqb h 0 then match r with RUnlimited => p | RLimited q => Nat.min p q | _ => 1 end else 0
  | Remote cores =>
      let c := nth h cores 0 in
      match r with
      | RUnlimited => c
      | RLimited n => Nat.min c (n - fold_left Nat.add (firstn h cores) 0)
      | RHost => if Nat.ltb h (length cores) then 1 else 0
      | ROne => if Nat.eqb h 0 then 1 else 0
      end
  end.
Definition nhosts (d : deployment) : nat := match d with Local _ => 1 | Remote cs => length cs end.

Definition placement_ok (c : case) (d : dump) : bool :=
  forallb (fun b =>
    let mine := filter (fun r => Nat.eqb (c_block (fst r)) (b_id b)) (h_reps d) in
    (* per host: replica ids 0..k-1 with k as stated *)
    forallb (fun h =>
      let on_h := filter (fun r => Nat.eqb (c_host (fst r)) h) mine in
      let k := expected_on_host (c_dep c) (b_repl b) h in
      leqb Nat.eqb (sort Nat.ltb (map (fun r => c_replica (fst r)) on_h)) (seq 0 k))
      (seq 0 (nhosts (c_dep c))) &&
    forallb (fun r => Nat.ltb (c_host (fst r)) (nhosts (c_dep c))) mine &&
    (* global ids: a bijection onto [0, #replicas) *)
    leqb Nat.eqb (sort Nat.ltb (map snd mine)) (seq 0 (length mine)))
    (c_blocks c).

(** (c) links: forward edges give every producer replica exactly one consumer — the
    same-index one when it exists; every other edge is all-to-all. Fragile (feedback-control)
    edges connect same-index replicas only. *)
Definition links_ok (c : case) (d : dump) : bool :=
  forallb (fun e =>
    let from := map fst (filter (fun r => Nat.eqb (c_block (fst r)) (e_from e)) (h_reps d)) in
    let to := map fst (filter (fun r => Nat.eqb (c_block (fst r)) (e_to e)) (h_reps d)) in
    forallb (fun f =>
      let outs := map (fun l => snd (fst l))
                      (filter (fun l => let '(f', t', _) := l in coord_eqb f f' && Nat.eqb (c_block t') (e_to e)) (h_links d)) in
      if e_fragile e then
        forallb (fun t => Nat.eqb (length to) 1 || same_index f t) outs
      else if e_forward e then
        Nat.eqb (length outs) 1 &&
        forallb (fun t => negb (existsb (same_index f) to) || same_index f t || Nat.eqb (length to) 1) outs
      else
        leqb coord_eqb (sort coord_ltb outs) (sort coord_ltb to)) from)
    (c_edges c).

(** (d) ports: no two demultiplexers of one host share a port; every remote link has one *)
Definition ports_ok (c : case) (d : dump) : bool :=
  match c_dep c with
  | Local _ => true
  | Remote _ =>
      forallb (fun p => Nat.eqb (length (filter (fun q => Nat.eqb (d_host (fst q)) (d_host (fst p)) && Nat.eqb (snd q) (snd p)) (h_ports d))) 1) (h_ports d) &&
      forallb (fun l => existsb (fun p => demux_eqb (fst p) (demux_of l)) (h_ports d)) (h_links d)
  end.

(** (e) combined requirements: the intersection table answered by the code is the
    specified one (One below Host below Limited(min) below Unlimited) *)
Definition expected_forward_ok (c : case) : bool :=
  forallb (fun b => forallb (fun e => if Nat.eqb (e_from e) b then e_forward e else true) (c_edges c)) (c_expect_fwd c).

Definition prop_ok (c : case) : bool :=
  expected_forward_ok c && all_equal c && forallb (fun d => placement_ok c d && links_ok c d && ports_ok c d) (c_dumps c) && inter_matches c.

Definition known_class (c : case) : N := 0%N.

Fixpoint classify_from (i : N) (l : list case) : list (N * bool * bool * N) :=
  match l with
  | [] => []
  | c :: l' =>
      let a := corr_ok c in let b := prop_ok c in
      if a && b then classify_from (N.succ i) l' else (i, a, b, known_class c) :: classify_from (N.succ i) l'
  end.
Definition report (cs : list case) := classify_from 0%N cs.

(** The "operator zoo": chains of the element-wise operators of the public API assembled at
    random (Model/Ops2.v + map / filter / flat_map / key_by of Model/Ops.v), over [Z] payloads.
    [zoo_machine] is the model of the chain; [zoo_spec] is the property oracle — the plain
    iterator-chain meaning on the list of payloads, written independently of the machines. *)
From Noir Require Import Base.Elem Model.Ops Model.Ops2.
Open Scope Z_scope.

Inductive zop :=
| ZMap (a : Z) | ZFilter (m : Z) | ZFlatMap (r : Z) | ZFilterMap (m a : Z) | ZFlatten (r : Z)
| ZInspect | ZRichMap | ZRichFlatMap | ZRichFilterMap (m : Z)
| ZKRichMap (m : Z) | ZKFlatMap (m r : Z) | ZKFilterMap (m a : Z) | ZKRichFlatMap (m : Z)
| ZKRichFilterMap (m q : Z) | ZKFlatten (m r : Z) | ZUnkey (m : Z)
| ZAddTs (mul off d wmod : Z) | ZDropTs.

Definition rep (v r : Z) : list Z := repeat v (Z.to_nat r).
Definition nz (v m : Z) : bool := negb (Z.eqb (Z.modulo v m) 0).

(** closures used by the harness (same arithmetic on both sides) *)
Definition f_sum (s v : Z) : Z * Z := (s + v, s + v).
Definition f_cnt_flat (c v : Z) : Z * list Z := (c + 1, if Z.odd (c + 1) then [v; c + 1] else [v]).
Definition f_cnt_filter (m c v : Z) : Z * option Z :=
  (c + 1, if Z.eqb (Z.modulo (c + 1) m) 0 then None else Some (v + (c + 1))).

Definition keyed {B} (m : Z) (inner : machine (elem (Z * Z)) (elem (Z * B))) : machine (elem Z) (elem B) :=
  compose (key_by_machine (fun v => Z.modulo v m)) (compose inner drop_key_machine).

Definition zop_machine (o : zop) : machine (elem Z) (elem Z) :=
  match o with
  | ZMap a => map_machine (fun v => v + a)
  | ZFilter m => filter_machine (fun v => nz v m)
  | ZFlatMap r => flat_map_machine (fun v => rep v r)
  | ZFilterMap m a => filter_map_machine (fun v => if nz v m then Some (v + a) else None)
  | ZFlatten r => compose (map_machine (fun v => rep v r)) flatten_machine
  | ZInspect => inspect_machine
  | ZRichMap => rich_map1_machine f_sum 0
  | ZRichFlatMap => rich_flat_map1_machine f_cnt_flat 0
  | ZRichFilterMap m => rich_filter_map1_machine (f_cnt_filter m) 0
  | ZKRichMap m => keyed m (keyed_sflat_machine (fun s _ v => let '(s1, o) := f_sum s v in (s1, [o])) 0)
  | ZKFlatMap m r => keyed m (keyed_sflat_machine (fun (_ : unit) k v => (tt, rep (v + k) r)) tt)
  | ZKFilterMap m a => keyed m (keyed_sflat_machine
                         (fun (_ : unit) k v => (tt, if nz v (m + 1) then [v + a + k] else [])) tt)
  | ZKRichFlatMap m => keyed m (keyed_sflat_machine (fun c _ v => f_cnt_flat c v) 0)
  | ZKRichFilterMap m q => keyed m (keyed_sflat_machine
                         (fun c _ v => let '(c1, o) := f_cnt_filter q c v in (c1, olist o)) 0)
  | ZKFlatten m r => keyed m (keyed_sflat_machine (fun (_ : unit) _ v => (tt, rep v r)) tt)
  | ZUnkey m => compose (key_by_machine (fun v => Z.modulo v m)) (map_machine (fun kv => fst kv * 1000 + snd kv))
  | ZAddTs mul off d wmod =>
      add_ts_machine (fun v => v * mul + off) (fun v t => if Z.eqb (Z.modulo v wmod) 0 then Some (t - d) else None)
  | ZDropTs => drop_ts_machine
  end.

Definition id_machine : machine (elem Z) (elem Z) := map_machine (fun v => v).
Definition zoo_machine (ops : list zop) : machine (elem Z) (elem Z) :=
  fold_left (fun m o => compose m (zop_machine o)) ops id_machine.

(** ** the oracle: iterator-chain meaning on payload lists *)
Fixpoint running_sum (s : Z) (l : list Z) : list Z :=
  match l with [] => [] | v :: l' => (s + v) :: running_sum (s + v) l' end.
Fixpoint cnt_flat (c : Z) (l : list Z) : list Z :=
  match l with [] => [] | v :: l' => (if Z.odd (c + 1) then [v; c + 1] else [v]) ++ cnt_flat (c + 1) l' end.
Fixpoint cnt_filter (m c : Z) (l : list Z) : list Z :=
  match l with
  | [] => []
  | v :: l' => (if Z.eqb (Z.modulo (c + 1) m) 0 then [] else [v + (c + 1)]) ++ cnt_filter m (c + 1) l'
  end.

(** per-key specs: element i is transformed using only the earlier elements of ITS key *)
Fixpoint per_key_scan {S} (key : Z -> Z) (f : S -> Z -> Z -> S * list Z) (s0 : S)
    (st : list (Z * S)) (l : list Z) : list Z :=
  match l with
  | [] => []
  | v :: l' =>
      let k := key v in
      let s := match aget k st with Some s => s | None => s0 end in
      let '(s1, os) := f s k v in
      os ++ per_key_scan key f s0 (aupd k (fun _ => s1) st) l'
  end.

Definition zop_spec (o : zop) (l : list Z) : list Z :=
  match o with
  | ZMap a => map (fun v => v + a) l
  | ZFilter m => filter (fun v => nz v m) l
  | ZFlatMap r | ZFlatten r => flat_map (fun v => rep v r) l
  | ZFilterMap m a => map (fun v => v + a) (filter (fun v => nz v m) l)
  | ZInspect | ZAddTs _ _ _ _ | ZDropTs => l
  | ZRichMap => running_sum 0 l
  | ZRichFlatMap => cnt_flat 0 l
  | ZRichFilterMap m => cnt_filter m 0 l
  | ZKRichMap m => per_key_scan (fun v => Z.modulo v m) (fun s _ v => (s + v, [s + v])) 0 [] l
  | ZKFlatMap m r => flat_map (fun v => rep (v + Z.modulo v m) r) l
  | ZKFilterMap m a => map (fun v => v + a + Z.modulo v m) (filter (fun v => nz v (m + 1)) l)
  | ZKRichFlatMap m => per_key_scan (fun v => Z.modulo v m)
                         (fun c _ v => (c + 1, if Z.odd (c + 1) then [v; c + 1] else [v])) 0 [] l
  | ZKRichFilterMap m q => per_key_scan (fun v => Z.modulo v m)
                         (fun c _ v => (c + 1, if Z.eqb (Z.modulo (c + 1) q) 0 then [] else [v + (c + 1)])) 0 [] l
  | ZKFlatten m r => flat_map (fun v => rep v r) l
  | ZUnkey m => map (fun v => Z.modulo v m * 1000 + v) l
  end.
Definition zoo_spec (ops : list zop) (l : list Z) : list Z := fold_left (fun l o => zop_spec o l) ops l.

Definition has_add_ts (ops : list zop) : bool :=
  existsb (fun o => match o with ZAddTs _ _ _ _ => true | _ => false end) ops.

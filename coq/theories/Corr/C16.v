(** Correspondence and property evaluation for C16 (sequential order; reorder).
    CReorder : `.reorder()` in a single block (real chain driven by a script)
    CSeq     : a sequential pipeline `source(One) -> map -> filter -> flat_map` across a real
               block boundary: the consumer side `Start(1 sender) -> chain` is driven with the
               producer's elements cut into batches (every batch mode is some cutting) *)
From Noir Require Import Base.Elem Model.Start Model.Ops Model.Ops2 Proofs.StartSpec Proofs.OpsSpec Corr.Canon Corr.ZooCorr.
From Coq Require Import NArith.
Open Scope Z_scope.

Inductive case :=
| CReorder (input : list (elem Z)) (out : list (elem Z))
| CSeq (addc modm rep : Z) (batches : list (nat * list (elem Z))) (out : list (elem Z))
| CJob (addc modm rep n : Z) (out : list Z)    (* whole sequential job over 0..n-1 on the engine *)
| CZoo (ops : list zop) (input out : list (elem Z)).  (* a random chain of element-wise API operators, one block *)

Definition zout_eqb := list_eqb (elem_eqb Z.eqb).

(** the chain of CSeq: map (+addc), filter (v mod modm <> 0), flat_map (repeat rep times) *)
Definition seq_chain (addc modm rep : Z) : machine (elem Z) (elem Z) :=
  compose (map_machine (fun v => v + addc))
    (compose (filter_machine (fun v => negb (Z.eqb (Z.modulo v modm) 0)))
             (flat_map_machine (fun v => repeat v (Z.to_nat rep)))).

Definition corr_ok (c : case) : bool :=
  match c with
  | CReorder input out => zout_eqb (strip_fb (run reorder_machine input)) (strip_fb out)
  | CSeq a m r bs out =>
      zout_eqb (run (seq_chain a m r) (run (start_machine Z 1) (flatten_batches bs))) (strip_fb out)
  | CJob a m r n out =>
      (* the model of the whole path: the chain machine over the source's elements *)
      list_eqb Z.eqb (payloads (run (seq_chain a m r) (map (fun i => Item (Z.of_nat i)) (seq 0 (Z.to_nat n))))) out
  | CZoo ops input out => zout_eqb (strip_fb (run (zoo_machine ops) input)) (strip_fb out)
  end.

(** the property on the implementation output *)
Fixpoint tdata_of (l : list (elem Z)) : list (Z * Z) :=
  match l with [] => [] | Tst v t :: l' => (v, t) :: tdata_of l' | _ :: l' => tdata_of l' end.
Definition pair_key (p : Z * Z) : Z := snd p * 1000003 + fst p.
(** released only once covered: every timestamped element emitted since the previous
    watermark / round start is <= the next watermark *)
Fixpoint covered (pending : list Z) (l : list (elem Z)) : bool :=
  match l with
  | [] => true
  | Tst _ t :: l' => covered (t :: pending) l'
  | Wm w :: l' => forallb (fun t => t <=? w) pending && covered [] l'
  | FAR :: l' => covered [] l'
  | _ :: l' => covered pending l'
  end.

Definition prop_ok (c : case) : bool :=
  match c with
  | CReorder input out0 =>
      let out := strip_fb out0 in
      ts_nondecreasing None out &&
      (* nothing lost or duplicated, round by round *)
      list_eqb (list_eqb (pair_eqb Z.eqb Z.eqb))
        (map (fun r => sort_by pair_key (tdata_of r)) (rounds out))
        (map (fun r => sort_by pair_key (tdata_of r)) (rounds (strip_fb input))) &&
      covered [] out &&
      list_eqb (elem_eqb (fun _ _ => true)) (filter (fun e => negb (is_data e)) out)
                                           (filter (fun e => negb (is_data e)) (strip_fb input))
  | CSeq a m r bs out0 =>
      (* behaves like the iterator chain: same elements, same order *)
      let src := payloads (flat_map snd bs) in
      let expected := flat_map (fun v => repeat v (Z.to_nat r))
                        (filter (fun v => negb (Z.eqb (Z.modulo v m) 0)) (map (fun v => v + a) src)) in
      list_eqb Z.eqb (payloads (strip_fb out0)) expected
  | CJob a m r n out =>
      let src := map Z.of_nat (seq 0 (Z.to_nat n)) in
      list_eqb Z.eqb out (flat_map (fun v => repeat v (Z.to_nat r))
                           (filter (fun v => negb (Z.eqb (Z.modulo v m) 0)) (map (fun v => v + a) src)))
  | CZoo ops input out0 =>
      (* behaves like the iterator chain: same values, same order; every control element of
         the input (watermarks aside, which add/drop_timestamps create / remove) is forwarded
         once, in place *)
      let out := strip_fb out0 in
      list_eqb Z.eqb (payloads out) (zoo_spec ops (payloads input)) &&
      list_eqb (elem_eqb (fun _ _ => true))
        (filter (fun e => match e with FAR | Terminate => true | _ => false end) out)
        (filter (fun e => match e with FAR | Terminate => true | _ => false end) input)
  end.

Definition known_class (c : case) : N := 0%N.
Definition report (cs : list case) := classify corr_ok prop_ok known_class cs.

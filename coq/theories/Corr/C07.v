(** Correspondence and property evaluation for C07 (aggregations).
    Every case drives a real chain that begins with the real `Start` fed by n upstream
    replicas (so the partitioning of the input over replicas and the arrival interleaving
    are inputs of the case):
      CFold      : `.fold(vec![], push)`                 = Start -> Fold
      CKeyed     : `.group_by(v mod m).fold(vec![], push)` = Start -> KeyBy -> KeyedFold
      CGlobalSum : second phase of `.group_by_fold(k, 0, +=, +=)` = Start -> KeyedFold,
                   fed with (key, partial sum) pairs as the first phase emits them
      CRich      : `.key_by(v mod m).rich_map(per-key running count)` (single block)
    Collected vectors are compared as multisets (sorted): the order of a collecting fold
    is the arrival order, which is not part of the claim. *)
From Noir Require Import Base.Elem Model.Start Model.Ops Corr.Canon.
From Coq Require Import NArith.
Open Scope Z_scope.

Inductive case :=
| CFold (n : nat) (batches : list (nat * list (elem Z))) (out : list (elem (list Z)))
| CKeyed (n : nat) (m : Z) (batches : list (nat * list (elem Z))) (out : list (elem (Z * list Z)))
| CGlobalSum (n : nat) (batches : list (nat * list (elem (Z * Z)))) (out : list (elem (Z * Z)))
| CRich (m : Z) (input : list (elem Z)) (out : list (elem (Z * (Z * Z))))
(* a whole job through ONE aggregation entry point of the public API (form), on local(par),
   observed through one kind of sink; data = (key, value) pairs, out sorted by the harness *)
| CAggJob (form sink : N) (par : Z) (data : list (Z * Z)) (out : list (Z * Z)).

Definition push (b : list Z) (x : Z) : list Z := b ++ [x].

Definition start_out {A} (n : nat) (bs : list (nat * list (elem A))) : list (elem A) :=
  run (start_machine A n) (flatten_batches bs).

Fixpoint zinsert (x : Z) (l : list Z) : list Z :=
  match l with [] => [x] | y :: l' => if x <? y then x :: l else y :: zinsert x l' end.
Definition zsort (l : list Z) : list Z := fold_right zinsert [] l.

(** canonical forms *)
Definition canon_fold (l : list (elem (list Z))) : list (elem (list Z)) := map (emap zsort) (strip_fb l).
Definition canon_keyed_coll (l : list (elem (Z * list Z))) : list (elem (Z * list Z)) :=
  canon_keyed (map (emap (fun kv => (fst kv, zsort (snd kv)))) (strip_fb l)).

Definition key_mod (m v : Z) : Z := Z.modulo v m.
(** the per-key stateful closure used for rich_map: a running count; output (value, count) *)
Definition rich_f (s : Z) (_ : Z) (v : Z) : Z * (Z * Z) := (s + 1, (v, s + 1)).

Definition corr_ok (c : case) : bool :=
  match c with
  | CFold n bs out =>
      list_eqb (elem_eqb (list_eqb Z.eqb))
        (canon_fold (run (fold_machine [] push) (start_out n bs))) (canon_fold out)
  | CKeyed n m bs out =>
      list_eqb (elem_eqb (pair_eqb Z.eqb (list_eqb Z.eqb)))
        (canon_keyed_coll (run (kfold_machine [] push) (run (key_by_machine (key_mod m)) (start_out n bs))))
        (canon_keyed_coll out)
  | CGlobalSum n bs out =>
      list_eqb (elem_eqb (pair_eqb Z.eqb Z.eqb))
        (canon_keyed (strip_fb (run (kfold_machine 0 Z.add) (start_out n bs))))
        (canon_keyed (strip_fb out))
  | CRich m input out =>
      list_eqb (elem_eqb (pair_eqb Z.eqb (pair_eqb Z.eqb Z.eqb)))
        (run (rich_map_machine 0 rich_f) (run (key_by_machine (key_mod m)) input)) out
  | CAggJob _ _ _ _ _ => true   (* whole job: the sequential meaning is the specification, see prop_ok *)
  end.

(** ---- the property on the implementation output, from the delivered input alone ---- *)
(** data of round r delivered by all senders (a sender's r-th round = between its (r-1)-th
    and r-th FAR) *)
Fixpoint sender_rounds {A} (cur : list (elem A)) (l : list (elem A)) : list (list (elem A)) :=
  match l with
  | [] => [rev cur]
  | FAR :: l' => rev cur :: sender_rounds [] l'
  | e :: l' => sender_rounds (e :: cur) l'
  end.
Definition per_sender {A} (n : nat) (bs : list (nat * list (elem A))) : list (list (list (elem A))) :=
  map (fun s => sender_rounds [] (flat_map (fun b => if Nat.eqb (fst b) s then snd b else []) bs)) (seq 0 n).
Definition round_data {A} (n : nat) (bs : list (nat * list (elem A))) (r : nat) : list (elem A) :=
  flat_map (fun rs => filter is_data (nth r rs [])) (per_sender n bs).
Definition nrounds {A} (bs : list (nat * list (elem A))) (n : nat) : nat :=
  Nat.div (length (filter (fun e => match e with FAR => true | _ => false end) (flat_map snd bs))) (Nat.max n 1).

Definition max_ts {A} (l : list (elem A)) : option Z :=
  fold_left (fun acc e => match ts_of e with Some t => omax acc (Some t) | None => acc end) l None.

(** results of output round r *)
Definition out_round {B} (out : list (elem B)) (r : nat) : list (elem B) :=
  filter is_data (nth r (rounds (strip_fb out)) []).

Definition fold_round_ok (din : list (elem Z)) (dout : list (elem (list Z))) : bool :=
  match din, dout with
  | [], [] => true                                        (* empty input: no result *)
  | _ :: _, [res] =>                                      (* exactly one result *)
      match payload res with
      | Some vs => list_eqb Z.eqb (zsort vs) (zsort (payloads din))
      | None => false end
      && option_eqb Z.eqb (ts_of res) (max_ts din)        (* stamped with the maximum timestamp *)
  | _, _ => false
  end.

Definition keyed_round_ok (key : Z -> Z) (din : list (elem Z)) (dout : list (elem (Z * list Z))) : bool :=
  let keys := dedup_Z (map key (payloads din)) in
  (* one result per key that occurs, none for others *)
  Nat.eqb (length dout) (length keys) &&
  forallb (fun k =>
    match filter (fun e => match payload e with Some (k', _) => Z.eqb k k' | None => false end) dout with
    | [res] =>
        let mine := filter (fun e => match payload e with Some v => Z.eqb (key v) k | None => false end) din in
        match payload res with
        | Some (_, vs) => list_eqb Z.eqb (zsort vs) (zsort (payloads mine))
        | None => false end
        && option_eqb Z.eqb (ts_of res) (max_ts mine)
    | _ => false
    end) keys.

Definition sum_round_ok (din : list (elem (Z * Z))) (dout : list (elem (Z * Z))) : bool :=
  let keys := dedup_Z (map fst (payloads din)) in
  Nat.eqb (length dout) (length keys) &&
  forallb (fun k =>
    match filter (fun e => match payload e with Some (k', _) => Z.eqb k k' | None => false end) dout with
    | [res] =>
        let mine := filter (fun e => match payload e with Some (k', _) => Z.eqb k' k | None => false end) din in
        match payload res with
        | Some (_, s) => Z.eqb s (fold_left Z.add (map snd (payloads mine)) 0)
        | None => false end
        && option_eqb Z.eqb (ts_of res) (max_ts mine)
    | _ => false
    end) keys.

(** ** sequential meaning of the aggregation entry points (whole jobs) *)
Definition vals_for (k : Z) (d : list (Z * Z)) : list Z :=
  map snd (filter (fun p => Z.eqb (fst p) k) d).
Definition zsum (l : list Z) : Z := fold_left Z.add l 0.
Definition zmax (l : list Z) : Z := match l with [] => 0 | x :: l' => fold_left Z.max l' x end.
Definition zmin (l : list Z) : Z := match l with [] => 0 | x :: l' => fold_left Z.min l' x end.
Definition agg_spec (form : N) (d : list (Z * Z)) : list (Z * Z) :=
  let keys := sort_by (fun k => k) (dedup_Z (map fst d)) in
  let per (f : list Z -> Z) := map (fun k => (k, f (vals_for k d))) keys in
  let one (f : list Z -> Z) := match d with [] => [] | _ => [(0, f (map snd d))] end in
  match form with
  | 0%N | 1%N => one zsum                 (* fold, fold_assoc *)
  | 2%N | 3%N => one zmax                 (* reduce, reduce_assoc *)
  | 4%N | 6%N | 8%N | 11%N => per zsum        (* group_by_fold, group_by_sum, group_by_avg x count, group_by().fold *)
  | 5%N | 10%N => per zmax                (* group_by_reduce, group_by_max_element *)
  | 7%N => per (fun l => Z.of_nat (length l))   (* group_by_count *)
  | 9%N | 12%N => per zmin                (* group_by_min_element, group_by().reduce *)
  | _ => map (fun v => (0, v)) (sort_by (fun v => v) (dedup_Z (map snd d)))   (* unique_assoc *)
  end.
Definition agg_job_ok (form sink : N) (d out : list (Z * Z)) : bool :=
  if N.eqb sink 4 then   (* collect_count: the sink yields the NUMBER of results *)
    list_eqb (pair_eqb Z.eqb Z.eqb) out [(0, Z.of_nat (length (agg_spec form d)))]
  else list_eqb (pair_eqb Z.eqb Z.eqb) out (agg_spec form d).

Definition prop_ok (c : case) : bool :=
  match c with
  | CFold n bs out =>
      forallb (fun r => fold_round_ok (round_data n bs r) (out_round out r)) (seq 0 (nrounds bs n))
      && Nat.eqb (length (rounds (strip_fb out))) (S (nrounds bs n))
  | CKeyed n m bs out =>
      forallb (fun r => keyed_round_ok (key_mod m) (round_data n bs r) (out_round out r)) (seq 0 (nrounds bs n))
      && Nat.eqb (length (rounds (strip_fb out))) (S (nrounds bs n))
  | CGlobalSum n bs out =>
      forallb (fun r => sum_round_ok (round_data n bs r) (out_round out r)) (seq 0 (nrounds bs n))
      && Nat.eqb (length (rounds (strip_fb out))) (S (nrounds bs n))
  | CRich m input out =>
      (* the output for key k depends only on k's subsequence: the i-th element of key k
         is paired with i *)
      let keys := dedup_Z (map (key_mod m) (payloads input)) in
      forallb (fun k =>
        let mine := filter (fun v => Z.eqb (key_mod m v) k) (payloads input) in
        let got := flat_map (fun e => match payload e with
                                      | Some (k', vc) => if Z.eqb k k' then [vc] else []
                                      | None => [] end) out in
        list_eqb (pair_eqb Z.eqb Z.eqb) got (combine mine (map Z.of_nat (seq 1 (length mine))))) keys
  | CAggJob form sink _ d out => agg_job_ok form sink d out
  end.

Definition known_class (c : case) : N := 0%N.
Definition report (cs : list case) := classify corr_ok prop_ok known_class cs.

(** Shared case type for the producer side of links (C02, C03, C09, C18): the real `End`
    operator (with its `Batcher`s) closes a scripted chain and sends to hand-made downstream
    replicas of one or more blocks; the case records, per downstream block and replica, the
    batches that arrived, in order. *)
From Noir Require Export Base.Elem Model.End Corr.Canon.
From Coq Require Export NArith.
Open Scope Z_scope.

Record lcase := {
  l_strategy : strategy;
  l_mode : batch_mode;
  l_blocks : list nat;                          (* replicas of each downstream block *)
  l_input : list (elem Z * N);                  (* element and, for data, group_by_hash(value) *)
  l_recv : list (list (list (list (elem Z))))   (* per block, per replica: batches in arrival order *)
}.

Definition zel_eqb := elem_eqb Z.eqb.
Definition batches_eqb := list_eqb (list_eqb zel_eqb).

Definition model_out (c : lcase) :=
  run (end_machine (l_strategy c) (l_mode c) (l_blocks c)) (map (fun x => (fst x, snd x, 0%N)) (l_input c)).

(** model batches per (block, replica) *)
Definition model_recv (c : lcase) (b r : nat) : list (list (elem Z)) :=
  flat_map (fun '(b', r', batch) => if Nat.eqb b b' && Nat.eqb r r' then [batch] else []) (model_out c).

Definition impl_recv (c : lcase) (b r : nat) : list (list (elem Z)) := nth r (nth b (l_recv c) []) [].

Definition all_receivers (c : lcase) : list (nat * nat) :=
  flat_map (fun '(b, n) => map (fun r => (b, r)) (seq 0 n)) (combine (seq 0 (length (l_blocks c))) (l_blocks c)).

(** exact correspondence (batch boundaries included); for the random strategy the receiving
    replica is not predictable, so only the shape of the correspondence is checked there *)
Definition link_corr_ok (c : lcase) : bool :=
  match l_strategy c with
  | SRandom => true
  | _ => forallb (fun '(b, r) => batches_eqb (model_recv c b r) (impl_recv c b r)) (all_receivers c)
  end.

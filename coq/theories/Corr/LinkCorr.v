(** Shared case type for the producer side of links (C02, C03, C09, C18): the real `End`
    operator (with its `Batcher`s) closes a scripted chain and sends to hand-made downstream
    replicas of one or more blocks; the case records, per downstream block and replica, the
    batches that arrived, in order, and the readings of the (mock) clock the batchers saw:
    at setup and while each pulled element was processed (only `Adaptive` looks at them). *)
From Noir Require Export Base.Elem Model.End Corr.Canon.
From Coq Require Export NArith.
Open Scope Z_scope.

Record lcase := {
  l_strategy : strategy;
  l_mode : batch_mode;
  l_blocks : list nat;                          (* replicas of each downstream block *)
  l_input : list (elem Z * N);                  (* element and, for data, group_by_hash(value) *)
  l_recv : list (list (list (list (elem Z))));  (* per block, per replica: batches in arrival order *)
  l_t0 : N;                                     (* mock clock (ms) when `End::setup` created the batchers *)
  l_times : list N                              (* mock clock (ms) while End processed the k-th pulled
                                                   element; length l_times = length l_input; no reading
                                                   is exactly max_delay after a batcher's last_send
                                                   (tick rounding of coarsetime, see Model/End.v) *)
}.

Definition zel_eqb := elem_eqb Z.eqb.
Definition batches_eqb := list_eqb (list_eqb zel_eqb).

(** the clock of the case: the k-th recorded reading *)
Definition case_clock (c : lcase) (k : nat) : N := nth k (l_times c) 0%N.

Definition model_out (c : lcase) :=
  run (end_machine (case_clock c) (l_t0 c) (l_strategy c) (l_mode c) (l_blocks c))
      (map (fun x => (fst x, snd x, 0%N)) (l_input c)).

(** model batches per (block, replica) *)
Definition model_recv (c : lcase) (b r : nat) : list (list (elem Z)) :=
  flat_map (fun '(b', r', batch) => if Nat.eqb b b' && Nat.eqb r r' then [batch] else []) (model_out c).

Definition impl_recv (c : lcase) (b r : nat) : list (list (elem Z)) := nth r (nth b (l_recv c) []) [].

Definition all_receivers (c : lcase) : list (nat * nat) :=
  flat_map (fun '(b, n) => map (fun r => (b, r)) (seq 0 n)) (combine (seq 0 (length (l_blocks c))) (l_blocks c)).

(** exact correspondence (batch boundaries included); for the random strategy the receiving
    replica is not predictable, so only the shape of the correspondence is checked there *)
Definition link_corr_ok (c : lcase) : bool :=
  match l_strategy c with
  | SRandom => true
  | _ => forallb (fun '(b, r) => batches_eqb (model_recv c b r) (impl_recv c b r)) (all_receivers c)
  end.

(** the constructor takes the clock readings last: [Build_lcase strategy mode blocks input recv
    t0 times]. `Adaptive(3, 10ms)`, created at 0 ms, elements pulled at 0, 5, 20, 21, 40 ms:
    [1;2;3] is cut by the size, [4;5] by the delay (40 - 20 > 10); with the same input and
    readings `Fixed(3)` keeps [4;5] until Terminate. *)
Example lcase_adaptive_example :
  link_corr_ok (Build_lcase SOnlyOne (BAdaptive 3 10) [1%nat]
    [(Item 1, 0%N); (Item 2, 0%N); (Item 3, 0%N); (Item 4, 0%N); (Item 5, 0%N)]
    [[[[Item 1; Item 2; Item 3]; [Item 4; Item 5]]]] 0%N [0; 5; 20; 21; 40]%N) = true /\
  link_corr_ok (Build_lcase SOnlyOne (BAdaptive 3 10) [1%nat]
    [(Item 1, 0%N); (Item 2, 0%N); (Item 3, 0%N); (Item 4, 0%N); (Item 5, 0%N)]
    [[[[Item 1; Item 2; Item 3]]]] 0%N [0; 5; 20; 21; 40]%N) = false.
Proof. vm_compute. split; reflexivity. Qed.

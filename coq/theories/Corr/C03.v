(** Correspondence and property evaluation for C03 (connection kinds route to the promised
    replicas), on the real `End` operator. *)
From Noir Require Import Corr.LinkCorr.
From Noir Require Model.Sched Corr.C19.
Open Scope Z_scope.

Definition corr_ok_link := link_corr_ok.

Definition data_in (c : lcase) : list (elem Z * N) := filter (fun x => is_data (fst x)) (l_input c).
Definition got (c : lcase) (b r : nat) : list (elem Z) := concat (impl_recv c b r).
Definition count_in (e : elem Z) (l : list (elem Z)) : nat := length (filter (zel_eqb e) l).

(** data values are distinct within a case (the harness numbers them), so "how many
    replicas of block b received element e" is well defined *)
Definition receivers_of (c : lcase) (b : nat) (e : elem Z) : list nat :=
  filter (fun r => Nat.ltb 0 (count_in e (got c b r))) (seq 0 (nth b (l_blocks c) 0%nat)).

Definition prop_ok_link (c : lcase) : bool :=
  forallb (fun b =>
    let n := nth b (l_blocks c) 0%nat in
    (* every data element: exactly one replica of the block (every replica for broadcast),
       exactly once *)
    forallb (fun x =>
      let rs := receivers_of c b (fst x) in
      match l_strategy c with
      | SAll => Nat.eqb (length rs) n
      | _ => Nat.eqb (length rs) 1
      end && forallb (fun r => Nat.eqb (count_in (fst x) (got c b r)) 1) rs) (data_in c) &&
    (* group-by: the replica depends only on the key (equal hash => same replica) *)
    match l_strategy c with
    | SGroupBy =>
        forallb (fun x => forallb (fun y =>
          negb (N.eqb (snd x) (snd y)) ||
          list_eqb Nat.eqb (receivers_of c b (fst x)) (receivers_of c b (fst y))) (data_in c)) (data_in c)
    | SOnlyOne => Nat.eqb n 1 || true
    | _ => true
    end &&
    (* watermarks, end-of-iteration and termination markers reach every connected replica,
       in order *)
    forallb (fun r =>
      list_eqb zel_eqb (filter (fun e => negb (is_data e)) (got c b r))
                       (filter (fun e => negb (is_data e) && negb (is_flush_batch e)) (map fst (l_input c))))
      (seq 0 n) &&
    (* nothing that was not sent *)
    forallb (fun r => forallb (fun e => negb (is_data e) || existsb (fun x => zel_eqb e (fst x)) (l_input c)) (got c b r)) (seq 0 n))
    (seq 0 (length (l_blocks c))).

(** Forward connections are wired by the scheduler, not chosen by `End`: the second kind
    of case is an execution graph derived by the real scheduler (the cases of C19), checked
    against the scheduler model that theorem C03_forward_wiring is about, and — on the
    dumps themselves — for "every producer replica of a forward edge has exactly one
    consumer, the same-index one when it exists". *)
Inductive case :=
| KLink (c : lcase)
| KGraph (c : C19.case)
| KMeet (variant : N) (ldata rdata : list (Z * Z)) (got : list (Z * Z * Z)).

Definition forward_only (c : C19.case) : C19.case :=
  C19.Build_case (C19.c_dep c) (C19.c_blocks c)
    (filter (fun e => Sched.e_forward e && negb (Sched.e_fragile e)) (C19.c_edges c)) (C19.c_dumps c) (C19.c_inter c) (C19.c_expect_fwd c).

(** Third kind: a whole job on the real engine in which two keyed streams over one key space
    are partitioned through two DIFFERENT group-by entry points of the API (left: group_by_count
    / _sum / _fold / _reduce(max) / group_by+fold; right: group_by) and joined by the keyed join,
    whose forward connections rely on equal keys having been sent to the same replica index
    (theorem C03_equal_keys_meet: the replica is a function of the key hash only — provided
    every entry point uses the same hash). Expected: every right element whose key occurs on
    the left, with the left aggregate of its key. *)
Definition meet_agg (variant : N) (vs : list Z) : Z :=
  match variant with
  | 0%N => Z.of_nat (length vs)
  | 3%N => match vs with [] => 0 | v :: vs' => fold_left Z.max vs' v end
  | _ => fold_left Z.add vs 0
  end.
Definition meet_expected (variant : N) (ldata rdata : list (Z * Z)) : list (Z * Z * Z) :=
  flat_map (fun r =>
    match map snd (filter (fun l => Z.eqb (fst l) (fst r)) ldata) with
    | [] => []
    | vs => [(fst r, meet_agg variant vs, snd r)]
    end) rdata.
Definition triple_key (t : Z * Z * Z) : Z := fst (fst t) * 1000003 + snd t.
Definition meet_ok (variant : N) (ldata rdata : list (Z * Z)) (got : list (Z * Z * Z)) : bool :=
  list_eqb (fun a b => Z.eqb (fst (fst a)) (fst (fst b)) && Z.eqb (snd (fst a)) (snd (fst b)) && Z.eqb (snd a) (snd b))
           (sort_by triple_key got) (sort_by triple_key (meet_expected variant ldata rdata)).

Definition corr_ok (c : case) : bool :=
  match c with KLink x => corr_ok_link x | KGraph x => C19.corr_ok x
  | KMeet v l r got => meet_ok v l r got end.
Definition prop_ok (c : case) : bool :=
  match c with
  | KLink x => prop_ok_link x
  | KGraph x => C19.expected_forward_ok x && forallb (fun d => C19.links_ok (forward_only x) d) (C19.c_dumps x)
  | KMeet v l r got => meet_ok v l r got
  end.

Definition known_class (c : case) : N := 0%N.
Definition report (cs : list case) := classify corr_ok prop_ok known_class cs.

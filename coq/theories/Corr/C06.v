(** Correspondence and property evaluation for C06 (watermark safety). The cases are those
    of the component checks (real Start, fold / keyed fold, count windows, event-time
    windows, reorder, flat_map chains); the property evaluated on the component's OUTPUT is
    [wm_safe]: within an iteration, after Watermark(t) no element with timestamp <= t and no
    watermark <= t — whenever the component's inputs respect the same contract. *)
From Noir Require Import Base.Elem Model.Start Proofs.StartSpec Corr.Canon.
From Noir Require Corr.C17 Corr.C07 Corr.C12 Corr.C13 Corr.C16 Corr.C09 Corr.ZooCorr.
From Noir Require Import Model.BinaryStart Corr.BinCorr.
From Coq Require Import NArith.
Open Scope Z_scope.

Inductive case :=
| KStart (c : C17.case)
| KAgg (c : C07.case)
| KCount (c : C12.case)
| KEvent (c : C13.case)
| KReorder (c : C16.case)
| KFan (c : C09.case).    (* zip / merge behind the two-input Start: the input of the operator is the model's Start output *)

Definition corr_ok (c : case) : bool :=
  match c with
  | KStart x => C17.corr_ok x | KAgg x => C07.corr_ok x | KCount x => C12.corr_ok x
  | KEvent x => C13.corr_ok x | KReorder x => C16.corr_ok x
  | KFan x => C09.corr_ok x
  end.

Definition senders_safe {A} (n : nat) (bs : list (nat * list (elem A))) : bool :=
  let arr := flatten_batches bs in
  forallb (fun s => wm_safe (from_sender s arr)) (seq 0 n) && round_sync n arr.

Definition prop_ok (c : case) : bool :=
  match c with
  | KStart x =>
      if senders_safe (C17.c_n x) (C17.c_batches x) then wm_safe (strip_fb (C17.c_out x)) else true
  | KAgg x =>
      match x with
      | C07.CFold n bs out => if senders_safe n bs then wm_safe (strip_fb out) else true
      | C07.CKeyed n _ bs out => if senders_safe n bs then wm_safe (strip_fb out) else true
      | C07.CGlobalSum n bs out => if senders_safe n bs then wm_safe (strip_fb out) else true
      | C07.CRich _ input out => if wm_safe input then wm_safe (strip_fb out) else true
      | C07.CAggJob _ _ _ _ _ => true
      end
  | KCount x => if wm_safe (strip_fb (C12.c_in x)) then wm_safe (strip_fb (C12.c_out x)) else true
  | KEvent x =>
      match x with
      | C13.CEvent _ _ input out => if wm_safe (strip_fb input) then wm_safe (strip_fb out) else true
      | C13.CTxn input out => true    (* transaction results carry no timestamp *)
      end
  | KReorder x =>
      match x with
      | C16.CReorder input out => if wm_safe (strip_fb input) then wm_safe (strip_fb out) else true
      | C16.CSeq _ _ _ bs out => if senders_safe 1 bs then wm_safe (strip_fb out) else true
      | C16.CJob _ _ _ _ _ => true
      | C16.CZoo ops input out =>
          (* add_timestamps makes the contract the user's; every other chain must preserve it *)
          if wm_safe (strip_fb input) && negb (ZooCorr.has_add_ts ops) then wm_safe (strip_fb out) else true
      end
  | KFan x =>
      match x with
      | C09.CZip nl nr dels out => if wm_safe (brun nl nr false false dels) then wm_safe (strip_fb out) else true
      | C09.CMerge nl nr dels out => if wm_safe (brun nl nr false false dels) then wm_safe (strip_fb out) else true
      | _ => true
      end
  end.

(** known finding F6 (class 1): a count window in non-exact mode flushes its partial group at
    the end of the round with the maximum timestamp of its elements, although later
    watermarks have already been forwarded *)
Definition known_class (c : case) : N :=
  match c with
  | KCount x => if C12.c_exact x then 0%N else 1%N
  | _ => 0%N
  end.

Definition report (cs : list case) := classify corr_ok prop_ok known_class cs.

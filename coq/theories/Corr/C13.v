(** Correspondence and property evaluation for C13 (event-time and transaction windows).
    Chain under test: `key_by(fst).window(EventTimeWindow::sliding(size, slide)).fold(vec![], push)`
    (resp. `TransactionWindow::new(logic)`). Values encode their own timestamp:
    value = ts * 1000 + sequence number, so that a result can be checked on its own. *)
From Noir Require Import Base.Elem Model.WinCount Model.WindowOp Model.WinEvent Corr.Canon.
From Coq Require Import NArith.
Open Scope Z_scope.

Inductive case :=
| CEvent (size slide : Z) (input : list (elem (Z * Z))) (out : list (elem (Z * list Z)))
| CTxn (input : list (elem (Z * Z))) (out : list (elem (Z * list Z))).

Definition acc0 : list Z := [].
Definition proc (b : list Z) (x : Z) : list Z := b ++ [x].
Definition outf (b : list Z) : list Z := b.

(** the transaction logic used by the harness: decided by the value's sequence digit *)
Definition logic (v : Z) : txop :=
  match Z.modulo v 4 with
  | 1 => TxCommit
  | 2 => TxCommitAfter (Z.div v 1000 + 2)
  | 3 => TxDiscard
  | _ => TxContinue
  end.

Definition out_eqb := list_eqb (elem_eqb (pair_eqb Z.eqb (list_eqb Z.eqb))).

Definition model_out (c : case) : list (elem (Z * list Z)) :=
  match c with
  | CEvent size slide input _ => run (wop_machine (et_mgr acc0 proc outf size slide)) input
  | CTxn input _ => run (wop_machine (tx_mgr acc0 proc outf logic)) input
  end.
Definition impl_out (c : case) := match c with CEvent _ _ _ o | CTxn _ o => o end.
Definition corr_ok (c : case) : bool :=
  out_eqb (canon_keyed (strip_fb (model_out c))) (canon_keyed (strip_fb (impl_out c))).

(** ---- the property on the implementation output ---- *)
Definition ts_of_val (v : Z) : Z := Z.div v 1000.

(** (a) every result is built from one key's elements inside one interval [end-size, end) *)
Definition interval_ok (size : Z) (e : elem (Z * list Z)) : bool :=
  match e with
  | Tst (_, vs) en => forallb (fun v => (en - size <=? ts_of_val v) && (ts_of_val v <? en)) vs
                      && negb (match vs with [] => true | _ => false end)
  | Item _ => false        (* event-time results are always timestamped *)
  | _ => true
  end.
Definition key_consistent (input : list (elem (Z * Z))) (e : elem (Z * list Z)) : bool :=
  match e with
  | Tst (k, vs) _ | Item (k, vs) =>
      forallb (fun v => existsb (fun i => match i with
                                         | Tst (k', v') _ | Item (k', v') => Z.eqb k k' && Z.eqb v v'
                                         | _ => false end) input) vs
  | _ => true
  end.

(** (b) how many results contain a given input value *)
Definition occurrences (v : Z) (k : Z) (out : list (elem (Z * list Z))) : nat :=
  length (filter (fun e => match e with
                           | Tst (k', vs) _ | Item (k', vs) => Z.eqb k k' && existsb (Z.eqb v) vs
                           | _ => false end) out).

(** (c) fire time: scanning a round, [pending] = ends of results seen since the last
    control element; a watermark w that arrives must satisfy w >= every pending end
    (not earlier than a watermark reaching the end), and a result with end e may not come
    after a watermark w > e of the same round (not later than the first one beyond it) *)
Fixpoint fire_ok (maxwm : option Z) (pending : list Z) (l : list (elem (Z * list Z))) : bool :=
  match l with
  | [] => true
  | Tst _ en :: l' =>
      match maxwm with Some w => (w <=? en) | None => true end && fire_ok maxwm (en :: pending) l'
  | Wm w :: l' => forallb (fun en => en <=? w) pending && fire_ok (Some w) [] l'
  | FAR :: l' => fire_ok None [] l'
  | Terminate :: l' => fire_ok None [] l'
  | _ :: l' => fire_ok maxwm pending l'
  end.

(** elements the model of the *current* code drops: known finding F4 — the element is older
    than every slot of its key (its timestamp is below the key's first-seen timestamp) *)
Definition in_some_result (input : list (elem (Z * Z))) (mo : list (elem (Z * list Z))) : bool :=
  forallb (fun i => match i with
                    | Tst (k, v) _ => Nat.leb 1 (occurrences v k mo)
                    | _ => true end) input.

Definition ceil_div (a b : Z) : Z := (a + b - 1) / b.

(** transaction windows: the committed segments of one key's stream, read off the user
    logic directly (Commit closes including the element, CommitAfter t closes at the first
    watermark beyond t or at the end of the round, Discard drops the open segment) *)
Fixpoint tx_expected (cur : list Z) (close : option Z) (l : list (elem Z)) : list (list Z) :=
  match l with
  | [] => []
  | Tst v _ :: l' =>
      let cur1 := cur ++ [v] in
      match logic v with
      | TxCommit => cur1 :: tx_expected [] None l'
      | TxCommitAfter t => tx_expected cur1 (Some t) l'
      | TxDiscard => tx_expected [] None l'
      | TxContinue => tx_expected cur1 close l'
      end
  | Wm w :: l' =>
      match close with
      | Some c => if c <? w then cur :: tx_expected [] None l' else tx_expected cur close l'
      | None => tx_expected cur close l'
      end
  | FAR :: l' | Terminate :: l' =>
      match close with
      | Some _ => cur :: tx_expected [] None l'
      | None => tx_expected cur close l'
      end
  | _ :: l' => tx_expected cur close l'
  end.
Definition keys_of (l : list (elem (Z * Z))) : list Z :=
  dedup_Z (flat_map (fun e => match key_of e with Some k => [k] | None => [] end) l).

Definition prop_ok (c : case) : bool :=
  match c with
  | CEvent size slide input out0 =>
      let out := strip_fb out0 in
      forallb (interval_ok size) out && forallb (key_consistent input) out &&
      forallb (fun i => match i with
                        | Tst (k, v) _ =>
                            let n := Z.of_nat (occurrences v k out) in
                            (1 <=? n) && (n <=? ceil_div size slide)
                        | _ => true end) input &&
      fire_ok None [] out &&
      list_eqb (elem_eqb (fun _ _ => true)) (controls out) (controls (strip_fb input))
  | CTxn input out0 =>
      let out := strip_fb out0 in
      forallb (key_consistent input) out &&
      (* commits exactly as the logic dictates *)
      forallb (fun k =>
        list_eqb (list_eqb Z.eqb)
          (flat_map (fun e => match payload e with Some vs => [vs] | None => [] end) (proj_out k out))
          (tx_expected [] None (proj_in k (strip_fb input)))) (keys_of input) &&
      list_eqb (elem_eqb (fun _ _ => true)) (controls out) (controls (strip_fb input))
  end.

(** F4 (class 1): the faithful model itself loses an element of an event-time input *)
Definition known_class (c : case) : N :=
  match c with
  | CEvent _ _ input _ => if in_some_result input (model_out c) then 0%N else 1%N
  | CTxn _ _ => 0%N
  end.

Definition report (cs : list case) := classify corr_ok prop_ok known_class cs.

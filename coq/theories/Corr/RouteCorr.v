(** Case type for the router (C09): the real `RoutingEnd` (with its `Batcher`s) closes a
    scripted chain and sends to one hand-made downstream replica per route; the case
    records, per route, the batches that arrived, in order, and the readings of the (mock)
    clock the batchers saw (at setup, and while each pulled element was processed; only
    `Adaptive` looks at them — same convention as Corr/LinkCorr.v). *)
From Noir Require Export Base.Elem Model.End Model.Route Corr.Canon Corr.LinkCorr.
From Coq Require Export NArith.
Open Scope Z_scope.

Record rcase := {
  rc_mode : batch_mode;
  rc_mods : list (Z * Z);                (* route j matches v iff v mod (fst) = snd, in route order;
                                            [mod] is [Z.modulo] (result has the sign of the modulus,
                                            Rust: `rem_euclid` for a positive modulus; Rust's `%`
                                            agrees with it when v >= 0 or when snd = 0) *)
  rc_input : list (elem Z);              (* the elements the chain hands to `RoutingEnd::next` *)
  rc_recv : list (list (list (elem Z))); (* per route: batches in arrival order *)
  rc_t0 : N;                             (* mock clock (ms) when `setup` created the batchers *)
  rc_times : list N                      (* mock clock (ms) while the k-th pulled element was
                                            processed; length rc_times = length rc_input *)
}.

Definition mod_pred (ab : Z * Z) (v : Z) : bool := Z.eqb (Z.modulo v (fst ab)) (snd ab).
Definition rc_preds (c : rcase) : list (Z -> bool) := map mod_pred (rc_mods c).
Definition rcase_clock (c : rcase) (k : nat) : N := nth k (rc_times c) 0%N.

Definition rmodel_out (c : rcase) :=
  run (route_machine (rcase_clock c) (rc_t0 c) (rc_mode c) (rc_preds c)) (rc_input c).

(** the model's batches to route [i], with the exact batch boundaries *)
Definition rmodel_recv (c : rcase) (i : nat) : list (list (elem Z)) := route_batches (rmodel_out c) i.

Definition rimpl_recv (c : rcase) (i : nat) : list (list (elem Z)) := nth i (rc_recv c) [].

Definition all_routes (c : rcase) : list nat := seq 0 (length (rc_mods c)).

(** exact correspondence: one recorded receiver per route, and for every route the model's
    batch list equals the recorded one *)
Definition route_corr_ok (c : rcase) : bool :=
  Nat.eqb (length (rc_recv c)) (length (rc_mods c)) &&
  forallb (fun i => batches_eqb (rmodel_recv c i) (rimpl_recv c i)) (all_routes c).

(** the property itself, checked on the RECORDED batches (the implementation's output): for
    every route, the concatenation of what it received is the sub-sequence of the input
    addressed to it ([routed_to]: first matching route for data, every route for
    Watermark / FlushAndRestart / Terminate), in order. `FlushBatch` is never forwarded; it
    is filtered out of the input explicitly so that the check reads as stated. Meaningful
    for inputs ending with a flushing element (the harness ends them with Terminate). *)
Definition route_prop_ok (c : rcase) : bool :=
  Nat.eqb (length (rc_recv c)) (length (rc_mods c)) &&
  forallb (fun i => list_eqb zel_eqb (concat (rimpl_recv c i))
                      (filter (routed_to (rc_preds c) i)
                              (filter (fun e => negb (is_flush_batch e)) (rc_input c))))
          (all_routes c).

(** the case whose recorded batches are the model's own output *)
Definition rcase_of_model (mode : batch_mode) (mods : list (Z * Z)) (input : list (elem Z))
    (t0 : N) (times : list N) : rcase :=
  let c0 := Build_rcase mode mods input [] t0 times in
  Build_rcase mode mods input (map (rmodel_recv c0) (seq 0 (length mods))) t0 times.

(** three routes (v mod 2 = 0, v mod 3 = 0, v mod 5 = 0), `Fixed(2)`: 6 and 10 go to route 0
    only (first match), 1 and 7 are dropped; the Watermark, the FlushAndRestart and the
    Terminate reach every route; the FlushBatch cuts the pending batches and is not
    forwarded. *)
Definition rcase_example_input : list (elem Z) :=
  [Item 1; Item 2; Item 3; Item 4; Item 5; Wm 7; Item 6; FlushBatch; Item 7; Item 8; Item 9;
   Item 10; FAR; Terminate].

Example rcase_example_batches :
  rc_recv (rcase_of_model (BFixed 2) [(2, 0); (3, 0); (5, 0)] rcase_example_input 0%N [])
  = [ [[Item 2; Item 4]; [Wm 7; Item 6]; [Item 8; Item 10]; [FAR]; [Terminate]];
      [[Item 3; Wm 7]; [Item 9; FAR]; [Terminate]];
      [[Item 5; Wm 7]; [FAR]; [Terminate]] ].
Proof. vm_compute. reflexivity. Qed.

Example rcase_example :
  let c := rcase_of_model (BFixed 2) [(2, 0); (3, 0); (5, 0)] rcase_example_input 0%N [] in
  route_corr_ok c = true /\ route_prop_ok c = true.
Proof. vm_compute. split; reflexivity. Qed.

(** both checks reject a recorded output in which 6 was ALSO delivered to route 1 (v mod 3 = 0) *)
Example rcase_example_rejects :
  let c := Build_rcase (BFixed 2) [(2, 0); (3, 0); (5, 0)] rcase_example_input
    [ [[Item 2; Item 4]; [Wm 7; Item 6]; [Item 8; Item 10]; [FAR]; [Terminate]];
      [[Item 3; Wm 7]; [Item 6]; [Item 9; FAR]; [Terminate]];
      [[Item 5; Wm 7]; [FAR]; [Terminate]] ] 0%N [] in
  route_corr_ok c = false /\ route_prop_ok c = false.
Proof. vm_compute. split; reflexivity. Qed.

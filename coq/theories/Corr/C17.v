(** Correspondence and property evaluation for C17 (watermark progress at a block input).
    A case: n upstream replicas, the batches in the order the driver delivered them to the
    real `Start` (one channel => arrival order = delivery order), and every element the real
    `Start::next` returned up to Terminate. *)
From Noir Require Import Base.Elem Model.Start Proofs.StartSpec Corr.Canon.
From Coq Require Import NArith.
Open Scope Z_scope.

Record case := {
  c_n : nat;
  c_batches : list (nat * list (elem Z));
  c_out : list (elem Z)
}.

Definition arrivals (c : case) := flatten_batches (c_batches c).
Definition out_eqb := list_eqb (elem_eqb Z.eqb).

Definition corr_ok (c : case) : bool :=
  out_eqb (run (start_machine Z (c_n c)) (arrivals c)) (strip_fb (c_out c)).

(** Progress, evaluated on the implementation output against the specification machine
    [ispec_machine] only: split both outputs at the non-watermark elements (which the
    Start forwards one for one); in every segment, each watermark the specification
    requires must have been emitted by the implementation, in order. *)
Fixpoint segments (cur : list Z) (l : list (elem Z)) : list (list Z) :=
  match l with
  | [] => [rev cur]
  | Wm t :: l' => segments (t :: cur) l'
  | _ :: l' => rev cur :: segments [] l'
  end.
Fixpoint subseq (a b : list Z) : bool :=   (* a is a subsequence of b *)
  match a, b with
  | [], _ => true
  | _, [] => false
  | x :: a', y :: b' => if Z.eqb x y then subseq a' b' else subseq a b'
  end.
Fixpoint all2 {X Y} (f : X -> Y -> bool) (a : list X) (b : list Y) : bool :=
  match a, b with
  | [], [] => true
  | x :: a', y :: b' => f x y && all2 f a' b'
  | _, _ => false
  end.
Definition non_wm (l : list (elem Z)) := filter (fun e => match e with Wm _ => false | _ => true end) l.

Definition prop_ok (c : case) : bool :=
  let spec := run (ispec_machine Z (c_n c)) (arrivals c) in
  let got := strip_fb (c_out c) in
  out_eqb (non_wm spec) (non_wm got) && all2 subseq (segments [] spec) (segments [] got).

(** known finding F1 (class 1): the active minimum rises because a replica ends its round *)
Definition known_class (c : case) : N :=
  if far_raises_min (c_n c) (arrivals c) then 1%N else 0%N.

Definition report (cs : list case) := classify corr_ok prop_ok known_class cs.

(** Correspondence and property evaluation for C08 (joins).
    Every case drives the real chain `Start::multiple -> <local join algorithm>` built with
    the public API, with hand-driven upstream replicas on both sides and an explicit
    delivery order (interleaving of the two sides and of their end markers).
    Output tuples are normalised by the harness to (key, (Option left, Option right)). *)
From Noir Require Import Base.Elem Model.Start Model.BinaryStart Model.Ops Model.Joins Corr.BinCorr Corr.Canon.
From Noir Require Model.Pipe Corr.C01.
From Coq Require Import NArith.
Open Scope Z_scope.

Inductive algo := AHash | ASortMerge | AKeyedInner | AKeyedOuter.

Definition jo := (Z * (option Z * option Z))%type.

Inductive case :=
| CJoin (a : algo) (v : variant) (m : Z) (nl nr : nat) (dels : list del) (out : list (elem jo))
    (* key = value mod m on both sides *)
| CInterval (lb ub : Z) (nl nr : nat) (dels : list (@delivery (Z * Z) (Z * Z)))
            (out : list (elem (Z * (Z * Z))))
    (* keyed interval join: elements are (key, value), timestamped *)
| CJoinJob (c : C01.case).
    (* a whole job `left.join(right)` through the API (every variant x hash / broadcast shipping x
       hash / sort-merge) on several deployments: the sink multisets against the relational join *)

Definition key_mod (m x : Z) : Z := Z.modulo x m.

Definition oz_eqb := option_eqb Z.eqb.
Definition jo_eqb (a b : jo) : bool :=
  Z.eqb (fst a) (fst b) && oz_eqb (fst (snd a)) (fst (snd b)) && oz_eqb (snd (snd a)) (snd (snd b)).
Definition jo_key (x : jo) : Z :=
  let enc o := match o with None => 0 | Some z => z + 100000 end in
  (fst x * 1000003 + enc (fst (snd x))) * 1000003 + enc (snd (snd x)).

(** canonical form: the tuples of each round sorted (arrival order decides the emission
    order, which is not part of the claim) *)
Definition canon_round (l : list (elem jo)) : list (list jo) :=
  map (fun r => sort_by jo_key (payloads r)) (rounds (strip_fb l)).
Definition jll_eqb := list_eqb (list_eqb jo_eqb).

Definition lift_inner (e : elem (Z * (Z * Z))) : elem jo :=
  emap (fun x => (fst x, (Some (fst (snd x)), Some (snd (snd x))))) e.

Definition model_join (a : algo) (v : variant) (m : Z) (nl nr : nat) (dels : list del) : list (elem jo) :=
  let inp := brun nl nr false false dels in
  match a with
  | AHash | AKeyedOuter => run (hash_join_machine (key_mod m) (key_mod m) v) inp
  | ASortMerge => run (sort_merge_machine (key_mod m) (key_mod m) v) inp
  | AKeyedInner => map lift_inner (run (kinner_machine (key_mod m) (key_mod m)) inp)
  end.

(** interval join chain: two-input Start -> merge (drop the end markers) -> reorder -> join *)
Definition unmerge (e : elem (bin (Z * Z) (Z * Z))) : list (elem (Z * merged Z Z)) :=
  match e with
  | Item (BL (k, x)) => [Item (k, ML x)] | Item (BR (k, y)) => [Item (k, MR y)]
  | Tst (BL (k, x)) t => [Tst (k, ML x) t] | Tst (BR (k, y)) t => [Tst (k, MR y) t]
  | Item _ | Tst _ _ => []
  | Wm t => [Wm t] | FlushBatch => [FlushBatch] | Terminate => [Terminate] | FAR => [FAR]
  end.
Definition model_interval (lb ub : Z) (nl nr : nat) (dels : list (@delivery (Z * Z) (Z * Z)))
  : list (elem (Z * (Z * Z))) :=
  run (interval_machine lb ub) (run reorder_machine (flat_map unmerge (brun nl nr false false dels))).

Definition zzz_eqb := pair_eqb Z.eqb (pair_eqb Z.eqb Z.eqb).

Definition corr_ok (c : case) : bool :=
  match c with
  | CJoin a v m nl nr dels out => jll_eqb (canon_round (model_join a v m nl nr dels)) (canon_round out)
  | CInterval lb ub nl nr dels out =>
      list_eqb (elem_eqb zzz_eqb) (strip_fb (model_interval lb ub nl nr dels)) (strip_fb out)
  | CJoinJob c => C01.corr_ok c
  end.

(** ---- the property: per round, exactly the relational join of what the two sides delivered ---- *)
Definition side_rounds {X} (left : bool) (dels : list (@delivery X X)) (n : nat) : list (list (elem X)) :=
  (* round r of a side = concatenation over its senders of their r-th round *)
  let per_sender := map (fun s =>
        rounds (flat_map (fun d => match d, left with
                                    | DL s' b, true | DR s' b, false => if Nat.eqb s s' then b else []
                                    | _, _ => [] end) dels)) (seq 0 n) in
  let k := fold_left Nat.max (map (@length _) per_sender) 0%nat in
  map (fun r => flat_map (fun rs => filter is_data (nth r rs [])) per_sender) (seq 0 k).

Definition prop_ok (c : case) : bool :=
  match c with
  | CJoin a v m nl nr dels out =>
      let v' := match a with AKeyedInner => JInner | AKeyedOuter => JOuter | _ => v end in
      let lr := side_rounds true dels nl in
      let rr := side_rounds false dels nr in
      let got := canon_round out in
      forallb (fun r =>
        list_eqb jo_eqb (nth r got [])
          (sort_by jo_key (rel_join (key_mod m) (key_mod m) v' (payloads (nth r lr [])) (payloads (nth r rr [])))))
        (seq 0 (Nat.max (length lr) (length rr)))
  | CInterval lb ub nl nr dels out =>
      let lr := side_rounds true dels nl in
      let rr := side_rounds false dels nr in
      let tsd (l : list (elem (Z * Z))) := flat_map (fun e => match e with Tst (k, x) t => [(t, (k, x))] | _ => [] end) l in
      let key3 (e : elem (Z * (Z * Z))) := match e with
                                           | Tst (k, (x, y)) t => ((k * 1009 + x) * 1000003 + y) * 1009 + t | _ => 0 end in
      let got := map (fun r => sort_by key3 (filter is_data r)) (rounds (strip_fb out)) in
      forallb (fun r =>
        list_eqb (elem_eqb zzz_eqb) (nth r got [])
          (sort_by key3 (interval_spec lb ub (tsd (nth r lr [])) (map (fun p => (fst (snd p), (fst p, snd (snd p)))) (tsd (nth r rr []))))))
        (seq 0 (Nat.max (length lr) (length rr)))
  | CJoinJob c => C01.prop_ok c
  end.

Definition known_class (c : case) : N := 0%N.
Definition report (cs : list case) := classify corr_ok prop_ok known_class cs.

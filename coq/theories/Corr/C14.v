(** Correspondence and property evaluation for C14 (session and processing-time windows).
    Chain: `key_by(fst).window(SessionWindow::new(gap) | ProcessingTimeWindow::sliding(size, slide))
    .fold(vec![], push)` driven with a mocked clock: every element comes with the clock
    reading (milliseconds) the managers see while processing it. *)
From Noir Require Import Base.Elem Model.WinCount Model.WindowOp Model.WinClock Corr.Canon.
From Coq Require Import NArith.
Open Scope Z_scope.

Inductive case :=
| CSession (gap : Z) (input : list (Z * elem (Z * Z))) (out : list (elem (Z * list Z)))
| CProc (size slide : Z) (input : list (Z * elem (Z * Z))) (out : list (elem (Z * list Z))).

Definition acc0 : list Z := [].
Definition proc (b : list Z) (x : Z) : list Z := b ++ [x].
Definition outf (b : list Z) : list Z := b.
Definition out_eqb := list_eqb (elem_eqb (pair_eqb Z.eqb (list_eqb Z.eqb))).

Definition model_out (c : case) : list (elem (Z * list Z)) :=
  match c with
  | CSession gap input _ => run (cop_machine (se_mgr acc0 proc outf gap)) input
  | CProc size slide input _ => run (cop_machine (pt_mgr acc0 proc outf size slide)) input
  end.
Definition impl_out (c : case) := match c with CSession _ _ o | CProc _ _ _ o => o end.
Definition corr_ok (c : case) : bool :=
  out_eqb (canon_keyed (strip_fb (model_out c))) (canon_keyed (strip_fb (impl_out c))).

(** the property, on the implementation output *)
Definition keys_of (l : list (elem (Z * Z))) : list Z :=
  dedup_Z (flat_map (fun e => match key_of e with Some k => [k] | None => [] end) l).
Definition vals_of (k : Z) (l : list (elem (Z * Z))) : list Z := payloads (proj_in k (filter is_data l)).
Definition groups_of (k : Z) (out : list (elem (Z * list Z))) : list (list Z) :=
  flat_map (fun e => match payload e with Some vs => [vs] | None => [] end) (proj_out k out).

(** per key and per round: the results partition the key's elements, keep arrival order
    and none is empty *)
Definition partition_ok (input : list (elem (Z * Z))) (out : list (elem (Z * list Z))) : bool :=
  let rin := rounds input in
  let rout := rounds out in
  Nat.eqb (length rin) (length rout) &&
  forallb (fun k =>
    forallb (fun p => list_eqb Z.eqb (concat (groups_of k (snd p))) (vals_of k (fst p))
                      && forallb (fun g => negb (match g with [] => true | _ => false end)) (groups_of k (snd p)))
            (combine rin rout)) (keys_of input).

Definition occurrences (v : Z) (gs : list (list Z)) : Z :=
  Z.of_nat (length (filter (fun g => existsb (Z.eqb v) g) gs)).
Definition ceil_div (a b : Z) : Z := (a + b - 1) / b.

(** sliding: each element between once and ceil(size/slide) times, within its own round *)
Definition cover_ok (size slide : Z) (input : list (elem (Z * Z))) (out : list (elem (Z * list Z))) : bool :=
  let rin := rounds input in
  let rout := rounds out in
  Nat.eqb (length rin) (length rout) &&
  forallb (fun k =>
    forallb (fun p => forallb (fun v => let n := occurrences v (groups_of k (snd p)) in
                                        (1 <=? n) && (n <=? ceil_div size slide)) (vals_of k (fst p))
                      && forallb (fun g => forallb (fun v => existsb (Z.eqb v) (vals_of k (fst p))) g
                                          && negb (match g with [] => true | _ => false end))
                                 (groups_of k (snd p)))
            (combine rin rout)) (keys_of input).

Definition prop_ok (c : case) : bool :=
  match c with
  | CSession _ input out0 => partition_ok (strip_fb (map snd input)) (strip_fb out0)
  | CProc size slide input out0 =>
      if Z.eqb size slide then partition_ok (strip_fb (map snd input)) (strip_fb out0)
      else cover_ok size slide (strip_fb (map snd input)) (strip_fb out0)
  end.

Definition known_class (c : case) : N := 0%N.
Definition report (cs : list case) := classify corr_ok prop_ok known_class cs.

(** Correspondence and property evaluation for C11 (side inputs of a loop are replayed
    completely and identically every round). A case drives the real two-input `Start`
    with one cached side (the side input, produced once) and the loop side (one stream of
    several rounds), with explicit delivery order. *)
From Noir Require Import Corr.BinCorr Proofs.BinSpec.
From Coq Require Import NArith.
Open Scope Z_scope.

Record case := {
  c_nl : nat; c_nr : nat; c_lc : bool; c_rc : bool;
  c_dels : list del;
  c_out : list (elem bz)
}.

Definition corr_ok (c : case) : bool :=
  bout_eqb (brun (c_nl c) (c_nr c) (c_lc c) (c_rc c) (c_dels c)) (strip_fb (c_out c)).

(** the property, evaluated on the implementation's output only ([c11_pred], Proofs/BinSpec.v) *)
Definition prop_ok (c : case) : bool :=
  c11_pred (c_nl c) (c_nr c) (c_lc c) (c_rc c) (c_dels c) (c_out c).

(** known finding F10 (class 1): a cached side and two or more replicas on the loop side *)
Definition known_class (c : case) : N :=
  if (c_lc c && Nat.leb 2 (c_nr c)) || (c_rc c && Nat.leb 2 (c_nl c)) then 1%N else 0%N.

Definition report (cs : list case) := classify corr_ok prop_ok known_class cs.

(** Correspondence and property evaluation for C11 (side inputs of a loop are replayed
    completely and identically every round). A case drives the real two-input `Start`
    with one cached side (the side input, produced once) and the loop side (one stream of
    several rounds), with explicit delivery order. *)
From Noir Require Import Corr.BinCorr Proofs.BinSpec.
From Coq Require Import NArith.
Open Scope Z_scope.

Record case := {
  c_nl : nat; c_nr : nat; c_lc : bool; c_rc : bool;
  c_dels : list del;
  c_out : list (elem bz)
}.

Definition corr_ok (c : case) : bool :=
  bout_eqb (brun (c_nl c) (c_nr c) (c_lc c) (c_rc c) (c_dels c)) (strip_fb (c_out c)).

(** the property, evaluated on the implementation's output only ([c11_pred], Proofs/BinSpec.v) *)
Definition prop_ok (c : case) : bool :=
  c11_pred (c_nl c) (c_nr c) (c_lc c) (c_rc c) (c_dels c) (c_out c).

(** F10 (cached side and >= 2 loop-side replicas: extra replay after the last round) was
    repaired by a `fix:` commit; no known class is left for this property *)
Definition known_class (c : case) : N := 0%N.

(** Second kind of case (whole job on `local(1)`, where every order is fixed): a `replay` loop
    of [rounds] rounds over the stream 1..n whose body zips the loop stream with a SIDE INPUT
    100..100+m-1 defined outside the loop and adds `a * 1000 + b` of every pair to the state.
    The side input must be presented completely, once and identically in every round: the
    pairs of every round are (i, 100 + i - 1) for i = 1..min(n, m). *)
Inductive xcase :=
| XBin (c : case)
| XZipLoop (n m rounds : Z) (final_state : option Z).

Definition zip_loop_expected (n m rounds : Z) : Z :=
  let k := Z.to_nat (Z.min n m) in
  Z.max rounds 1 * fold_left Z.add (map (fun i => (Z.of_nat i + 1) * 1000 + (100 + Z.of_nat i)) (seq 0 k)) 0.
Definition zip_loop_ok (n m rounds : Z) (st : option Z) : bool :=
  match st with Some v => Z.eqb v (zip_loop_expected n m rounds) | None => false end.

Definition xcorr_ok (c : xcase) : bool :=
  match c with XBin x => corr_ok x | XZipLoop n m r st => zip_loop_ok n m r st end.
Definition xprop_ok (c : xcase) : bool :=
  match c with XBin x => prop_ok x | XZipLoop n m r st => zip_loop_ok n m r st end.
Definition xknown_class (c : xcase) : N := 0%N.

Definition report (cs : list xcase) := classify xcorr_ok xprop_ok xknown_class cs.

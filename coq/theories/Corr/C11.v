(** Correspondence and property evaluation for C11 (side inputs of a loop are replayed
    completely and identically every round). A case drives the real two-input `Start`
    with one cached side (the side input, produced once) and the loop side (one stream of
    several rounds), with explicit delivery order. *)
From Noir Require Import Corr.BinCorr Proofs.BinSpec.
From Coq Require Import NArith.
Open Scope Z_scope.

Record case := {
  c_nl : nat; c_nr : nat; c_lc : bool; c_rc : bool;
  c_dels : list del;
  c_out : list (elem bz)
}.

Definition corr_ok (c : case) : bool :=
  bout_eqb (brun (c_nl c) (c_nr c) (c_lc c) (c_rc c) (c_dels c)) (strip_fb (c_out c)).

(** the property, evaluated on the implementation's output only ([c11_pred], Proofs/BinSpec.v) *)
Definition prop_ok (c : case) : bool :=
  c11_pred (c_nl c) (c_nr c) (c_lc c) (c_rc c) (c_dels c) (c_out c).

(** F10 (cached side and >= 2 loop-side replicas: extra replay after the last round) was
    repaired by a `fix:` commit; no known class is left for this property *)
Definition known_class (c : case) : N := 0%N.

Definition report (cs : list case) := classify corr_ok prop_ok known_class cs.

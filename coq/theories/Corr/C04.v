(** Correspondence and property evaluation for C04 (every finite job terminates and every
    sink is completed exactly once): whole jobs on the real engine, biased to what threatens
    termination — inputs larger than the total channel capacity with tiny batches (real
    back-pressure), empty inputs, diamonds, side inputs, loops — under several deployments. A
    run is good when `execute_blocking` returned on every host within the watchdog, exactly
    one host's sink handle held a result, and that result is complete (= the sequential
    meaning; a lost end-of-stream marker shows as a hang, a lost element as a wrong result). *)
From Noir Require Import Model.Pipe Corr.Canon.
From Noir Require Corr.C01.
From Noir Require Import Model.Net Proofs.NetDagProofs Proofs.NetMuxProofs.
From Noir Require Gen.Consts.
From Coq Require Import NArith List Bool Arith.
Import ListNotations.

(** ---- third kind of case: the execution graph of an acyclic one-host job as the real
    scheduler derived it (hook `verif_execution_graph`), turned into a [dag] of
    Proofs/NetDagProofs.v; [dag_okb] of it is the premise of C04_dag_no_deadlock /
    C04_dag_job_terminates, so this ties the theorems' static hypothesis to the code. ---- *)
Record gdump := {
  g_nodes : list (nat * nat);                       (* (block id, replica) sorted by block, replica *)
  g_edges : list (nat * nat);                       (* job graph: (from block, to block) *)
  g_links : list ((nat * nat) * (nat * nat))        (* execution graph: producer replica -> consumer replica *)
}.

Definition pair_eqb (a b : nat * nat) : bool := Nat.eqb (fst a) (fst b) && Nat.eqb (snd a) (snd b).
Fixpoint index_of {X} (eqb : X -> X -> bool) (x : X) (l : list X) : option nat :=
  match l with
  | [] => None
  | y :: l' => if eqb x y then Some 0%nat else option_map S (index_of eqb x l')
  end.

(** one channel per (consumer replica, previous block): consumer node index, previous block *)
Definition g_chans (g : gdump) : list (nat * nat) :=
  flat_map (fun '(i, n) => map (fun e => (i, fst e)) (filter (fun e => Nat.eqb (snd e) (fst n)) (g_edges g)))
           (combine (seq 0 (length (g_nodes g))) (g_nodes g)).
Definition node_idx (g : gdump) (n : nat * nat) : nat :=
  match index_of pair_eqb n (g_nodes g) with Some i => i | None => length (g_nodes g) end.
Definition chan_idx (g : gdump) (cons prev : nat) : nat :=
  match index_of pair_eqb (cons, prev) (g_chans g) with Some i => i | None => length (g_chans g) end.

(** channels a node writes to, in link order *)
Definition g_outs (g : gdump) (i : nat) : list nat :=
  let n := nth i (g_nodes g) (0, 0)%nat in
  map (fun l => chan_idx g (node_idx g (snd l)) (fst n)) (filter (fun l => pair_eqb (fst l) n) (g_links g)).
(** tables computed once per case (the evaluation is call-by-value) *)
Definition outs_table (g : gdump) : list (list nat) := map (g_outs g) (seq 0 (length (g_nodes g))).
Definition nprod_table (g : gdump) (outs : list (list nat)) : list nat :=
  map (fun c => length (filter (fun o => existsb (Nat.eqb c) o) outs)) (seq 0 (length (g_chans g))).

Definition cfg_of (g : gdump) (chans : list (nat * nat)) (outs : list (list nat)) (nprod : list nat) (i : nat) : rcfg :=
  let n := nth i (g_nodes g) (0, 0)%nat in
  let os := map (fun c => (c, c)) (nth i outs []) in
  let cidx := fun prev => match index_of pair_eqb (i, prev) chans with Some c => c | None => length chans end in
  let ins := map (fun e => cidx (fst e)) (filter (fun e => Nat.eqb (snd e) (fst n)) (g_edges g)) in
  {| r_kind := match ins with
               | [] => KSrc
               | [c] => KOp1 c (nth c nprod 0%nat)
               | [l; r] => KOp2 l (nth l nprod 0%nat) r (nth r nprod 0%nat)
               | _ => KDemux 0            (* more than two inputs: not a shape of the engine *)
               end;
     r_outs := os; r_douts := os |}.

Definition dag_of (g : gdump) : dag :=
  let chans := g_chans g in
  let outs := outs_table g in
  let nprod := nprod_table g outs in
  let cfgs := map (cfg_of g chans outs nprod) (seq 0 (length (g_nodes g))) in
  let dflt := {| r_kind := KSrc; r_outs := []; r_douts := [] |} in
  {| d_n := length (g_nodes g); d_nc := length chans;
     d_cfg := fun i => nth i cfgs dflt; d_data := fun _ => [];
     d_cons := fun c => fst (nth c chans (0, 0)%nat);
     d_cap := fun _ => N.to_nat Consts.CHANNEL_CAPACITY |}.

(** every replica of a block is fed on every input edge of the block (fails exactly for
    known finding F11: a forward connection to a wider block) *)
Definition all_inputs_fed (g : gdump) : bool :=
  forallb (Nat.leb 1) (nprod_table g (outs_table g)).
(** every link belongs to an edge and connects listed replicas *)
Definition links_listed (g : gdump) : bool :=
  forallb (fun l => existsb (pair_eqb (fst l)) (g_nodes g) && existsb (pair_eqb (snd l)) (g_nodes g) &&
                    existsb (pair_eqb (fst (fst l), fst (snd l))) (g_edges g)) (g_links g).

(** ---- fourth kind: the execution graph of an acyclic job on SEVERAL hosts, laid out by the
    harness as an [mdag] (replicas, one demultiplexer per block pair and host pair, final and
    connection channels); [mstruct_okb] and the capacity condition [mcap_okb] are the premises
    of C04_multi_host_no_deadlock / _job_terminates. ---- *)
Record mdump := { md_cfgs : list rcfg; md_cons : list nat; md_nterm : list nat }.
Definition mdag_of (g : mdump) : mdag :=
  let dflt := {| r_kind := KSrc; r_outs := []; r_douts := [] |} in
  {| m_n := length (md_cfgs g); m_nc := length (md_cons g);
     m_cfg := fun i => nth i (md_cfgs g) dflt; m_data := fun _ => [];
     m_cons := fun c => nth c (md_cons g) 0%nat;
     m_cap := fun _ => N.to_nat Consts.CHANNEL_CAPACITY;
     m_nterm := fun i => nth i (md_nterm g) 0%nat |}.
Definition m_all_fed (g : mdump) : bool :=
  forallb (fun cf => match r_kind cf with
                     | KOp1 _ k => Nat.leb 1 k
                     | KOp2 _ kl _ kr => Nat.leb 1 kl && Nat.leb 1 kr
                     | _ => true end) (md_cfgs g).

(** A second kind of case: the engineered two-host hash join of two parallel sources of
    harness/src/props/muxjoin.rs (finite input, finite user sleeps): host X with 2 cores, host
    Y with the rest; [early] = the two stragglers emit one late item each, so that their End
    flushes one destination before the others when the round ends. *)
Inductive mj_outcome := MJDone (joined : N) | MJHang.

Inductive case :=
| KJob (c : C01.case)
| KMuxJoin (cores : list nat) (early : bool) (expected : N) (o : mj_outcome)
| KDag (g : gdump)
| KMDag (g : mdump).

Definition prop_ok (c : case) : bool :=
  match c with
  | KJob x => C01.prop_ok x
  | KMuxJoin _ _ expected (MJDone n) => N.eqb n expected
  | KMuxJoin _ _ _ MJHang => false
  | KDag g => all_inputs_fed g      (* otherwise the unfed replicas panic at start-up (F11) *)
  | KMDag g => m_all_fed g && mcap_okb (mdag_of g)   (* more producers than capacity on an input of a two-input block: F13 *)
  end.

(** known finding F13 (class 4): remote messages of one (block pair, host pair) share one
    connection whose demultiplexer blocks on a full destination channel (capacity 16); a
    two-input block stops reading a side that ended its round, so with MORE THAN 16 producer
    replicas on that side their Terminates fill the channel and block the connection, and with
    it a FlushAndRestart that another replica of the block waits for — crosswise on both
    inputs when some producer flushed one destination early. Model:
    [NetProofs.mux_join_deadlock]. From the case: >= 2 hosts, > 16 producers per input
    (each source has one replica per core), the early flush, and the run hung. *)
Definition producers (cores : list nat) : nat := fold_left Nat.add cores 0%nat.
Definition known_class (c : case) : N :=
  match c with
  | KJob x => C01.known_class x
  | KMuxJoin cores early _ o =>
      match o with
      | MJHang => if (Nat.leb 2 (length cores)) && (Nat.leb 17 (producers cores)) && early then 4%N else 0%N
      | MJDone _ => 0%N
      end
  | KDag g => if all_inputs_fed g then 0%N else 2%N
  | KMDag g => if negb (m_all_fed g) then 2%N else if negb (mcap_okb (mdag_of g)) then 4%N else 0%N
  end.

Definition corr_ok (c : case) : bool :=
  match c with
  | KJob x => C01.corr_ok x
  | KMuxJoin _ _ _ _ => prop_ok c || negb (N.eqb (known_class c) 0%N)
  | KDag g => links_listed g && (dag_okb (dag_of g) || negb (all_inputs_fed g))
  | KMDag g => mstruct_okb (mdag_of g) || negb (m_all_fed g)
  end.
Definition report (cs : list case) := classify corr_ok prop_ok known_class cs.

(** Correspondence and property evaluation for C04 (every finite job terminates and every
    sink is completed exactly once): whole jobs on the real engine, biased to what threatens
    termination — inputs larger than the total channel capacity with tiny batches (real
    back-pressure), empty inputs, diamonds, side inputs, loops — under several deployments. A
    run is good when `execute_blocking` returned on every host within the watchdog, exactly
    one host's sink handle held a result, and that result is complete (= the sequential
    meaning; a lost end-of-stream marker shows as a hang, a lost element as a wrong result). *)
From Noir Require Import Model.Pipe Corr.Canon.
From Noir Require Corr.C01.
From Coq Require Import NArith List Bool Arith.
Import ListNotations.

(** A second kind of case: the engineered two-host hash join of two parallel sources of
    harness/src/props/muxjoin.rs (finite input, finite user sleeps): host X with 2 cores, host
    Y with the rest; [early] = the two stragglers emit one late item each, so that their End
    flushes one destination before the others when the round ends. *)
Inductive mj_outcome := MJDone (joined : N) | MJHang.

Inductive case :=
| KJob (c : C01.case)
| KMuxJoin (cores : list nat) (early : bool) (expected : N) (o : mj_outcome).

Definition prop_ok (c : case) : bool :=
  match c with
  | KJob x => C01.prop_ok x
  | KMuxJoin _ _ expected (MJDone n) => N.eqb n expected
  | KMuxJoin _ _ _ MJHang => false
  end.

(** known finding F13 (class 4): remote messages of one (block pair, host pair) share one
    connection whose demultiplexer blocks on a full destination channel (capacity 16); a
    two-input block stops reading a side that ended its round, so with MORE THAN 16 producer
    replicas on that side their Terminates fill the channel and block the connection, and with
    it a FlushAndRestart that another replica of the block waits for — crosswise on both
    inputs when some producer flushed one destination early. Model:
    [NetProofs.mux_join_deadlock]. From the case: >= 2 hosts, > 16 producers per input
    (each source has one replica per core), the early flush, and the run hung. *)
Definition producers (cores : list nat) : nat := fold_left Nat.add cores 0%nat.
Definition known_class (c : case) : N :=
  match c with
  | KJob x => C01.known_class x
  | KMuxJoin cores early _ o =>
      match o with
      | MJHang => if (Nat.leb 2 (length cores)) && (Nat.leb 17 (producers cores)) && early then 4%N else 0%N
      | MJDone _ => 0%N
      end
  end.

Definition corr_ok (c : case) : bool :=
  match c with
  | KJob x => C01.corr_ok x
  | KMuxJoin _ _ _ _ => prop_ok c || negb (N.eqb (known_class c) 0%N)
  end.
Definition report (cs : list case) := classify corr_ok prop_ok known_class cs.

(** Correspondence and property evaluation for C04 (every finite job terminates and every
    sink is completed exactly once): whole jobs on the real engine, biased to what threatens
    termination — inputs larger than the total channel capacity with tiny batches (real
    back-pressure), empty inputs, diamonds, side inputs, loops — under several deployments. A
    run is good when `execute_blocking` returned on every host within the watchdog, exactly
    one host's sink handle held a result, and that result is complete (= the sequential
    meaning; a lost end-of-stream marker shows as a hang, a lost element as a wrong result). *)
From Noir Require Import Model.Pipe Corr.Canon.
From Noir Require Corr.C01.
From Coq Require Import NArith.

Definition case := C01.case.
Definition prop_ok (c : case) : bool := C01.prop_ok c.
Definition known_class (c : case) : N := C01.known_class c.
Definition corr_ok (c : case) : bool := C01.corr_ok c.
Definition report (cs : list case) := classify corr_ok prop_ok known_class cs.

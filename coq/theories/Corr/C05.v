(** Correspondence and property evaluation for C05 (stream control protocol at every
    operator boundary). The cases are those of the component checks — real Start (single and
    two-input), real fold / keyed fold / reorder / count-window / event-time-window / join
    chains — re-evaluated against the protocol grammar
        ((Item|Timestamped|Watermark|FlushBatch)* FlushAndRestart)+ Terminate
    at the OUTPUT of the component, together with the per-round exactness predicates of
    those components (which say that all results of an iteration are out before its
    FlushAndRestart and that nothing is carried over). *)
From Noir Require Import Base.Elem Model.Start Proofs.StartSpec Corr.Canon Corr.BinCorr.
From Noir Require Corr.C17 Corr.C11 Corr.C07 Corr.C12 Corr.C13 Corr.C08 Corr.C16 Corr.C09.
From Coq Require Import NArith.
Open Scope Z_scope.

Inductive case :=
| KStart (c : C17.case)
| KBin (c : C11.case)
| KAgg (c : C07.case)
| KCount (c : C12.case)
| KEvent (c : C13.case)
| KJoin (c : C08.case)
| KReorder (c : C16.case)
| KFan (c : C09.case).     (* zip / merge chains: pairs and unions are per round, stashes do not survive a FlushAndRestart *)

Definition corr_ok (c : case) : bool :=
  match c with
  | KStart x => C17.corr_ok x | KBin x => C11.corr_ok x | KAgg x => C07.corr_ok x
  | KCount x => C12.corr_ok x | KEvent x => C13.corr_ok x | KJoin x => C08.corr_ok x
  | KReorder x => C16.corr_ok x
  | KFan x => C09.corr_ok x
  end.

(** per-round data multiset of a single-input Start: output round r = union over the
    senders of their round r *)
Definition zsorted (l : list Z) : list Z := sort_by (fun z => z) l.
Definition start_rounds_ok (x : C17.case) : bool :=
  let n := C17.c_n x in
  let arr := C17.arrivals x in
  let outr := rounds (strip_fb (C17.c_out x)) in
  let per_sender := map (fun s => rounds (from_sender s arr)) (seq 0 n) in
  forallb (fun r =>
    list_eqb Z.eqb (zsorted (payloads (nth r outr [])))
                   (zsorted (flat_map (fun rs => payloads (nth r rs [])) per_sender)))
    (seq 0 (length outr)).

Definition start_premise (x : C17.case) : bool :=
  let n := C17.c_n x in
  let arr := C17.arrivals x in
  forallb (fun s => wf (from_sender s arr)) (seq 0 n) && round_sync n arr &&
  forallb (fun s => Nat.eqb (fars (from_sender s arr)) (fars (from_sender 0%nat arr))) (seq 0 n).

Definition count_item_in {X} (p : elem X -> bool) (l : list (elem X)) : nat := length (filter p l).

Definition prop_ok (c : case) : bool :=
  match c with
  | KStart x =>
      if start_premise x then wf (strip_fb (C17.c_out x)) && start_rounds_ok x else true
  | KBin x =>
      let out := strip_fb (C11.c_out x) in
      wf out &&
      (* each end-of-side marker exactly once per round, before the FlushAndRestart *)
      forallb (fun r => match r with
                        | [Terminate] | [] => true
                        | _ => Nat.eqb (count_item BLEnd r) 1 && Nat.eqb (count_item BREnd r) 1
                        end) (rounds out)
  | KAgg x =>
      match x with
      | C07.CFold _ _ out => wf (strip_fb out)
      | C07.CKeyed _ _ _ out => wf (strip_fb out)
      | C07.CGlobalSum _ _ out => wf (strip_fb out)
      | C07.CRich _ _ out => wf (strip_fb out)
      | C07.CAggJob _ _ _ _ _ => true
      end && C07.prop_ok x
  | KCount x => wf (strip_fb (C12.c_out x)) && C12.prop_ok x
  | KEvent x => wf (strip_fb (C13.impl_out x)) && (C13.prop_ok x || negb (N.eqb (C13.known_class x) 0%N))
  | KJoin x =>
      match x with
      | C08.CJoin _ _ _ _ _ _ out => wf (strip_fb out)
      | C08.CInterval _ _ _ _ _ out => wf (strip_fb out)
      | C08.CJoinJob _ => true
      end && C08.prop_ok x
  | KReorder x =>
      match x with
      | C16.CReorder _ out => wf (strip_fb out)
      | C16.CSeq _ _ _ _ out => wf (strip_fb out)
      | C16.CJob _ _ _ _ _ => true      (* whole job: only the sink content is observed *)
      | C16.CZoo _ input out => if wf (strip_fb input) then wf (strip_fb out) else true
      end && C16.prop_ok x
  | KFan x =>
      match x with
      | C09.CZip _ _ _ out => wf (strip_fb out)
      | C09.CMerge _ _ _ out => wf (strip_fb out)
      | _ => true
      end && C09.prop_ok x
  end.

Definition known_class (c : case) : N := 0%N.
Definition report (cs : list case) := classify corr_ok prop_ok known_class cs.

(** Correspondence and property evaluation for C12 (count windows).
    A case is what the harness ran on the real operator chain
    `key_by(fst).window(CountWindow::new(size, slide, exact)).fold(vec![], push)`:
    the scripted input and every element the chain returned from `next()`. *)
From Noir Require Import Base.Elem Model.WinCount Model.WindowOp Proofs.WinCountSpec Corr.Canon.
From Coq Require Import NArith.
Open Scope Z_scope.

Record case := {
  c_size : nat; c_slide : nat; c_exact : bool;
  c_in : list (elem (Z * Z));           (* (key, value) *)
  c_out : list (elem (Z * list Z));     (* (key, collected window) *)
  c_aggs : list (N * list (elem (Z * Z)))   (* the same input through the other window aggregators: (aggregator, output) *)
}.

(** the accumulator used by the harness: collect the window into a vector *)
Definition acc0 : list Z := [].
Definition proc (b : list Z) (x : Z) : list Z := b ++ [x].
Definition outf (b : list Z) : list Z := b.

Definition mgr (c : case) := wc_mgr acc0 proc outf (c_size c) (c_slide c) (c_exact c).

Definition out_eqb := list_eqb (elem_eqb (pair_eqb Z.eqb (list_eqb Z.eqb))).

(** model output, canonicalised, against implementation output, canonicalised *)
Definition model_out (c : case) : list (elem (Z * list Z)) :=
  run (wop_machine (mgr c)) (c_in c).
Definition corr_ok (c : case) : bool :=
  out_eqb (canon_keyed (model_out c)) (canon_keyed (c_out c)).

(** The property itself, evaluated on the implementation's output with no reference to
    the machine model: per key and per round, the emitted groups are exactly the sliding
    groups of the key's arrival sequence, plus the tail group in non-exact mode. *)
Definition keys_of (l : list (elem (Z * Z))) : list Z :=
  dedup_Z (flat_map (fun e => match key_of e with Some k => [k] | None => [] end) l).

Definition key_data (k : Z) (l : list (elem (Z * Z))) : list (@tel Z) :=
  data_of (proj_in k l).

Definition expected_round (c : case) (k : Z) (rin : list (elem (Z * Z))) : list (elem (list Z)) :=
  let d := key_data k rin in
  map wres_elem
    (map (gres acc0 proc outf) (groups (c_size c) (c_slide c) d) ++
     (if c_exact c then [] else map (gres acc0 proc outf) (tail_group (c_size c) (c_slide c) d))).

(** input rounds end at FAR or Terminate; a round that never ends emits no tail *)
Definition expected_key (c : case) (k : Z) : list (elem (list Z)) :=
  let fix go (cur : list (elem (Z * Z))) (l : list (elem (Z * Z))) : list (elem (list Z)) :=
    match l with
    | [] => let d := key_data k (rev cur) in
            map wres_elem (map (gres acc0 proc outf) (groups (c_size c) (c_slide c) d))
    | FAR :: l' | Terminate :: l' => expected_round c k (rev cur) ++ go [] l'
    | e :: l' => go (e :: cur) l'
    end in
  go [] (c_in c).

(** the same round by round: what a key's windows produce from the elements of one iteration
    comes out BEFORE that iteration's FlushAndRestart / Terminate (tail group included) *)
Fixpoint split_rounds {X} (cur : list (elem X)) (l : list (elem X)) : list (list (elem X)) :=
  match l with
  | [] => [rev cur]
  | FAR :: l' | Terminate :: l' => rev cur :: split_rounds [] l'
  | e :: l' => split_rounds (e :: cur) l'
  end.
Definition rounds_ok (c : case) : bool :=
  let ins := split_rounds [] (c_in c) in
  let outs := split_rounds [] (c_out c) in
  Nat.eqb (length ins) (length outs) &&
  forallb (fun r =>
    let closed := Nat.ltb (S r) (length ins) in     (* the last segment has no end marker *)
    forallb (fun k =>
      list_eqb (elem_eqb (list_eqb Z.eqb)) (proj_out k (nth r outs []))
        (if closed then expected_round c k (nth r ins [])
         else map wres_elem (map (gres acc0 proc outf) (groups (c_size c) (c_slide c) (key_data k (nth r ins []))))))
      (keys_of (c_in c)))
    (seq 0 (length ins)).

(** every other aggregator is applied to exactly the elements of the group: its output is
    the collected-window output with the aggregate of each window in place of the window *)
Definition zfold1 (f : Z -> Z -> Z) (l : list Z) : Z := match l with [] => 0 | x :: l' => fold_left f l' x end.
Definition agg_fn (a : N) (l : list Z) : Z :=
  match a with
  | 0%N => Z.of_nat (length l)            (* count *)
  | 1%N | 6%N | 7%N => fold_left Z.add l 0   (* sum, fold_first(+), collect_vec + map(sum) *)
  | 2%N => zfold1 Z.max l                 (* max *)
  | 3%N => zfold1 Z.min l                 (* min *)
  | 4%N => hd 0 l                         (* first *)
  | _ => last l 0                         (* last *)
  end.
Definition agg_out_ok (c : case) (ao : N * list (elem (Z * Z))) : bool :=
  list_eqb (elem_eqb (pair_eqb Z.eqb Z.eqb))
    (canon_keyed (map (emap (fun kl : Z * list Z => (fst kl, agg_fn (fst ao) (snd kl)))) (strip_fb (c_out c))))
    (canon_keyed (strip_fb (snd ao))).

Definition prop_ok (c : case) : bool :=
  forallb (agg_out_ok c) (c_aggs c) &&
  rounds_ok c &&
  forallb (fun k =>
    list_eqb (elem_eqb (list_eqb Z.eqb)) (proj_out k (c_out c)) (expected_key c k))
    (keys_of (c_in c))
  && (* no result for a key that never occurred *)
  forallb (fun e => match key_of e with
                    | Some k => existsb (Z.eqb k) (keys_of (c_in c))
                    | None => true end) (c_out c)
  && (* control elements forwarded unchanged, in order *)
  list_eqb (elem_eqb (fun _ _ => true)) (controls (c_out c)) (controls (c_in c)).

Definition known_class (c : case) : N := 0%N.
Definition report (cs : list case) := classify corr_ok prop_ok known_class cs.

(** Correspondence and property evaluation for C09 (fan-out / fan-in operators).
    CZip / CMerge : the real chains `Start::multiple -> Zip` and `Start::multiple -> merge`
    CFan          : the real `End` towards SEVERAL downstream blocks (split: every branch gets
                    the complete stream) and with the `All` strategy (broadcast: every replica)
    CRoute        : the real `RoutingEnd` (route) towards one downstream block per route, all
                    batch modes (adaptive under a mock clock), exact batch sequences *)
From Noir Require Import Base.Elem Model.Start Model.BinaryStart Model.Fan Corr.BinCorr Corr.Canon Corr.LinkCorr.
From Noir Require Corr.C03.
From Noir Require Import Model.Route Corr.RouteCorr.
From Coq Require Import NArith.
Open Scope Z_scope.

Inductive case :=
| CZip (nl nr : nat) (dels : list del) (out : list (elem (Z * Z)))
| CMerge (nl nr : nat) (dels : list del) (out : list (elem Z))
| CFan (c : lcase)
| CRoute (c : rcase)
| CZipJob (n : Z) (pairs : list (Z * Z)).
    (* whole job on 2 hosts: two n-element streams (0.., 1000..) replicated one-per-host, zipped *)

Definition zz_eqb := pair_eqb Z.eqb Z.eqb.

(** zip is never partitioned (its block has ONE replica whatever the inputs' replication): it
    yields min(|a|,|b|) pairs using every element of the shorter side... here |a| = |b| = n:
    n pairs, every left and every right element exactly once *)
Definition zip_job_ok (n : Z) (pairs : list (Z * Z)) : bool :=
  let k := Z.to_nat n in
  Nat.eqb (length pairs) k &&
  list_eqb Z.eqb (sort_by (fun z => z) (map fst pairs)) (map Z.of_nat (seq 0 k)) &&
  list_eqb Z.eqb (sort_by (fun z => z) (map snd pairs)) (map (fun i => 1000 + Z.of_nat i) (seq 0 k)).

Definition corr_ok (c : case) : bool :=
  match c with
  | CZip nl nr dels out =>
      list_eqb (elem_eqb zz_eqb) (strip_fb (run zip_machine (brun nl nr false false dels))) (strip_fb out)
  | CMerge nl nr dels out =>
      list_eqb (elem_eqb Z.eqb) (strip_fb (run merge_machine (brun nl nr false false dels))) (strip_fb out)
  | CFan l => link_corr_ok l
  | CRoute c => route_corr_ok c
  | CZipJob n pairs => zip_job_ok n pairs
  end.

(** data delivered by one side, round by round, in delivery order (a side's round r ends
    when all its replicas have delivered their r-th FAR; the generators deliver round by
    round) *)
Definition side_round_data (left : bool) (dels : list del) (n : nat) : list (list (elem Z)) :=
  let per_sender := map (fun s =>
        rounds (flat_map (fun d => match d, left with
                                    | DL s' b, true | DR s' b, false => if Nat.eqb s s' then b else []
                                    | _, _ => [] end) dels)) (seq 0 n) in
  let k := fold_left Nat.max (map (@length _) per_sender) 0%nat in
  (* delivery order within a round: scan the deliveries, keep data of that side whose sender
     is in round r *)
  map (fun r =>
    let fix go (cnt : list nat) (ds : list del) : list (elem Z) :=
      match ds with
      | [] => []
      | d :: ds' =>
          let '(isl, s, b) := match d with DL s b => (true, s, b) | DR s b => (false, s, b) end in
          if Bool.eqb isl left then
            let cur := nth s cnt 0%nat in
            let nf := length (filter (fun e => match e with FAR => true | _ => false end) b) in
            (if Nat.eqb cur r then filter is_data b else []) ++ go (set_nth s (cur + nf)%nat cnt) ds'
          else go cnt ds'
      end in
    go (repeat 0%nat n) dels) (seq 0 k).

Definition prop_ok (c : case) : bool :=
  match c with
  | CZip nl nr dels out =>
      let lr := side_round_data true dels nl in
      let rr := side_round_data false dels nr in
      let got := map (fun r => filter is_data r) (rounds (strip_fb out)) in
      forallb (fun r =>
        let l := payloads (nth r lr []) in
        let rt := payloads (nth r rr []) in
        (* exactly min(|a|,|b|) pairs, the i-th left with the i-th right, none used twice *)
        list_eqb zz_eqb (payloads (nth r got [])) (combine l rt))
        (seq 0 (Nat.max (length lr) (length rr)))
  | CMerge nl nr dels out =>
      let lr := side_round_data true dels nl in
      let rr := side_round_data false dels nr in
      let got := rounds (strip_fb out) in
      forallb (fun r =>
        list_eqb Z.eqb (sort_by (fun z => z) (payloads (nth r got [])))
                       (sort_by (fun z => z) (payloads (nth r lr []) ++ payloads (nth r rr []))))
        (seq 0 (Nat.max (length lr) (length rr)))
  | CFan l => C03.prop_ok_link l
  | CRoute c => route_prop_ok c
  | CZipJob n pairs => zip_job_ok n pairs
  end.

Definition known_class (c : case) : N := 0%N.
Definition report (cs : list case) := classify corr_ok prop_ok known_class cs.

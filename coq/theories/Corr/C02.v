(** Correspondence and property evaluation for C02 (every link delivers each element exactly
    once and in sending order).
    CLink  : the real `End` + `Batcher`s towards hand-made receivers (in-memory channels):
             per receiver, the received sequence is exactly the sequence emitted towards it
    CFrame : the wire format of multiplexed TCP links: batches framed by the real
             `remote_send`, concatenated as several replicas sharing one connection would, and
             decoded by the real `remote_recv` *)
From Noir Require Import Corr.LinkCorr Model.Framing.
Open Scope Z_scope.

Inductive case :=
| CLink (c : lcase)
| CFrame (demux_block demux_host prev_block : Z)
         (msgs : list (Z * list (elem Z)))            (* destination replica, batch *)
         (bytes : list Z)                             (* what `remote_send` wrote, concatenated *)
         (decoded : list (Z * Z * Z * Z * list (elem Z)))
| CIdle (pause_ms sent : Z) (got : list Z) (completed : bool)
| CBig (senders n : Z) (got : list (Z * Z * Z)) (completed : bool).
             (* a whole job: [senders] replicas send n one-element messages each (every third ~70 KB) to one
                consumer, partly over a shared TCP connection: (sender, seq, length) in arrival order *)
             (* a whole job over real TCP links that stay idle for [pause_ms]: the sorted sink content *)
             (* what `remote_recv` returned: dest block, dest host, dest replica, sender block, batch *)

Definition idle_ok (sent : Z) (got : list Z) (completed : bool) : bool :=
  completed && list_eqb Z.eqb got (map Z.of_nat (seq 0 (Z.to_nat sent))).

Definition big_len (i : Z) : Z := if Z.eqb (Z.modulo i 3) 2 then 70000 else 10 + i.
Definition big_ok (senders n : Z) (got : list (Z * Z * Z)) (completed : bool) : bool :=
  completed &&
  forallb (fun s =>
    list_eqb (pair_eqb Z.eqb Z.eqb)
      (map (fun x => (snd (fst x), snd x)) (filter (fun x => Z.eqb (fst (fst x)) (Z.of_nat s)) got))
      (map (fun i => (Z.of_nat i, big_len (Z.of_nat i))) (seq 0 (Z.to_nat n))))
    (seq 0 (Z.to_nat senders)) &&
  Nat.eqb (length got) (Z.to_nat (senders * n)).

Definition corr_ok (c : case) : bool :=
  match c with
  | CBig s n got completed => big_ok s n got completed
  | CIdle _ sent got completed => idle_ok sent got completed   (* a link is a reliable FIFO in the model: time does not exist *)
  | CLink l => link_corr_ok l
  | CFrame db dh pb msgs bytes decoded =>
      (* the model decodes the implementation's bytes into as many frames, with the header
         fields of the model's encoder *)
      match decode_stream (S (length msgs)) bytes with
      | Some fs =>
          Nat.eqb (length fs) (length msgs) &&
          forallb (fun '(f, m) =>
            Z.eqb (h_replica (fst f)) (fst m) && Z.eqb (h_block (fst f)) pb &&
            Z.eqb (h_size (fst f)) (Z.of_nat (length (snd f))) &&
            list_eqb Z.eqb (firstn HEADER_SIZE (frame (fst m) pb (snd f))) (encode_header (fst f)))
            (combine fs msgs) &&
          list_eqb Z.eqb (concat (map (fun f => encode_header (fst f) ++ snd f) fs)) bytes
      | None => false
      end
  end.

Fixpoint all2 {X Y} (f : X -> Y -> bool) (a : list X) (b : list Y) : bool :=
  match a, b with
  | [], [] => true
  | x :: a', y :: b' => f x y && all2 f a' b'
  | _, _ => false
  end.

Definition got (c : lcase) (b r : nat) : list (elem Z) := concat (impl_recv c b r).

Definition prop_ok (c : case) : bool :=
  match c with
  | CBig s n got completed => big_ok s n got completed
  | CIdle _ sent got completed => idle_ok sent got completed
  | CLink l =>
      forallb (fun '(b, r) =>
        (* no empty batch; Fixed(n) / Adaptive(n, _): at most n elements per batch *)
        forallb (fun batch => negb (match batch with [] => true | _ => false end) &&
                              match l_mode l with
                              | BFixed n | BAdaptive n _ => Nat.leb (length batch) n
                              | BSingle => Nat.eqb (length batch) 1
                              end)
                (impl_recv l b r) &&
        (* exactly the emitted sequence: for predictable strategies the model's sequence; in
           general a subsequence of the input containing every control element *)
        match l_strategy l with
        | SRandom => true
        | _ => list_eqb zel_eqb (got l b r) (concat (model_recv l b r))
        end) (all_receivers l) &&
      (* conservation over all receivers of a block: every data element exactly once (n times
         for broadcast), nothing else *)
      forallb (fun b =>
        let n := nth b (l_blocks l) 0%nat in
        let all := flat_map (fun r => filter is_data (got l b r)) (seq 0 n) in
        let sent := filter is_data (map fst (l_input l)) in
        let key (e : elem Z) := match e with Item v => v * 2 | Tst v t => v * 2 + 1 | _ => 0 end in
        list_eqb zel_eqb (sort_by key all)
          (sort_by key (match l_strategy l with SAll => flat_map (fun e => repeat e n) sent | _ => sent end)))
        (seq 0 (length (l_blocks l)))
  | CFrame db dh pb msgs bytes decoded =>
      (* every frame is delivered to the replica it was addressed to, unaltered, in order *)
      all2 (fun (d : Z * Z * Z * Z * list (elem Z)) (m : Z * list (elem Z)) => let '(b, h, r, p, batch) := d in
                           Z.eqb b db && Z.eqb h dh && Z.eqb r (fst m) && Z.eqb p pb &&
                           list_eqb zel_eqb batch (snd m)) decoded msgs
  end.

Definition known_class (c : case) : N := 0%N.
Definition report (cs : list case) := classify corr_ok prop_ok known_class cs.

(** Correspondence and property evaluation for C10 (loops compute the sequential fixed
    point): jobs whose core is a replay / iterate loop — bodies that read the loop state
    (so a replica seeing an older or newer state changes the result), internal shuffles and
    aggregations, nested loops, every bound and stop condition — on several deployments; the
    sink content must equal the round-by-round sequential meaning ([ev_replay],
    [ev_iterate], [ONested], [ONestedO] in Model/Pipe.v); bodies may join the stream with a
    constant side input defined outside the loop, cached and replayed every round
    ([OJoinSide]: side input on the right of the join, [OJoinSideL]: on the left). *)
From Noir Require Import Model.Pipe Corr.Canon.
From Noir Require Corr.C01.
From Coq Require Import NArith.

Definition case := C01.case.
Definition prop_ok (c : case) : bool := C01.prop_ok c.
Definition known_class (c : case) : N := C01.known_class c.
Definition corr_ok (c : case) : bool := C01.corr_ok c.
Definition report (cs : list case) := classify corr_ok prop_ok known_class cs.

(** nested loops whose body reads the enclosing loop's state ([ONestedO]) *)
Definition has_outer_read (c : case) : bool := C01.has_outer_read (C01.c_pipe c).
(** loops whose body joins with a constant side input ([OJoinSide] / [OJoinSideL]) *)
Definition has_loop_join_side (c : case) : bool := C01.has_loop_join_side (C01.c_pipe c).

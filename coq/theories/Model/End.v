(** Model of the producer side of a link: `End::next` (src/operator/end.rs) — choice of the
    receiving replica per downstream block for every `NextStrategy`, broadcast of control
    elements — and `Batcher` (src/block/batcher.rs) for the `Fixed`/`Single` modes
    (`Adaptive` = `Fixed` plus a flush whenever the clock says the delay elapsed; the flush
    points are then an input).

    The senders of an `End` are sorted by endpoint and grouped by destination block
    (`setup_senders`); a group is the list of that block's replicas in coordinate order, so a
    target is an index into the sorted replica list of the block. *)
From Noir Require Export Base.Elem.
From Coq Require Import NArith.
Open Scope Z_scope.

Inductive strategy := SOnlyOne | SRandom | SGroupBy | SAll.

(** what the strategy contributes for one data element: `NextStrategy::index`, with the
    random index and the key hash as explicit inputs *)
Definition strategy_index (s : strategy) (hash rnd : N) : N :=
  match s with SOnlyOne | SAll => 0%N | SRandom => rnd | SGroupBy => hash end.

(** the replica (index into the block's sorted replica list) of a block with [n] replicas:
    `index % block.indexes.len()`. With `All` every replica is its own group. *)
Definition targets (s : strategy) (hash rnd : N) (n : nat) : list nat :=
  match s with
  | SAll => seq 0 n
  | _ => match n with O => [] | _ => [N.to_nat (N.modulo (strategy_index s hash rnd) (N.of_nat n))] end
  end.

(** ** Batcher *)
Inductive batch_mode := BFixed (n : nat) | BSingle.

Section Batcher.
  Context {A : Type}.
  (** state: the buffer; output: the batches sent *)
  Definition enqueue (m : batch_mode) (buf : list (elem A)) (e : elem A) : list (elem A) * list (list (elem A)) :=
    match m with
    | BSingle => (buf, [[e]])
    | BFixed n => let b := buf ++ [e] in if Nat.leb n (length b) then ([], [b]) else (b, [])
    end.
  Definition flush (buf : list (elem A)) : list (elem A) * list (list (elem A)) :=
    match buf with [] => ([], []) | _ => ([], [buf]) end.
End Batcher.

(** ** End over several downstream blocks, each with its number of replicas.
    State: one buffer per (block, replica). An input element comes with the random index
    and the hash the strategy would use for it. *)
Section End.
  Context {A : Type}.
  Variable (s : strategy) (m : batch_mode).
  Variable (blocks : list nat).          (* replicas of each downstream block *)

  Definition estate := list (list (list (elem A))).      (* per block, per replica: buffer *)
  Definition eout := list (nat * nat * list (elem A)).   (* (block index, replica, batch) sent *)

  Definition einit : estate := map (fun n => repeat [] n) blocks.

  Definition upd_nth {X} (i : nat) (f : X -> X) (l : list X) : list X :=
    map (fun '(j, x) => if Nat.eqb i j then f x else x) (combine (seq 0 (length l)) l).

  (** enqueue [e] towards replica [r] of block [b] *)
  Definition send_to (st : estate) (b r : nat) (e : elem A) : estate * eout :=
    let buf := nth r (nth b st []) [] in
    let '(buf1, sent) := enqueue m buf e in
    (upd_nth b (upd_nth r (fun _ => buf1)) st, map (fun batch => (b, r, batch)) sent).

  Fixpoint send_many (st : estate) (dests : list (nat * nat)) (e : elem A) : estate * eout :=
    match dests with
    | [] => (st, [])
    | (b, r) :: ds =>
        let '(st1, o1) := send_to st b r e in
        let '(st2, o2) := send_many st1 ds e in
        (st2, o1 ++ o2)
    end.

  Definition all_dests : list (nat * nat) :=
    flat_map (fun '(b, n) => map (fun r => (b, r)) (seq 0 n)) (combine (seq 0 (length blocks)) blocks).

  Definition flush_all (st : estate) : estate * eout :=
    (map (fun per => map (fun _ => []) per) st,
     flat_map (fun '(b, per) =>
       flat_map (fun '(r, buf) => match buf with [] => [] | _ => [(b, r, buf)] end)
                (combine (seq 0 (length per)) per))
       (combine (seq 0 (length st)) st)).

  (** one element pulled from the chain, with the strategy's inputs for it *)
  Definition end_step (st : estate) (x : elem A * N * N) : estate * eout :=
    let '(e, hash, rnd) := x in
    match e with
    | Item _ | Tst _ _ =>
        send_many st (flat_map (fun '(b, n) => map (fun r => (b, r)) (targets s hash rnd n))
                               (combine (seq 0 (length blocks)) blocks)) e
    | Wm _ => send_many st all_dests e
    | FAR =>
        let '(st1, o1) := send_many st all_dests e in
        let '(st2, o2) := flush_all st1 in (st2, o1 ++ o2)
    | Terminate =>
        let '(st1, o1) := send_many st all_dests e in
        let '(st2, o2) := flush_all st1 in (st2, o1 ++ o2)      (* `Batcher::end` *)
    | FlushBatch => flush_all st
    end.

  Definition end_machine : machine (elem A * N * N) (nat * nat * list (elem A)) :=
    {| mstate := estate; minit := einit; mstep := end_step |}.

  (** what one receiver gets, as a sequence of elements *)
  Definition received (out : eout) (b r : nat) : list (elem A) :=
    flat_map (fun '(b', r', batch) => if Nat.eqb b b' && Nat.eqb r r' then batch else []) out.
End End.

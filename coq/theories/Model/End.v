(** Model of the producer side of a link: `End::next` (src/operator/end.rs) — choice of the
    receiving replica per downstream block for every `NextStrategy`, broadcast of control
    elements — and `Batcher` (src/block/batcher.rs) for all three modes `Fixed`, `Adaptive` (the
    engine's default) and `Single`. The clock read by the batchers is an INPUT of the model:
    [t0] is the reading when the batchers are created (`End::setup`), [clock k] the reading
    while `End::next` processes the k-th element it pulls (k = 0, 1, ..), in milliseconds.

    The senders of an `End` are sorted by endpoint and grouped by destination block
    (`setup_senders`); a group is the list of that block's replicas in coordinate order, so a
    target is an index into the sorted replica list of the block. *)
From Noir Require Export Base.Elem.
From Coq Require Import NArith.
Open Scope Z_scope.

Inductive strategy := SOnlyOne | SRandom | SGroupBy | SAll.

(** what the strategy contributes for one data element: `NextStrategy::index`, with the
    random index and the key hash as explicit inputs *)
Definition strategy_index (s : strategy) (hash rnd : N) : N :=
  match s with SOnlyOne | SAll => 0%N | SRandom => rnd | SGroupBy => hash end.

(** the replica (index into the block's sorted replica list) of a block with [n] replicas:
    `index % block.indexes.len()`. With `All` every replica is its own group. *)
Definition targets (s : strategy) (hash rnd : N) (n : nat) : list nat :=
  match s with
  | SAll => seq 0 n
  | _ => match n with O => [] | _ => [N.to_nat (N.modulo (strategy_index s hash rnd) (N.of_nat n))] end
  end.

(** ** Batcher *)
Inductive batch_mode := BFixed (n : nat) | BAdaptive (n : nat) (delay : N) | BSingle.

(** `BatchMode::max_size` *)
Definition max_size (m : batch_mode) : nat :=
  match m with BFixed n | BAdaptive n _ => n | BSingle => 1 end.

Section Batcher.
  Context {A : Type}.
  (** state of one `Batcher`: `buffer` and `last_send`; output: the batches sent.
      [now] is the reading of the clock during the call. *)
  Definition bstate := (list (elem A) * N)%type.

  (** `Batcher::flush`: nothing at all happens when the buffer is empty (in particular
      `last_send` is not touched); otherwise one batch, and `last_send := clock()` *)
  Definition flush (now : N) (bs : bstate) : bstate * list (list (elem A)) :=
    match fst bs with [] => (bs, []) | _ => (([], now), [fst bs]) end.

  (** `Batcher::enqueue`. `Adaptive(n, d)`: push, then flush when the buffer has reached [n]
      elements or `clock() - last_send > d` (strict; `duration_since` saturates at 0 like
      the subtraction of [N]). `Fixed`/`Single` never look at the clock.
      Readings and [d] are in milliseconds. The real comparison is done in coarsetime ticks
      (2^-32 s, each operand rounded down separately), which agrees with the comparison in
      ms except possibly when `clock() - last_send` is EXACTLY [d] ms (then the real code may
      already count the delay as elapsed); recorded runs avoid such readings. *)
  Definition enqueue (m : batch_mode) (now : N) (bs : bstate) (e : elem A)
    : bstate * list (list (elem A)) :=
    match m with
    | BSingle => (bs, [[e]])
    | BFixed n =>
        let bs1 := (fst bs ++ [e], snd bs) in
        if Nat.leb n (length (fst bs1)) then flush now bs1 else (bs1, [])
    | BAdaptive n d =>
        let bs1 := (fst bs ++ [e], snd bs) in
        if Nat.leb n (length (fst bs1)) || N.ltb d (now - snd bs) then flush now bs1 else (bs1, [])
    end.
End Batcher.

(** ** End over several downstream blocks, each with its number of replicas.
    State: the number of elements pulled so far and one batcher per (block, replica). An
    input element comes with the random index and the hash the strategy would use for it. *)
Section End.
  Context {A : Type}.
  Variable (clock : nat -> N) (t0 : N).  (* clock reading for the k-th pulled element; at setup *)
  Variable (s : strategy) (m : batch_mode).
  Variable (blocks : list nat).          (* replicas of each downstream block *)

  Definition bstates := list (list (@bstate A)).         (* per block, per replica: batcher *)
  Definition estate := (nat * bstates)%type.             (* elements pulled so far, batchers *)
  Definition eout := list (nat * nat * list (elem A)).   (* (block index, replica, batch) sent *)

  (** `End::setup`: every batcher is created with an empty buffer and `last_send = clock()` *)
  Definition einit : estate := (0%nat, map (fun n => repeat ([], t0) n) blocks).

  Definition upd_nth {X} (i : nat) (f : X -> X) (l : list X) : list X :=
    map (fun '(j, x) => if Nat.eqb i j then f x else x) (combine (seq 0 (length l)) l).

  (** enqueue [e] towards replica [r] of block [b] *)
  Definition send_to (now : N) (st : bstates) (b r : nat) (e : elem A) : bstates * eout :=
    let bs := nth r (nth b st []) ([], 0%N) in
    let '(bs1, sent) := enqueue m now bs e in
    (upd_nth b (upd_nth r (fun _ => bs1)) st, map (fun batch => (b, r, batch)) sent).

  Fixpoint send_many (now : N) (st : bstates) (dests : list (nat * nat)) (e : elem A) : bstates * eout :=
    match dests with
    | [] => (st, [])
    | (b, r) :: ds =>
        let '(st1, o1) := send_to now st b r e in
        let '(st2, o2) := send_many now st1 ds e in
        (st2, o1 ++ o2)
    end.

  Definition all_dests : list (nat * nat) :=
    flat_map (fun '(b, n) => map (fun r => (b, r)) (seq 0 n)) (combine (seq 0 (length blocks)) blocks).

  (** `flush()` of every batcher, in endpoint order: only the batchers that had something to
      send get a new `last_send` *)
  Definition flush_all (now : N) (st : bstates) : bstates * eout :=
    (map (fun per => map (fun bs => fst (flush now bs)) per) st,
     flat_map (fun '(b, per) =>
       flat_map (fun '(r, bs) => map (fun batch => (b, r, batch)) (snd (flush now bs)))
                (combine (seq 0 (length per)) per))
       (combine (seq 0 (length st)) st)).

  (** one element pulled from the chain, with the strategy's inputs for it; the clock is read
      once per pulled element *)
  Definition end_step (st : estate) (x : elem A * N * N) : estate * eout :=
    let '(k, bst) := st in
    let now := clock k in
    let '(e, hash, rnd) := x in
    let '(bst', out) :=
      match e with
      | Item _ | Tst _ _ =>
          send_many now bst (flat_map (fun '(b, n) => map (fun r => (b, r)) (targets s hash rnd n))
                                      (combine (seq 0 (length blocks)) blocks)) e
      | Wm _ => send_many now bst all_dests e
      | FAR =>
          let '(st1, o1) := send_many now bst all_dests e in
          let '(st2, o2) := flush_all now st1 in (st2, o1 ++ o2)
      | Terminate =>
          let '(st1, o1) := send_many now bst all_dests e in
          (* `Batcher::end`: the remaining buffer if non-empty; the batcher is consumed, so
             its `last_send` no longer matters *)
          let '(st2, o2) := flush_all now st1 in (st2, o1 ++ o2)
      | FlushBatch => flush_all now bst
      end in
    ((S k, bst'), out).

  Definition end_machine : machine (elem A * N * N) (nat * nat * list (elem A)) :=
    {| mstate := estate; minit := einit; mstep := end_step |}.

  (** what one receiver gets, as a sequence of elements *)
  Definition received (out : eout) (b r : nat) : list (elem A) :=
    flat_map (fun '(b', r', batch) => if Nat.eqb b b' && Nat.eqb r r' then batch else []) out.
End End.

(** Models of the chainable operators as push machines over stream elements:
    `Map`, `Filter`, `FlatMap`, `KeyBy`, `Fold` (src/operator/fold.rs), `KeyedFold`
    (keyed_fold.rs), `Reorder` (reorder.rs), keyed `RichMap` (rich_map.rs). *)
From Noir Require Export Base.Elem.
From Coq Require Import Sorting.Mergesort Orders.
Open Scope Z_scope.

Section Stateless.
  Context {A B : Type}.
  Definition map_machine (f : A -> B) : machine (elem A) (elem B) :=
    {| mstate := unit; minit := tt; mstep := fun _ e => (tt, [emap f e]) |}.

  Definition filter_machine (p : A -> bool) : machine (elem A) (elem A) :=
    {| mstate := unit; minit := tt;
       mstep := fun _ e => (tt, match e with
                                | Item v | Tst v _ => if p v then [e] else []
                                | _ => [e] end) |}.

  (** `FlatMap`: every produced item inherits the timestamp of the element it came from *)
  Definition flat_map_machine (g : A -> list B) : machine (elem A) (elem B) :=
    {| mstate := unit; minit := tt;
       mstep := fun _ e => (tt, match e with
                                | Item v => map Item (g v)
                                | Tst v t => map (fun x => Tst x t) (g v)
                                | Wm t => [Wm t] | FlushBatch => [FlushBatch]
                                | Terminate => [Terminate] | FAR => [FAR] end) |}.

End Stateless.

Definition key_by_machine {A} (k : A -> Z) : machine (elem A) (elem (Z * A)) :=
  map_machine (fun v => (k v, v)).

(** ** Fold *)
Section Fold.
  Context {A O : Type}.
  Variable (init : O) (f : O -> A -> O).

  Record fstate := { f_acc : option O; f_ts : option Z; f_wm : option Z }.
  Definition finit := {| f_acc := None; f_ts := None; f_wm := None |}.

  (** what `next()` returns once the round (or the stream) has ended: the accumulated
      value if any element was seen, then the largest watermark if any, then the marker *)
  Definition fold_flush (s : fstate) (marker : elem O) : list (elem O) :=
    (match f_acc s with
     | Some a => [match f_ts s with Some t => Tst a t | None => Item a end]
     | None => [] end)
    ++ (match f_wm s with Some w => [Wm w] | None => [] end)
    ++ [marker].

  Definition fold_step (s : fstate) (e : elem A) : fstate * list (elem O) :=
    match e with
    | Item v =>
        ({| f_acc := Some (f (match f_acc s with Some a => a | None => init end) v);
            f_ts := f_ts s; f_wm := f_wm s |}, [])
    | Tst v t =>
        ({| f_acc := Some (f (match f_acc s with Some a => a | None => init end) v);
            f_ts := Some (match f_ts s with Some u => Z.max u t | None => t end);
            f_wm := f_wm s |}, [])
    | Wm t => ({| f_acc := f_acc s; f_ts := f_ts s;
                  f_wm := Some (match f_wm s with Some u => Z.max u t | None => t end) |}, [])
    | FlushBatch => (s, [])                     (* swallowed *)
    | FAR => (finit, fold_flush s FAR)
    | Terminate => (finit, fold_flush s Terminate)
    end.

  Definition fold_machine : machine (elem A) (elem O) :=
    {| mstate := fstate; minit := finit; mstep := fold_step |}.
End Fold.

(** ** KeyedFold: one accumulator per key; results leave in unspecified (HashMap) order *)
Section KeyedFold.
  Context {A O : Type}.
  Variable (init : O) (f : O -> A -> O).

  Record kstate := { k_accs : list (Z * O); k_tss : list (Z * Z); k_wm : option Z }.
  Definition kinit := {| k_accs := []; k_tss := []; k_wm := None |}.

  Fixpoint aupd {V} (k : Z) (upd : option V -> V) (m : list (Z * V)) : list (Z * V) :=
    match m with
    | [] => [(k, upd None)]
    | (k', v) :: m' => if Z.eqb k k' then (k, upd (Some v)) :: m' else (k', v) :: aupd k upd m'
    end.
  Fixpoint aget {V} (k : Z) (m : list (Z * V)) : option V :=
    match m with
    | [] => None
    | (k', v) :: m' => if Z.eqb k k' then Some v else aget k m'
    end.

  Definition kfold_flush (s : kstate) (marker : elem (Z * O)) : list (elem (Z * O)) :=
    map (fun '(k, a) => match aget k (k_tss s) with Some t => Tst (k, a) t | None => Item (k, a) end)
        (k_accs s)
    ++ (match k_wm s with Some w => [Wm w] | None => [] end)
    ++ [marker].

  Definition kfold_step (s : kstate) (e : elem (Z * A)) : kstate * list (elem (Z * O)) :=
    match e with
    | Item (k, v) =>
        ({| k_accs := aupd k (fun o => f (match o with Some a => a | None => init end) v) (k_accs s);
            k_tss := k_tss s; k_wm := k_wm s |}, [])
    | Tst (k, v) t =>
        ({| k_accs := aupd k (fun o => f (match o with Some a => a | None => init end) v) (k_accs s);
            k_tss := aupd k (fun o => match o with Some u => Z.max u t | None => t end) (k_tss s);
            k_wm := k_wm s |}, [])
    | Wm t => ({| k_accs := k_accs s; k_tss := k_tss s;
                  k_wm := Some (match k_wm s with Some u => Z.max u t | None => t end) |}, [])
    | FlushBatch => (s, [])
    | FAR => (kinit, kfold_flush s FAR)
    | Terminate => (kinit, kfold_flush s Terminate)
    end.

  Definition kfold_machine : machine (elem (Z * A)) (elem (Z * O)) :=
    {| mstate := kstate; minit := kinit; mstep := kfold_step |}.
End KeyedFold.

(** ** Reorder: buffer timestamped elements, release them sorted (stably) once a watermark
    or the end of the round covers them *)
Section Reorder.
  Context {A : Type}.

  Fixpoint rinsert (x : A * Z) (l : list (A * Z)) : list (A * Z) :=
    match l with
    | [] => [x]
    | y :: l' => if snd x <=? snd y then x :: l else y :: rinsert x l'
    end.
  (** stable sort by timestamp (`glidesort` is stable) *)
  Definition rsort (l : list (A * Z)) : list (A * Z) := fold_right rinsert [] l.

  Fixpoint rsplit (w : Z) (l : list (A * Z)) : list (A * Z) * list (A * Z) :=
    match l with
    | [] => ([], [])
    | x :: l' => if snd x <=? w then let '(a, b) := rsplit w l' in (x :: a, b) else ([], l)
    end.

  Definition reorder_step (buf : list (A * Z)) (e : elem A) : list (A * Z) * list (elem A) :=
    match e with
    | Item v => (buf, [Item v])                 (* not timestamped: forwarded at once *)
    | Tst v t => (buf ++ [(v, t)], [])
    | Wm w =>
        let '(rel, rest) := rsplit w (rsort buf) in
        (rest, map (fun '(v, t) => Tst v t) rel ++ [Wm w])
    | FlushBatch => (buf, [FlushBatch])
    | FAR => ([], map (fun '(v, t) => Tst v t) (rsort buf) ++ [FAR])
    | Terminate => (buf, [Terminate])
    end.

  Definition reorder_machine : machine (elem A) (elem A) :=
    {| mstate := list (A * Z); minit := []; mstep := reorder_step |}.
End Reorder.

(** ** Keyed RichMap: one copy of the stateful closure per key; state survives rounds
    (`maps_fn.clear()` is commented out in the source) *)
Section RichMap.
  Context {A S O : Type}.
  Variable (s0 : S) (f : S -> Z -> A -> S * O).

  Definition rich_step (m : list (Z * S)) (e : elem (Z * A)) : list (Z * S) * list (elem (Z * O)) :=
    match e with
    | Item (k, v) =>
        let s := match aget k m with Some s => s | None => s0 end in
        let '(s1, o) := f s k v in
        (aupd k (fun _ => s1) m, [Item (k, o)])
    | Tst (k, v) t =>
        let s := match aget k m with Some s => s | None => s0 end in
        let '(s1, o) := f s k v in
        (aupd k (fun _ => s1) m, [Tst (k, o) t])
    | Wm t => (m, [Wm t]) | FlushBatch => (m, [FlushBatch])
    | Terminate => (m, [Terminate]) | FAR => (m, [FAR])
    end.
  Definition rich_map_machine : machine (elem (Z * A)) (elem (Z * O)) :=
    {| mstate := list (Z * S); minit := []; mstep := rich_step |}.
End RichMap.

(** sequential composition of machines *)
Definition compose {I M O} (m1 : machine I M) (m2 : machine M O) : machine I O :=
  {| mstate := (mstate m1 * mstate m2)%type;
     minit := (minit m1, minit m2);
     mstep := fun s x =>
       let '(s1, o1) := mstep m1 (fst s) x in
       let '(s2, o2) := run_from m2 (snd s) o1 in
       ((s1, s2), o2) |}.

(** Model of the scheduler's placement and wiring (src/scheduler.rs: `local_block_info`,
    `remote_block_info`, `build_execution_graph`; src/block/mod.rs: `Replication`) and of the
    socket assignment of `NetworkTopology::build` (src/network/topology.rs), as pure
    functions of the job graph and the host list. Nothing here depends on the identity of
    the host that evaluates it, nor on any hash-map iteration order. *)
From Coq Require Import List ZArith Arith Bool Lia.
Import ListNotations.
Open Scope nat_scope.

Inductive replication := RUnlimited | RLimited (n : nat) | RHost | ROne.

Definition intersect (a b : replication) : replication :=
  match a, b with
  | ROne, _ | _, ROne => ROne
  | RHost, _ | _, RHost => RHost
  | RLimited n, RLimited m => RLimited (Nat.min n m)
  | RLimited n, _ | _, RLimited n => RLimited n
  | RUnlimited, RUnlimited => RUnlimited
  end.

(** a replica coordinate: (block, host, replica) *)
Record coord := { c_block : nat; c_host : nat; c_replica : nat }.
Definition coord_eqb (a b : coord) : bool :=
  Nat.eqb (c_block a) (c_block b) && Nat.eqb (c_host a) (c_host b) && Nat.eqb (c_replica a) (c_replica b).

(** deployment: [Local p] or a list of hosts given by their core counts *)
Inductive deployment := Local (parallelism : nat) | Remote (cores : list nat).

(** replicas of a host: (host, 0) .. (host, n-1) *)
Definition host_replicas (b h n : nat) : list coord :=
  map (fun r => {| c_block := b; c_host := h; c_replica := r |}) (seq 0 n).

(** `remote_block_info`: how many replicas each host gets, host by host *)
Fixpoint limited_fill (remaining : nat) (cores : list nat) : list nat :=
  match cores with
  | [] => []
  | c :: cs => let n := Nat.min remaining c in n :: limited_fill (remaining - n) cs
  end.

Definition per_host (r : replication) (cores : list nat) : list nat :=
  match r with
  | RUnlimited => cores
  | RLimited n => limited_fill n cores
  | RHost => map (fun _ => 1) cores
  | ROne => match cores with [] => [] | _ :: cs => 1 :: map (fun _ => 0) cs end
  end.

(** the replicas of a block in global-id order (`global_counter`) *)
Definition block_replicas (d : deployment) (b : nat) (r : replication) : list coord :=
  match d with
  | Local p =>
      let n := match r with RUnlimited => p | RLimited q => Nat.min p q | RHost | ROne => 1 end in
      host_replicas b 0 n
  | Remote cores =>
      concat (map (fun '(h, n) => host_replicas b h n) (combine (seq 0 (length cores)) (per_host r cores)))
  end.

(** global index of a replica = its position in [block_replicas] *)
Fixpoint index_of (c : coord) (l : list coord) : option nat :=
  match l with
  | [] => None
  | x :: l' => if coord_eqb c x then Some 0 else option_map S (index_of c l')
  end.

(** ** Wiring of one job edge *)
Definition coord_ltb (a b : coord) : bool :=   (* derive(Ord): block, host, replica *)
  if Nat.ltb (c_block a) (c_block b) then true else if Nat.ltb (c_block b) (c_block a) then false else
  if Nat.ltb (c_host a) (c_host b) then true else if Nat.ltb (c_host b) (c_host a) then false else
  Nat.ltb (c_replica a) (c_replica b).
Fixpoint cinsert (x : coord) (l : list coord) : list coord :=
  match l with [] => [x] | y :: l' => if coord_ltb x y then x :: l else y :: cinsert x l' end.
Definition csort (l : list coord) : list coord := fold_right cinsert [] l.

Definition same_index (f t : coord) : bool :=
  Nat.eqb (c_host f) (c_host t) && Nat.eqb (c_replica f) (c_replica t).

(** consumers of producer [f] (global index [gid]) over an edge: forward (`OnlyOne` / fragile)
    edges pick the only consumer, the same-index consumer, or — when there is none and the
    edge is not fragile — the consumer `gid mod |to|` of the sorted consumer list (fix F2);
    every other edge is all-to-all *)
Definition consumers (forward fragile : bool) (f : coord) (gid : nat) (to : list coord) : list coord :=
  if forward || fragile then
    let st := csort to in
    if Nat.eqb (length st) 1 then st
    else
      let has_same := existsb (same_index f) st in
      filter (fun t => same_index f t ||
                       (negb has_same && negb fragile && Nat.ltb 1 (length st) &&
                        coord_eqb t (nth (gid mod length st) st t))) st
  else csort to.

Record edge := { e_from : nat; e_to : nat; e_forward : bool; e_fragile : bool }.
Record block := { b_id : nat; b_repl : replication }.

Definition repl_of (bs : list block) (id : nat) : replication :=
  match find (fun b => Nat.eqb (b_id b) id) bs with Some b => b_repl b | None => RUnlimited end.

(** all links of the execution graph: (producer, consumer, fragile) *)
Definition links (d : deployment) (bs : list block) (es : list edge) : list (coord * coord * bool) :=
  flat_map (fun e =>
    let from := block_replicas d (e_from e) (repl_of bs (e_from e)) in
    let to := block_replicas d (e_to e) (repl_of bs (e_to e)) in
    flat_map (fun '(gid, f) => map (fun t => (f, t, e_fragile e)) (consumers (e_forward e) (e_fragile e) f gid to))
             (combine (seq 0 (length from)) from)) es.

(** ** Socket assignment: one demultiplexer per (consumer block, consumer host, producer
    block), numbered per host in sorted order *)
Record demux := { d_block : nat; d_host : nat; d_prev : nat }.
Definition demux_eqb (a b : demux) : bool :=
  Nat.eqb (d_block a) (d_block b) && Nat.eqb (d_host a) (d_host b) && Nat.eqb (d_prev a) (d_prev b).
Definition demux_ltb (a b : demux) : bool :=   (* derive(Ord): (coord: (block, host), prev_block) *)
  if Nat.ltb (d_block a) (d_block b) then true else if Nat.ltb (d_block b) (d_block a) then false else
  if Nat.ltb (d_host a) (d_host b) then true else if Nat.ltb (d_host b) (d_host a) then false else
  Nat.ltb (d_prev a) (d_prev b).
Fixpoint dinsert (x : demux) (l : list demux) : list demux :=
  match l with
  | [] => [x]
  | y :: l' => if demux_eqb x y then l else if demux_ltb x y then x :: l else y :: dinsert x l'
  end.
Definition dsort_dedup (l : list demux) : list demux := fold_right dinsert [] l.

Definition demux_of (l : coord * coord * bool) : demux :=
  let '(f, t, _) := l in {| d_block := c_block t; d_host := c_host t; d_prev := c_block f |}.

(** port offset of each demultiplexer: its rank among the demultiplexers of its host *)
Fixpoint assign_ports (used : list (nat * nat)) (l : list demux) : list (demux * nat) :=
  match l with
  | [] => []
  | x :: l' =>
      let off := match find (fun p => Nat.eqb (fst p) (d_host x)) used with Some p => snd p | None => 0 end in
      let used' := (d_host x, S off) :: filter (fun p => negb (Nat.eqb (fst p) (d_host x))) used in
      (x, off) :: assign_ports used' l'
  end.
Definition port_offsets (ls : list (coord * coord * bool)) : list (demux * nat) :=
  assign_ports [] (dsort_dedup (map demux_of ls)).

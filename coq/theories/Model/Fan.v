(** Models of the two-input fan-in operators that sit directly behind the two-input Start:
    `merge` (src/operator/merge.rs: keep the items of both sides, drop the end-of-side
    markers) and `Zip` (src/operator/zip.rs). *)
From Noir Require Export Base.Elem Model.BinaryStart.
Open Scope Z_scope.

Section Merge.
  Context {A : Type}.
  Definition merge_step (_ : unit) (e : elem (bin A A)) : unit * list (elem A) :=
    (tt, match e with
         | Item (BL x) | Item (BR x) => [Item x]
         | Tst (BL x) t | Tst (BR x) t => [Tst x t]
         | Item _ | Tst _ _ => []
         | Wm t => [Wm t] | FlushBatch => [FlushBatch] | Terminate => [Terminate] | FAR => [FAR]
         end).
  Definition merge_machine : machine (elem (bin A A)) (elem A) :=
    {| mstate := unit; minit := tt; mstep := merge_step |}.
End Merge.

Section Zip.
  Context {A B : Type}.
  (** the two stashes; [None] = the implementation panicked (mixing timestamped and
      non-timestamped items) *)
  Record zstate := { z1 : list (A * option Z); z2 : list (B * option Z) }.
  Definition z0 := {| z1 := []; z2 := [] |}.

  Definition zpair (a : A * option Z) (b : B * option Z) : option (elem (A * B)) :=
    match snd a, snd b with
    | None, None => Some (Item (fst a, fst b))
    | Some t, Some u => Some (Tst (fst a, fst b) (Z.max t u))
    | _, _ => None
    end.

  (** after stashing an element: emit a pair if both stashes are non-empty *)
  Definition zemit (s : zstate) : option zstate * list (elem (A * B)) :=
    match z1 s, z2 s with
    | a :: r1, b :: r2 =>
        match zpair a b with
        | Some p => (Some {| z1 := r1; z2 := r2 |}, [p])
        | None => (None, [])
        end
    | _, _ => (Some s, [])
    end.

  Definition zip_step (st : option zstate) (e : elem (bin A B)) : option zstate * list (elem (A * B)) :=
    match st with
    | None => (None, [])
    | Some s =>
      match e with
      | Item (BL x) => zemit {| z1 := z1 s ++ [(x, None)]; z2 := z2 s |}
      | Tst (BL x) t => zemit {| z1 := z1 s ++ [(x, Some t)]; z2 := z2 s |}
      | Item (BR y) => zemit {| z1 := z1 s; z2 := z2 s ++ [(y, None)] |}
      | Tst (BR y) t => zemit {| z1 := z1 s; z2 := z2 s ++ [(y, Some t)] |}
      | Item _ | Tst _ _ => (st, [])                       (* LeftEnd / RightEnd ignored *)
      | Wm t => (st, [Wm t])
      | FAR => (Some z0, [FAR])                            (* unmatched items are forgotten *)
      | FlushBatch => (st, [FlushBatch])
      | Terminate => (st, [Terminate])
      end
    end.
  Definition zip_machine : machine (elem (bin A B)) (elem (A * B)) :=
    {| mstate := option zstate; minit := Some z0; mstep := zip_step |}.
End Zip.

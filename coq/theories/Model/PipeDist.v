(** The DISTRIBUTED meaning of a pipeline (C01): every stream is a list of partitions (one
    per replica, any number of replicas); stateless operators work partition-wise; every
    block boundary is an exchange whose outcome is constrained only by what the connection
    kind promises (C02/C03/C05: each element delivered exactly once — so the exchange
    preserves the multiset — to a replica that for group-by depends only on the key; arrival
    order arbitrary). The relation [dexec p d] holds for EVERY result [d] the engine may
    produce under some parallelism, partitioning and schedule; C01 is the theorem that all of
    them flatten to a permutation of the sequential meaning [denote p]. *)
From Noir Require Export Model.Pipe.
From Coq Require Export Permutation List ZArith Bool.
Export ListNotations.
Open Scope Z_scope.

Definition dist := list (list P).
Definition flat (d : dist) : list P := concat d.

(** an exchange over a shuffle / forward / replication-changing connection: any
    repartitioning and reordering that preserves the multiset *)
Definition exchange (d d' : dist) : Prop := Permutation (flat d) (flat d').
(** a group-by exchange: additionally, equal keys end up in the same partition *)
Definition key_partitioned (d : dist) : Prop :=
  forall i j x y, In x (nth i d []) -> In y (nth j d []) -> fst x = fst y -> i = j.
Definition exchange_by_key (d d' : dist) : Prop := exchange d d' /\ key_partitioned d'.
(** everything to one replica (`Replication::One`), in some arrival order *)
Definition gather (d : dist) (l : list P) : Prop := Permutation (flat d) l.

Definition stateless (o : op1) : bool :=
  match o with OMapAdd _ | OSetKey _ | OFilterNe _ | OFlatRep _ | OAddState => true | _ => false end.

Definition keyed_agg (o : op1) : option (list Z -> Z) :=
  match o with
  | OGroupBySum | OGroupByThenFoldSum => Some zsum
  | OGroupByCount => Some (fun l => Z.of_nat (length l))
  | OGroupByMax | OGroupByReduceMax => Some zmax
  | OGroupByMin => Some zmin
  | _ => None
  end.

(** the join a replica performs on the two partitions it received (hash or sort-merge local
    algorithm: same result) *)
Definition local_join (v : jvar) (l r : list P) : list P := ev_join v l r.

(** distributed steps of the operators, [state] = the loop state visible to the body *)
Inductive dstep : Z -> op1 -> dist -> dist -> Prop :=
| ds_local : forall state o d, stateless o = true -> dstep state o d (map (ev1 state o) d)
| ds_shuffle : forall state d d', exchange d d' -> dstep state OShuffle d d'
| ds_repl : forall state r d d', exchange d d' -> dstep state (ORepl r) d d'
  (* shuffle-then-aggregate forms (sum / count / min / max are implemented as two-phase
     folds over Option-lifted functions; for these commutative monoids the pre-aggregation is
     covered by [ds_two_phase] and they are also admitted here as single-phase) *)
| ds_keyed : forall state o f d d', keyed_agg o = Some f -> exchange_by_key d d' ->
    dstep state o d (map (per_key f) d')
  (* locally pre-aggregated forms: per-partition aggregation, exchange by key, aggregation
     of the partial results *)
| ds_two_phase_sum : forall state o d d', (o = OGroupByFoldSum \/ o = OGroupBySum) ->
    exchange_by_key (map (per_key zsum) d) d' -> dstep state o d (map (per_key zsum) d')
| ds_two_phase_max : forall state o d d', (o = OGroupByMax \/ o = OGroupByReduceMax) ->
    exchange_by_key (map (per_key zmax) d) d' -> dstep state o d (map (per_key zmax) d')
| ds_two_phase_min : forall state d d',
    exchange_by_key (map (per_key zmin) d) d' -> dstep state OGroupByMin d (map (per_key zmin) d')
| ds_two_phase_count : forall state d d',
    exchange_by_key (map (per_key (fun l => Z.of_nat (length l))) d) d' ->
    dstep state OGroupByCount d (map (per_key zsum) d')
  (* global folds: everything gathered on one replica in arrival order *)
| ds_fold : forall state d l, gather d l -> dstep state OFoldSum d [ev1 state OFoldSum l]
| ds_reduce : forall state d l, gather d l -> dstep state OReduceMax d [ev1 state OReduceMax l]
  (* their two-phase variants: fold per partition, gather the partial results, fold again *)
| ds_fold_assoc : forall state d l, gather (map (ev1 state OFoldSum) d) l ->
    dstep state OFoldAssocSum d [ev1 state OFoldSum l]
| ds_reduce_assoc : forall state d l, gather (map (ev1 state OReduceMax) d) l ->
    dstep state OReduceAssocMax d [ev1 state OReduceMax l]
  (* a nested replay loop: the exchanged input is re-fed every round; the state is the
     running sum of the body's output values *)
| ds_nested : forall state n limit body d d0 st, exchange d d0 ->
    dloop n limit body d0 (Z.to_nat (Z.max n 1)) 0 0 st ->
    dstep state (ONested n limit body) d [[(0, st)]]
  (* the same, but the body of every inner round reads the ENCLOSING state [state] *)
| ds_nestedO : forall state n limit body d d0 st, exchange d d0 ->
    dloopO state n limit body d0 (Z.to_nat (Z.max n 1)) 0 0 st ->
    dstep state (ONestedO n limit body) d [[(0, st)]]
  (* join with a constant side input, hash shipping (as [de_join_hash]): the current stream
     is exchanged to [dl'], the side input is ANY distribution [dr'] of [side] over the same
     replicas (equal keys of both sides on the same replica), joined locally; inside a loop
     body the cached side input is replayed every round, so every round may see another
     distribution of it *)
| ds_join_side : forall state v lo side d dl' dr',
    exchange d dl' -> Permutation (flat dr') side -> length dl' = length dr' ->
    key_partitioned (map (fun lr => fst lr ++ snd lr) (combine dl' dr')) ->
    dstep state (OJoinSide v lo side) d (map (fun lr => local_join v (fst lr) (snd lr)) (combine dl' dr'))
  (* the same with the roles swapped: the side input is the LEFT side (any distribution [dl']
     of it), the current stream is exchanged to the RIGHT side [dr'] *)
| ds_join_side_l : forall state v lo side d dl' dr',
    exchange d dr' -> Permutation (flat dl') side -> length dl' = length dr' ->
    key_partitioned (map (fun lr => fst lr ++ snd lr) (combine dl' dr')) ->
    dstep state (OJoinSideL v lo side) d (map (fun lr => local_join v (fst lr) (snd lr)) (combine dl' dr'))

with dsteps : Z -> list op1 -> dist -> dist -> Prop :=
| dss_nil : forall state d, dsteps state [] d d
| dss_cons : forall state o os d d1 d2, dstep state o d d1 -> dsteps state os d1 d2 -> dsteps state (o :: os) d d2

(** [dloop _ n limit body d fuel k st result]: rounds k+1, k+2, .. of a replay loop over the
    (fixed, distributed) input [d], starting from state [st] *)
with dloop : Z -> Z -> list op1 -> dist -> nat -> Z -> Z -> Z -> Prop :=
| dl_stop : forall n limit body d k st, dloop n limit body d O k st st
| dl_continue : forall n limit body d fuel k st d' res,
    dsteps st body d d' ->
    ((st + zsum (map snd (flat d')) <? limit) && (k + 1 <? n)) = true ->
    dloop n limit body d fuel (k + 1) (st + zsum (map snd (flat d'))) res ->
    dloop n limit body d (S fuel) k st res
| dl_last : forall n limit body d fuel k st d',
    dsteps st body d d' ->
    ((st + zsum (map snd (flat d')) <? limit) && (k + 1 <? n)) = false ->
    dloop n limit body d (S fuel) k st (st + zsum (map snd (flat d')))

(** [dloopO outer n limit body d fuel k st result]: as [dloop], but the body of every round
    runs with the ENCLOSING state [outer] (constant over the inner rounds); the inner running
    sum [st] only drives the stop condition and the result *)
with dloopO : Z -> Z -> Z -> list op1 -> dist -> nat -> Z -> Z -> Z -> Prop :=
| dlo_stop : forall outer n limit body d k st, dloopO outer n limit body d O k st st
| dlo_continue : forall outer n limit body d fuel k st d' res,
    dsteps outer body d d' ->
    ((st + zsum (map snd (flat d')) <? limit) && (k + 1 <? n)) = true ->
    dloopO outer n limit body d fuel (k + 1) (st + zsum (map snd (flat d'))) res ->
    dloopO outer n limit body d (S fuel) k st res
| dlo_last : forall outer n limit body d fuel k st d',
    dsteps outer body d d' ->
    ((st + zsum (map snd (flat d')) <? limit) && (k + 1 <? n)) = false ->
    dloopO outer n limit body d (S fuel) k st (st + zsum (map snd (flat d'))).

(** feedback loop (`iterate`): the body's distributed output is the next round's input *)
Inductive diter : Z -> Z -> list op1 -> dist -> nat -> Z -> Z -> Z * dist -> Prop :=
| di_stop : forall n limit body d k st, diter n limit body d O k st (st, d)
| di_continue : forall n limit body d fuel k st d' d'' res,
    dsteps st body d d' -> exchange d' d'' ->
    ((st + zsum (map snd (flat d'')) <? limit) && (k + 1 <? n)) = true ->
    diter n limit body d'' fuel (k + 1) (st + zsum (map snd (flat d''))) res ->
    diter n limit body d (S fuel) k st res
| di_last : forall n limit body d fuel k st d' d'',
    dsteps st body d d' -> exchange d' d'' ->
    ((st + zsum (map snd (flat d'')) <? limit) && (k + 1 <? n)) = false ->
    diter n limit body d (S fuel) k st (st + zsum (map snd (flat d'')), d'').

Inductive dexec : pipe -> dist -> Prop :=
| de_src : forall par xs d, Permutation (flat d) xs -> dexec (PSrc par xs) d
| de_op : forall p o d d', dexec p d -> dstep 0 o d d' -> dexec (POp p o) d'
  (* hash shipping: both sides exchanged by key onto the same n replicas (equal keys of both
     sides on the same replica), joined locally *)
| de_join_hash : forall l r v lo dl dr dl' dr',
    dexec l dl -> dexec r dr -> exchange dl dl' -> exchange dr dr' -> length dl' = length dr' ->
    key_partitioned (map (fun lr => fst lr ++ snd lr) (combine dl' dr')) ->
    dexec (PJoin l r v ShHash lo) (map (fun lr => local_join v (fst lr) (snd lr)) (combine dl' dr'))
  (* broadcast shipping (inner / left): the left side stays where it is, every replica gets
     the whole right side *)
| de_join_broadcast : forall l r v lo dl dr rs,
    dexec l dl -> dexec r dr -> v <> JvOuter -> Permutation (flat dr) rs ->
    dexec (PJoin l r v ShBroadcast lo) (map (fun lp => local_join v lp rs) dl)
| de_merge : forall l r dl dr d, dexec l dl -> dexec r dr -> exchange (dl ++ dr) d -> dexec (PMerge l r) d
| de_split_merge : forall p a b d da db d', dexec p d -> dsteps 0 a d da -> dsteps 0 b d db ->
    exchange (da ++ db) d' -> dexec (PSplit p a b None) d'
| de_split_join : forall p a b v d da db dl' dr', dexec p d -> dsteps 0 a d da -> dsteps 0 b d db ->
    exchange da dl' -> exchange db dr' -> length dl' = length dr' ->
    key_partitioned (map (fun lr => fst lr ++ snd lr) (combine dl' dr')) ->
    dexec (PSplit p a b (Some v)) (map (fun lr => local_join v (fst lr) (snd lr)) (combine dl' dr'))
| de_replay : forall p n limit body d d0 st, dexec p d -> exchange d d0 ->
    dloop n limit body d0 (Z.to_nat (Z.max n 1)) 0 0 st ->
    dexec (PReplay p n limit body) [[(0, st)]]
| de_iterate : forall p n limit body take_state d d0 st dout, dexec p d -> exchange d d0 ->
    diter n limit body d0 (Z.to_nat (Z.max n 1)) 0 0 (st, dout) ->
    dexec (PIterate p n limit body take_state) (if take_state then [[(0, st)]] else dout).

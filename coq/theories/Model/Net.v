(** Abstract small-step model of a job as a network of replicas connected by bounded FIFO
    channels (C04: every job whose sources are finite terminates).

    Engine facts this mirrors (src/network/network_channel.rs, src/operator/end.rs,
    src/operator/start/{mod,binary}.rs, src/worker.rs):
    - a replica is a thread running the pull loop Start -> operators -> End (`do_work`);
    - `local_channel` creates ONE bounded channel (CHANNEL_CAPACITY = 16) per receiving replica
      and previous block: a channel has exactly one consumer and is shared by all the replicas
      of the previous block (several producers). A job-graph "edge" with its own queue is the
      special case of a channel with a single producer;
    - `send` blocks while the channel is full, `recv`/`select` block while every channel the
      Start is willing to read is empty;
    - the job graph is acyclic: nodes are numbered topologically, every producer of a channel
      has a smaller number than its consumer.

    A node is described only through its interface ([node_sem]): whether it has finished, which
    message it wants to put on which channel next ([pending]; it is blocked exactly while that
    channel is full), which incoming channels it is willing to read now ([wants]; it is blocked
    exactly while all of them are empty), and how its local state changes. Messages are
    abstract. *)
From Coq Require Import List Arith Bool Lia.
Import ListNotations.

(** replace position [i] of a list (no effect out of range) *)
Fixpoint upd {X : Type} (i : nat) (v : X) (l : list X) : list X :=
  match i, l with
  | O, _ :: l' => v :: l'
  | S i', x :: l' => x :: upd i' v l'
  | _, [] => []
  end.

(** ** Node interface *)
Record node_sem (msg st : Type) := {
  finished : st -> bool;                    (* the replica has exited its loop *)
  pending : st -> option (nat * msg);       (* Some (c, m): next thing to do is `send m` on channel c *)
  wants : st -> list nat;                   (* no pending send: channels it is willing to receive from *)
  on_send : st -> st;                       (* the pending message was accepted by the channel *)
  on_recv : st -> nat -> msg -> st;         (* received m from wanted channel c *)
  on_tau : st -> option st                  (* optional internal step (never blocks) *)
}.
Arguments finished {msg st}. Arguments pending {msg st}. Arguments wants {msg st}.
Arguments on_send {msg st}. Arguments on_recv {msg st}. Arguments on_tau {msg st}.

(** ** Network: topology, node semantics, initial state *)
Record state (msg st : Type) := { nodes : list st; chans : list (list msg) }.
Arguments nodes {msg st}. Arguments chans {msg st}.

Record net (msg st : Type) := {
  n_nodes : nat;                            (* nodes are 0 .. n_nodes-1, numbered topologically *)
  n_chans : nat;                            (* channels are 0 .. n_chans-1 *)
  n_cons : nat -> nat;                      (* the consumer of a channel *)
  n_prod : nat -> nat -> bool;              (* [n_prod c i]: node i is one of the producers of c *)
  n_cap : nat -> nat;                       (* capacity of a channel *)
  n_sem : nat -> node_sem msg st;           (* behaviour of each node *)
  n_init : state msg st
}.
Arguments n_nodes {msg st}. Arguments n_chans {msg st}. Arguments n_cons {msg st}.
Arguments n_prod {msg st}. Arguments n_cap {msg st}. Arguments n_sem {msg st}. Arguments n_init {msg st}.

(** schedule entries: which node does what *)
Inductive action := ASend (i : nat) | ARecv (i c : nat) | ATau (i : nat).

Section Semantics.
  Context {msg st : Type} (NW : net msg st).
  Notation State := (state msg st).

  (** static well-formedness: every channel has its consumer inside the network and capacity
      >= 1; every producer of a channel precedes its consumer (acyclic job graph, topological
      numbering); the initial state has one entry per node / channel *)
  Definition net_ok : Prop :=
    (forall c, c < n_chans NW -> n_cons NW c < n_nodes NW /\ 1 <= n_cap NW c) /\
    (forall c i, c < n_chans NW -> n_prod NW c i = true -> i < n_cons NW c) /\
    length (nodes (n_init NW)) = n_nodes NW /\
    length (chans (n_init NW)) = n_chans NW.

  Definition chan (s : State) (c : nat) : list msg := nth c (chans s) [].
  Definition node_at (s : State) (i : nat) : option st := nth_error (nodes s) i.

  (** ** Steps: one node does one thing *)
  Inductive step : State -> State -> Prop :=
  | step_send : forall s i x c m,
      node_at s i = Some x -> finished (n_sem NW i) x = false ->
      pending (n_sem NW i) x = Some (c, m) ->
      length (chan s c) < n_cap NW c ->                       (* `send` blocks while full *)
      step s {| nodes := upd i (on_send (n_sem NW i) x) (nodes s);
                chans := upd c (chan s c ++ [m]) (chans s) |}
  | step_recv : forall s i x c m q,
      node_at s i = Some x -> finished (n_sem NW i) x = false ->
      pending (n_sem NW i) x = None ->
      In c (wants (n_sem NW i) x) ->
      chan s c = m :: q ->                                     (* `recv` blocks while empty *)
      step s {| nodes := upd i (on_recv (n_sem NW i) x c m) (nodes s);
                chans := upd c q (chans s) |}
  | step_tau : forall s i x x',
      node_at s i = Some x -> finished (n_sem NW i) x = false ->
      pending (n_sem NW i) x = None ->
      on_tau (n_sem NW i) x = Some x' ->
      step s {| nodes := upd i x' (nodes s); chans := chans s |}.

  Inductive reachable : State -> Prop :=
  | reach_init : reachable (n_init NW)
  | reach_step : forall s s', reachable s -> step s s' -> reachable s'.

  Inductive steps : State -> State -> Prop :=
  | steps_refl : forall s, steps s s
  | steps_cons : forall s s' s'', step s s' -> steps s' s'' -> steps s s''.

  (** all replicas have exited *)
  Definition final (s : State) : Prop :=
    forall i x, node_at s i = Some x -> finished (n_sem NW i) x = true.

  (** deadlock: somebody has not finished and nobody can move *)
  Definition stuck (s : State) : Prop := ~ final s /\ forall s', ~ step s s'.

  (** every execution from [s] is finite and can only stop in a final state *)
  Inductive terminating : State -> Prop :=
  | terminating_intro : forall s,
      (final s \/ exists s', step s s') ->
      (forall s', step s s' -> terminating s') ->
      terminating s.

  (** ** Executable form (used to replay concrete schedules) *)
  Definition exec (s : State) (a : action) : option State :=
    match a with
    | ASend i =>
        match node_at s i with
        | Some x =>
            if finished (n_sem NW i) x then None else
            match pending (n_sem NW i) x with
            | Some (c, m) =>
                if length (chan s c) <? n_cap NW c
                then Some {| nodes := upd i (on_send (n_sem NW i) x) (nodes s);
                             chans := upd c (chan s c ++ [m]) (chans s) |}
                else None
            | None => None
            end
        | None => None
        end
    | ARecv i c =>
        match node_at s i with
        | Some x =>
            if finished (n_sem NW i) x then None else
            match pending (n_sem NW i) x with
            | Some _ => None
            | None =>
                if existsb (Nat.eqb c) (wants (n_sem NW i) x) then
                  match chan s c with
                  | m :: q => Some {| nodes := upd i (on_recv (n_sem NW i) x c m) (nodes s);
                                      chans := upd c q (chans s) |}
                  | [] => None
                  end
                else None
            end
        | None => None
        end
    | ATau i =>
        match node_at s i with
        | Some x =>
            if finished (n_sem NW i) x then None else
            match pending (n_sem NW i) x with
            | Some _ => None
            | None =>
                match on_tau (n_sem NW i) x with
                | Some x' => Some {| nodes := upd i x' (nodes s); chans := chans s |}
                | None => None
                end
            end
        | None => None
        end
    end.

  Fixpoint exec_all (s : State) (l : list action) : option State :=
    match l with
    | [] => Some s
    | a :: l' => match exec s a with Some s' => exec_all s' l' | None => None end
    end.

  (** can node [i] move in [s]? *)
  Definition enabled (s : State) (i : nat) : bool :=
    match node_at s i with
    | Some x =>
        if finished (n_sem NW i) x then false else
        match pending (n_sem NW i) x with
        | Some (c, _) => length (chan s c) <? n_cap NW c
        | None =>
            match on_tau (n_sem NW i) x with
            | Some _ => true
            | None => existsb (fun c => match chan s c with [] => false | _ => true end)
                              (wants (n_sem NW i) x)
            end
        end
    | None => false
    end.

  (** ** Obligations on a state (to be established as invariants of the reachable states).
      [lvl] assigns every node state a natural number, its "level" (for the engine: the number
      of end-of-round markers, FlushAndRestart, it has completely broadcast). With
      [lvl := fun _ _ => 0] one gets the plain obligations O1-O5 (see NetProofs.v). *)
  Section Obligations.
    Variable lvl : nat -> st -> nat.
    Variable s : State.

    (** O3 locality: a node sends only on channels it is a producer of, and receives only
        from channels it is the consumer of *)
    Definition ob_local : Prop :=
      forall i x, node_at s i = Some x -> finished (n_sem NW i) x = false ->
        (forall c m, pending (n_sem NW i) x = Some (c, m) -> c < n_chans NW /\ n_prod NW c i = true) /\
        (forall c, In c (wants (n_sem NW i) x) -> c < n_chans NW /\ n_cons NW c = i).

    (** O1+O2 receive-liveness: a node that is blocked in a receive (all wanted channels empty)
        wants at least one channel one of whose producers has not finished (and is not at a
        higher level than the node) *)
    Definition ob_recv_live : Prop :=
      forall i x, node_at s i = Some x -> finished (n_sem NW i) x = false ->
        pending (n_sem NW i) x = None -> on_tau (n_sem NW i) x = None ->
        (forall c, In c (wants (n_sem NW i) x) -> chan s c = []) ->
        exists c p y, In c (wants (n_sem NW i) x) /\ n_prod NW c p = true /\
                      node_at s p = Some y /\ finished (n_sem NW p) y = false /\
                      lvl p y <= lvl i x.

    (** O4 the consumer of a full channel on which somebody is blocked has not finished (and is
        not at a higher level than the blocked producer) *)
    Definition ob_consumer_alive : Prop :=
      forall i x c m, node_at s i = Some x -> finished (n_sem NW i) x = false ->
        pending (n_sem NW i) x = Some (c, m) -> n_cap NW c <= length (chan s c) ->
        exists y, node_at s (n_cons NW c) = Some y /\ finished (n_sem NW (n_cons NW c)) y = false /\
                  lvl (n_cons NW c) y <= lvl i x.

    (** O5 refusal: a consumer that sits in a receive and is NOT willing to read a full channel
        on which a producer is blocked is at a strictly lower level than that producer *)
    Definition ob_refusal : Prop :=
      forall i x c m y, node_at s i = Some x -> finished (n_sem NW i) x = false ->
        pending (n_sem NW i) x = Some (c, m) -> n_cap NW c <= length (chan s c) ->
        node_at s (n_cons NW c) = Some y -> finished (n_sem NW (n_cons NW c)) y = false ->
        pending (n_sem NW (n_cons NW c)) y = None -> on_tau (n_sem NW (n_cons NW c)) y = None ->
        ~ In c (wants (n_sem NW (n_cons NW c)) y) ->
        lvl (n_cons NW c) y < lvl i x.

    Definition safe_state : Prop := ob_local /\ ob_recv_live /\ ob_consumer_alive /\ ob_refusal.
  End Obligations.
End Semantics.

(** ** Marker-level replicas: a small concrete instance of the node interface

    What a replica does with respect to the end-of-stream protocol, abstracting from data
    values: messages are batches, classified as a data batch [MD], the batch that closes a
    round (it ends with FlushAndRestart, [MF]) or the Terminate batch [MT] (End sends the two
    markers in separate batches). A message carries the channel it is finally meant for, so
    that it can travel through a multiplexed remote connection first.

    - a source has its whole output ready: data, then FlushAndRestart to every consumer, then
      Terminate to every consumer (given in the initial state);
    - an operator replica with one or two input sides counts the markers per side as
      `Start`/`BinaryStartReceiver` do; when all FlushAndRestart of the round have arrived it
      broadcasts FlushAndRestart (End: to every consumer, in the order of [r_outs]) and starts
      the next round; when all Terminate have arrived it broadcasts Terminate and exits.
      A data batch is forwarded to the consumers in [r_douts].
      With two sides it reads only the side that has not ended the round
      (`BinaryStartReceiver::select`, Model/BinaryStart.v [bselect], no cached side);
    - a demultiplexer (src/network/sync/demultiplexer.rs `demux_thread`) serves ONE incoming
      connection, shared by all the local replicas of a block on the sending host and all
      replicas of the next block on the receiving host: it takes the next message from the
      connection and does a blocking `send` on the bounded channel of its destination. *)
Inductive marker := MD | MF | MT.
Definition emsg := (nat * marker)%type.         (* final destination channel, kind of batch *)

Inductive rkind :=
| KSrc
| KOp1 (c k : nat)                              (* one input channel with k producers *)
| KOp2 (l kl r kr : nat)                        (* left/right channels and their producers *)
| KDemux (pipe : nat).

Record rcfg := {
  r_kind : rkind;
  r_outs : list (nat * nat);                    (* (channel written to, final destination): markers go to all, in this order *)
  r_douts : list (nat * nat)                    (* where a data batch is forwarded *)
}.

Record rstate := {
  r_outq : list (nat * emsg);                   (* sends still to do, in order: (channel, message) *)
  r_mfl : nat; r_mfr : nat;                     (* missing_flush_and_restart per side *)
  r_mtl : nat; r_mtr : nat;                     (* missing_terminate per side (demux: Terminates still to forward) *)
  r_rounds : nat;                               (* FlushAndRestart broadcasts started *)
  r_done : bool                                 (* Terminate emitted (source: always) *)
}.

Definition is_mf (x : nat * emsg) : bool := match snd (snd x) with MF => true | _ => false end.

Definition r_finished (x : rstate) : bool :=
  r_done x && match r_outq x with [] => true | _ => false end.

Definition r_pending (x : rstate) : option (nat * emsg) :=
  match r_outq x with [] => None | p :: _ => Some p end.

Definition r_wants (cf : rcfg) (x : rstate) : list nat :=
  match r_kind cf with
  | KSrc => []
  | KDemux p => [p]
  | KOp1 c _ => [c]
  | KOp2 l _ r _ =>
      if Nat.eqb (r_mfl x) 0 then [r]
      else if Nat.eqb (r_mfr x) 0 then [l]
      else if Nat.eqb (r_mtl x) 0 then [r]
      else if Nat.eqb (r_mtr x) 0 then [l]
      else [l; r]
  end.

Definition r_on_send (x : rstate) : rstate :=
  {| r_outq := tl (r_outq x); r_mfl := r_mfl x; r_mfr := r_mfr x; r_mtl := r_mtl x; r_mtr := r_mtr x;
     r_rounds := r_rounds x; r_done := r_done x |}.

Definition bcast (outs : list (nat * nat)) (m : marker) : list (nat * emsg) :=
  map (fun '(w, d) => (w, (d, m))) outs.

(** counters after one marker on the left (sd = true) or right side; kl, kr: producers *)
Definition r_count (cf : rcfg) (kl kr : nat) (sd : bool) (m : marker) (x : rstate) : rstate :=
  match m with
  | MD => {| r_outq := r_outq x ++ bcast (r_douts cf) MD; r_mfl := r_mfl x; r_mfr := r_mfr x;
             r_mtl := r_mtl x; r_mtr := r_mtr x; r_rounds := r_rounds x; r_done := r_done x |}
  | MF =>
      let fl := if sd then pred (r_mfl x) else r_mfl x in
      let fr := if sd then r_mfr x else pred (r_mfr x) in
      if Nat.eqb (fl + fr) 0 then
        {| r_outq := r_outq x ++ bcast (r_outs cf) MF; r_mfl := kl; r_mfr := kr;
           r_mtl := r_mtl x; r_mtr := r_mtr x; r_rounds := S (r_rounds x); r_done := r_done x |}
      else
        {| r_outq := r_outq x; r_mfl := fl; r_mfr := fr;
           r_mtl := r_mtl x; r_mtr := r_mtr x; r_rounds := r_rounds x; r_done := r_done x |}
  | MT =>
      let tl' := if sd then pred (r_mtl x) else r_mtl x in
      let tr' := if sd then r_mtr x else pred (r_mtr x) in
      if Nat.eqb (tl' + tr') 0 then
        {| r_outq := r_outq x ++ bcast (r_outs cf) MT; r_mfl := r_mfl x; r_mfr := r_mfr x;
           r_mtl := 0; r_mtr := 0; r_rounds := r_rounds x; r_done := true |}
      else
        {| r_outq := r_outq x; r_mfl := r_mfl x; r_mfr := r_mfr x;
           r_mtl := tl'; r_mtr := tr'; r_rounds := r_rounds x; r_done := r_done x |}
  end.

Definition r_on_recv (cf : rcfg) (x : rstate) (c : nat) (m : emsg) : rstate :=
  match r_kind cf with
  | KSrc => x
  | KDemux _ =>
      let t := match snd m with MT => pred (r_mtl x) | _ => r_mtl x end in
      {| r_outq := r_outq x ++ [(fst m, m)]; r_mfl := r_mfl x; r_mfr := r_mfr x;
         r_mtl := t; r_mtr := r_mtr x; r_rounds := r_rounds x; r_done := Nat.eqb t 0 |}
  | KOp1 _ k => r_count cf k 0 true (snd m) x
  | KOp2 l kl r kr => r_count cf kl kr (Nat.eqb c l) (snd m) x
  end.

Definition r_sem (cf : rcfg) : node_sem emsg rstate :=
  {| finished := r_finished; pending := r_pending; wants := r_wants cf;
     on_send := r_on_send; on_recv := r_on_recv cf; on_tau := fun _ => None |}.

(** initial states *)
Definition r_src_init (data : list (nat * nat)) (cf : rcfg) : rstate :=
  {| r_outq := bcast data MD ++ bcast (r_outs cf) MF ++ bcast (r_outs cf) MT;
     r_mfl := 0; r_mfr := 0; r_mtl := 0; r_mtr := 0; r_rounds := 1; r_done := true |}.
Definition r_op_init (cf : rcfg) : rstate :=
  match r_kind cf with
  | KOp1 _ k => {| r_outq := []; r_mfl := k; r_mfr := 0; r_mtl := k; r_mtr := 0; r_rounds := 0; r_done := false |}
  | KOp2 _ kl _ kr => {| r_outq := []; r_mfl := kl; r_mfr := kr; r_mtl := kl; r_mtr := kr; r_rounds := 0; r_done := false |}
  | _ => {| r_outq := []; r_mfl := 0; r_mfr := 0; r_mtl := 0; r_mtr := 0; r_rounds := 0; r_done := false |}
  end.
Definition r_demux_init (nterm : nat) : rstate :=
  {| r_outq := []; r_mfl := 0; r_mfr := 0; r_mtl := nterm; r_mtr := 0; r_rounds := 0; r_done := false |}.

(** the level of a replica: the number of FlushAndRestart broadcasts it has completed *)
Definition r_level (x : rstate) : nat :=
  if existsb is_mf (r_outq x) then pred (r_rounds x) else r_rounds x.

(** Model of `WindowOperator` + `KeyedWindowManager` (src/operator/window/mod.rs):
    one window manager per key, created on the key's first element; control elements
    other than FlushBatch are given to every live manager and then forwarded. *)
From Noir Require Export Base.Elem Model.WinCount.
Open Scope Z_scope.

(** A window manager for one key (`trait WindowManager`). *)
Record wmgr (A C : Type) := {
  wst : Type;
  winit : wst;
  wstep : wst -> elem A -> wst * list (wres C);
  wrecycle : wst -> bool
}.
Arguments wst {A C}. Arguments winit {A C}. Arguments wstep {A C}. Arguments wrecycle {A C}.

Definition strip_key {A} (e : elem (Z * A)) : elem A := emap snd e.
Definition key_of {A} (e : elem (Z * A)) : option Z :=
  match e with Item (k, _) | Tst (k, _) _ => Some k | _ => None end.
Definition add_key {C} (k : Z) (r : wres C) : elem (Z * C) :=
  match r with (c, Some t) => Tst (k, c) t | (c, None) => Item (k, c) end.

Section WindowOp.
  Context {A C : Type} (M : wmgr A C).

  (** `HashMap<Key, W>` as an association list in insertion order. The real iteration
      order is unspecified: statements are per key / up to permutation, and the
      correspondence check canonicalises. *)
  Definition wmap := list (Z * wst M).

  Fixpoint wlookup (k : Z) (m : wmap) : option (wst M) :=
    match m with
    | [] => None
    | (k', s) :: m' => if Z.eqb k k' then Some s else wlookup k m'
    end.

  Fixpoint wset (k : Z) (s : wst M) (m : wmap) : wmap :=
    match m with
    | [] => [(k, s)]
    | (k', s') :: m' => if Z.eqb k k' then (k, s) :: m' else (k', s') :: wset k s m'
    end.

  (** the `retain` loop over all managers for a control element *)
  Fixpoint wctl (e : elem A) (m : wmap) : wmap * list (elem (Z * C)) :=
    match m with
    | [] => ([], [])
    | (k, s) :: m' =>
        let '(s1, rs) := wstep M s e in
        let '(m1, o1) := wctl e m' in
        ((if wrecycle M s1 then m1 else (k, s1) :: m1), map (add_key k) rs ++ o1)
    end.

  Definition wop_step (m : wmap) (e : elem (Z * A)) : wmap * list (elem (Z * C)) :=
    match e with
    | Item (k, _) | Tst (k, _) _ =>
        let s := match wlookup k m with Some s => s | None => winit M end in
        let '(s1, rs) := wstep M s (strip_key e) in
        (wset k s1 m, map (add_key k) rs)
    | FlushBatch => (m, [FlushBatch])
    | Wm t => let '(m1, o) := wctl (Wm t) m in (m1, o ++ [Wm t])
    | FAR => let '(m1, o) := wctl FAR m in (m1, o ++ [FAR])
    | Terminate => let '(m1, o) := wctl Terminate m in (m1, o ++ [Terminate])
    end.

  Definition wop_machine : machine (elem (Z * A)) (elem (Z * C)) :=
    {| mstate := wmap; minit := []; mstep := wop_step |}.

  (** what key [k]'s manager sees: its own data (key stripped) and every control element
      except FlushBatch *)
  Fixpoint proj_in (k : Z) (l : list (elem (Z * A))) : list (elem A) :=
    match l with
    | [] => []
    | e :: l' =>
        match key_of e with
        | Some k' => if Z.eqb k k' then strip_key e :: proj_in k l' else proj_in k l'
        | None => if is_flush_batch e then proj_in k l' else strip_key e :: proj_in k l'
        end
    end.

  (** the results the operator emitted for key [k] *)
  Fixpoint proj_out (k : Z) (l : list (elem (Z * C))) : list (elem C) :=
    match l with
    | [] => []
    | e :: l' =>
        match key_of e with
        | Some k' => if Z.eqb k k' then strip_key e :: proj_out k l' else proj_out k l'
        | None => proj_out k l'
        end
    end.

  (** control elements forwarded by the operator *)
  Definition controls {X} (l : list (elem X)) : list (elem unit) :=
    map (emap (fun _ => tt)) (filter (fun e => negb (is_data e)) l).
End WindowOp.

(** The count-window manager as a [wmgr]. `recycle()` is the trait default: false. *)
Definition wc_mgr {A B C} (acc0 : B) (proc : B -> A -> B) (out : B -> C)
  (size slide : nat) (exact : bool) : wmgr A C :=
  {| wst := list (@slot B);
     winit := [];
     wstep := wc_step acc0 proc out size slide exact;
     wrecycle := fun _ => false |}.

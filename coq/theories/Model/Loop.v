(** * Loops (property C10): the leader, and the per-host state publication protocol

    (a) [IterationLeader] (src/operator/iteration/leader.rs) as a function over the rounds'
        delta lists in arrival order.
    (b) The publication of the loop state on ONE host as a transition system: the generation
        counter of `IterationStateLock` (iteration/mod.rs), the shared state cell
        (`IterationStateRef`, an `UnsafeCell`), the loop heads of the host (`Replay` /
        `Iterate` replicas driving `IterationStateHandler`, state_handler.rs) and the `Start`
        of every body replica of the host (start/mod.rs, `wait_for_state`). *)
From Coq Require Import Arith Bool List Lia.
Import ListNotations.

(** ** (a) The leader *)
Section Leader.
  Variables St D : Type.
  Variable global : St -> D -> St.          (* `global_fold` *)
  Variable cond : St -> bool.               (* `loop_condition` *)
  Variable init : St.                       (* `initial_state` *)
  Variable max : nat.                       (* `max_iterations` *)

  Record lstate := { l_state : St;          (* `self.state` *)
                     l_index : nat }.       (* `self.iteration_index` *)

  Definition linit : lstate := {| l_state := init; l_index := 0 |}.

  (** one turn of the loop of `IterationLeader::next`, given the deltas of the round in the
      order in which `process_updates` receives them (one per `IterationEnd` replica):
      fold them into the state; `iteration_index += 1`; `final_result`:
      `should_continue = loop_condition(state) && iteration_index < max_iterations`;
      if the loop goes on the feedback is `(Continue, state)`, otherwise the state is taken
      as the result, `self.state` is reset to the initial state BEFORE the feedback is
      built - the heads receive `(Finished, initial_state)` - and the index is reset.
      Result: new leader state, feedback sent to every head, item emitted downstream. *)
  Definition lround (st : lstate) (deltas : list D) : lstate * (bool * St) * option St :=
    let s' := fold_left global deltas (l_state st) in
    let i' := S (l_index st) in
    if cond s' && (i' <? max)
    then ({| l_state := s'; l_index := i' |}, (true, s'), None)
    else (linit, (false, init), Some s').

  (** a whole run: every element of [rounds] is one round's deltas in arrival order. After a
      loop finishes the following rounds belong to its next execution (nested loop: one
      execution per round of the enclosing loop). Result: all feedbacks, all emitted states. *)
  Fixpoint lrun (st : lstate) (rounds : list (list D)) : list (bool * St) * list St :=
    match rounds with
    | [] => ([], [])
    | ds :: rest =>
        let '(st', fbk, out) := lround st ds in
        let '(fbs, outs) := lrun st' rest in
        (fbk :: fbs, match out with Some s => s :: outs | None => outs end)
    end.
End Leader.

(** ** (b) Publication of the state on one host *)

(** where a loop head is; [r] is the round (1-based) *)
Inductive hphase :=
| HRun (r : nat)      (* emitting round r (round 1: forwarding the input, later: replaying);
                         the operators chained after the head in its block read the state *)
| HFar (r : nat)      (* emitted the FlushAndRestart of round r and called `state.lock()`;
                         blocked in `wait_update` for the leader's feedback of round r *)
| HWriting (r : nat)  (* local leader only: holds feedback r, inside `state_ref.set(new_state)` *)
| HBar (r : nat)      (* in `state_barrier.wait()` of round r (local leader: after the write) *)
| HPost (r : nat).    (* local leader only: released by the barrier, about to `unlock()` *)

Record host := {
  gen : nat;               (* `IterationStateLock.generation` *)
  cell : nat;              (* which feedback's state the cell holds (0: the initial state) *)
  writing : bool;          (* a write of the cell is in progress *)
  fb : nat;                (* number of feedbacks the global leader has sent so far *)
  lead : hphase;           (* the local leader head (smallest coordinate on the host) *)
  heads : nat -> hphase;   (* the other heads of the host *)
  fars : nat -> nat;       (* per body replica: FlushAndRestarts its Start has emitted *)
  sgen : nat -> nat;       (* per body replica: `Start.state_generation` *)
  bwait : nat -> bool      (* per body replica: `Start.wait_for_state` *)
}.

Definition upd {X} (f : nat -> X) (i : nat) (v : X) : nat -> X :=
  fun j => if j =? i then v else f j.

(** `IterationStateLock::lock`: `if *lock % 2 == 0 { *lock += 1 }` *)
Definition lock (g : nat) : nat := if Nat.even g then S g else g.

(** the head has emitted the FlushAndRestart of round [k] *)
Definition far_passed (k : nat) (ph : hphase) : Prop :=
  match ph with
  | HRun r => k < r
  | HFar r | HWriting r | HBar r | HPost r => k <= r
  end.

Section Host.
  Variable H : nat.     (* number of non-leader heads of the host *)
  Variable B : nat.     (* number of body replicas of the host (all body blocks together) *)

  Definition hinit : host :=
    {| gen := 0; cell := 0; writing := false; fb := 0; lead := HRun 1;
       heads := fun _ => HRun 1; fars := fun _ => 0; sgen := fun _ => 0; bwait := fun _ => false |}.

  Definition set_gen (s : host) g := {| gen := g; cell := cell s; writing := writing s; fb := fb s;
    lead := lead s; heads := heads s; fars := fars s; sgen := sgen s; bwait := bwait s |}.
  Definition set_lead (s : host) p := {| gen := gen s; cell := cell s; writing := writing s; fb := fb s;
    lead := p; heads := heads s; fars := fars s; sgen := sgen s; bwait := bwait s |}.
  Definition set_heads (s : host) f := {| gen := gen s; cell := cell s; writing := writing s; fb := fb s;
    lead := lead s; heads := f; fars := fars s; sgen := sgen s; bwait := bwait s |}.
  Definition set_cell (s : host) c w := {| gen := gen s; cell := c; writing := w; fb := fb s;
    lead := lead s; heads := heads s; fars := fars s; sgen := sgen s; bwait := bwait s |}.
  Definition set_fb (s : host) k := {| gen := gen s; cell := cell s; writing := writing s; fb := k;
    lead := lead s; heads := heads s; fars := fars s; sgen := sgen s; bwait := bwait s |}.
  Definition set_body (s : host) f g w := {| gen := gen s; cell := cell s; writing := writing s; fb := fb s;
    lead := lead s; heads := heads s; fars := f; sgen := g; bwait := w |}.

  Inductive hstep (s : host) : host -> Prop :=
  (** a head passes the FlushAndRestart of its round: `self.state.lock()` (replay.rs
      `input_next` / `next`, iterate.rs `next_input` / `next_stored`) *)
  | T_far_lead r :
      lead s = HRun r ->
      hstep s (set_gen (set_lead s (HFar r)) (lock (gen s)))
  | T_far_head h r :
      h < H -> heads s h = HRun r ->
      hstep s (set_gen (set_heads s (upd (heads s) h (HFar r))) (lock (gen s)))
  (** the global leader sends the feedback of round [fb+1] (leader.rs `next`, after
      `process_updates` got one delta from every `IterationEnd` replica). Causality of the
      engine, as guards: a delta of round k leaves an `IterationEnd` replica only after the
      FlushAndRestart of round k reached it, i.e. after EVERY body `Start` on the way
      emitted its FlushAndRestart of round k - and those were triggered by the
      FlushAndRestart of round k of every head. *)
  | T_feedback :
      (forall b, b < B -> S (fb s) <= fars s b) ->
      far_passed (S (fb s)) (lead s) ->
      (forall h, h < H -> far_passed (S (fb s)) (heads s h)) ->
      hstep s (set_fb s (S (fb s)))
  (** `wait_update` returns the feedback of the head's round; the local leader starts
      `state_ref.set(new_state)` (state_handler.rs `wait_sync_state`) ... *)
  | T_write_begin r :
      lead s = HFar r -> r <= fb s ->
      hstep s (set_cell (set_lead s (HWriting r)) (cell s) true)
  (** ... finishes the write and enters the barrier *)
  | T_write_end r :
      lead s = HWriting r ->
      hstep s (set_cell (set_lead s (HBar r)) r false)
  (** a non-leader head gets the feedback and enters the barrier *)
  | T_bar_head h r :
      h < H -> heads s h = HFar r -> r <= fb s ->
      hstep s (set_heads s (upd (heads s) h (HBar r)))
  (** the `Barrier` of `num_local_replicas` opens: all heads of the host are in it. The
      other heads go on with the next round (or leave the loop: same protocol) *)
  | T_release r :
      lead s = HBar r -> (forall h, h < H -> heads s h = HBar r) ->
      hstep s (set_heads (set_lead s (HPost r)) (fun h => if h <? H then HRun (S r) else heads s h))
  (** the local leader: `self.state_lock.unlock()` - `*lock += 1`, notify *)
  | T_unlock r :
      lead s = HPost r ->
      hstep s (set_gen (set_lead s (HRun (S r))) (S (gen s)))
  (** a body Start: `lock.wait_for_update(self.state_generation)` returns (generation >=
      requested), `wait_for_state = false`. (In the engine this is attempted only when the
      first element after a FlushAndRestart is about to be returned; dropping that guard
      only adds behaviours.) *)
  | T_body_pass b :
      bwait s b = true -> sgen s b <= gen s ->
      hstep s (set_body s (fars s) (sgen s) (upd (bwait s) b false))
  (** a body Start emits the FlushAndRestart of its round [fars+1]
      (`missing_flush_and_restart == 0`): `wait_for_state = true; state_generation += 2`.
      Causality: the round must have started somewhere, i.e. the feedback of the previous
      round was sent ([fars <= fb]; for round 1 nothing is needed). *)
  | T_body_far b :
      fars s b <= fb s ->
      hstep s (set_body s (upd (fars s) b (S (fars s b))) (upd (sgen s) b (2 + sgen s b))
                          (upd (bwait s) b true)).

  Inductive hreach : host -> Prop :=
  | hreach_init : hreach hinit
  | hreach_step s s' : hreach s -> hstep s s' -> hreach s'.

  (** ** Reads of the cell (`IterationStateHandle::get`): no state change, so predicates.
      A body replica processes an element of round [r]: its Start has emitted [r-1]
      FlushAndRestarts, has passed the wait, and round [r] has started somewhere - possibly
      on ANOTHER host whose heads got the feedback earlier (shuffles inside the body):
      hence only [fars <= fb], nothing about the local heads. *)
  Definition body_reads (s : host) (b r : nat) : Prop :=
    b < B /\ bwait s b = false /\ fars s b <= fb s /\ r = S (fars s b).
  (** the operators chained after a head in the head's own block read while it emits *)
  Definition head_reads (s : host) (r : nat) : Prop :=
    lead s = HRun r \/ exists h, h < H /\ heads s h = HRun r.
End Host.

(** Models of the remaining chainable operators of the public API, all instances of ONE
    push machine — a stateful element-wise flat map: control elements pass unchanged, a data
    element yields zero or more data elements that inherit its timestamp, and the (user)
    state is threaded through the data elements in arrival order and survives rounds.

      filter_map (filter_map.rs)   flatten (flatten.rs: Flatten, KeyedFlatten)
      inspect (inspect.rs)         rich_map / rich_flat_map / rich_filter_map on plain streams
      (operator/mod.rs: key_by(()) -> RichMap -> drop_key [-> flatten | filter/map])
      keyed flat_map / filter_map / rich_flat_map / rich_filter_map, unkey, drop_key

    plus the two operators that create and remove event time:
      add_timestamps / drop_timestamps (add_timestamps.rs). *)
From Noir Require Export Base.Elem Model.Ops.
Open Scope Z_scope.

Section SFlat.
  Context {S A B : Type}.
  Variable f : S -> A -> S * list B.

  Definition sflat_step (s : S) (e : elem A) : S * list (elem B) :=
    match e with
    | Item v => let '(s1, os) := f s v in (s1, map Item os)
    | Tst v t => let '(s1, os) := f s v in (s1, map (fun x => Tst x t) os)
    | Wm t => (s, [Wm t])
    | FlushBatch => (s, [FlushBatch])
    | Terminate => (s, [Terminate])
    | FAR => (s, [FAR])
    end.

  Definition sflat_machine (s0 : S) : machine (elem A) (elem B) :=
    {| mstate := S; minit := s0; mstep := sflat_step |}.

  (** the sequential ("iterator chain") meaning: thread the state through the values *)
  Fixpoint sscan (s : S) (l : list A) : list B :=
    match l with
    | [] => []
    | v :: l' => let '(s1, os) := f s v in os ++ sscan s1 l'
    end.
End SFlat.

(** ** API forms *)
Definition olist {B} (o : option B) : list B := match o with Some b => [b] | None => [] end.

Definition filter_map_machine {A B} (g : A -> option B) : machine (elem A) (elem B) :=
  sflat_machine (fun (_ : unit) v => (tt, olist (g v))) tt.
Definition flatten_machine {B} : machine (elem (list B)) (elem B) :=
  sflat_machine (fun (_ : unit) v => (tt, v)) tt.
Definition inspect_machine {A} : machine (elem A) (elem A) :=
  sflat_machine (fun (_ : unit) v => (tt, [v])) tt.
(** plain-stream rich_map: ONE copy of the closure per replica (the single key `()`) *)
Definition rich_map1_machine {S A B} (f : S -> A -> S * B) (s0 : S) : machine (elem A) (elem B) :=
  sflat_machine (fun s v => let '(s1, o) := f s v in (s1, [o])) s0.
Definition rich_flat_map1_machine {S A B} (f : S -> A -> S * list B) (s0 : S) : machine (elem A) (elem B) :=
  sflat_machine f s0.
Definition rich_filter_map1_machine {S A B} (f : S -> A -> S * option B) (s0 : S) : machine (elem A) (elem B) :=
  sflat_machine (fun s v => let '(s1, o) := f s v in (s1, olist o)) s0.

(** keyed forms: one copy of the closure state per key, created on the key's first element *)
Definition keyed_lift {S A B} (f : S -> Z -> A -> S * list B) (s0 : S)
    (m : list (Z * S)) (kv : Z * A) : list (Z * S) * list (Z * B) :=
  let '(k, v) := kv in
  let s := match aget k m with Some s => s | None => s0 end in
  let '(s1, os) := f s k v in
  (aupd k (fun _ => s1) m, map (pair k) os).
Definition keyed_sflat_machine {S A B} (f : S -> Z -> A -> S * list B) (s0 : S)
  : machine (elem (Z * A)) (elem (Z * B)) := sflat_machine (keyed_lift f s0) [].
Definition drop_key_machine {A} : machine (elem (Z * A)) (elem A) := map_machine snd.

(** ** add_timestamps: an item gets the timestamp `tg v`, followed by the watermark
    `wg v (tg v)` if any. The Rust operator PANICS on an input that is already timestamped
    (Timestamped / Watermark): state [false] = panicked, nothing is produced any more. *)
Section AddTs.
  Context {A : Type}.
  Variable (tg : A -> Z) (wg : A -> Z -> option Z).

  Definition add_ts_out (e : elem A) : option (list (elem A)) :=
    match e with
    | Item v => Some (Tst v (tg v) :: match wg v (tg v) with Some w => [Wm w] | None => [] end)
    | Tst _ _ | Wm _ => None
    | FlushBatch => Some [FlushBatch] | Terminate => Some [Terminate] | FAR => Some [FAR]
    end.
  Definition add_ts_step (alive : bool) (e : elem A) : bool * list (elem A) :=
    if alive then match add_ts_out e with Some o => (true, o) | None => (false, []) end
    else (false, []).
  Definition add_ts_machine : machine (elem A) (elem A) :=
    {| mstate := bool; minit := true; mstep := add_ts_step |}.
End AddTs.

(** drop_timestamps: watermarks disappear, timestamped elements become plain items *)
Definition drop_ts_step {A} (_ : unit) (e : elem A) : unit * list (elem A) :=
  (tt, match e with Wm _ => [] | Tst v _ => [Item v] | e => [e] end).
Definition drop_ts_machine {A} : machine (elem A) (elem A) :=
  {| mstate := unit; minit := tt; mstep := drop_ts_step |}.

(** Model of `IntoParallelSource for Range<T>` (src/operator/source/parallel_iterator.rs).
    Machine integers are written out: i64 saturating addition, truncating division,
    debug-build overflow panics and the `try_into().unwrap()` range checks are explicit
    ([None] = the implementation panics). *)
From Coq Require Import ZArith List Lia Bool.
Import ListNotations.
Open Scope Z_scope.

Definition i64_min : Z := - 2 ^ 63.
Definition i64_max : Z := 2 ^ 63 - 1.
Definition u64_max : Z := 2 ^ 64 - 1.

Definition in_i64 (x : Z) : bool := (i64_min <=? x) && (x <=? i64_max).
Definition sat_i64 (x : Z) : Z := Z.max i64_min (Z.min i64_max x).
Definition sat_u64 (x : Z) : Z := Z.max 0 (Z.min u64_max x).

(** an integer type: inclusive bounds *)
Record ity := { ty_lo : Z; ty_hi : Z }.
Definition in_ty (t : ity) (x : Z) : bool := (ty_lo t <=? x) && (x <=? ty_hi t).

(** checked (debug) i64 arithmetic: [None] on overflow *)
Definition chk_i64 (x : Z) : option Z := if in_i64 x then Some x else None.

(** `impl_into_parallel_source_range!($t)`: everything goes through i64.
    [lo]/[hi] are the range bounds (already `as i64`), index < peers. *)
Definition gen_signed (t : ity) (lo hi index peers : Z) : option (Z * Z) :=
  match chk_i64 (hi - lo) with          (* let n = end as i64 - start as i64 *)
  | None => None
  | Some n0 =>
    let n := Z.max n0 0 in               (* .max(0): a reversed range is empty (fix F8) *)
    let chunk := Z.quot (sat_i64 (n + (peers - 1))) peers in
    match chk_i64 (index * chunk) with   (* index * chunk_size *)
    | None => None
    | Some off =>
      (* .saturating_add(..).min(end).max(start)  (fix F8c) *)
      let start := Z.max (Z.min (sat_i64 (lo + off)) hi) lo in
      let e := Z.max (Z.min (sat_i64 (start + chunk)) hi) lo in
      (* try_into().unwrap() back into $t *)
      if in_ty t start && in_ty t e then Some (start, e) else None
    end
  end.

(** `impl IntoParallelSource for Range<u64>` (no detour through i64) *)
Definition gen_u64 (lo hi index peers : Z) : option (Z * Z) :=
  let n := Z.max (hi - lo) 0 in          (* saturating_sub (fix F8) *)
  let chunk := Z.quot (sat_u64 (n + (peers - 1))) peers in
  if index * chunk <=? u64_max then
    let start := sat_u64 (lo + index * chunk) in
    let e := Z.max (Z.min (sat_u64 (start + chunk)) hi) lo in
    Some (start, e)
  else None.

(** elements of a Rust `start..end` range *)
Definition in_range (r : Z * Z) (x : Z) : Prop := fst r <= x < snd r.

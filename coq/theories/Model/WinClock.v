(** Models of `SessionWindowManager` (descr/session.rs) and `ProcessingTimeWindowManager`
    (descr/processing_time.rs). The wall clock is an explicit input: every call of
    `process` comes with the reading `now` of `Instant::now()` (a non-decreasing sequence,
    assumed — monotonicity of `Instant`), and the keyed window operator passes the same
    reading to every manager it calls for one control element. *)
From Noir Require Export Base.Elem Model.WinCount Model.WindowOp.
Open Scope Z_scope.

(** a clocked window manager *)
Record cmgr (A C : Type) := {
  cst : Type;
  cinit : cst;
  cstep : cst -> Z -> elem A -> cst * list (wres C)
}.
Arguments cst {A C}. Arguments cinit {A C}. Arguments cstep {A C}.

Section Session.
  Context {A B C : Type}.
  Variable (acc0 : B) (proc : B -> A -> B) (out : B -> C).
  Variable (gap : Z).

  Record sslot := { ss_acc : B; ss_last : Z }.

  Definition se_step (w : option sslot) (now : Z) (e : elem A) : option sslot * list (wres C) :=
    (* a session whose last element is older than the gap is closed first *)
    let '(w1, ret) := match w with
                      | Some s => if gap <? now - ss_last s then (None, [(out (ss_acc s), None)]) else (w, [])
                      | None => (w, [])
                      end in
    match e with
    | Item x | Tst x _ =>
        let s := match w1 with Some s => s | None => {| ss_acc := acc0; ss_last := now |} end in
        (Some {| ss_acc := proc (ss_acc s) x; ss_last := now |}, ret)
    | FAR | Terminate =>
        match ret with
        | [] => (None, match w1 with Some s => [(out (ss_acc s), None)] | None => [] end)
        | _ => (w1, ret)
        end
    | _ => (w1, ret)
    end.

  Definition se_mgr : cmgr A C := {| cst := option sslot; cinit := None; cstep := se_step |}.
End Session.

Section ProcTime.
  Context {A B C : Type}.
  Variable (acc0 : B) (proc : B -> A -> B) (out : B -> C).
  Variable (size slide : Z).

  Record pslot := { p_acc : B; p_start : Z; p_end : Z; p_active : bool }.

  Definition plast_start (ws : list pslot) : option Z :=
    match rev ws with s :: _ => Some (p_start s) | [] => None end.

  Fixpoint palloc (fuel : nat) (ws : list pslot) (now : Z) : list pslot :=
    match fuel with
    | O => ws
    | S f =>
        let need := match plast_start ws with Some s => s <? now | None => true end in
        if need then
          let ns := match plast_start ws with Some s => s + slide | None => now end in
          palloc f (ws ++ [{| p_acc := acc0; p_start := ns; p_end := ns + size; p_active := false |}]) now
        else ws
    end.
  Definition palloc_fuel (ws : list pslot) (now : Z) : nat :=
    match plast_start ws with
    | Some s => Z.to_nat (Z.quot (Z.max (now - s) 0) (Z.max slide 1)) + 2
    | None => 2
    end.

  Fixpoint pfeed_take (ws : list pslot) (x : A) (now : Z) : list pslot :=
    match ws with
    | [] => []
    | w :: ws' =>
        if p_start w <=? now then
          {| p_acc := proc (p_acc w) x; p_start := p_start w; p_end := p_end w; p_active := true |}
            :: pfeed_take ws' x now
        else ws
    end.
  Fixpoint pfeed (ws : list pslot) (x : A) (now : Z) : list pslot :=
    match ws with
    | [] => []
    | w :: ws' => if p_end w <=? now then w :: pfeed ws' x now else pfeed_take ws x now
    end.

  (** `partition_point(|w| w.end < now)` *)
  Fixpoint pfire (ws : list pslot) (now : Z) : list pslot * list pslot :=
    match ws with
    | [] => ([], [])
    | w :: ws' => if p_end w <? now then let '(a, b) := pfire ws' now in (w :: a, b) else ([], ws)
    end.
  Definition presults (ws : list pslot) : list (wres C) :=
    map (fun w => (out (p_acc w), None)) (filter p_active ws).

  Definition pt_step (ws : list pslot) (now : Z) (e : elem A) : list pslot * list (wres C) :=
    match e with
    | FAR | Terminate => ([], presults ws)
    | _ =>
        let ws1 := match e with
                   | Item x | Tst x _ => pfeed (palloc (palloc_fuel ws now) ws now) x now
                   | _ => ws
                   end in
        let '(fired, rest) := pfire ws1 now in
        (rest, presults fired)
    end.

  Definition pt_mgr : cmgr A C := {| cst := list pslot; cinit := []; cstep := pt_step |}.
End ProcTime.

(** ** The keyed window operator over a clocked manager (recycle is the trait default,
    false, for both managers). Input elements are paired with the clock reading. *)
Section ClockedOp.
  Context {A C : Type} (M : cmgr A C).
  Definition cmap := list (Z * cst M).
  Fixpoint clookup (k : Z) (m : cmap) : option (cst M) :=
    match m with [] => None | (k', s) :: m' => if Z.eqb k k' then Some s else clookup k m' end.
  Fixpoint cset (k : Z) (s : cst M) (m : cmap) : cmap :=
    match m with
    | [] => [(k, s)]
    | (k', s') :: m' => if Z.eqb k k' then (k, s) :: m' else (k', s') :: cset k s m'
    end.
  Fixpoint cctl (now : Z) (e : elem A) (m : cmap) : cmap * list (elem (Z * C)) :=
    match m with
    | [] => ([], [])
    | (k, s) :: m' =>
        let '(s1, rs) := cstep M s now e in
        let '(m1, o1) := cctl now e m' in
        ((k, s1) :: m1, map (add_key k) rs ++ o1)
    end.
  Definition cop_step (m : cmap) (x : Z * elem (Z * A)) : cmap * list (elem (Z * C)) :=
    let '(now, e) := x in
    match e with
    | Item (k, _) | Tst (k, _) _ =>
        let s := match clookup k m with Some s => s | None => cinit M end in
        let '(s1, rs) := cstep M s now (strip_key e) in
        (cset k s1 m, map (add_key k) rs)
    | FlushBatch => (m, [FlushBatch])
    | Wm t => let '(m1, o) := cctl now (Wm t) m in (m1, o ++ [Wm t])
    | FAR => let '(m1, o) := cctl now FAR m in (m1, o ++ [FAR])
    | Terminate => let '(m1, o) := cctl now Terminate m in (m1, o ++ [Terminate])
    end.
  Definition cop_machine : machine (Z * elem (Z * A)) (elem (Z * C)) :=
    {| mstate := cmap; minit := []; mstep := cop_step |}.
End ClockedOp.

(** Models of the local join algorithms:
    `JoinLocalHash` / `JoinKeyedOuter` (src/operator/join/local_hash.rs, keyed_join.rs — same
    algorithm), `JoinKeyedInner` (keyed_join.rs), `JoinLocalSortMerge` (local_sort_merge.rs),
    `IntervalJoin` (src/operator/interval_join.rs). Inputs are the elements the two-input
    Start hands over: left/right items and the two end-of-side markers. *)
From Noir Require Export Base.Elem Model.BinaryStart.
Open Scope Z_scope.

Inductive variant := JInner | JLeft | JOuter.
Definition left_outer (v : variant) := match v with JInner => false | _ => true end.
Definition right_outer (v : variant) := match v with JOuter => true | _ => false end.

Section Hash.
  Context {A B : Type}.
  Variable (kl : A -> Z) (kr : B -> Z) (v : variant).
  Definition jout : Type := (Z * (option A * option B))%type.

  (** one side's `SideHashMap`: stored (key, item) pairs in arrival order, the set of keys
      seen (only maintained for the outer bookkeeping), and the ended flag *)
  Record hside (X : Type) := { h_data : list (Z * X); h_keys : list Z; h_ended : bool }.
  Arguments h_data {X}. Arguments h_keys {X}. Arguments h_ended {X}.
  Definition hside0 {X} : hside X := {| h_data := []; h_keys := []; h_ended := false |}.

  Definition has_key {X} (k : Z) (d : list (Z * X)) : bool := existsb (fun p => Z.eqb (fst p) k) d.
  Definition vals {X} (k : Z) (d : list (Z * X)) : list X := map snd (filter (fun p => Z.eqb (fst p) k) d).

  Record hstate := { hl : hside A; hr : hside B }.
  Definition hstate0 := {| hl := hside0; hr := hside0 |}.

  (** `add_item` for a left item *)
  Definition add_left (s : hstate) (x : A) : hstate * list jout :=
    let k := kl x in
    let o := if has_key k (h_data (hr s)) then map (fun r => (k, (Some x, Some r))) (vals k (h_data (hr s)))
             else if h_ended (hr s) && left_outer v then [(k, (Some x, None))] else [] in
    ({| hl := {| h_data := if h_ended (hr s) then h_data (hl s) else h_data (hl s) ++ [(k, x)];
                 h_keys := if right_outer v then k :: h_keys (hl s) else h_keys (hl s);
                 h_ended := h_ended (hl s) |};
        hr := hr s |}, o).
  Definition add_right (s : hstate) (y : B) : hstate * list jout :=
    let k := kr y in
    let o := if has_key k (h_data (hl s)) then map (fun l => (k, (Some l, Some y))) (vals k (h_data (hl s)))
             else if h_ended (hl s) && right_outer v then [(k, (None, Some y))] else [] in
    ({| hl := hl s;
        hr := {| h_data := if h_ended (hl s) then h_data (hr s) else h_data (hr s) ++ [(k, y)];
                 h_keys := if left_outer v then k :: h_keys (hr s) else h_keys (hr s);
                 h_ended := h_ended (hr s) |} |}, o).

  (** `side_ended` for the left side: unmatched stored right items leave if right-outer *)
  Definition left_ended (s : hstate) : hstate * list jout :=
    let o := if right_outer v
             then flat_map (fun p => if existsb (Z.eqb (fst p)) (h_keys (hl s)) then []
                                     else [(fst p, (None, Some (snd p)))]) (h_data (hr s))
             else [] in
    ({| hl := {| h_data := h_data (hl s); h_keys := []; h_ended := true |};
        hr := {| h_data := []; h_keys := h_keys (hr s); h_ended := h_ended (hr s) |} |}, o).
  Definition right_ended (s : hstate) : hstate * list jout :=
    let o := if left_outer v
             then flat_map (fun p => if existsb (Z.eqb (fst p)) (h_keys (hr s)) then []
                                     else [(fst p, (Some (snd p), None))]) (h_data (hl s))
             else [] in
    ({| hl := {| h_data := []; h_keys := h_keys (hl s); h_ended := h_ended (hl s) |};
        hr := {| h_data := h_data (hr s); h_keys := []; h_ended := true |} |}, o).

  (** [None] = the implementation panicked (an `assert!` at FlushAndRestart failed, or a
      timestamped element / watermark reached the join) *)
  Definition hash_step (st : option hstate) (e : elem (bin A B)) : option hstate * list (elem jout) :=
    match st with
    | None => (None, [])
    | Some s =>
      match e with
      | Item (BL x) => let '(s1, o) := add_left s x in (Some s1, map Item o)
      | Item (BR y) => let '(s1, o) := add_right s y in (Some s1, map Item o)
      | Item BLEnd => let '(s1, o) := left_ended s in (Some s1, map Item o)
      | Item BREnd => let '(s1, o) := right_ended s in (Some s1, map Item o)
      | FAR =>
          if h_ended (hl s) && h_ended (hr s)
             && match h_data (hl s), h_data (hr s), h_keys (hl s), h_keys (hr s) with
                | [], [], [], [] => true | _, _, _, _ => false end
          then (Some hstate0, [FAR]) else (None, [])
      | Terminate => (st, [Terminate])
      | FlushBatch => (st, [FlushBatch])
      | Tst _ _ | Wm _ => (None, [])
      end
    end.
  Definition hash_join_machine : machine (elem (bin A B)) (elem jout) :=
    {| mstate := option hstate; minit := Some hstate0; mstep := hash_step |}.

  (** ** `JoinKeyedInner`: both sides stored; a side's store is cleared when the OTHER
      side ends *)
  Record kistate := { ki_l : list (Z * A); ki_r : list (Z * B); ki_le : bool; ki_re : bool }.
  Definition ki0 := {| ki_l := []; ki_r := []; ki_le := false; ki_re := false |}.
  Definition kinner_step (st : option kistate) (e : elem (bin A B)) : option kistate * list (elem (Z * (A * B))) :=
    match st with
    | None => (None, [])
    | Some s =>
      match e with
      | Item (BL x) =>
          let k := kl x in
          (Some {| ki_l := ki_l s ++ [(k, x)]; ki_r := ki_r s; ki_le := ki_le s; ki_re := ki_re s |},
           map (fun r => Item (k, (x, r))) (vals k (ki_r s)))
      | Item (BR y) =>
          let k := kr y in
          (Some {| ki_l := ki_l s; ki_r := ki_r s ++ [(k, y)]; ki_le := ki_le s; ki_re := ki_re s |},
           map (fun l => Item (k, (l, y))) (vals k (ki_l s)))
      | Item BLEnd =>
          (Some {| ki_l := if ki_re s then [] else ki_l s; ki_r := []; ki_le := true; ki_re := ki_re s |}, [])
      | Item BREnd =>
          (Some {| ki_l := []; ki_r := if ki_le s then [] else ki_r s; ki_le := ki_le s; ki_re := true |}, [])
      | FAR => match ki_l s, ki_r s with
               | [], [] => (Some ki0, [FAR])
               | _, _ => (None, [])      (* assert!(left.is_empty()) / right *)
               end
      | Terminate => (st, [Terminate])
      | FlushBatch => (st, [FlushBatch])
      | Tst _ _ | Wm _ => (None, [])
      end
    end.
  Definition kinner_machine : machine (elem (bin A B)) (elem (Z * (A * B))) :=
    {| mstate := option kistate; minit := Some ki0; mstep := kinner_step |}.

  (** ** Sort-merge: both sides are collected, sorted by key when their end marker arrives,
      and merged from the largest key down once both have ended *)
  Fixpoint zk_insert {X} (x : Z * X) (l : list (Z * X)) : list (Z * X) :=   (* descending by key *)
    match l with
    | [] => [x]
    | y :: l' => if fst y <? fst x then x :: l else y :: zk_insert x l'
    end.
  Definition sort_desc {X} (l : list (Z * X)) : list (Z * X) := fold_right zk_insert [] l.

  Fixpoint span_gt {X} (k : Z) (l : list (Z * X)) : list (Z * X) * list (Z * X) :=
    match l with
    | [] => ([], [])
    | y :: l' => if k <? fst y then let '(a, b) := span_gt k l' in (y :: a, b) else ([], l)
    end.
  Definition discard_out (last : option Z) (d : list (Z * B)) : list jout :=
    flat_map (fun r => let matched := match last with Some lk => Z.eqb lk (fst r) | None => false end in
                       if negb matched && right_outer v then [(fst r, (None, Some (snd r)))] else []) d.

  (** [left], [right] sorted descending by key (the `pop()` order) *)
  Fixpoint smj (left : list (Z * A)) (right : list (Z * B)) (last : option Z) : list jout :=
    match left with
    | (lk, lv) :: left' =>
        let '(disc, right1) := span_gt lk right in
        let ms := filter (fun r => Z.eqb (fst r) lk) right1 in   (* the equal-key run *)
        discard_out last disc ++
        (match ms with
         | [] => if left_outer v then [(lk, (Some lv, None))] else []
         | _ => map (fun r => (lk, (Some lv, Some (snd r)))) ms
         end) ++ smj left' right1 (Some lk)
    | [] => discard_out last right
    end.

  Record smstate := { sm_l : list (Z * A); sm_r : list (Z * B); sm_le : bool; sm_re : bool }.
  Definition sm0 := {| sm_l := []; sm_r := []; sm_le := false; sm_re := false |}.
  Definition sm_flush (s : smstate) : smstate * list (elem jout) :=
    if sm_le s && sm_re s
    then ({| sm_l := []; sm_r := []; sm_le := true; sm_re := true |},
          map Item (smj (sort_desc (sm_l s)) (sort_desc (sm_r s)) None))
    else (s, []).
  Definition sm_step (st : option smstate) (e : elem (bin A B)) : option smstate * list (elem jout) :=
    match st with
    | None => (None, [])
    | Some s =>
      match e with
      | Item (BL x) => (Some {| sm_l := sm_l s ++ [(kl x, x)]; sm_r := sm_r s; sm_le := sm_le s; sm_re := sm_re s |}, [])
      | Item (BR y) => (Some {| sm_l := sm_l s; sm_r := sm_r s ++ [(kr y, y)]; sm_le := sm_le s; sm_re := sm_re s |}, [])
      | Item BLEnd => let '(s1, o) := sm_flush {| sm_l := sm_l s; sm_r := sm_r s; sm_le := true; sm_re := sm_re s |} in (Some s1, o)
      | Item BREnd => let '(s1, o) := sm_flush {| sm_l := sm_l s; sm_r := sm_r s; sm_le := sm_le s; sm_re := true |} in (Some s1, o)
      | FAR => if sm_le s && sm_re s && match sm_l s, sm_r s with [], [] => true | _, _ => false end
               then (Some sm0, [FAR]) else (None, [])
      | Terminate => (st, [Terminate])
      | FlushBatch => (st, [FlushBatch])
      | Tst _ _ | Wm _ => (None, [])
      end
    end.
  Definition sort_merge_machine : machine (elem (bin A B)) (elem jout) :=
    {| mstate := option smstate; minit := Some sm0; mstep := sm_step |}.

  (** ** Specification: the relational join of two multisets (lists) on the key *)
  Definition rel_join (ls : list A) (rs : list B) : list jout :=
    flat_map (fun l =>
      match filter (fun r => Z.eqb (kr r) (kl l)) rs with
      | [] => if left_outer v then [(kl l, (Some l, None))] else []
      | ms => map (fun r => (kl l, (Some l, Some r))) ms
      end) ls
    ++ (if right_outer v
        then flat_map (fun r => if existsb (fun l => Z.eqb (kl l) (kr r)) ls then [] else [(kr r, (None, Some r))]) rs
        else []).
End Hash.


(** ** Interval join over a stream sorted by timestamp (it sits behind a `Reorder`) *)
Inductive merged (A B : Type) := ML (a : A) | MR (b : B).
Arguments ML {A B}. Arguments MR {A B}.

Section Interval.
  Context {A B : Type}.
  Variable (lower_bound upper_bound : Z).
  Definition iout : Type := (Z * (A * B))%type.

  Record istate := {
    i_left : list (Z * (Z * A));          (* (ts, (key, item)) in arrival order *)
    i_right : list (Z * (Z * B));         (* (key, (ts, item)): the per-key deques, flattened *)
    i_last : Z;
    i_restart : bool
  }.
  Definition i0 := {| i_left := []; i_right := []; i_last := 0; i_restart := false |}.

  (** `advance`: process left elements whose interval is closed *)
  Fixpoint iadvance (fuel : nat) (s : istate) : istate * list (elem iout) :=
    match fuel with
    | O => (s, [])
    | S f =>
      match i_left s with
      | [] => (s, [])
      | (lts, (lk, lv)) :: left' =>
          let lower := lts - lower_bound in
          let upper := lts + upper_bound in
          if (i_last s <=? upper) && negb (i_restart s) then (s, [])
          else
            (* drop this key's right elements below the lower bound (from the front) *)
            let keep := (fix dropf (l : list (Z * (Z * B))) (dropping : bool) : list (Z * (Z * B)) :=
                           match l with
                           | [] => []
                           | r :: l' =>
                               if Z.eqb (fst r) lk then
                                 if dropping && (fst (snd r) <? lower) then dropf l' true
                                 else r :: dropf l' false
                               else r :: dropf l' dropping
                           end) (i_right s) true in
            let mine := filter (fun r => Z.eqb (fst r) lk) keep in
            let ms := (fix tw (l : list (Z * (Z * B))) : list (Z * (Z * B)) :=
                         match l with
                         | [] => []
                         | r :: l' => if fst (snd r) <=? upper then r :: tw l' else []
                         end) mine in
            let o := map (fun r => Tst (lk, (lv, snd (snd r))) (Z.max (fst (snd r)) lts)) ms in
            let '(s1, o1) := iadvance f {| i_left := left'; i_right := keep; i_last := i_last s; i_restart := i_restart s |} in
            (s1, o ++ o1)
      end
    end.

  Definition interval_step (st : option istate) (e : elem (Z * merged A B)) : option istate * list (elem iout) :=
    match st with
    | None => (None, [])
    | Some s =>
      match e with
      | Tst (k, m) ts =>
          if ts <? i_last s then (None, [])             (* assert!(ts >= self.last_seen) *)
          else
            let s1 := match m with
                      | ML a => {| i_left := i_left s ++ [(ts, (k, a))]; i_right := i_right s; i_last := ts; i_restart := false |}
                      | MR b => {| i_left := i_left s; i_right := i_right s ++ [(k, (ts, b))]; i_last := ts; i_restart := false |}
                      end in
            let '(s2, o) := iadvance (S (length (i_left s1))) s1 in (Some s2, o)
      | Wm ts =>
          if ts <? i_last s then (None, [])
          else let '(s2, o) := iadvance (S (length (i_left s)))
                                 {| i_left := i_left s; i_right := i_right s; i_last := ts; i_restart := false |} in
               (Some s2, o)                                (* the watermark itself is swallowed *)
      | FAR =>
          let '(s2, o) := iadvance (S (length (i_left s)))
                            {| i_left := i_left s; i_right := i_right s; i_last := i_last s; i_restart := true |} in
          (Some i0, o ++ [FAR])
      | Item _ => (None, [])
      | FlushBatch => (st, [FlushBatch])
      | Terminate => (st, [Terminate])
      end
    end.
  Definition interval_machine : machine (elem (Z * merged A B)) (elem iout) :=
    {| mstate := option istate; minit := Some i0; mstep := interval_step |}.

  (** specification: same-key pairs with  l.ts - lower <= r.ts <= l.ts + upper *)
  Definition interval_spec (ls : list (Z * (Z * A))) (rs : list (Z * (Z * B))) : list (elem iout) :=
    flat_map (fun l =>
      flat_map (fun r =>
        if Z.eqb (fst r) (fst (snd l)) && (fst l - lower_bound <=? fst (snd r)) && (fst (snd r) <=? fst l + upper_bound)
        then [Tst (fst (snd l), (snd (snd l), snd (snd r))) (Z.max (fst (snd r)) (fst l))] else []) rs) ls.
End Interval.

(** Model of the two-input `Start` (src/operator/start/binary.rs `BinaryStartReceiver::select`,
    `SideReceiver`, `process_side`, on top of the generic `Start::next` of start/mod.rs),
    including the caching of a side input inside loops.

    Each side has its own channel, modelled as a FIFO queue of batches. A *delivery* puts
    one batch into one queue; after every delivery the operator is run until it would block
    ([bdrain]). Any real execution corresponds to the delivery sequence in the order in
    which the operator actually consumed the batches (then every queue is empty whenever a
    batch is delivered); deliveries to a side the operator is currently not reading are
    simply queued. *)
From Noir Require Export Base.Elem Model.Start.
Open Scope nat_scope.

Inductive bin (L R : Type) := BL (v : L) | BR (v : R) | BLEnd | BREnd.
Arguments BL {L R}. Arguments BR {L R}. Arguments BLEnd {L R}. Arguments BREnd {L R}.

Section Binary.
  Context {L R : Type}.
  Notation B := (bin L R).

  (** a received/cached message: frontier index of the sender and its elements *)
  Definition bmsg := (nat * list (elem B))%type.

  Record side (X : Type) := {
    sd_inst : nat;              (* instances *)
    sd_mfar : nat;              (* missing_flush_and_restart *)
    sd_mterm : nat;             (* missing_terminate *)
    sd_cached : bool;
    sd_cache : list bmsg;
    sd_cache_full : bool;
    sd_ptr : nat;               (* cache_pointer *)
    sd_queue : list (nat * list (elem X))   (* channel content: (sender index in side, batch) *)
  }.
  Arguments sd_inst {X}. Arguments sd_mfar {X}. Arguments sd_mterm {X}. Arguments sd_cached {X}.
  Arguments sd_cache {X}. Arguments sd_cache_full {X}. Arguments sd_ptr {X}. Arguments sd_queue {X}.

  Definition side_init {X} (n : nat) (cached : bool) : side X :=
    {| sd_inst := n; sd_mfar := n; sd_mterm := n; sd_cached := cached; sd_cache := [];
       sd_cache_full := false; sd_ptr := 0; sd_queue := [] |}.

  Definition is_terminated {X} (s : side X) := Nat.eqb (sd_mterm s) 0.
  Definition is_ended {X} (s : side X) := if sd_cached s then is_terminated s else Nat.eqb (sd_mfar s) 0.
  Definition cache_finished {X} (s : side X) := Nat.leb (length (sd_cache s)) (sd_ptr s).

  Definition side_reset {X} (s : side X) : side X :=
    {| sd_inst := sd_inst s; sd_mfar := sd_inst s; sd_mterm := sd_mterm s; sd_cached := sd_cached s;
       sd_cache := sd_cache s;
       sd_cache_full := if sd_cached s then true else sd_cache_full s;
       sd_ptr := if sd_cached s then 0 else sd_ptr s;
       sd_queue := sd_queue s |}.

  (** `next_cached_item` *)
  Definition next_cached {X} (s : side X) : side X * bmsg :=
    let p := S (sd_ptr s) in
    let fin := Nat.leb (length (sd_cache s)) p in
    ({| sd_inst := sd_inst s; sd_mfar := if fin then 0 else sd_mfar s; sd_mterm := sd_mterm s;
        sd_cached := sd_cached s; sd_cache := sd_cache s; sd_cache_full := sd_cache_full s;
        sd_ptr := p; sd_queue := sd_queue s |},
     nth (sd_ptr s) (sd_cache s) (0, [])).

  (** `process_side`: count markers, insert the end-of-side marker before the last
      FlushAndRestart of the round, drop Terminate on a cached side, record the cache *)
  Fixpoint process_items {X} (wrap : X -> B) (endm : B) (cached : bool)
      (mfar mterm : nat) (l : list (elem X)) : nat * nat * list (elem B) :=
    match l with
    | [] => (mfar, mterm, [])
    | e :: l' =>
        let mfar1 := match e with FAR => pred mfar | _ => mfar end in
        let pre := match e with FAR => if Nat.eqb mfar1 0 then [Item endm] else [] | _ => [] end in
        let mterm1 := match e with Terminate => pred mterm | _ => mterm end in
        let self := match e with
                    | Terminate => if cached then [] else [Terminate]
                    | _ => [emap wrap e]
                    end in
        let '(mf, mt, rest) := process_items wrap endm cached mfar1 mterm1 l' in
        (mf, mt, pre ++ self ++ rest)
    end.

  Definition process_side {X} (wrap : X -> B) (endm : B) (off : nat) (s : side X)
      (m : nat * list (elem X)) (q : list (nat * list (elem X))) : side X * bmsg :=
    let '(mf, mt, data) := process_items wrap endm (sd_cached s) (sd_mfar s) (sd_mterm s) (snd m) in
    let msg := (off + fst m, data) in
    let cache := if sd_cached s then sd_cache s ++ [msg] else sd_cache s in
    ({| sd_inst := sd_inst s; sd_mfar := mf; sd_mterm := mt; sd_cached := sd_cached s;
        sd_cache := cache; sd_cache_full := sd_cache_full s;
        sd_ptr := if sd_cached s then length cache else sd_ptr s;
        sd_queue := q |}, msg).

  Record bstate := { b_l : side L; b_r : side R; b_first : bool }.

  Definition binit (nl nr : nat) (lc rc : bool) : bstate :=
    {| b_l := side_init nl lc; b_r := side_init nr rc; b_first := false |}.

  Inductive sel_res :=
  | SelMsg (b : bstate) (m : bmsg)     (* a message is returned *)
  | SelBlock (b : bstate).             (* blocks: nothing deliverable yet *)

  Definition recv_left (b : bstate) (first : bool) : sel_res :=
    match sd_queue (b_l b) with
    | [] => SelBlock {| b_l := b_l b; b_r := b_r b; b_first := first |}
    | m :: q =>
        let '(s, msg) := process_side BL BLEnd 0 (b_l b) m q in
        SelMsg {| b_l := s; b_r := b_r b; b_first := first |} msg
    end.
  Definition recv_right (b : bstate) (first : bool) : sel_res :=
    match sd_queue (b_r b) with
    | [] => SelBlock {| b_l := b_l b; b_r := b_r b; b_first := first |}
    | m :: q =>
        let '(s, msg) := process_side BR BREnd (sd_inst (b_l b)) (b_r b) m q in
        SelMsg {| b_l := b_l b; b_r := s; b_first := first |} msg
    end.

  Definition has_non_term {X} (l : list (elem X)) : bool :=
    existsb (fun e => match e with Terminate => false | _ => true end) l.

  (** `select` *)
  Definition bselect (b0 : bstate) : sel_res :=
    let nterm := if sd_cached (b_l b0) then sd_inst (b_l b0)
                 else if sd_cached (b_r b0) then sd_inst (b_r b0) else 0 in
    if is_terminated (b_l b0) && is_terminated (b_r b0) && negb (Nat.eqb nterm 0) then
      SelMsg b0 (0, repeat Terminate nterm)
    else
    (* both sides finished the round: prepare the next one *)
    let b := if is_ended (b_l b0) && is_ended (b_r b0) && cache_finished (b_l b0) && cache_finished (b_r b0)
             then {| b_l := side_reset (b_l b0); b_r := side_reset (b_r b0); b_first := true |}
             else b0 in
    if b_first b && (sd_cached (b_l b) || sd_cached (b_r b)) then
      (* ask the non-cached side first *)
      (* `first_message` is cleared only by a batch that carries something other than
         `Terminate` (fix F10): a batch of Terminates must not trigger the replay *)
      if sd_cached (b_l b) then
        match sd_queue (b_r b) with
        | [] => SelBlock b
        | m :: _ => recv_right b (negb (has_non_term (snd m)))
        end
      else
        match sd_queue (b_l b) with
        | [] => SelBlock b
        | m :: _ => recv_left b (negb (has_non_term (snd m)))
        end
    else if sd_cached (b_l b) && sd_cache_full (b_l b) && negb (cache_finished (b_l b)) then
      let '(s, m) := next_cached (b_l b) in
      SelMsg {| b_l := s; b_r := b_r b; b_first := b_first b |} m
    else if sd_cached (b_r b) && sd_cache_full (b_r b) && negb (cache_finished (b_r b)) then
      let '(s, m) := next_cached (b_r b) in
      SelMsg {| b_l := b_l b; b_r := s; b_first := b_first b |} m
    else if is_ended (b_l b) then recv_right b (b_first b)
    else if is_ended (b_r b) then recv_left b (b_first b)
    else
      (* both sides live: whichever has a message (the delivery discipline keeps at most one
         queue non-empty here; left is tried first otherwise) *)
      if is_terminated (b_l b) then recv_right b (b_first b)
      else if is_terminated (b_r b) then recv_left b (b_first b)
      else match recv_left b (b_first b) with
           | SelBlock _ => recv_right b (b_first b)
           | r => r
           end.

  (** the generic `Start::next` on top: run the element-wise Start over a message *)
  Fixpoint start_msg (st : sstate) (snd : nat) (l : list (elem B)) : sstate * list (elem B) :=
    match l with
    | [] => (st, [])
    | e :: l' =>
        let '(st1, o1) := start_step st (snd, e) in
        let '(st2, o2) := start_msg st1 snd l' in
        (st2, o1 ++ o2)
    end.

  (** run until the operator blocks or has emitted Terminate *)
  Fixpoint bdrain (fuel : nat) (b : bstate) (st : sstate) : bstate * sstate * list (elem B) :=
    match fuel with
    | 0 => (b, st, [])
    | S f =>
        if s_done st then (b, st, []) else
        match bselect b with
        | SelBlock b1 => (b1, st, [])
        | SelMsg b1 (snd, l) =>
            let '(st1, o1) := start_msg st snd l in
            let '(b2, st2, o2) := bdrain f b1 st1 in
            (b2, st2, o1 ++ o2)
        end
    end.

  Inductive delivery := DL (sender : nat) (batch : list (elem L)) | DR (sender : nat) (batch : list (elem R)).

  Definition bpush (b : bstate) (d : delivery) : bstate :=
    match d with
    | DL s m =>
        let l := b_l b in
        {| b_l := {| sd_inst := sd_inst l; sd_mfar := sd_mfar l; sd_mterm := sd_mterm l; sd_cached := sd_cached l;
                     sd_cache := sd_cache l; sd_cache_full := sd_cache_full l; sd_ptr := sd_ptr l;
                     sd_queue := sd_queue l ++ [(s, m)] |};
           b_r := b_r b; b_first := b_first b |}
    | DR s m =>
        let r := b_r b in
        {| b_l := b_l b;
           b_r := {| sd_inst := sd_inst r; sd_mfar := sd_mfar r; sd_mterm := sd_mterm r; sd_cached := sd_cached r;
                     sd_cache := sd_cache r; sd_cache_full := sd_cache_full r; sd_ptr := sd_ptr r;
                     sd_queue := sd_queue r ++ [(s, m)] |};
           b_first := b_first b |}
    end.

  (** enough fuel for one drain: every iteration consumes a queued batch, advances a cache
      pointer (reset at most once before a receive is needed) or emits the final Terminates *)
  Definition bfuel (b : bstate) : nat :=
    2 * (length (sd_cache (b_l b)) + length (sd_cache (b_r b)))
    + length (sd_queue (b_l b)) + length (sd_queue (b_r b)) + 4.

  Fixpoint brun_from (b : bstate) (st : sstate) (ds : list delivery) : bstate * sstate * list (elem B) :=
    match ds with
    | [] => (b, st, [])
    | d :: ds' =>
        let '(b1, st1, o1) := bdrain (bfuel (bpush b d)) (bpush b d) st in
        let '(b2, st2, o2) := brun_from b1 st1 ds' in
        (b2, st2, o1 ++ o2)
    end.

  (** everything the two-input Start emits for a delivery sequence *)
  Definition brun (nl nr : nat) (lc rc : bool) (ds : list delivery) : list (elem B) :=
    snd (brun_from (binit nl nr lc rc) (start_init (nl + nr)) ds).
End Binary.
Arguments sd_inst {L R X}. Arguments sd_mfar {L R X}. Arguments sd_mterm {L R X}. Arguments sd_cached {L R X}.
Arguments sd_cache {L R X}. Arguments sd_cache_full {L R X}. Arguments sd_ptr {L R X}. Arguments sd_queue {L R X}.

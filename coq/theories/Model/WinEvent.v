(** Models of `EventTimeWindowManager` (src/operator/window/descr/event_time.rs) and
    `TransactionWindowManager` (descr/transaction.rs), generic in the accumulator.
    A panic of the implementation (late element hitting the `assert!`, non-timestamped
    item) is an explicit state: once [None], the manager stays [None] and emits nothing. *)
From Noir Require Export Base.Elem Model.WinCount Model.WindowOp.
Open Scope Z_scope.

Section EventTime.
  Context {A B C : Type}.
  Variable (acc0 : B) (proc : B -> A -> B) (out : B -> C).
  Variable (size slide : Z).

  Record eslot := { e_acc : B; e_start : Z; e_end : Z; e_active : bool }.

  Record estate := { e_lw : option Z; e_ws : list eslot }.

  Definition last_start (ws : list eslot) : option Z :=
    match rev ws with s :: _ => Some (e_start s) | [] => None end.

  (** `alloc_windows(ts)`: push slots until the last one starts at or after ts *)
  Fixpoint alloc (fuel : nat) (lw : option Z) (ws : list eslot) (ts : Z) : list eslot :=
    match fuel with
    | O => ws
    | S f =>
        let need := match last_start ws with Some s => s <? ts | None => true end in
        if need then
          let ns0 := match last_start ws with Some s => s + slide | None => ts end in
          (* skip empty windows below the last watermark *)
          let ns := match lw with
                    | Some w => ns0 + Z.quot (Z.max (w - ns0) 0) slide * slide
                    | None => ns0
                    end in
          alloc f lw (ws ++ [{| e_acc := acc0; e_start := ns; e_end := ns + size; e_active := false |}]) ts
        else ws
    end.

  Definition alloc_fuel (ws : list eslot) (ts : Z) : nat :=
    match last_start ws with
    | Some s => Z.to_nat (Z.quot (Z.max (ts - s) 0) (Z.max slide 1)) + 2
    | None => 2
    end.

  (** `skip_while(end <= ts).take_while(start <= ts).for_each(process)` *)
  Fixpoint feed_take (ws : list eslot) (x : A) (ts : Z) : list eslot :=
    match ws with
    | [] => []
    | w :: ws' =>
        if e_start w <=? ts then
          {| e_acc := proc (e_acc w) x; e_start := e_start w; e_end := e_end w; e_active := true |}
            :: feed_take ws' x ts
        else ws
    end.
  Fixpoint feed (ws : list eslot) (x : A) (ts : Z) : list eslot :=
    match ws with
    | [] => []
    | w :: ws' => if e_end w <=? ts then w :: feed ws' x ts else feed_take ws x ts
    end.

  Definition eres (w : eslot) : wres C := (out (e_acc w), Some (e_end w)).

  (** `partition_point(|w| w.end <= ts)` on a list sorted by end: the prefix satisfying it
      (slots fire as soon as a watermark reaches their end — fix F5; before the fix `<`) *)
  Fixpoint fire_split (ws : list eslot) (ts : Z) : list eslot * list eslot :=
    match ws with
    | [] => ([], [])
    | w :: ws' => if e_end w <=? ts then let '(a, b) := fire_split ws' ts in (w :: a, b)
                  else ([], ws)
    end.

  Definition results (ws : list eslot) : list (wres C) := map eres (filter e_active ws).

  Definition et_step (st : option estate) (e : elem A) : option estate * list (wres C) :=
    match st with
    | None => (None, [])
    | Some s =>
      match e with
      | Tst x ts =>
          (* assert!(last_watermark.map(|w| ts >= w).unwrap_or(true)) *)
          if match e_lw s with Some w => ts <? w | None => false end then (None, [])
          else
            let ws1 := alloc (alloc_fuel (e_ws s) ts) (e_lw s) (e_ws s) ts in
            (Some {| e_lw := e_lw s; e_ws := feed ws1 x ts |}, [])
      | Wm ts =>
          let '(fired, rest) := fire_split (e_ws s) ts in
          (Some {| e_lw := Some ts; e_ws := rest |}, results fired)
      | FAR | Terminate => (Some {| e_lw := e_lw s; e_ws := [] |}, results (e_ws s))
      | Item _ => (None, [])      (* panic!("Event time windows can only handle timestamped items!") *)
      | FlushBatch => (st, [])
      end
    end.

  Definition et_mgr : wmgr A C :=
    {| wst := option estate;
       winit := Some {| e_lw := None; e_ws := [] |};
       wstep := et_step;
       wrecycle := fun st => match st with Some s => match e_ws s with [] => true | _ => false end | None => false end |}.
End EventTime.

(** ** Transaction windows *)
Inductive txop := TxContinue | TxCommit | TxCommitAfter (t : Z) | TxDiscard.

Section Txn.
  Context {A B C : Type}.
  Variable (acc0 : B) (proc : B -> A -> B) (out : B -> C).
  Variable (logic : A -> txop).

  Record tslot := { t_acc : B; t_close : option Z }.

  Definition tx_step (st : option (option tslot)) (e : elem A) : option (option tslot) * list (wres C) :=
    match st with
    | None => (None, [])
    | Some w =>
      match e with
      | Tst x _ =>
          let slot := match w with Some s => s | None => {| t_acc := acc0; t_close := None |} end in
          let slot1 := {| t_acc := proc (t_acc slot) x; t_close := t_close slot |} in
          match logic x with
          | TxCommit => (Some None, [(out (t_acc slot1), None)])
          | TxCommitAfter t => (Some (Some {| t_acc := t_acc slot1; t_close := Some t |}), [])
          | TxDiscard => (Some None, [])
          | TxContinue => (Some (Some slot1), [])
          end
      | Wm ts =>
          match w with
          | Some s => match t_close s with
                      | Some c => if c <? ts then (Some None, [(out (t_acc s), None)]) else (st, [])
                      | None => (st, [])
                      end
          | None => (st, [])
          end
      | FAR | Terminate =>
          match w with
          | Some s => match t_close s with
                      | Some _ => (Some None, [(out (t_acc s), None)])
                      | None => (st, [])     (* an uncommitted window survives the round (F7) *)
                      end
          | None => (st, [])
          end
      | Item _ => (None, [])      (* panic!: non timestamped streams are not supported *)
      | FlushBatch => (st, [])
      end
    end.

  Definition tx_mgr : wmgr A C :=
    {| wst := option (option tslot);
       winit := Some None;
       wstep := tx_step;
       wrecycle := fun st => match st with Some None => true | _ => false end |}.
End Txn.

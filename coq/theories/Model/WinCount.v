(** Model of `CountWindowManager` (src/operator/window/descr/count.rs), generic in the
    window accumulator (`WindowAccumulator`: init / process / output). *)
From Noir Require Export Base.Elem.
Open Scope nat_scope.

(** Result of a window: `WindowResult::new(out, ts)`. *)
Definition wres (C : Type) : Type := (C * option Z)%type.
Definition wres_elem {C} (r : wres C) : elem C :=
  match r with (c, Some t) => Tst c t | (c, None) => Item c end.

Section WinCount.
  Context {A B C : Type}.
  Variable (acc0 : B) (proc : B -> A -> B) (out : B -> C).
  Variable (size slide : nat) (exact : bool).

  Record slot := { cnt : nat; sacc : B; sts : option Z }.
  Definition empty_slot := {| cnt := 0; sacc := acc0; sts := None |}.

  (** `(self.size + self.slide - 1) / self.slide` *)
  Definition nslots : nat := (size + slide - 1) / slide.

  (** `while self.ws.len() < nslots { push_back(Slot::new(init)) }` *)
  Definition ensure (ws : list slot) : list slot :=
    ws ++ repeat empty_slot (nslots - length ws).

  Definition upd1 (w : slot) (x : A) (t : option Z) : slot :=
    {| cnt := S (cnt w); sacc := proc (sacc w) x; sts := omax (sts w) t |}.

  (** `for i in 0..k { self.update_slot(i, ..) }` (an index past the end panics in Rust;
      it cannot happen when 1 <= slide, see [k_le_nslots] in the proofs) *)
  Fixpoint upd (k : nat) (x : A) (t : option Z) (ws : list slot) : list slot :=
    match k, ws with
    | S k', w :: ws' => upd1 w x t :: upd k' x t ws'
    | _, _ => ws
    end.

  Definition slot_res (w : slot) : wres C := (out (sacc w), sts w).

  Definition step_data (ws : list slot) (x : A) (t : option Z) : list slot * list (wres C) :=
    let ws1 := ensure ws in
    let k := match ws1 with w :: _ => cnt w / slide + 1 | [] => 0 end in
    let ws2 := upd k x t ws1 in
    match ws2 with
    | w :: rest => if Nat.eqb (cnt w) size then (rest, [slot_res w]) else (ws2, [])
    | [] => ([], [])
    end.

  Definition flush (ws : list slot) : list (wres C) :=
    if exact then []
    else match ws with
         | w :: _ => if Nat.ltb 0 (cnt w) then [slot_res w] else []
         | [] => []
         end.

  (** `WindowManager::process` *)
  Definition wc_step (ws : list slot) (e : elem A) : list slot * list (wres C) :=
    match e with
    | Item x => step_data ws x None
    | Tst x t => step_data ws x (Some t)
    | FAR | Terminate => ([], flush ws)
    | Wm _ | FlushBatch => (ws, [])
    end.

  Definition wc_machine : machine (elem A) (wres C) :=
    {| mstate := list slot; minit := []; mstep := wc_step |}.
End WinCount.

(** ** Specification: the sliding groups of an arrival sequence *)
Section Spec.
  Context {A : Type}.
  Variable (size slide : nat).

  Definition slice (xs : list A) (a n : nat) : list A := firstn n (skipn a xs).

  (** number of complete groups among the first [c] elements: |{ j | j*S + N <= c }| *)
  Definition complete (c : nat) : nat := if Nat.ltb c size then 0 else (c - size) / slide + 1.

  (** the complete groups [j*S, j*S+N), j = 0 .. complete-1, in order *)
  Definition groups (xs : list A) : list (list A) :=
    map (fun j => slice xs (j * slide) size) (seq 0 (complete (length xs))).

  (** the oldest incomplete group, if it is non-empty *)
  Definition tail_group (xs : list A) : list (list A) :=
    match skipn (complete (length xs) * slide) xs with
    | [] => []
    | g => [g]
    end.
End Spec.

(** Model of the wire format of a remote link (src/network/sync/remote.rs): every message is
    a 20-byte header — `size: u32`, `replica_id: u64`, `sender_block_id: u64`, bincode
    fixed-width little-endian — followed by `size` bytes of body (the bincode serialisation
    of the batch, opaque here). A demultiplexer reads frames until the stream ends. *)
From Coq Require Import ZArith List Lia Bool.
Import ListNotations.
Open Scope Z_scope.

Definition HEADER_SIZE : nat := 20.

(** little-endian encoding of [x] on [n] bytes *)
Fixpoint le_bytes (n : nat) (x : Z) : list Z :=
  match n with
  | O => []
  | S n' => (x mod 256) :: le_bytes n' (x / 256)
  end.
Fixpoint le_value (l : list Z) : Z :=
  match l with
  | [] => 0
  | b :: l' => b + 256 * le_value l'
  end.

Record header := { h_size : Z; h_replica : Z; h_block : Z }.

Definition encode_header (h : header) : list Z :=
  le_bytes 4 (h_size h) ++ le_bytes 8 (h_replica h) ++ le_bytes 8 (h_block h).

Definition frame (replica block : Z) (body : list Z) : list Z :=
  encode_header {| h_size := Z.of_nat (length body); h_replica := replica; h_block := block |} ++ body.

Definition decode_header (l : list Z) : header :=
  {| h_size := le_value (firstn 4 l);
     h_replica := le_value (firstn 8 (skipn 4 l));
     h_block := le_value (firstn 8 (skipn 12 l)) |}.

(** read frames until fewer than a header's worth of bytes remain (`read_exact` fails ->
    `remote_recv` returns None); a truncated body is a panic in the implementation: [None] *)
Fixpoint decode_stream (fuel : nat) (l : list Z) : option (list (header * list Z)) :=
  match fuel with
  | O => Some []
  | S f =>
      if Nat.ltb (length l) HEADER_SIZE then Some []
      else
        let h := decode_header (firstn HEADER_SIZE l) in
        let rest := skipn HEADER_SIZE l in
        let n := Z.to_nat (h_size h) in
        if Nat.ltb (length rest) n then None
        else match decode_stream f (skipn n rest) with
             | Some fs => Some ((h, firstn n rest) :: fs)
             | None => None
             end
  end.

Definition is_byte (b : Z) : Prop := 0 <= b < 256.

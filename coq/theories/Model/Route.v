(** Model of the router: `RoutingEnd::next` (src/operator/route.rs), the operator closing the
    block on which `stream.route().add_route(p0).add_route(p1)...build()` was called. There is
    one output stream (one new block) per route. The strategy is `only_one` (forward wiring:
    the new blocks keep the parallelism of the routed one), so a `RoutingEnd` replica owns
    exactly ONE sender (a `Batcher`, Model/End.v) per route.

    - data (`Item` / `Timestamped`): `for e in endpoints { if e.filter.is_match(item) {
      enqueue on e's batcher; break } }` — the FIRST route whose predicate matches; an element
      no predicate matches is dropped;
    - `Watermark` / `FlushAndRestart` / `Terminate`: enqueued on the batcher of every route,
      in route order;
    - `FlushBatch`: not enqueued;
    - then, as in `End`: on `FlushAndRestart` and `FlushBatch` every batcher is flushed, on
      `Terminate` every batcher is ended (`Batcher::end`: what is left is sent). These loops
      run over `self.senders`, which `setup_endpoints` sorted by receiver endpoint, i.e. by
      downstream block id; the routes' blocks are created in route order with increasing
      ids, so sender order = route order and the model flushes in route order.

    The clock convention is the one of Model/End.v: [t0] is the reading when the batchers
    are created (`setup`), [clock k] the reading while the k-th pulled element is handled. *)
From Noir Require Export Base.Elem Model.End.
From Coq Require Import NArith.
Open Scope nat_scope.

Section Route.
  Context {A : Type}.

  (** index of the first predicate that holds for [v] (the `for .. { if .. { ..; break } }`) *)
  Fixpoint first_match (preds : list (A -> bool)) (v : A) : option nat :=
    match preds with
    | [] => None
    | p :: preds' => if p v then Some 0 else option_map S (first_match preds' v)
    end.

  (** [e] is addressed to route [i]: data whose first matching route is [i]; every
      Watermark / FlushAndRestart / Terminate; `FlushBatch` is addressed to nobody *)
  Definition routed_to (preds : list (A -> bool)) (i : nat) (e : elem A) : bool :=
    match e with
    | Item v | Tst v _ =>
        match first_match preds v with Some j => Nat.eqb i j | None => false end
    | Wm _ | FAR | Terminate => true
    | FlushBatch => false
    end.

  Variable (clock : nat -> N) (t0 : N).  (* clock reading for the k-th pulled element; at setup *)
  Variable (m : batch_mode).
  Variable (preds : list (A -> bool)).   (* the routes' predicates, in `add_route` order *)

  Definition rstate := (nat * list (@bstate A))%type.   (* elements pulled so far, one batcher per route *)
  Definition rout := list (nat * list (elem A)).        (* (route index, batch) sent *)

  (** `setup`: one batcher per route, empty buffer, `last_send = clock()` *)
  Definition rinit : rstate := (0, repeat ([], t0) (length preds)).

  (** a loop over the senders in order (route [i], [i+1], ..): [f j] acts on the batcher of
      route [j]; the batches it sends go to route [j] *)
  Fixpoint each_sender (f : nat -> @bstate A -> @bstate A * list (list (elem A)))
      (i : nat) (st : list (@bstate A)) : list (@bstate A) * rout :=
    match st with
    | [] => ([], [])
    | bs :: st' =>
        let '(bs1, sent) := f i bs in
        let '(st1, o) := each_sender f (S i) st' in
        (bs1 :: st1, map (fun batch => (i, batch)) sent ++ o)
    end.

  (** enqueue on the batcher of route [j] only *)
  Definition enqueue_one (now : N) (j : nat) (e : elem A) (st : list (@bstate A)) :=
    each_sender (fun i bs => if Nat.eqb i j then enqueue m now bs e else (bs, [])) 0 st.
  (** enqueue on every route's batcher, in route order *)
  Definition enqueue_all (now : N) (e : elem A) (st : list (@bstate A)) :=
    each_sender (fun _ bs => enqueue m now bs e) 0 st.
  (** `flush()` (or `end()`) of every batcher, in sender = route order *)
  Definition rflush_all (now : N) (st : list (@bstate A)) :=
    each_sender (fun _ bs => flush now bs) 0 st.

  (** one element pulled from the chain; the clock is read once per pulled element *)
  Definition route_step (st : rstate) (e : elem A) : rstate * rout :=
    let '(k, bst) := st in
    let now := clock k in
    let '(bst', out) :=
      match e with
      | Item v | Tst v _ =>
          match first_match preds v with
          | Some j => enqueue_one now j e bst
          | None => (bst, [])                         (* "router ignoring message" *)
          end
      | Wm _ => enqueue_all now e bst
      | FAR =>
          let '(st1, o1) := enqueue_all now e bst in
          let '(st2, o2) := rflush_all now st1 in (st2, o1 ++ o2)
      | Terminate =>
          let '(st1, o1) := enqueue_all now e bst in
          (* `Batcher::end`: the remaining buffer if non-empty; the batchers are consumed *)
          let '(st2, o2) := rflush_all now st1 in (st2, o1 ++ o2)
      | FlushBatch => rflush_all now bst
      end in
    ((S k, bst'), out).

  Definition route_machine : machine (elem A) (nat * list (elem A)) :=
    {| mstate := rstate; minit := rinit; mstep := route_step |}.

  (** the batches sent to route [i], in order; and what route [i] receives as a sequence of
      elements: their concatenation *)
  Definition route_batches (out : rout) (i : nat) : list (list (elem A)) :=
    flat_map (fun '(j, batch) => if Nat.eqb i j then [batch] else []) out.
  Definition route_received (out : rout) (i : nat) : list (elem A) :=
    concat (route_batches out i).
End Route.

(** Model of `WatermarkFrontier` (src/operator/start/watermark_frontier.rs) and of the
    single-input `Start` operator (src/operator/start/mod.rs, `Start::next` over a
    `SimpleStartReceiver`).

    `Start::next` is a pull loop over batches; its observable behaviour is a push machine
    over the *arrival sequence* of (sender, element) pairs — the concatenation of the
    received batches in the order the single channel delivered them. The checks at the top
    of the loop (`missing_terminate == 0`, `missing_flush_and_restart == 0`) run before the
    next element is taken, which the push form renders as [settle] after every element.
    Receive time-outs (FlushBatch injection) are not part of this machine (see C18). *)
From Noir Require Export Base.Elem.
Open Scope Z_scope.

Definition TS_MAX : Z := 2 ^ 63 - 1.   (* Timestamp::MAX, i64 *)

(** ** Watermark frontier *)
Record frontier := { fmap : list (option Z); ffront : option Z }.

Definition frontier_new (n : nat) : frontier := {| fmap := repeat None n; ffront := None |}.

Definition omin (a b : option Z) : option Z :=
  match a, b with
  | Some x, Some y => Some (Z.min x y)
  | Some x, None | None, Some x => Some x
  | None, None => None
  end.

(** `compute_frontier`: the minimum if every replica has reported, else None *)
Definition compute_frontier (m : list (option Z)) : option Z :=
  let '(complete, mn) :=
    fold_left (fun '(all, mn) x => (all && match x with Some _ => true | None => false end, omin mn x))
              m (true, None) in
  if complete then mn else None.

Fixpoint set_nth {X} (i : nat) (v : X) (l : list X) : list X :=
  match i, l with
  | O, _ :: l' => v :: l'
  | S i', x :: l' => x :: set_nth i' v l'
  | _, [] => []
  end.

(** `update(coord, ts)`: Some ts' if ts' is now safe to forward *)
Definition frontier_update (f : frontier) (s : nat) (ts : Z) : frontier * option Z :=
  match nth s (fmap f) None with
  | Some t0 => if ts <=? t0 then (f, None) else
      let m := set_nth s (Some ts) (fmap f) in
      let nf := compute_frontier m in
      ({| fmap := m; ffront := nf |},
       match ffront f, nf with
       | None, Some n => Some n
       | Some o, Some n => if Z.eqb o n then None else Some n
       | _, _ => None
       end)
  | None =>
      let m := set_nth s (Some ts) (fmap f) in
      let nf := compute_frontier m in
      ({| fmap := m; ffront := nf |},
       match ffront f, nf with
       | None, Some n => Some n
       | Some o, Some n => if Z.eqb o n then None else Some n
       | _, _ => None
       end)
  end.

Definition frontier_reset (f : frontier) : frontier :=
  {| fmap := map (fun _ => None) (fmap f); ffront := None |}.

(** ** Single-input Start *)
Record sstate := {
  s_n : nat;                 (* num_previous_replicas *)
  s_mterm : nat;             (* missing_terminate *)
  s_mfar : nat;              (* missing_flush_and_restart *)
  s_front : frontier;
  s_done : bool              (* Terminate already emitted: the worker stops pulling *)
}.

Definition start_init (n : nat) : sstate :=
  {| s_n := n; s_mterm := n; s_mfar := n; s_front := frontier_new n; s_done := false |}.

(** the two checks at the top of `next()`'s loop *)
Definition settle {A} (st : sstate) : sstate * list (elem A) :=
  if Nat.eqb (s_mterm st) 0 then
    ({| s_n := s_n st; s_mterm := 0; s_mfar := s_mfar st; s_front := s_front st; s_done := true |},
     [Terminate])
  else if Nat.eqb (s_mfar st) 0 then
    ({| s_n := s_n st; s_mterm := s_mterm st; s_mfar := s_n st;
        s_front := frontier_reset (s_front st); s_done := false |}, [FAR])
  else (st, []).

Definition start_step {A} (st : sstate) (x : nat * elem A) : sstate * list (elem A) :=
  if s_done st then (st, []) else
  let '(s, e) := x in
  match e with
  | Wm t =>
      let '(f, o) := frontier_update (s_front st) s t in
      ({| s_n := s_n st; s_mterm := s_mterm st; s_mfar := s_mfar st; s_front := f; s_done := false |},
       match o with Some t' => [Wm t'] | None => [] end)
  | FAR =>
      (* the frontier ignores this replica from now on; the result of update is discarded *)
      let '(f, _) := frontier_update (s_front st) s TS_MAX in
      settle {| s_n := s_n st; s_mterm := s_mterm st; s_mfar := pred (s_mfar st); s_front := f; s_done := false |}
  | Terminate =>
      settle {| s_n := s_n st; s_mterm := pred (s_mterm st); s_mfar := s_mfar st; s_front := s_front st; s_done := false |}
  | _ => (st, [e])
  end.

Definition start_machine (A : Type) (n : nat) : machine (nat * elem A) (elem A) :=
  {| mstate := sstate; minit := start_init n; mstep := start_step |}.

(** arrival sequence from batches *)
Definition flatten_batches {A} (bs : list (nat * list (elem A))) : list (nat * elem A) :=
  flat_map (fun '(s, b) => map (fun e => (s, e)) b) bs.

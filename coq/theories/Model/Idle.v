(** * Idle behaviour of a block (property C18: batching never withholds data)

    What a replica does when it has nothing to read. Two small machines, each fed with the
    answers of its receive primitive and logging its actions in program order:

    - [start_step]: `Start::next` (src/operator/start/mod.rs), the part after the current
      batch has been exhausted ("Receive next batch");
    - [src_step]: `ChannelSource::next` (src/operator/source/channel.rs).

    and an abstract linear pipeline ([pstep]) of [k] block boundaries built from them, in
    which the only places that can hold an element back are the `Batcher`s of each block's
    `End` (src/block/batcher.rs) and the channels between blocks. *)
From Coq Require Import Arith Bool List Lia.
Import ListNotations.

Section Idle.
  Context {A : Type}.

  (** actions of a machine, in program order *)
  Inductive act :=
  | WaitTimed          (* `receiver.recv_timeout(max_delay)` *)
  | Poll               (* `rx.try_recv()` *)
  | Block              (* untimed, indefinitely blocking `recv()` *)
  | Got                (* the receive returned a batch / an item *)
  | Out (x : A)        (* an element returned to the rest of the chain *)
  | OutFlush           (* `StreamElement::FlushBatch` returned to the rest of the chain *)
  | OutEnd.            (* `FlushAndRestart` (the `End` flushes on it as well) *)

  (** ** Start *)
  Record start_state := { max_delay : bool;            (* `self.max_delay.is_some()`: adaptive batching *)
                          already_timed_out : bool }.
  Inductive start_ev := SArrive (b : list A) | STimeout.

  (** `match (self.already_timed_out, self.max_delay)`: `(false, Some(d))` waits with a
      timeout, everything else blocks *)
  Definition start_wait (st : start_state) : act :=
    if max_delay st && negb (already_timed_out st) then WaitTimed else Block.

  Definition start_step (st : start_state) (ev : start_ev) : start_state * list act :=
    match start_wait st, ev with
    | WaitTimed, STimeout =>
        (* `Err(_) => { self.already_timed_out = true; ...FlushBatch }` *)
        ({| max_delay := max_delay st; already_timed_out := true |}, [WaitTimed; OutFlush])
    | WaitTimed, SArrive b =>
        (* `Ok(net_msg) => net_msg`: the flag is untouched (it is false) *)
        (st, WaitTimed :: Got :: map Out b)
    | _, SArrive b =>
        (* `_ => { self.already_timed_out = false; self.receiver.recv() }` *)
        ({| max_delay := max_delay st; already_timed_out := false |}, Block :: Got :: map Out b)
    | _, STimeout => (st, [])        (* an untimed receive does not time out: no such event *)
    end.

  Fixpoint start_run (st : start_state) (evs : list start_ev) : list act :=
    match evs with
    | [] => []
    | ev :: evs' => let '(st', acts) := start_step st ev in acts ++ start_run st' evs'
    end.

  Definition start_init (adaptive : bool) : start_state :=
    {| max_delay := adaptive; already_timed_out := false |}.

  (** ** Channel source *)
  Definition MAX_RETRY := 8.
  Record src_state := { retry : nat;             (* `retry_count` *)
                        in_recv : bool;          (* inside the blocking `self.rx.recv()` *)
                        terminated : bool }.
  (** answers of `try_recv` (or of the blocking `recv` when [in_recv]) *)
  Inductive src_ev := PItem (x : A) | PEmpty | PClosed.

  Definition src_step (st : src_state) (ev : src_ev) : src_state * list act :=
    if terminated st then (st, []) else
    if in_recv st then
      match ev with
      | PItem x => ({| retry := 0; in_recv := false; terminated := false |}, [Got; Out x])
      | PClosed => ({| retry := retry st; in_recv := false; terminated := true |}, [OutEnd])
      | PEmpty => (st, [])            (* a blocking receive does not return empty *)
      end
    else
      match ev with
      | PItem x =>                     (* `Ok(t) => { self.retry_count = 0; return Item(t) }` *)
          ({| retry := 0; in_recv := false; terminated := false |}, [Poll; Got; Out x])
      | PClosed => ({| retry := retry st; in_recv := false; terminated := true |}, [Poll; OutEnd])
      | PEmpty =>
          if retry st <? MAX_RETRY then   (* spin before blocking *)
            ({| retry := S (retry st); in_recv := false; terminated := false |}, [Poll])
          else if retry st =? MAX_RETRY then   (* "no values ready after MAX_RETRY tries, sending flush" *)
            ({| retry := S (retry st); in_recv := false; terminated := false |}, [Poll; OutFlush])
          else                              (* "flushed and no values ready, blocking" *)
            ({| retry := 0; in_recv := true; terminated := false |}, [Poll; Block])
      end.

  Fixpoint src_run (st : src_state) (evs : list src_ev) : list act :=
    match evs with
    | [] => []
    | ev :: evs' => let '(st', acts) := src_step st ev in acts ++ src_run st' evs'
    end.

  Definition src_init : src_state := {| retry := 0; in_recv := false; terminated := false |}.

  (** ** The property of a log: a machine blocks indefinitely only if it has returned
      `FlushBatch` (or the end of the round) since the last thing it received *)
  Definition quiet (a : act) : Prop :=
    match a with Got | Out _ => False | _ => True end.

  (** [flushed]: a flush was returned and nothing was received since *)
  Fixpoint idle_ok (flushed : bool) (l : list act) : Prop :=
    match l with
    | [] => True
    | Block :: l' => flushed = true /\ idle_ok flushed l'
    | OutFlush :: l' | OutEnd :: l' => idle_ok true l'
    | Got :: l' | Out _ :: l' => idle_ok false l'
    | WaitTimed :: l' | Poll :: l' => idle_ok flushed l'
    end.

  (** ** A linear pipeline of [k >= 1] block boundaries, after the input has stopped.

      Block 0 runs the channel source, block [i] ([1 <= i <= k]) a `Start` with adaptive
      batching; the chains forward what they get (one replica per block, identity payload:
      data is abstracted to "where is the element"). Places:
      - [inq s 0]: items handed to the source (in the user's channel), not yet read;
      - [inq s i] ([1 <= i <= k]): elements sent over boundary [i], not yet received;
      - [held s i] ([i < k]): elements enqueued in the `Batcher` of block [i]'s `End`;
      - [held s k]: elements that reached the last block (delivered).
      "Input stops": no rule adds to [inq s 0]; the user's sender stays open. *)
  Record pstate := { inq : nat -> list A;
                     held : nat -> list A;
                     src : src_state;
                     ato : nat -> bool }.       (* `already_timed_out` of block i's Start *)

  Definition upd {X} (f : nat -> X) (i : nat) (v : X) : nat -> X :=
    fun j => if j =? i then v else f j.

  Variable k : nat.

  (** block [i] passes [b] through its chain into its `End`: the batcher may send any prefix
      of what it holds on the way (size reached, or `last_send.elapsed() > max_delay` at an
      `enqueue`), always whole-buffer and in order. The last block has no `End`. *)
  Definition moved (s : pstate) (i : nat) (b rest out keep : list A) (s' : pstate) : Prop :=
    inq s i = b ++ rest /\ b <> [] /\ held s i ++ b = out ++ keep /\ (i = k -> out = []) /\
    inq s' = upd (upd (inq s) i rest) (S i) (inq s (S i) ++ out) /\
    held s' = upd (held s) i keep.

  (** `FlushBatch` reaches the `End` of block [i], which flushes every batcher
      (end.rs; theorem [end_flushbatch_flushed] in Proofs/LinkProofs.v). The operators
      between `Start` and `End` either forward `FlushBatch` (map, filter, flat_map, key_by,
      reorder, window operators, zip, join) or swallow it while having emitted nothing since
      the last `FlushAndRestart` (fold, keyed fold), in which case the batchers are empty
      already. *)
  Definition flushed_at (s : pstate) (i : nat) (s' : pstate) : Prop :=
    inq s' = upd (inq s) (S i) (inq s (S i) ++ (if i <? k then held s i else [])) /\
    held s' = (if i <? k then upd (held s) i [] else held s).

  Inductive label := LSrc | LRecv (i : nat) | LTimeout (i : nat).

  Inductive pstep (s : pstate) : label -> pstate -> Prop :=
  (** the source reads an item (polling, or waking up from the blocking receive) *)
  | P_src_item x rest out keep s' :
      moved s 0 [x] rest out keep s' ->
      src s' = fst (src_step (src s) (PItem x)) -> terminated (src s) = false -> ato s' = ato s ->
      pstep s LSrc s'
  (** the source polls an empty channel: spins, returns `FlushBatch`, or blocks *)
  | P_src_empty s' :
      inq s 0 = [] -> in_recv (src s) = false -> terminated (src s) = false ->
      src s' = fst (src_step (src s) PEmpty) -> ato s' = ato s ->
      (if existsb (fun a => match a with OutFlush => true | _ => false end)
                  (snd (src_step (src s) PEmpty))
       then flushed_at s 0 s' else inq s' = inq s /\ held s' = held s) ->
      pstep s LSrc s'
  (** the Start of block [i] receives (timed or untimed wait, whichever it is in) *)
  | P_recv i b rest out keep s' :
      1 <= i <= k -> moved s i b rest out keep s' -> src s' = src s ->
      ato s' = upd (ato s) i
                 (already_timed_out (fst (start_step {| max_delay := true; already_timed_out := ato s i |}
                                                     (SArrive b)))) ->
      pstep s (LRecv i) s'
  (** the timed wait of block [i] expires: only with an empty channel, only if the Start
      is in a timed wait *)
  | P_timeout i s' :
      1 <= i <= k -> inq s i = [] ->
      start_wait {| max_delay := true; already_timed_out := ato s i |} = WaitTimed ->
      flushed_at s i s' -> src s' = src s ->
      ato s' = upd (ato s) i
                 (already_timed_out (fst (start_step {| max_delay := true; already_timed_out := ato s i |}
                                                     STimeout))) ->
      pstep s (LTimeout i) s'.

  Inductive pexec : pstate -> list label -> pstate -> Prop :=
  | pexec_nil s : pexec s [] s
  | pexec_cons s l s' ls s'' : pstep s l s' -> pexec s' ls s'' -> pexec s (l :: ls) s''.

  (** nothing can happen any more: every replica is blocked in an untimed receive *)
  Definition quiescent (s : pstate) : Prop := forall l s', ~ pstep s l s'.

  (** the input [xs] was handed to the source and then the input stopped *)
  Definition pstart (xs : list A) : pstate :=
    {| inq := fun i => if i =? 0 then xs else []; held := fun _ => [];
       src := src_init; ato := fun _ => false |}.

  (** blocks [0 .. j-1] are blocked for good with nothing pending, so nothing will ever be sent over boundary [j] again *)
  Definition upstream_settled (s : pstate) (j : nat) : Prop :=
    in_recv (src s) = true /\ terminated (src s) = false /\ inq s 0 = [] /\ held s 0 = [] /\
    forall i, 1 <= i < j -> inq s i = [] /\ held s i = [] /\ ato s i = true.
End Idle.

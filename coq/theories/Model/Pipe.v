(** Pipelines over (key, value) pairs and their SEQUENTIAL meaning (C01): what a job
    computes when the whole input is evaluated on one machine, one operator after the other.
    The vocabulary of user functions is closed and shared with the harness (same functions in
    Rust and here). Results are multisets: lists compared up to permutation. *)
From Coq Require Import ZArith List Bool Lia.
Import ListNotations.
Open Scope Z_scope.

Definition P : Type := (Z * Z)%type.       (* (key, value) *)

Inductive repl := RpOne | RpHost | RpUnlimited | RpLimited (n : Z).

Inductive jvar := JvInner | JvLeft | JvOuter.
Inductive jship := ShHash | ShBroadcast.
Inductive jlocal := LoHash | LoSortMerge.

Inductive op1 :=
| OMapAdd (c : Z)             (* (k, v) -> (k, v + c) *)
| OSetKey (m : Z)             (* (k, v) -> (v mod m, v) *)
| OFilterNe (m : Z)           (* keep v mod m <> 0 *)
| OFlatRep (n : Z)            (* n copies: (k, v * 8 + i) for i < n, 0 <= n <= 8 *)
| OShuffle
| ORepl (r : repl)
| OGroupBySum | OGroupByCount | OGroupByMax | OGroupByMin
| OGroupByFoldSum             (* group_by_fold: local pre-aggregation *)
| OGroupByThenFoldSum         (* group_by(..).fold(..): shuffle then aggregate *)
| OGroupByReduceMax           (* group_by_reduce *)
| OFoldSum | OFoldAssocSum | OReduceMax | OReduceAssocMax
| OAddState                   (* inside a loop body: (k, v) -> (k, v + state); outside: identity with state 0 *)
| ONested (n limit : Z) (body : list op1)    (* a replay loop nested in a loop body; its own state starts at 0 *)
| ONestedO (n limit : Z) (body : list op1)   (* as ONested, but the ops of the body read the ENCLOSING state *)
| OJoinSide (v : jvar) (lo : jlocal) (side : list P)
    (* hash-shipped join of the current stream (left) with the constant list [side] (right): a
       stream defined outside the loop and joined inside the body; it is cached and replayed
       every round *)
| OJoinSideL (v : jvar) (lo : jlocal) (side : list P).
    (* the mirrored form: the constant SIDE INPUT is the LEFT side of the join and the current
       stream the right one (JvLeft keeps the unmatched side elements, JvOuter both) *)

Inductive pipe :=
| PSrc (par : bool) (xs : list P)
| POp (p : pipe) (o : op1)
| PJoin (l r : pipe) (v : jvar) (sh : jship) (lo : jlocal)
| PMerge (l r : pipe)
| PSplit (p : pipe) (a b : list op1) (v : option jvar)   (* diamond: split, two branches, merge (None) or join *)
| PReplay (p : pipe) (n : Z) (limit : Z) (body : list op1)
| PIterate (p : pipe) (n : Z) (limit : Z) (body : list op1) (take_state : bool).

(** ---- sequential meaning ---- *)
Definition keys_of (xs : list P) : list Z :=
  fold_right (fun x acc => if existsb (Z.eqb (fst x)) acc then acc else fst x :: acc) [] xs.
Definition vals_of (k : Z) (xs : list P) : list Z := map snd (filter (fun x => Z.eqb (fst x) k) xs).

Definition per_key (f : list Z -> Z) (xs : list P) : list P :=
  map (fun k => (k, f (vals_of k xs))) (keys_of xs).
Definition zsum (l : list Z) := fold_left Z.add l 0.
Definition zmax (l : list Z) := match l with [] => 0 | x :: l' => fold_left Z.max l' x end.
Definition zmin (l : list Z) := match l with [] => 0 | x :: l' => fold_left Z.min l' x end.
Definition pmax (a b : P) : P := (Z.max (fst a) (fst b), Z.max (snd a) (snd b)).

(** value of a joined pair: an (injective enough) deterministic mix of both sides *)
Definition jmix (l r : option Z) : Z :=
  let e o := match o with Some z => z + 1 | None => 0 end in
  Z.modulo (e l * 1009 + e r) 1000003.

Definition ev_join (v : jvar) (ls rs : list P) : list P :=
  flat_map (fun l =>
    match filter (fun r => Z.eqb (fst r) (fst l)) rs with
    | [] => match v with JvInner => [] | _ => [(fst l, jmix (Some (snd l)) None)] end
    | ms => map (fun r => (fst l, jmix (Some (snd l)) (Some (snd r)))) ms
    end) ls
  ++ match v with
     | JvOuter => flat_map (fun r => if existsb (fun l => Z.eqb (fst l) (fst r)) ls then []
                                     else [(fst r, jmix None (Some (snd r)))]) rs
     | _ => []
     end.

Fixpoint ev1 (state : Z) (o : op1) (xs : list P) {struct o} : list P :=
  match o with
  | OMapAdd c => map (fun x => (fst x, snd x + c)) xs
  | OSetKey m => map (fun x => (Z.modulo (snd x) m, snd x)) xs
  | OFilterNe m => filter (fun x => negb (Z.eqb (Z.modulo (snd x) m) 0)) xs
  | OFlatRep n => flat_map (fun x => map (fun i => (fst x, snd x * 8 + Z.of_nat i)) (seq 0 (Z.to_nat n))) xs
  | OShuffle | ORepl _ => xs
  | OGroupBySum | OGroupByFoldSum | OGroupByThenFoldSum => per_key zsum xs
  | OGroupByCount => per_key (fun l => Z.of_nat (length l)) xs
  | OGroupByMax | OGroupByReduceMax => per_key zmax xs
  | OGroupByMin => per_key zmin xs
  | OFoldSum | OFoldAssocSum => match xs with [] => [] | _ => [(0, zsum (map snd xs))] end
  | OReduceMax | OReduceAssocMax => match xs with [] => [] | x :: xs' => [fold_left pmax xs' x] end
  | OAddState => map (fun x => (fst x, snd x + state)) xs
  | ONested n limit body =>
      (* state_k = state_(k-1) + sum of the body's output values; continue while
         state_k < limit and k < n; at least one round *)
      let evs := (fix evs (st : Z) (os : list op1) (acc : list P) {struct os} : list P :=
                    match os with [] => acc | o' :: os' => evs st os' (ev1 st o' acc) end) in
      let loop := (fix loop (fuel : nat) (k st : Z) {struct fuel} : Z :=
                     match fuel with
                     | O => st
                     | S f =>
                         let st1 := st + zsum (map snd (evs st body xs)) in
                         if (st1 <? limit) && (k + 1 <? n) then loop f (k + 1) st1 else st1
                     end) in
      [(0, loop (Z.to_nat (Z.max n 1)) 0 0)]
  | ONestedO n limit body =>
      (* as above, but every inner round evaluates the body with the ENCLOSING [state]: the
         inner running sum [st] only drives the stop condition and the result *)
      let evs := (fix evs (st : Z) (os : list op1) (acc : list P) {struct os} : list P :=
                    match os with [] => acc | o' :: os' => evs st os' (ev1 st o' acc) end) in
      let loop := (fix loop (fuel : nat) (k st : Z) {struct fuel} : Z :=
                     match fuel with
                     | O => st
                     | S f =>
                         let st1 := st + zsum (map snd (evs state body xs)) in
                         if (st1 <? limit) && (k + 1 <? n) then loop f (k + 1) st1 else st1
                     end) in
      [(0, loop (Z.to_nat (Z.max n 1)) 0 0)]
  | OJoinSide v _ side => ev_join v xs side
  | OJoinSideL v _ side => ev_join v side xs
  end.
Definition ev_ops (state : Z) (os : list op1) (xs : list P) : list P :=
  fold_left (fun acc o => ev1 state o acc) os xs.

(** loops: state_k = state_(k-1) + sum of the values the body produced in round k; the loop
    continues while state_k < limit and k < n; at least one round always runs *)
Fixpoint ev_replay (fuel : nat) (k n limit state : Z) (body : list op1) (xs : list P) : Z :=
  match fuel with
  | O => state
  | S f =>
      let ys := ev_ops state body xs in
      let st := state + zsum (map snd ys) in
      if (st <? limit) && (k + 1 <? n) then ev_replay f (k + 1) n limit st body xs else st
  end.
Fixpoint ev_iterate (fuel : nat) (k n limit state : Z) (body : list op1) (xs : list P) : Z * list P :=
  match fuel with
  | O => (state, xs)
  | S f =>
      let ys := ev_ops state body xs in
      let st := state + zsum (map snd ys) in
      if (st <? limit) && (k + 1 <? n) then ev_iterate f (k + 1) n limit st body ys else (st, ys)
  end.

Fixpoint denote (p : pipe) : list P :=
  match p with
  | PSrc _ xs => xs
  | POp p o => ev1 0 o (denote p)
  | PJoin l r v _ _ => ev_join v (denote l) (denote r)
  | PMerge l r => denote l ++ denote r
  | PSplit p a b None => ev_ops 0 a (denote p) ++ ev_ops 0 b (denote p)
  | PSplit p a b (Some v) => ev_join v (ev_ops 0 a (denote p)) (ev_ops 0 b (denote p))
  | PReplay p n limit body => [(0, ev_replay (Z.to_nat (Z.max n 1)) 0 n limit 0 body (denote p))]
  | PIterate p n limit body take_state =>
      let '(st, ys) := ev_iterate (Z.to_nat (Z.max n 1)) 0 n limit 0 body (denote p) in
      if take_state then [(0, st)] else ys
  end.

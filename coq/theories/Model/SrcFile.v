(** Models of `FileSource` (src/operator/source/file.rs) and of the byte-range arithmetic
    of `CsvSource::setup` (src/operator/source/csv.rs) over a file given as a list of bytes.
    `BufRead::read_until(b'\n')` / `read_line` are modelled by [read_until]. *)
From Coq Require Import ZArith List Lia Bool Arith.
Import ListNotations.
Open Scope nat_scope.

Definition NL : Z := 10%Z.

(** `read_until(b'\n', buf)`: the bytes consumed (including the newline if one is found)
    and the remaining input *)
Fixpoint read_until (l : list Z) : list Z * list Z :=
  match l with
  | [] => ([], [])
  | b :: l' =>
      if Z.eqb b NL then ([b], l')
      else let '(a, r) := read_until l' in (b :: a, r)
  end.

(** the `next()` loop of `FileSource`: while `current <= end`, `read_line`; stop at EOF *)
Fixpoint read_lines (fuel : nat) (cur endp : nat) (rest : list Z) : list (list Z) :=
  match fuel with
  | 0 => []
  | S f =>
      if Nat.leb cur endp then
        match rest with
        | [] => []                                   (* read_line returned 0: EOF *)
        | _ => let '(line, r) := read_until rest in
               line :: read_lines f (cur + length line) endp r
        end
      else []
  end.

(** everything replica [id] of [n] emits (each line keeps its terminator) *)
Definition file_replica (bytes : list Z) (n id : nat) : list (list Z) :=
  let size := length bytes in
  let range_size := size / n in
  let start := range_size * id in
  let endp := if Nat.eqb id (n - 1) then size else start + range_size in
  let rest := skipn start bytes in
  let '(cur, rest1) :=
    if Nat.eqb id 0 then (start, rest)
    else let '(d, r) := read_until rest in (start + length d, r) in
  read_lines (S size) cur endp rest1.

(** specification: the lines of a file (the last one may lack the terminator) *)
Fixpoint lines_fuel (fuel : nat) (l : list Z) : list (list Z) :=
  match fuel with
  | 0 => []
  | S f => match l with
           | [] => []
           | _ => let '(a, r) := read_until l in a :: lines_fuel f r
           end
  end.
Definition lines (l : list Z) : list (list Z) := lines_fuel (length l) l.

(** ** CSV: the aligned byte range [start', end') of replica [id] *)
Definition until_len (bytes : list Z) (pos : nat) : nat :=
  length (fst (read_until (skipn pos bytes))).

Definition csv_header_size (bytes : list Z) (has_header : bool) : nat :=
  if has_header then until_len bytes 0 else 0.

Definition csv_range (bytes : list Z) (has_header : bool) (n id : nat) : nat * nat :=
  let size := length bytes in
  let hs := csv_header_size bytes has_header in
  let body := size - hs in
  let range_size := body / n in
  let start := hs + range_size * id in
  let endp := if Nat.eqb id (n - 1) then size else start + range_size in
  let start' := if Nat.eqb id 0 then start else start + until_len bytes start in
  let end' := if Nat.eqb id (n - 1) then endp else endp + until_len bytes endp in
  (start', end').

(** the bytes a replica hands to the csv parser *)
Definition csv_bytes (bytes : list Z) (has_header : bool) (n id : nat) : list Z :=
  let '(s, e) := csv_range bytes has_header n id in
  firstn (e - s) (skipn s bytes).

(** a position is a record boundary: start of body, end of file, or just after a newline *)
Definition at_boundary (bytes : list Z) (hs pos : nat) : Prop :=
  pos = hs \/ pos = length bytes \/ (0 < pos /\ nth_error bytes (pos - 1) = Some NL).

(** * Fail-stop model (property C20): how a panic travels through an acyclic job

    Every block replica is one thread (`spawn_worker`, src/worker.rs). Data is abstracted
    away; what is kept is exactly what decides whether a failure is noticed:

    - the status of every replica thread: [Running], [Done] (`do_work` returned after the
      chain produced `Terminate`) or [Crashed] (the thread unwound; unwinding drops the
      `Block`, hence the `NetworkReceiver` of its `Start` and every `NetworkSender` held by
      the `Batcher`s of its `End`);
    - per producer->consumer link the flag "`Terminate` delivered" (`End::next`, Terminate
      branch, `batcher.end()` per destination, src/operator/end.rs).

    Graph. Replicas are the numbers [< n] in a topological numbering of the execution graph
    (so acyclicity is the hypothesis [keeps p c = true -> p < c]); [link p c]: replica [p]
    sends to replica [c]; [blk p]: the block of [p]. A consumer owns ONE channel per
    producer block (`ReceiverEndpoint = (consumer coord, previous block id)`,
    src/network/topology.rs `register_channel`), shared by all the producers of that block.
    [keeps p c]: the thread of [p] keeps a sender handle of the channel (blk p -> c) alive.
    On one host [keeps = link]. Across hosts the remote producers of a block reach [c]
    through one multiplexer per (host, block pair) (src/network/sync/multiplexer.rs), whose
    TCP stream - and with it the demultiplexer's clone of the channel sender
    (demultiplexer.rs `demux_thread`) - is closed only when EVERY replica of the producing
    block on that host has dropped its handle: there [keeps] also relates the other replicas
    of the producing block on that host to [c]. `NetworkTopology::finalize` drops the
    topology's own copies of all senders, so nothing else keeps a channel open.

    Fairness is modelled by maximality: the theorems speak about states in which no rule
    is enabled. Assumptions made explicit by that choice: a source eventually finishes
    (rule [S_term]/[S_done] are enabled for a replica without producers), a running consumer
    eventually drains its channels (bounded channels never block a sender forever in an
    acyclic job), a replica whose channel is disconnected eventually receives from it. *)
From Coq Require Import Arith Bool List Lia.
Import ListNotations.

Inductive status := Running | Done | Crashed.

Record state := { st : nat -> status;             (* thread of each replica *)
                  term : nat -> nat -> bool }.    (* Terminate delivered on link p -> c *)

Definition set_st (s : state) (r : nat) (v : status) : state :=
  {| st := fun x => if x =? r then v else st s x; term := term s |}.
Definition set_term (s : state) (p c : nat) : state :=
  {| st := st s; term := fun x y => if (x =? p) && (y =? c) then true else term s x y |}.

(** everybody running, nothing delivered *)
Definition init : state := {| st := fun _ => Running; term := fun _ _ => false |}.

Section Graph.
  Variable n : nat.
  Variable link keeps : nat -> nat -> bool.
  Variable blk : nat -> nat.
  (** the replicas running a user function that may panic (C20 designates one replica r0:
      [faulty := Nat.eqb r0]; a set costs nothing and covers a function that panics in
      several replicas) *)
  Variable faulty : nat -> bool.

  (** `Start::next` returned `Terminate` (`missing_terminate == 0`, start/mod.rs): every
      producer delivered its Terminate. From then on no user function of the replica runs
      any more; the `End` delivers `Terminate` destination by destination. A replica
      without producers is a source: it may close at any time. *)
  Definition closing (s : state) (p : nat) : Prop :=
    forall q, link q p = true -> term s q p = true.

  (** the handle of [p] for the channel (blk p -> c) is gone: the thread ended, or it already
      sent `Terminate` to [c] (`Batcher::end(self)` consumes the batcher and its sender) *)
  Definition gone (s : state) (p c : nat) : Prop :=
    st s p <> Running \/ (link p c = true /\ term s p c = true).

  Inductive step (s : state) : state -> Prop :=
  (** the injected failure: a user function panics while the replica processes data, i.e.
      before its `End` started delivering `Terminate`; the thread unwinds
      (worker.rs `do_work`, `CatchPanic` only logs) *)
  | S_panic r :
      r < n -> faulty r = true -> st s r = Running -> (forall c, term s r c = false) ->
      step s (set_st s r Crashed)
  (** end.rs Terminate branch -> `batcher.end()` -> `remote_sender.send(..)` succeeds: the
      receiver of [c] is alive *)
  | S_term p c :
      st s p = Running -> closing s p -> link p c = true -> term s p c = false ->
      st s c = Running ->
      step s (set_term s p c)
  (** all Terminates delivered: `do_work` leaves its loop, the thread returns; a sink
      publishes here (collect_vec.rs: `*self.output.lock() = Some(result)` on Terminate) *)
  | S_done p :
      p < n -> st s p = Running -> closing s p ->
      (forall c, link p c = true -> term s p c = true) ->
      step s (set_st s p Done)
  (** batcher.rs `self.remote_sender.send(message).unwrap()`: a send (a data batch at any
      time, or the final Terminate) to a consumer whose receiver was dropped fails and the
      sender panics *)
  | S_send_fail p c :
      st s p = Running -> link p c = true -> term s p c = false -> st s c = Crashed ->
      step s (set_st s p Crashed)
  (** start/simple.rs `receiver.recv().expect("Network receiver failed")` (binary.rs
      `select(None).expect("receiver failed")`): [c] still misses the Terminate of [p0], and
      every handle of the channel (blk p0 -> c) is gone, so once the channel is drained the
      receive fails and [c] panics. (With adaptive batching `recv_timeout` fails first;
      `Start::next` takes ANY error for a timeout, emits one `FlushBatch` and then calls the
      untimed `recv()`, which panics.) *)
  | S_recv_fail c p0 :
      st s c = Running -> link p0 c = true -> term s p0 c = false ->
      (forall p, keeps p c = true -> blk p = blk p0 -> gone s p c) ->
      step s (set_st s c Crashed).

  Inductive steps : state -> state -> Prop :=
  | steps_refl s : steps s s
  | steps_step s s' s'' : steps s s' -> step s' s'' -> steps s s''.

  (** the end of a maximal execution *)
  Definition final (s : state) : Prop := forall s', ~ step s s'.

  (** [d] is downstream of [r]: reachable through at least one link *)
  Inductive downstream (r : nat) : nat -> Prop :=
  | ds_link c : link r c = true -> downstream r c
  | ds_trans d c : downstream r d -> link d c = true -> downstream r c.

  (** [r] died inside a user function: crashed before delivering any Terminate *)
  Definition died_in_user_code (s : state) (r : nat) : Prop :=
    st s r = Crashed /\ forall c, term s r c = false.

  (** consistency of a state ("everybody running or done consistently"): a Terminate was
      delivered only on a link and only by a closing replica; a Done replica had closed and
      delivered everywhere *)
  Definition consistent (s : state) : Prop :=
    (forall p c, term s p c = true -> link p c = true /\ closing s p) /\
    (forall p, st s p = Done -> closing s p /\ forall c, link p c = true -> term s p c = true).

  (** a sink publishes its result iff its replica becomes Done *)
  Definition published (s : state) (sink : nat) : Prop := st s sink = Done.

  (** `execute_blocking` (scheduler.rs `start_blocking`: `handle.join().unwrap()` for every
      local worker) fails iff some replica of the host panicked *)
  Definition is_crashed (x : status) : bool := match x with Crashed => true | _ => false end.
  Definition host_fails (s : state) (host : list nat) : bool :=
    existsb (fun r => is_crashed (st s r)) host.
End Graph.

(** Stream elements, the control grammar, and list utilities shared by all models.
    Mirrors `StreamElement<T>` of src/operator/mod.rs. Payload type is a parameter;
    timestamps are [Z] (Rust: i64). *)
From Coq Require Export List ZArith Bool Lia.
Export ListNotations.
Open Scope Z_scope.

Inductive elem (A : Type) : Type :=
| Item (v : A)
| Tst (v : A) (t : Z)
| Wm (t : Z)
| FlushBatch
| Terminate
| FAR.   (* FlushAndRestart *)
Arguments Item {A}. Arguments Tst {A}. Arguments Wm {A}. Arguments FlushBatch {A}.
Arguments Terminate {A}. Arguments FAR {A}.

Section Elem.
  Context {A B : Type}.

  Definition is_data (e : elem A) : bool :=
    match e with Item _ | Tst _ _ => true | _ => false end.

  Definition payload (e : elem A) : option A :=
    match e with Item v | Tst v _ => Some v | _ => None end.

  Definition ts_of (e : elem A) : option Z :=
    match e with Tst _ t => Some t | _ => None end.

  Definition emap (f : A -> B) (e : elem A) : elem B :=
    match e with
    | Item v => Item (f v) | Tst v t => Tst (f v) t | Wm t => Wm t
    | FlushBatch => FlushBatch | Terminate => Terminate | FAR => FAR
    end.

  Definition is_flush_batch (e : elem A) : bool :=
    match e with FlushBatch => true | _ => false end.

  (** payloads of the data elements of a list *)
  Fixpoint payloads (l : list (elem A)) : list A :=
    match l with
    | [] => []
    | e :: l' => match payload e with Some v => v :: payloads l' | None => payloads l' end
    end.

  Definition items (xs : list A) : list (elem A) := map Item xs.
End Elem.

(** [omax a b]: join of optional timestamps, as in `CountWindowManager::update_slot`
    and `Fold`'s timestamp tracking. *)
Definition omax (a b : option Z) : option Z :=
  match a, b with
  | Some x, Some y => Some (Z.max x y)
  | Some x, None | None, Some x => Some x
  | None, None => None
  end.

Definition omax_list (l : list (option Z)) : option Z := fold_left omax l None.

(** Push machines: an operator is a state, an initial state and a step producing outputs. *)
Record machine (I O : Type) := {
  mstate : Type;
  minit : mstate;
  mstep : mstate -> I -> mstate * list O
}.
Arguments mstate {I O}. Arguments minit {I O}. Arguments mstep {I O}.

Section Run.
  Context {I O : Type} (M : machine I O).
  Fixpoint run_from (s : mstate M) (l : list I) : mstate M * list O :=
    match l with
    | [] => (s, [])
    | x :: l' =>
        let '(s1, o1) := mstep M s x in
        let '(s2, o2) := run_from s1 l' in
        (s2, o1 ++ o2)
    end.
  Definition run (l : list I) : list O := snd (run_from (minit M) l).

  Lemma run_from_app s l1 l2 :
    run_from s (l1 ++ l2) =
      let '(s1, o1) := run_from s l1 in
      let '(s2, o2) := run_from s1 l2 in (s2, o1 ++ o2).
  Proof.
    revert s; induction l1 as [|x l1 IH]; intros s; cbn [run_from app].
    - destruct (run_from s l2); reflexivity.
    - destruct (mstep M s x) as [s1 o1]. rewrite IH.
      destruct (run_from s1 l1) as [s2 o2]. destruct (run_from s2 l2) as [s3 o3].
      now rewrite app_assoc.
  Qed.
End Run.

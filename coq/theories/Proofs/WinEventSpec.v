(** Statement-level definitions for C13 (event-time and transaction windows). *)
From Noir Require Export Base.Elem Model.WinCount Model.WindowOp Model.WinEvent Proofs.WinCountSpec.
From Coq Require Export Permutation.
Open Scope Z_scope.

Section Defs.
  Context {A B C : Type}.
  Variable (acc0 : B) (proc : B -> A -> B) (out : B -> C).

  (** timestamped data of a stream, in arrival order *)
  Fixpoint tdata (l : list (elem A)) : list (A * Z) :=
    match l with
    | [] => []
    | Tst v t :: l' => (v, t) :: tdata l'
    | _ :: l' => tdata l'
    end.

  (** the contract of event-time streams on one round: only timestamped data, and no
      element at or below an earlier watermark *)
  Fixpoint in_contract (lw : option Z) (l : list (elem A)) : Prop :=
    match l with
    | [] => True
    | Tst _ t :: l' => match lw with Some w => w < t | None => True end /\ in_contract lw l'
    | Wm w :: l' => in_contract (Some w) l'
    | Item _ :: _ => False
    | _ :: l' => in_contract lw l'
    end.

  (** data arrives in timestamp order (no out-of-order arrivals) *)
  Fixpoint ts_sorted (last : option Z) (l : list (elem A)) : Prop :=
    match l with
    | [] => True
    | Tst _ t :: l' => match last with Some u => u <= t | None => True end /\ ts_sorted (Some t) l'
    | _ :: l' => ts_sorted last l'
    end.

  (** a window result over the group [g] (elements with their timestamps) ending at [e] *)
  Definition eres_of (g : list (A * Z)) (e : Z) : wres C :=
    (out (fold_left proc (map fst g) acc0), Some e).

  (** the group lies inside the interval [e - size, e) *)
  Definition in_interval (size : Z) (g : list (A * Z)) (e : Z) : Prop :=
    g <> [] /\ Forall (fun x => e - size <= snd x < e) g.

  (** transaction windows: committed segments read off the user logic *)
  Variable logic : A -> txop.
  Fixpoint tx_segments (cur : list A) (close : option Z) (l : list (elem A)) : list (list A) :=
    match l with
    | [] => []
    | Tst v _ :: l' =>
        let cur1 := cur ++ [v] in
        match logic v with
        | TxCommit => cur1 :: tx_segments [] None l'
        | TxCommitAfter t => tx_segments cur1 (Some t) l'
        | TxDiscard => tx_segments [] None l'
        | TxContinue => tx_segments cur1 close l'
        end
    | Wm w :: l' =>
        match close with
        | Some c => if c <? w then cur :: tx_segments [] None l' else tx_segments cur close l'
        | None => tx_segments cur close l'
        end
    | FAR :: l' | Terminate :: l' =>
        match close with
        | Some _ => cur :: tx_segments [] None l'
        | None => tx_segments cur close l'
        end
    | _ :: l' => tx_segments cur close l'
    end.
  Definition no_items (l : list (elem A)) : Prop := forall v, ~ In (Item v) l.
End Defs.

(** Proofs about the two-input Start with a cached side (C11). *)
From Noir Require Import Proofs.BinSpec.
From Coq Require Import Lia.
Open Scope nat_scope.

(** * Regression witness: two loop-side replicas (the former defect F10 is fixed) *)
Theorem c11_two_loop_replicas_witness :
  let ds : list del :=
    [DL 0 [Item 1%Z; FAR]; DL 0 [Terminate]; DR 0 [Item 10%Z; FAR]; DR 1 [FAR];
     DR 0 [Terminate]; DR 1 [Terminate]] in
  c11_pred 1 2 true false ds (brun 1 2 true false ds) = true.
Proof. vm_compute. reflexivity. Qed.

(** * Part A: generic list facts and the element-wise Start *)

Definition isfar {A} (e : elem A) : bool := match e with FAR => true | _ => false end.
Definition ister {A} (e : elem A) : bool := match e with Terminate => true | _ => false end.
Definition cntF {A} (l : list (elem A)) : nat := length (filter isfar l).
Definition cntT {A} (l : list (elem A)) : nat := length (filter ister l).
Definition cleanel {A} (e : elem A) : bool :=
  match e with Item _ | Tst _ _ | Wm _ => true | _ => false end.
Definition okel {A} (e : elem A) : bool :=
  match e with Item _ | Tst _ _ | Wm _ | FAR => true | _ => false end.

Lemma cntF_app {A} (a b : list (elem A)) : cntF (a ++ b) = cntF a + cntF b.
Proof. unfold cntF. now rewrite filter_app, app_length. Qed.
Lemma cntT_app {A} (a b : list (elem A)) : cntT (a ++ b) = cntT a + cntT b.
Proof. unfold cntT. now rewrite filter_app, app_length. Qed.

Lemma clean_ok {A} (l : list (elem A)) : forallb cleanel l = true -> forallb okel l = true.
Proof.
  induction l as [|e l IH]; cbn [forallb]; intros H; [reflexivity|].
  apply andb_true_iff in H as [H1 H2]. rewrite (IH H2), andb_true_r. now destruct e.
Qed.
Lemma clean_cntF {A} (l : list (elem A)) : forallb cleanel l = true -> cntF l = 0.
Proof.
  induction l as [|e l IH]; cbn [forallb]; intros H; [reflexivity|].
  apply andb_true_iff in H as [H1 H2]. unfold cntF in *. cbn [filter].
  destruct e; cbn [isfar cleanel] in *; try discriminate; auto.
Qed.
Lemma clean_cntT {A} (l : list (elem A)) : forallb cleanel l = true -> cntT l = 0.
Proof.
  induction l as [|e l IH]; cbn [forallb]; intros H; [reflexivity|].
  apply andb_true_iff in H as [H1 H2]. unfold cntT in *. cbn [filter].
  destruct e; cbn [ister cleanel] in *; try discriminate; auto.
Qed.

(** projections used by [c11_pred] *)
Definition Lp (X : list (elem bz)) : list (elem Z) := map unbin (filter is_left (filter is_data X)).
Definition Rp (X : list (elem bz)) : list (elem Z) := map unbin (filter is_right (filter is_data X)).

Lemma Lp_app a b : Lp (a ++ b) = Lp a ++ Lp b.
Proof. unfold Lp. now rewrite !filter_app, map_app. Qed.
Lemma Rp_app a b : Rp (a ++ b) = Rp a ++ Rp b.
Proof. unfold Rp. now rewrite !filter_app, map_app. Qed.
Lemma count_item_app m a b : count_item m (a ++ b) = count_item m a + count_item m b.
Proof. unfold count_item. now rewrite filter_app, app_length. Qed.
Lemma count_item_data m X : count_item m (filter is_data X) = count_item m X.
Proof.
  unfold count_item. induction X as [|e X IH]; [reflexivity|].
  cbn [filter]. destruct e; cbn [is_data filter]; try exact IH.
  destruct (bin_eqb v m); cbn [length]; now rewrite IH.
Qed.

(** the Start over an arrival sequence *)
Fixpoint srun (st : sstate) (l : list (nat * elem (bin Z Z))) : sstate * list (elem (bin Z Z)) :=
  match l with
  | [] => (st, [])
  | x :: l' => let '(st1, o1) := start_step st x in
               let '(st2, o2) := srun st1 l' in (st2, o1 ++ o2)
  end.

Lemma srun_app st l1 l2 :
  srun st (l1 ++ l2) =
    let '(s1, o1) := srun st l1 in let '(s2, o2) := srun s1 l2 in (s2, o1 ++ o2).
Proof.
  revert st; induction l1 as [|x l1 IH]; intros st; cbn [srun app].
  - destruct (srun st l2); reflexivity.
  - destruct (start_step st x) as [s1 o1]. rewrite IH.
    destruct (srun s1 l1) as [s2 o2]. destruct (srun s2 l2) as [s3 o3].
    now rewrite app_assoc.
Qed.

Lemma start_msg_srun st s l : start_msg st s l = srun st (map (fun e => (s, e)) l).
Proof.
  revert st; induction l as [|e l IH]; intros st; cbn [start_msg srun map]; [reflexivity|].
  destruct (start_step st (s, e)) as [s1 o1]. now rewrite IH.
Qed.

Lemma srun_done st l : s_done st = true -> srun st l = (st, []).
Proof.
  intros Hd. induction l as [|x l IH]; cbn [srun]; [reflexivity|].
  unfold start_step at 1. rewrite Hd. now rewrite IH.
Qed.

Definition SS (N mt k : nat) (st : sstate) : Prop :=
  s_n st = N /\ s_mterm st = mt /\ s_mfar st = k /\ s_done st = false.

Lemma step_clean N mt k st s (e : elem (bin Z Z)) st' o :
  SS N mt k st -> cleanel e = true -> start_step st (s, e) = (st', o) ->
  SS N mt k st' /\ forallb cleanel o = true /\ filter is_data o = filter is_data [e].
Proof.
  intros (Hn & Hm & Hf & Hd) Hc Hs. unfold start_step in Hs. rewrite Hd in Hs.
  destruct e; cbn [cleanel] in Hc; try discriminate.
  - inversion Hs; subst. repeat split; auto.
  - inversion Hs; subst. repeat split; auto.
  - destruct (frontier_update (s_front st) s t) as [f o'].
    inversion Hs; subst. unfold SS; cbn. repeat split; auto; destruct o'; reflexivity.
Qed.

Lemma step_far_nonlast N mt k st s st' (o : list (elem (bin Z Z))) :
  SS N mt (S (S k)) st -> mt <> 0 -> start_step st (s, FAR) = (st', o) ->
  SS N mt (S k) st' /\ o = [].
Proof.
  intros (Hn & Hm & Hf & Hd) Hmt Hs. unfold start_step in Hs. rewrite Hd in Hs.
  destruct (frontier_update (s_front st) s TS_MAX) as [f o']. unfold settle in Hs.
  cbn [s_mterm s_mfar s_n s_front] in Hs. rewrite Hf, Hm in Hs. cbn [pred] in Hs.
  destruct (Nat.eqb_spec mt 0) as [E|E]; [contradiction|]. cbn [Nat.eqb] in Hs.
  inversion Hs; subst. unfold SS; cbn. auto.
Qed.

Lemma step_far_last N mt st s st' (o : list (elem (bin Z Z))) :
  SS N mt 1 st -> mt <> 0 -> start_step st (s, FAR) = (st', o) ->
  SS N mt N st' /\ o = [FAR].
Proof.
  intros (Hn & Hm & Hf & Hd) Hmt Hs. unfold start_step in Hs. rewrite Hd in Hs.
  destruct (frontier_update (s_front st) s TS_MAX) as [f o']. unfold settle in Hs.
  cbn [s_mterm s_mfar s_n s_front] in Hs. rewrite Hf, Hm in Hs. cbn [pred] in Hs.
  destruct (Nat.eqb_spec mt 0) as [E|E]; [contradiction|]. cbn [Nat.eqb] in Hs.
  inversion Hs; subst. unfold SS; cbn. auto.
Qed.

(** part of a round: fewer FARs than still missing *)
Lemma srun_sub : forall l N mt k st st' o,
  SS N mt k st -> mt <> 0 -> forallb okel (map snd l) = true -> cntF (map snd l) < k ->
  srun st l = (st', o) ->
  SS N mt (k - cntF (map snd l)) st' /\ forallb cleanel o = true /\
  filter is_data o = filter is_data (map snd l).
Proof.
  induction l as [|[s e] l IH]; intros N mt k st st' o HS Hmt Hok Hc Hr.
  - cbn in Hr. inversion Hr; subst. cbn. rewrite Nat.sub_0_r. auto.
  - cbn [srun] in Hr. destruct (start_step st (s, e)) as [s1 o1] eqn:E1.
    destruct (srun s1 l) as [s2 o2] eqn:E2. inversion Hr; subst; clear Hr.
    cbn [map snd forallb] in Hok. apply andb_true_iff in Hok as [Hok1 Hok2].
    cbn [map snd] in Hc |- *.
    change (e :: map snd l) with ([e] ++ map snd l) in Hc |- *.
    rewrite cntF_app in Hc |- *.
    destruct (cleanel e) eqn:Ece.
    + assert (Hz : cntF [e] = 0) by (apply clean_cntF; cbn; now rewrite Ece).
      rewrite Hz in Hc |- *. cbn [Nat.add] in Hc |- *.
      destruct (step_clean _ _ _ _ _ _ _ _ HS Ece E1) as (HS1 & Hc1 & Hd1).
      destruct (IH _ _ _ _ _ _ HS1 Hmt Hok2 Hc E2) as (HS2 & Hc2 & Hd2).
      split; [exact HS2|]. split.
      * rewrite forallb_app, Hc1, Hc2. reflexivity.
      * rewrite !filter_app, Hd1, Hd2. reflexivity.
    + destruct e; cbn in Ece, Hok1; try discriminate.
      assert (H1f : forall A, cntF [@FAR A] = 1) by reflexivity. rewrite H1f in Hc |- *.
      destruct k as [|[|k]]; [lia|lia|].
      destruct (step_far_nonlast _ _ _ _ _ _ _ HS Hmt E1) as (HS1 & ->).
      assert (Hc' : cntF (map snd l) < S k) by lia.
      destruct (IH _ _ _ _ _ _ HS1 Hmt Hok2 Hc' E2) as (HS2 & Hc2 & Hd2).
      split; [|split].
      * replace (S (S k) - (1 + cntF (map snd l))) with (S k - cntF (map snd l)) by lia.
        exact HS2.
      * exact Hc2.
      * cbn [app]. rewrite Hd2. reflexivity.
Qed.

(** a whole round: the arrival sequence ends with the FAR that completes the count *)
Lemma srun_round : forall l X N mt k st,
  map snd l = X ++ [FAR] -> forallb okel X = true -> S (cntF X) = k ->
  SS N mt k st -> mt <> 0 ->
  exists st' o, srun st l = (st', o ++ [FAR]) /\ SS N mt N st' /\
                forallb cleanel o = true /\ filter is_data o = filter is_data X.
Proof.
  intros l X N mt k st Hl Hok Hk HS Hmt.
  destruct (map_eq_app _ _ _ _ Hl) as (l1 & l2 & -> & H1 & H2).
  destruct l2 as [|[s e] [|? ?]]; cbn in H2; try discriminate.
  inversion H2; subst e. clear H2.
  rewrite srun_app. destruct (srun st l1) as [s1 o1] eqn:E1.
  assert (Hlt : cntF (map snd l1) < k) by (rewrite H1; lia).
  rewrite <- H1 in Hok.
  destruct (srun_sub _ _ _ _ _ _ _ HS Hmt Hok Hlt E1) as (HS1 & Hc1 & Hd1).
  rewrite H1 in HS1, Hd1.
  replace (k - cntF X) with 1 in HS1 by lia.
  cbn [srun]. destruct (start_step s1 (s, FAR)) as [s2 o2] eqn:E2.
  destruct (step_far_last _ _ _ _ _ _ HS1 Hmt E2) as (HS2 & ->).
  exists s2, o1. cbn [app]. auto.
Qed.

(** * Part B: the message trace of the two-input receiver, independent of the Start state *)
Notation bst := (@bstate Z Z).
Notation msg := (@bmsg Z Z).

Fixpoint bdrain_msgs (fuel : nat) (b : bst) : bst * list msg :=
  match fuel with
  | 0 => (b, [])
  | S f => match bselect b with
           | SelBlock b1 => (b1, [])
           | SelMsg b1 m => let '(b2, ms) := bdrain_msgs f b1 in (b2, m :: ms)
           end
  end.

Fixpoint brun_msgs (b : bst) (ds : list del) : bst * list msg :=
  match ds with
  | [] => (b, [])
  | d :: ds' =>
      let '(b1, t1) := bdrain_msgs (bfuel (bpush b d)) (bpush b d) in
      let '(b2, t2) := brun_msgs b1 ds' in (b2, t1 ++ t2)
  end.

Definition flat (ms : list msg) : list (nat * elem (bin Z Z)) :=
  flat_map (fun m => map (fun e => (fst m, e)) (snd m)) ms.
Definition cflat (ms : list msg) : list (elem (bin Z Z)) := concat (map snd ms).

Lemma flat_app a b : flat (a ++ b) = flat a ++ flat b.
Proof. unfold flat. now rewrite flat_map_app. Qed.
Lemma cflat_app a b : cflat (a ++ b) = cflat a ++ cflat b.
Proof. unfold cflat. now rewrite map_app, concat_app. Qed.
Lemma map_snd_flat ms : map snd (flat ms) = cflat ms.
Proof.
  induction ms as [|[s l] ms IH]; [reflexivity|].
  unfold flat, cflat in *. cbn [flat_map map concat fst snd]. rewrite map_app, IH.
  f_equal. rewrite map_map. cbn [snd]. now rewrite map_id.
Qed.

Lemma bdrain_trace : forall fuel b st b1 ms b2 st2 o,
  bdrain_msgs fuel b = (b1, ms) -> bdrain fuel b st = (b2, st2, o) ->
  srun st (flat ms) = (st2, o) /\ (s_done st2 = false -> b2 = b1).
Proof.
  induction fuel as [|f IH]; intros b st b1 ms b2 st2 o H1 H2.
  - cbn in H1, H2. inversion H1; inversion H2; subst. cbn. auto.
  - cbn [bdrain bdrain_msgs] in H1, H2. destruct (s_done st) eqn:Hd.
    + inversion H2; subst. rewrite srun_done by assumption. split; [reflexivity|].
      intros Hf. congruence.
    + destruct (bselect b) as [b' [sn l] | b'].
      * destruct (bdrain_msgs f b') as [b1' ms'] eqn:E1. inversion H1; subst; clear H1.
        destruct (start_msg st sn l) as [st1 o1] eqn:Es.
        destruct (bdrain f b' st1) as [[b2' st2'] o2] eqn:E2. inversion H2; subst; clear H2.
        destruct (IH _ _ _ _ _ _ _ E1 E2) as [Hs Hb].
        change (flat ((sn, l) :: ms')) with (map (fun e => (sn, e)) l ++ flat ms').
        rewrite srun_app, <- start_msg_srun, Es, Hs. auto.
      * inversion H1; inversion H2; subst. cbn. auto.
Qed.

Lemma bdrain_done fuel (b : bst) st : s_done st = true -> bdrain fuel b st = (b, st, []).
Proof. intros Hd. destruct fuel; cbn [bdrain]; [reflexivity|]. now rewrite Hd. Qed.

Lemma brun_done : forall ds (b : bst) st, s_done st = true -> snd (brun_from b st ds) = [].
Proof.
  induction ds as [|d ds IH]; intros b st Hd; [reflexivity|].
  cbn [brun_from]. rewrite bdrain_done by assumption.
  specialize (IH (bpush b d) st Hd). destruct (brun_from (bpush b d) st ds) as [[? ?] ?].
  cbn [snd] in *. now rewrite IH.
Qed.

Lemma brun_trace : forall ds (b : bst) st,
  snd (brun_from b st ds) = snd (srun st (flat (snd (brun_msgs b ds)))).
Proof.
  induction ds as [|d ds IH]; intros b st; [reflexivity|].
  cbn [brun_from brun_msgs].
  destruct (bdrain_msgs (bfuel (bpush b d)) (bpush b d)) as [b1 t1] eqn:E1.
  destruct (bdrain (bfuel (bpush b d)) (bpush b d) st) as [[b2 st2] o] eqn:E2.
  destruct (bdrain_trace _ _ _ _ _ _ _ _ E1 E2) as [Hs Hb].
  specialize (IH b1 st2).
  destruct (brun_msgs b1 ds) as [b3 t2] eqn:E3.
  cbn [snd] in IH |- *. rewrite flat_app, srun_app, Hs.
  destruct (s_done st2) eqn:Hd.
  - rewrite srun_done by assumption.
    pose proof (brun_done ds b2 st2 Hd) as Hn.
    destruct (brun_from b2 st2 ds) as [[? ?] ?]. cbn [snd] in *. now rewrite Hn.
  - rewrite (Hb eq_refl). destruct (brun_from b1 st2 ds) as [[? ?] o2].
    destruct (srun st2 (flat t2)) as [? o3]. cbn [snd] in *. now rewrite IH.
Qed.

Lemma brun_msgs_app : forall ds1 ds2 (b : bst),
  brun_msgs b (ds1 ++ ds2) =
    let '(b1, t1) := brun_msgs b ds1 in let '(b2, t2) := brun_msgs b1 ds2 in (b2, t1 ++ t2).
Proof.
  induction ds1 as [|d ds1 IH]; intros ds2 b; cbn [brun_msgs app].
  - destruct (brun_msgs b ds2); reflexivity.
  - destruct (bdrain_msgs (bfuel (bpush b d)) (bpush b d)) as [b1 t1]. rewrite IH.
    destruct (brun_msgs b1 ds1) as [b2 t2]. destruct (brun_msgs b2 ds2) as [b3 t3].
    now rewrite app_assoc.
Qed.

(** * Part C: [process_items] on the three kinds of batches *)
Lemma plain_clean (p : list (elem Z)) : plain_batch p = true -> forallb cleanel p = true.
Proof.
  unfold plain_batch. induction p as [|e p IH]; cbn [forallb]; intros H; [reflexivity|].
  apply andb_true_iff in H as [H1 H2]. rewrite (IH H2), andb_true_r. now destruct e.
Qed.

Lemma closing_batch_inv (b : list (elem Z)) :
  closing_batch b = true -> exists p, b = p ++ [FAR] /\ plain_batch p = true.
Proof.
  unfold closing_batch. intros H. destruct (rev b) as [|e p] eqn:E; [discriminate|].
  destruct e; try discriminate. exists (rev p). split.
  - rewrite <- (rev_involutive b), E. reflexivity.
  - unfold plain_batch in *. apply forallb_forall. intros x Hx. apply in_rev in Hx.
    rewrite forallb_forall in H. now apply H.
Qed.

Lemma pi_plain_app (wrap : Z -> bin Z Z) endm c : forall p mf mt l,
  plain_batch p = true ->
  @process_items Z Z Z wrap endm c mf mt (p ++ l) =
    let '(mf', mt', d) := process_items wrap endm c mf mt l in (mf', mt', map (emap wrap) p ++ d).
Proof.
  induction p as [|e p IH]; intros mf mt l Hp.
  - cbn [app map]. destruct (process_items wrap endm c mf mt l) as [[? ?] ?]. reflexivity.
  - unfold plain_batch in Hp. cbn [forallb] in Hp. apply andb_true_iff in Hp as [H1 H2].
    cbn [app process_items].
    destruct e; try discriminate; rewrite (IH _ _ _ H2);
      destruct (process_items wrap endm c mf mt l) as [[? ?] ?]; reflexivity.
Qed.

Lemma pi_plain (wrap : Z -> bin Z Z) endm c p mf mt :
  plain_batch p = true ->
  @process_items Z Z Z wrap endm c mf mt p = (mf, mt, map (emap wrap) p).
Proof.
  intros Hp. rewrite <- (app_nil_r p) at 1. rewrite pi_plain_app by assumption.
  cbn [process_items]. now rewrite app_nil_r.
Qed.

Lemma pi_closing (wrap : Z -> bin Z Z) endm c p mf mt :
  plain_batch p = true ->
  @process_items Z Z Z wrap endm c mf mt (p ++ [FAR]) =
    (pred mf, mt, map (emap wrap) p ++ (if Nat.eqb (pred mf) 0 then [Item endm] else []) ++ [FAR]).
Proof.
  intros Hp. rewrite pi_plain_app by assumption. cbn [process_items emap]. now rewrite app_nil_r.
Qed.

Lemma pi_term (wrap : Z -> bin Z Z) endm c mf mt :
  @process_items Z Z Z wrap endm c mf mt [Terminate] = (mf, pred mt, if c then [] else [Terminate]).
Proof. cbn [process_items]. now rewrite app_nil_r. Qed.


(** * Part D: one [bselect] call in each situation of a run with a cached left side *)
Definition mkL (nl mf mt : nat) (C : list msg) (full : bool) (ptr : nat)
    (q : list (nat * list (elem Z))) : @side Z Z Z :=
  {| sd_inst := nl; sd_mfar := mf; sd_mterm := mt; sd_cached := true; sd_cache := C;
     sd_cache_full := full; sd_ptr := ptr; sd_queue := q |}.
Definition mkR (nr mf mt : nat) (q : list (nat * list (elem Z))) : @side Z Z Z :=
  {| sd_inst := nr; sd_mfar := mf; sd_mterm := mt; sd_cached := false; sd_cache := [];
     sd_cache_full := false; sd_ptr := 0; sd_queue := q |}.
Definition mkB (l r : @side Z Z Z) (f : bool) : bst := {| b_l := l; b_r := r; b_first := f |}.

Ltac bred :=
  lazy beta iota zeta delta
    [mkB mkL mkR is_terminated is_ended cache_finished b_l b_r b_first
     sd_inst sd_mfar sd_mterm sd_cached sd_cache sd_cache_full sd_ptr sd_queue
     side_reset recv_left recv_right process_side next_cached fst snd andb orb negb].
Ltac bconst :=
  change (0 =? 0) with true; change (length (@nil msg) <=? 0) with true.
Ltac bgo tac := bred; repeat (progress (bconst; tac); bred).

Lemma sel_r1_left nl nr mfl mtl C mfr mtr s b mf' mt' data :
  mtl <> 0 -> mtr <> 0 ->
  process_items BL BLEnd true mfl mtl b = (mf', mt', data) ->
  bselect (mkB (mkL nl mfl mtl C false (length C) [(s, b)]) (mkR nr mfr mtr []) false)
  = SelMsg (mkB (mkL nl mf' mt' (C ++ [(s, data)]) false (length (C ++ [(s, data)])) [])
                (mkR nr mfr mtr []) false) (s, data).
Proof.
  intros Hmt Hmr Hp. apply Nat.eqb_neq in Hmt, Hmr. unfold bselect.
  bgo ltac:(rewrite ?Hmt, ?Hmr, ?Hp). change (0 + s) with s.
  destruct (mfr =? 0); reflexivity.
Qed.

Lemma sel_right_recv nl nr mfl mtl C full mfr mtr s b mf' mt' data :
  mfr <> 0 -> mtr <> 0 ->
  process_items BR BREnd false mfr mtr b = (mf', mt', data) ->
  bselect (mkB (mkL nl mfl mtl C full (length C) []) (mkR nr mfr mtr [(s, b)]) false)
  = SelMsg (mkB (mkL nl mfl mtl C full (length C) []) (mkR nr mf' mt' []) false) (nl + s, data).
Proof.
  intros Hmf Hmr Hp. apply Nat.eqb_neq in Hmf, Hmr. unfold bselect.
  destruct full; destruct (mtl =? 0) eqn:Hmt;
  bgo ltac:(rewrite ?Nat.leb_refl, ?Hp, ?Hmt, ?Hmf, ?Hmr); reflexivity.
Qed.

Lemma sel_idle_block nl nr mfl mtl C full mfr mtr :
  mtr <> 0 -> (mtl =? 0) && (mfr =? 0) = false ->
  bselect (mkB (mkL nl mfl mtl C full (length C) []) (mkR nr mfr mtr []) false)
  = SelBlock (mkB (mkL nl mfl mtl C full (length C) []) (mkR nr mfr mtr []) false).
Proof.
  intros Hmr Hc. apply Nat.eqb_neq in Hmr. unfold bselect.
  destruct full; destruct (mtl =? 0) eqn:Hmt; destruct (mfr =? 0) eqn:Hmf;
  try discriminate; bgo ltac:(rewrite ?Nat.leb_refl, ?Hmt, ?Hmf, ?Hmr); reflexivity.
Qed.

Lemma sel_idle_reset nl nr mfl C full mtr :
  mtr <> 0 ->
  bselect (mkB (mkL nl mfl 0 C full (length C) []) (mkR nr 0 mtr []) false)
  = SelBlock (mkB (mkL nl nl 0 C true 0 []) (mkR nr nr mtr []) true).
Proof.
  intros Hmr. apply Nat.eqb_neq in Hmr. unfold bselect.
  destruct full; bgo ltac:(rewrite ?Nat.leb_refl, ?Hmr); reflexivity.
Qed.

(** first message of a round: [b_first] is cleared only by a batch that is not all-Terminate *)
Lemma sel_reset_recv nl nr C mfr mtr s b mf' mt' data :
  mfr <> 0 -> mtr <> 0 ->
  process_items BR BREnd false mfr mtr b = (mf', mt', data) ->
  bselect (mkB (mkL nl nl 0 C true 0 []) (mkR nr mfr mtr [(s, b)]) true)
  = SelMsg (mkB (mkL nl nl 0 C true 0 []) (mkR nr mf' mt' []) (negb (has_non_term b))) (nl + s, data).
Proof.
  intros Hmf Hmr Hp. apply Nat.eqb_neq in Hmf, Hmr. unfold bselect.
  bgo ltac:(rewrite ?Hp, ?Hmf, ?Hmr). reflexivity.
Qed.

(** still waiting for the first message of the round *)
Lemma sel_reset_block nl nr C mfr mtr :
  mfr <> 0 -> mtr <> 0 ->
  bselect (mkB (mkL nl nl 0 C true 0 []) (mkR nr mfr mtr []) true)
  = SelBlock (mkB (mkL nl nl 0 C true 0 []) (mkR nr mfr mtr []) true).
Proof.
  intros Hmf Hmr. apply Nat.eqb_neq in Hmf, Hmr. unfold bselect.
  bgo ltac:(rewrite ?Hmf, ?Hmr). reflexivity.
Qed.

Lemma sel_play nl nr ml C k mfr mtr :
  mtr <> 0 -> k < length C ->
  bselect (mkB (mkL nl ml 0 C true k []) (mkR nr mfr mtr []) false)
  = SelMsg (mkB (mkL nl (if length C <=? S k then 0 else ml) 0 C true (S k) []) (mkR nr mfr mtr []) false)
           (nth k C (0, [])).
Proof.
  intros Hmr Hk. apply Nat.leb_gt in Hk. apply Nat.eqb_neq in Hmr. unfold bselect.
  destruct (mfr =? 0) eqn:Hmf; bgo ltac:(rewrite ?Hk, ?Hmf, ?Hmr); reflexivity.
Qed.

Lemma sel_final nl nr C ml k mfr f :
  nl <> 0 ->
  bselect (mkB (mkL nl ml 0 C true k []) (mkR nr mfr 0 []) f)
  = SelMsg (mkB (mkL nl ml 0 C true k []) (mkR nr mfr 0 []) f) (0, repeat Terminate nl).
Proof.
  intros Hn. apply Nat.eqb_neq in Hn. unfold bselect. bgo ltac:(rewrite ?Hn). reflexivity.
Qed.

(** * Part E: one drain (after a delivery) in each situation *)
Lemma dm_block f (b b1 : bst) : bselect b = SelBlock b1 -> bdrain_msgs (S f) b = (b1, []).
Proof. intros H. cbn [bdrain_msgs]. now rewrite H. Qed.
Lemma dm_msg f (b b1 : bst) m :
  bselect b = SelMsg b1 m ->
  bdrain_msgs (S f) b = let '(b2, ms) := bdrain_msgs f b1 in (b2, m :: ms).
Proof. intros H. cbn [bdrain_msgs]. now rewrite H. Qed.

(** state right after a round reset, waiting for the round's first message; [mtr] is the
    number of loop-side Terminates still missing *)
Definition Rst (nl nr : nat) (C : list msg) (mtr : nat) : bst :=
  mkB (mkL nl nl 0 C true 0 []) (mkR nr nr mtr []) true.
(** where a drain stops once the queues are empty and the cache (if any) has been replayed *)
Definition after_idle (nl nr mfl mtl : nat) (C : list msg) (full : bool) (mfr mtr : nat) : bst :=
  if (mtl =? 0) && (mfr =? 0) then Rst nl nr C mtr
  else mkB (mkL nl mfl mtl C full (length C) []) (mkR nr mfr mtr []) false.

Lemma dm_idle nl nr mfl mtl C full mfr mtr fuel :
  mtr <> 0 -> 1 <= fuel ->
  bdrain_msgs fuel (mkB (mkL nl mfl mtl C full (length C) []) (mkR nr mfr mtr []) false)
  = (after_idle nl nr mfl mtl C full mfr mtr, []).
Proof.
  intros Hmr Hf. destruct fuel as [|f]; [lia|]. unfold after_idle.
  destruct ((mtl =? 0) && (mfr =? 0)) eqn:Hc.
  - apply andb_true_iff in Hc as [H1 H2]. apply Nat.eqb_eq in H1, H2. subst.
    apply dm_block. now apply sel_idle_reset.
  - apply dm_block. now apply sel_idle_block.
Qed.

Lemma bfuel_ge (b : bst) : 4 <= bfuel b.
Proof. unfold bfuel. lia. Qed.

Lemma r1_left_step nl nr mfl mtl C mfr mtr s b mf' mt' data fuel :
  mtl <> 0 -> mtr <> 0 -> process_items BL BLEnd true mfl mtl b = (mf', mt', data) -> 2 <= fuel ->
  bdrain_msgs fuel (bpush (mkB (mkL nl mfl mtl C false (length C) []) (mkR nr mfr mtr []) false) (DL s b))
  = (after_idle nl nr mf' mt' (C ++ [(s, data)]) false mfr mtr, [(s, data)]).
Proof.
  intros Hmt Hmr Hp Hf. destruct fuel as [|f]; [lia|].
  change (bpush _ _) with (mkB (mkL nl mfl mtl C false (length C) [(s, b)]) (mkR nr mfr mtr []) false).
  rewrite (dm_msg _ _ _ _ (sel_r1_left _ _ _ _ _ _ _ _ _ _ _ _ Hmt Hmr Hp)).
  rewrite dm_idle by (assumption || lia). reflexivity.
Qed.

Lemma right_step nl nr mfl mtl C full mfr mtr s b mf' data fuel :
  mfr <> 0 -> mtr <> 0 ->
  process_items BR BREnd false mfr mtr b = (mf', mtr, data) -> 2 <= fuel ->
  bdrain_msgs fuel (bpush (mkB (mkL nl mfl mtl C full (length C) []) (mkR nr mfr mtr []) false) (DR s b))
  = (after_idle nl nr mfl mtl C full mf' mtr, [(nl + s, data)]).
Proof.
  intros Hmf Hmr Hp Hf. destruct fuel as [|f]; [lia|].
  change (bpush _ _) with (mkB (mkL nl mfl mtl C full (length C) []) (mkR nr mfr mtr [(s, b)]) false).
  rewrite (dm_msg _ _ _ _ (sel_right_recv _ _ _ _ _ _ _ _ _ _ _ _ _ Hmf Hmr Hp)).
  rewrite dm_idle by (assumption || lia). reflexivity.
Qed.

Lemma skipn_nth {A} (d : A) : forall k (l : list A), k < length l -> skipn k l = nth k l d :: skipn (S k) l.
Proof.
  induction k as [|k IH]; intros [|x l] Hk; cbn [length] in Hk; try lia.
  - reflexivity.
  - cbn [skipn nth]. rewrite IH by lia. reflexivity.
Qed.

(** the replay lemma: from pointer [k] the whole rest of the cache is returned, in order,
    each cached message exactly once, and then the receiver is idle *)
Lemma play_all nl nr C mfr mtr : mtr <> 0 -> forall n k ml fuel,
  k + S n = length C -> S n + 1 <= fuel ->
  bdrain_msgs fuel (mkB (mkL nl ml 0 C true k []) (mkR nr mfr mtr []) false)
  = (after_idle nl nr 0 0 C true mfr mtr, skipn k C).
Proof.
  intros Hmr. induction n as [|n IH]; intros k ml fuel Hk Hf; (destruct fuel as [|f]; [lia|]).
  - rewrite (dm_msg _ _ _ _ (sel_play nl nr ml C k mfr mtr Hmr ltac:(lia))).
    assert (Hle : (length C <=? S k) = true) by (apply Nat.leb_le; lia). rewrite Hle.
    replace (S k) with (length C) by lia. rewrite dm_idle by (assumption || lia).
    rewrite (skipn_nth ((0, []) : msg) k C) by lia. replace (S k) with (length C) by lia.
    now rewrite skipn_all.
  - rewrite (dm_msg _ _ _ _ (sel_play nl nr ml C k mfr mtr Hmr ltac:(lia))).
    rewrite (IH (S k)) by lia. rewrite (skipn_nth ((0, []) : msg) k C) by lia. reflexivity.
Qed.

Lemma bfuel_push_R nl ml mt C full k (r : @side Z Z Z) f d :
  2 * length C + 4 <= bfuel (bpush (mkB (mkL nl ml mt C full k []) r f) d).
Proof. destruct d; unfold bfuel; cbn; lia. Qed.

(** first message of a later round that carries something: the cache is replayed right after it *)
Lemma later_first nl nr C mtr s b mf' data fuel :
  nr <> 0 -> mtr <> 0 -> has_non_term b = true ->
  process_items BR BREnd false nr mtr b = (mf', mtr, data) -> C <> [] -> length C + 2 <= fuel ->
  bdrain_msgs fuel (bpush (Rst nl nr C mtr) (DR s b))
  = (after_idle nl nr 0 0 C true mf' mtr, (nl + s, data) :: C).
Proof.
  intros Hnr Hmr Hnt Hp HC Hf. destruct fuel as [|f]; [lia|].
  change (bpush _ _) with (mkB (mkL nl nl 0 C true 0 []) (mkR nr nr mtr [(s, b)]) true).
  rewrite (dm_msg _ _ _ _ (sel_reset_recv _ _ _ _ _ _ _ _ _ _ Hnr Hmr Hp)).
  rewrite Hnt. cbn [negb].
  destruct C as [|c C']; [congruence|].
  rewrite (play_all nl nr (c :: C') mf' mtr Hmr (length C') 0) by (cbn [length] in *; lia).
  reflexivity.
Qed.

(** a first message without content (an empty batch, or Terminates while more are missing):
    no replay, the receiver keeps waiting for the round's first message *)
Lemma later_skip nl nr C mtr s b mt' data fuel :
  nr <> 0 -> mtr <> 0 -> mt' <> 0 -> has_non_term b = false ->
  process_items BR BREnd false nr mtr b = (nr, mt', data) -> 2 <= fuel ->
  bdrain_msgs fuel (bpush (Rst nl nr C mtr) (DR s b)) = (Rst nl nr C mt', [(nl + s, data)]).
Proof.
  intros Hnr Hmr Hmr' Hnt Hp Hf. destruct fuel as [|[|f]]; [lia|lia|].
  change (bpush _ _) with (mkB (mkL nl nl 0 C true 0 []) (mkR nr nr mtr [(s, b)]) true).
  rewrite (dm_msg _ _ _ _ (sel_reset_recv _ _ _ _ _ _ _ _ _ _ Hnr Hmr Hp)).
  rewrite Hnt. cbn [negb].
  rewrite (dm_block _ _ _ (sel_reset_block nl nr C nr mt' Hnr Hmr')). reflexivity.
Qed.

(** the last missing Terminate of the loop side: the synthesised Terminates follow at once *)
Lemma final_step nl nr C s fuel :
  nl <> 0 -> nr <> 0 -> 2 <= fuel ->
  exists b' rest, bdrain_msgs fuel (bpush (Rst nl nr C 1) (DR s [Terminate]))
                  = (b', (nl + s, [Terminate]) :: (0, repeat Terminate nl) :: rest).
Proof.
  intros Hn Hnr Hf. destruct fuel as [|[|f]]; [lia|lia|].
  change (bpush _ _) with (mkB (mkL nl nl 0 C true 0 []) (mkR nr nr 1 [(s, [Terminate])]) true).
  rewrite (dm_msg _ _ _ _ (sel_reset_recv _ _ _ _ _ _ _ _ _ _ Hnr (Nat.neq_succ_0 0)
                             (pi_term BR BREnd false nr 1))).
  cbn [pred]. rewrite (dm_msg _ _ _ _ (sel_final nl nr C nl 0 nr _ Hn)).
  destruct (bdrain_msgs f _) as [b' rest]. eauto.
Qed.
(** * Part F: what the processed messages contain *)
Definition piece (X : list (elem (bin Z Z))) (nf : nat) (ld rd : list (elem Z)) (bl br : nat) : Prop :=
  forallb okel X = true /\ cntF X = nf /\ Lp X = ld /\ Rp X = rd /\
  count_item BLEnd X = bl /\ count_item BREnd X = br.
Definition endsF (X : list (elem (bin Z Z))) : Prop := exists X', X = X' ++ [FAR].

Lemma piece_app X1 X2 n1 n2 l1 l2 r1 r2 a1 a2 c1 c2 :
  piece X1 n1 l1 r1 a1 c1 -> piece X2 n2 l2 r2 a2 c2 ->
  piece (X1 ++ X2) (n1 + n2) (l1 ++ l2) (r1 ++ r2) (a1 + a2) (c1 + c2).
Proof.
  intros (A1 & A2 & A3 & A4 & A5 & A6) (B1 & B2 & B3 & B4 & B5 & B6). unfold piece.
  rewrite forallb_app, cntF_app, Lp_app, Rp_app, !count_item_app. subst.
  rewrite A1, B1. repeat split; reflexivity.
Qed.
Lemma piece_nil : piece [] 0 [] [] 0 0.
Proof. repeat split; reflexivity. Qed.
Lemma piece_eq X n l r a c n' l' r' a' c' :
  piece X n l r a c -> n = n' -> l = l' -> r = r' -> a = a' -> c = c' -> piece X n' l' r' a' c'.
Proof. intros; subst; assumption. Qed.
Lemma endsF_app_r X Y : endsF Y -> endsF (X ++ Y).
Proof. intros [Y' ->]. exists (X ++ Y'). now rewrite app_assoc. Qed.

Lemma plain_cons e (p : list (elem Z)) :
  plain_batch (e :: p) = true -> cleanel e = true /\ plain_batch p = true.
Proof.
  unfold plain_batch. cbn [forallb]. intros H. apply andb_true_iff in H as [H1 H2].
  split; [now destruct e|assumption].
Qed.

Lemma piece_plainL p : plain_batch p = true -> piece (map (emap BL) p) 0 (filter is_data p) [] 0 0.
Proof.
  induction p as [|e p IH]; intros H; [apply piece_nil|].
  apply plain_cons in H as [He Hp]. specialize (IH Hp).
  destruct e; try discriminate.
  - apply (piece_app [Item (BL v)] (map (emap BL) p) 0 0 [Item v] (filter is_data p) [] [] 0 0 0 0);
      [repeat split; reflexivity|exact IH].
  - apply (piece_app [Tst (BL v) t] (map (emap BL) p) 0 0 [Tst v t] (filter is_data p) [] [] 0 0 0 0);
      [repeat split; reflexivity|exact IH].
  - apply (piece_app [Wm t] (map (emap BL) p) 0 0 [] (filter is_data p) [] [] 0 0 0 0);
      [repeat split; reflexivity|exact IH].
Qed.

Lemma piece_plainR p : plain_batch p = true -> piece (map (emap BR) p) 0 [] (filter is_data p) 0 0.
Proof.
  induction p as [|e p IH]; intros H; [apply piece_nil|].
  apply plain_cons in H as [He Hp]. specialize (IH Hp).
  destruct e; try discriminate.
  - apply (piece_app [Item (BR v)] (map (emap BR) p) 0 0 [] [] [Item v] (filter is_data p) 0 0 0 0);
      [repeat split; reflexivity|exact IH].
  - apply (piece_app [Tst (BR v) t] (map (emap BR) p) 0 0 [] [] [Tst v t] (filter is_data p) 0 0 0 0);
      [repeat split; reflexivity|exact IH].
  - apply (piece_app [Wm t] (map (emap BR) p) 0 0 [] [] [] (filter is_data p) 0 0 0 0);
      [repeat split; reflexivity|exact IH].
Qed.

Lemma filter_data_closing (p : list (elem Z)) : filter is_data (p ++ [FAR]) = filter is_data p.
Proof. rewrite filter_app. cbn. now rewrite app_nil_r. Qed.

Lemma piece_closingL p (z : bool) :
  plain_batch p = true ->
  piece (map (emap BL) p ++ (if z then [Item BLEnd] else []) ++ [FAR]) 1
        (filter is_data (p ++ [FAR])) [] (if z then 1 else 0) 0.
Proof.
  intros Hp. rewrite filter_data_closing.
  eapply piece_eq.
  - apply piece_app; [apply piece_plainL; exact Hp|].
    assert (H : piece ((if z then [Item BLEnd] else []) ++ [FAR]) 1 [] [] (if z then 1 else 0) 0)
      by (destruct z; repeat split; reflexivity).
    exact H.
  - reflexivity.
  - now rewrite app_nil_r.
  - reflexivity.
  - destruct z; reflexivity.
  - reflexivity.
Qed.

Lemma piece_closingR p (z : bool) :
  plain_batch p = true ->
  piece (map (emap BR) p ++ (if z then [Item BREnd] else []) ++ [FAR]) 1 []
        (filter is_data (p ++ [FAR])) 0 (if z then 1 else 0).
Proof.
  intros Hp. rewrite filter_data_closing.
  eapply piece_eq.
  - apply piece_app; [apply piece_plainR; exact Hp|].
    assert (H : piece ((if z then [Item BREnd] else []) ++ [FAR]) 1 [] [] 0 (if z then 1 else 0))
      by (destruct z; repeat split; reflexivity).
    exact H.
  - reflexivity.
  - reflexivity.
  - now rewrite app_nil_r.
  - reflexivity.
  - destruct z; reflexivity.
Qed.
(** * Part H: bookkeeping of the first round: what is still to be delivered *)
Fixpoint sumL (f : list (elem Z) -> nat) (ds : list del) : nat :=
  match ds with
  | [] => 0
  | DL _ b :: ds' => f b + sumL f ds'
  | DR _ _ :: ds' => sumL f ds'
  end.
Fixpoint sumR (f : list (elem Z) -> nat) (ds : list del) : nat :=
  match ds with
  | [] => 0
  | DL _ _ :: ds' => sumR f ds'
  | DR _ b :: ds' => f b + sumR f ds'
  end.
Fixpoint sumB (f : list (elem Z) -> nat) (bs : list (list (elem Z))) : nat :=
  match bs with [] => 0 | b :: bs' => f b + sumB f bs' end.

Lemma sumB_app f a b : sumB f (a ++ b) = sumB f a + sumB f b.
Proof. induction a as [|x a IH]; cbn [app sumB]; lia. Qed.

Lemma side_fars_L ds : side_fars true ds = sumL cntF ds.
Proof.
  unfold side_fars. induction ds as [|[s b|s b] ds IH]; cbn [flat_map sumL]; [reflexivity| |exact IH].
  rewrite app_length, IH. reflexivity.
Qed.
Lemma side_fars_R ds : side_fars false ds = sumR cntF ds.
Proof.
  unfold side_fars. induction ds as [|[s b|s b] ds IH]; cbn [flat_map sumR]; [reflexivity|exact IH|].
  rewrite app_length, IH. reflexivity.
Qed.

Lemma sumL_left_of_le f s ds : sumB f (left_of s ds) <= sumL f ds.
Proof.
  unfold left_of. induction ds as [|[s' b|s' b] ds IH]; cbn [flat_map sumL]; [cbn; lia| |exact IH].
  rewrite sumB_app. destruct (s =? s'); cbn [sumB]; lia.
Qed.
Lemma sumR_right_all f ds : sumR f ds = sumB f (right_all ds).
Proof.
  unfold right_all. induction ds as [|[s' b|s' b] ds IH]; cbn [flat_map sumR]; [reflexivity|exact IH|].
  rewrite sumB_app, IH. cbn [sumB]. lia.
Qed.

Lemma list_sum_cons a l : list_sum (a :: l) = a + list_sum l.
Proof. reflexivity. Qed.

Lemma list_sum_map_add {A} (g h : A -> nat) l :
  list_sum (map (fun x => g x + h x) l) = list_sum (map g l) + list_sum (map h l).
Proof. induction l as [|x l IH]; cbn [map]; [reflexivity|]. rewrite !list_sum_cons. lia. Qed.

Lemma list_sum_indicator s c : forall len start,
  list_sum (map (fun s' => if s' =? s then c else 0) (seq start len)) =
  if (start <=? s) && (s <? start + len) then c else 0.
Proof.
  induction len as [|len IH]; intros start; cbn [seq map]; [cbn [list_sum fold_right]|
    rewrite list_sum_cons].
  - destruct (Nat.leb_spec start s), (Nat.ltb_spec s (start + 0)); cbn [andb]; try reflexivity; lia.
  - rewrite IH.
    destruct (Nat.eqb_spec start s), (Nat.leb_spec start s), (Nat.leb_spec (S start) s),
      (Nat.ltb_spec s (S start + len)), (Nat.ltb_spec s (start + S len)); cbn [andb]; lia.
Qed.


(** ** General shape: [nr] loop-side replicas *)
Definition right_of (s : nat) (ds : list del) : list (list (elem Z)) :=
  flat_map (fun d => match d with DR s' b => if Nat.eqb s s' then [b] else [] | _ => [] end) ds.
Definition senders_ok_n (nl nr : nat) (ds : list del) : bool :=
  forallb (fun d => match d with DL s _ => Nat.ltb s nl | DR s _ => Nat.ltb s nr end) ds.
Definition no_left (ds : list del) : bool :=
  forallb (fun d => match d with DL _ _ => false | DR _ _ => true end) ds.
(** one later round: an interleaving of the [nr] loop-side senders' batches of that round *)
Definition later_round_ok (nr : nat) (r : list del) : bool :=
  no_left r && senders_ok_n 0 nr r && forallb (fun s => loop_round_ok (right_of s r)) (seq 0 nr).
(** [round1]: an arbitrary interleaving of all side-input deliveries with the first round of
    all loop-side senders; [later]: the later rounds; [terms]: the senders of the final
    [Terminate] deliveries, in delivery order *)
Definition c11_shape_n (nl nr : nat) (round1 : list del) (later : list (list del)) (terms : list nat) : bool :=
  senders_ok_n nl nr round1 &&
  forallb (fun s => side_sender_ok (left_of s round1)) (seq 0 nl) &&
  forallb (fun s => loop_round_ok (right_of s round1)) (seq 0 nr) &&
  forallb (later_round_ok nr) later &&
  Nat.eqb (length terms) nr && forallb (fun s => Nat.ltb s nr) terms.
Definition c11_deliveries_n (round1 : list del) (later : list (list del)) (terms : list nat) : list del :=
  round1 ++ concat later ++ map (fun s => DR s [Terminate]) terms.

Lemma sumR_right_of_le f s ds : sumB f (right_of s ds) <= sumR f ds.
Proof.
  unfold right_of. induction ds as [|[s' b|s' b] ds IH]; cbn [flat_map sumR]; [cbn; lia|exact IH|].
  rewrite sumB_app. destruct (s =? s'); cbn [sumB]; lia.
Qed.

Lemma sumL_partition f nl nr : forall ds,
  senders_ok_n nl nr ds = true ->
  sumL f ds = list_sum (map (fun s => sumB f (left_of s ds)) (seq 0 nl)).
Proof.
  induction ds as [|[s b|s b] ds IH]; intros Hs.
  - cbn [sumL]. induction (seq 0 nl) as [|x l IHl]; [reflexivity|].
    cbn [map]. rewrite list_sum_cons. now rewrite <- IHl.
  - unfold senders_ok_n in *. cbn [forallb] in Hs. apply andb_true_iff in Hs as [H1 H2].
    apply Nat.ltb_lt in H1. cbn [sumL]. rewrite (IH H2).
    transitivity (list_sum (map (fun s' => (if s' =? s then f b else 0) + sumB f (left_of s' ds)) (seq 0 nl))).
    + rewrite list_sum_map_add, list_sum_indicator.
      destruct (Nat.leb_spec 0 s), (Nat.ltb_spec s (0 + nl)); cbn [andb]; lia.
    + f_equal. apply map_ext. intros s'. unfold left_of at 2. cbn [flat_map].
      rewrite sumB_app. fold (left_of s' ds). destruct (s' =? s); cbn [sumB]; lia.
  - unfold senders_ok_n in *. cbn [forallb] in Hs. apply andb_true_iff in Hs as [H1 H2].
    cbn [sumL]. rewrite (IH H2). reflexivity.
Qed.

Lemma sumR_partition f nl nr : forall ds,
  senders_ok_n nl nr ds = true ->
  sumR f ds = list_sum (map (fun s => sumB f (right_of s ds)) (seq 0 nr)).
Proof.
  induction ds as [|[s b|s b] ds IH]; intros Hs.
  - cbn [sumR]. induction (seq 0 nr) as [|x l IHl]; [reflexivity|].
    cbn [map]. rewrite list_sum_cons. now rewrite <- IHl.
  - unfold senders_ok_n in *. cbn [forallb] in Hs. apply andb_true_iff in Hs as [H1 H2].
    cbn [sumR]. rewrite (IH H2). reflexivity.
  - unfold senders_ok_n in *. cbn [forallb] in Hs. apply andb_true_iff in Hs as [H1 H2].
    apply Nat.ltb_lt in H1. cbn [sumR]. rewrite (IH H2).
    transitivity (list_sum (map (fun s' => (if s' =? s then f b else 0) + sumB f (right_of s' ds)) (seq 0 nr))).
    + rewrite list_sum_map_add, list_sum_indicator.
      destruct (Nat.leb_spec 0 s), (Nat.ltb_spec s (0 + nr)); cbn [andb]; lia.
    + f_equal. apply map_ext. intros s'. unfold right_of at 2. cbn [flat_map].
      rewrite sumB_app. fold (right_of s' ds). destruct (s' =? s); cbn [sumB]; lia.
Qed.

Lemma loop_round_inv b bs :
  loop_round_ok (b :: bs) = true ->
  (bs = [] /\ closing_batch b = true) \/
  (bs <> [] /\ plain_batch b = true /\ loop_round_ok bs = true).
Proof.
  destruct bs as [|b' bs]; cbn [loop_round_ok]; intros H.
  - left. apply andb_true_iff in H as [H1 _]. auto.
  - right. apply andb_true_iff in H as [H1 H2]. apply andb_true_iff in H1 as [H1 _].
    split; [discriminate|auto].
Qed.

Lemma closing_counts (b : list (elem Z)) : closing_batch b = true -> cntF b = 1 /\ cntT b = 0.
Proof.
  intros Hc. destruct (closing_batch_inv _ Hc) as (p & -> & Hp). apply plain_clean in Hp.
  rewrite cntF_app, cntT_app, (clean_cntF _ Hp), (clean_cntT _ Hp). split; reflexivity.
Qed.
Lemma plain_counts (b : list (elem Z)) : plain_batch b = true -> cntF b = 0 /\ cntT b = 0.
Proof. intros Hp. apply plain_clean in Hp. now rewrite (clean_cntF _ Hp), (clean_cntT _ Hp). Qed.

Lemma side_sender_inv b bs :
  side_sender_ok (b :: bs) = true ->
  (closing_batch b = true /\ bs = [[Terminate]]) \/ (plain_batch b = true /\ side_sender_ok bs = true).
Proof.
  destruct bs as [|t [|u r]]; intros H.
  - exfalso. cbn in H. rewrite andb_false_r in H. discriminate H.
  - left. cbn [side_sender_ok] in H. apply andb_true_iff in H as [H1 H2].
    apply andb_true_iff in H1 as [H1 _]. split; [exact H1|].
    destruct t as [|e [|? ?]]; cbn in H2; try discriminate H2.
    + destruct e; try discriminate H2. reflexivity.
    + destruct e; discriminate H2.
  - right. cbn [side_sender_ok] in H |- *. apply andb_true_iff in H as [H1 H2].
    apply andb_true_iff in H1 as [H1 _]. auto.
Qed.

Lemma side_sender_sums : forall bs, side_sender_ok bs = true -> sumB cntF bs = 1 /\ sumB cntT bs = 1.
Proof.
  induction bs as [|b bs IH]; intros H; [discriminate|].
  destruct (side_sender_inv _ _ H) as [[Hc ->] | [Hp Hok]].
  - destruct (closing_counts _ Hc) as [E1 E2]. cbn [sumB]. rewrite E1, E2. split; reflexivity.
  - destruct (plain_counts _ Hp) as [E1 E2]. destruct (IH Hok) as [I1 I2].
    cbn [sumB]. rewrite E1, E2, I1, I2. split; reflexivity.
Qed.

Lemma loop_round_sums : forall bs, loop_round_ok bs = true -> sumB cntF bs = 1.
Proof.
  induction bs as [|b bs IH]; intros H; [discriminate|].
  destruct (loop_round_inv _ _ H) as [[-> Hc] | (Hne & Hp & Hok)].
  - destruct (closing_counts _ Hc) as [E _]. cbn [sumB]. rewrite E. reflexivity.
  - destruct (plain_counts _ Hp) as [E1 _]. specialize (IH Hok).
    cbn [sumB]. rewrite E1, IH. reflexivity.
Qed.

Definition sender_rest (bs : list (list (elem Z))) : Prop :=
  side_sender_ok bs = true \/ bs = [[Terminate]] \/ bs = [].
Definition right_rest (bs : list (list (elem Z))) : Prop := loop_round_ok bs = true \/ bs = [].
Definition rest_ok (nl nr : nat) (rest : list del) : Prop :=
  senders_ok_n nl nr rest = true /\ (forall s, s < nl -> sender_rest (left_of s rest)) /\
  (forall s, s < nr -> right_rest (right_of s rest)).

Lemma rest_ok_DL nl nr s b rest :
  rest_ok nl nr (DL s b :: rest) ->
  rest_ok nl nr rest /\
  ((plain_batch b = true /\ 1 <= sumL cntT rest /\ 1 <= sumL cntF rest) \/
   (closing_batch b = true /\ 1 <= sumL cntT rest) \/
   b = [Terminate]).
Proof.
  intros (Hs & Hl & Hr). unfold senders_ok_n in Hs. cbn [forallb] in Hs.
  apply andb_true_iff in Hs as [Hlt Hs]. apply Nat.ltb_lt in Hlt.
  pose proof (Hl s Hlt) as Hme. unfold left_of in Hme. cbn [flat_map] in Hme.
  rewrite Nat.eqb_refl in Hme. cbn [app] in Hme. fold (left_of s rest) in Hme.
  assert (Hothers : forall s', s' < nl -> s' <> s -> sender_rest (left_of s' rest)).
  { intros s' Hs' Hne. specialize (Hl s' Hs'). unfold left_of in Hl. cbn [flat_map] in Hl.
    apply Nat.eqb_neq in Hne. rewrite Hne in Hl. exact Hl. }
  assert (Hmk : sender_rest (left_of s rest) -> rest_ok nl nr rest).
  { intros Hnew. split; [exact Hs|]. split; [|exact Hr].
    intros s' Hs'. destruct (Nat.eq_dec s' s) as [->|Hne]; [exact Hnew|now apply Hothers]. }
  pose proof (sumL_left_of_le cntT s rest) as HleT.
  pose proof (sumL_left_of_le cntF s rest) as HleF.
  destruct Hme as [Hok | [Heq | Heq]]; [|inversion Heq; subst|discriminate].
  - destruct (side_sender_inv _ _ Hok) as [[Hc Heq] | [Hp Hok']].
    + split; [apply Hmk; right; left; exact Heq|]. right; left. split; [exact Hc|].
      rewrite Heq in HleT. exact HleT.
    + split; [apply Hmk; left; exact Hok'|]. left. destruct (side_sender_sums _ Hok') as [E1 E2].
      rewrite E1 in HleF. rewrite E2 in HleT. auto.
  - split; [apply Hmk; right; right; assumption|]. right; right. reflexivity.
Qed.

Lemma rest_ok_DR nl nr s b rest :
  rest_ok nl nr (DR s b :: rest) ->
  s < nr /\ rest_ok nl nr rest /\
  ((plain_batch b = true /\ 1 <= sumR cntF rest) \/ closing_batch b = true).
Proof.
  intros (Hs & Hl & Hr). unfold senders_ok_n in Hs. cbn [forallb] in Hs.
  apply andb_true_iff in Hs as [Hlt Hs]. apply Nat.ltb_lt in Hlt. split; [exact Hlt|].
  pose proof (Hr s Hlt) as Hme. unfold right_of in Hme. cbn [flat_map] in Hme.
  rewrite Nat.eqb_refl in Hme. cbn [app] in Hme. fold (right_of s rest) in Hme.
  assert (Hothers : forall s', s' < nr -> s' <> s -> right_rest (right_of s' rest)).
  { intros s' Hs' Hne. specialize (Hr s' Hs'). unfold right_of in Hr. cbn [flat_map] in Hr.
    apply Nat.eqb_neq in Hne. rewrite Hne in Hr. exact Hr. }
  assert (Hmk : right_rest (right_of s rest) -> rest_ok nl nr rest).
  { intros Hnew. split; [exact Hs|]. split; [exact Hl|].
    intros s' Hs'. destruct (Nat.eq_dec s' s) as [->|Hne]; [exact Hnew|now apply Hothers]. }
  pose proof (sumR_right_of_le cntF s rest) as HleF.
  destruct Hme as [Hok | Heq]; [|discriminate].
  destruct (loop_round_inv _ _ Hok) as [[Heq Hc] | (Hne & Hp & Hok')].
  - split; [apply Hmk; right; exact Heq|]. right. exact Hc.
  - split; [apply Hmk; left; exact Hok'|]. left. split; [exact Hp|].
    rewrite (loop_round_sums _ Hok') in HleF. exact HleF.
Qed.

(** * Part I: a round, delivery by delivery (the first round, and the part of a later round
    after the replay) *)
Definition chunk (X : list (elem (bin Z Z))) (nf : nat) (ld rd : list (elem Z)) (bl br : nat) : Prop :=
  piece X nf ld rd bl br /\ (nf = 0 -> X = []) /\ (nf <> 0 -> endsF X).
Definition b2n (n : nat) : nat := if n =? 0 then 0 else 1.

Lemma chunk_eq X n l r a c n' l' r' a' c' :
  chunk X n l r a c -> n = n' -> l = l' -> r = r' -> a = a' -> c = c' -> chunk X n' l' r' a' c'.
Proof. intros; subst; assumption. Qed.

Lemma chunk_nil : chunk [] 0 [] [] 0 0.
Proof. split; [apply piece_nil|]. split; [reflexivity|intros H; congruence]. Qed.

(** prepend a message without FAR while FARs are still to come *)
Lemma chunk_cons_noF D X n l r a c l0 r0 :
  piece D 0 l0 r0 0 0 -> n <> 0 -> chunk X n l r a c -> chunk (D ++ X) n (l0 ++ l) (r0 ++ r) a c.
Proof.
  intros HD Hn (HP & H0 & H1). split; [|split].
  - apply (piece_app D X 0 n l0 l r0 r 0 a 0 c HD HP).
  - intros; contradiction.
  - intros _. apply endsF_app_r. now apply H1.
Qed.

(** prepend a message that ends with a FAR *)
Lemma chunk_cons_F D X n l r a c l0 r0 a0 c0 :
  piece D 1 l0 r0 a0 c0 -> endsF D -> chunk X n l r a c ->
  chunk (D ++ X) (S n) (l0 ++ l) (r0 ++ r) (a0 + a) (c0 + c).
Proof.
  intros HD HE (HP & H0 & H1). split; [|split].
  - apply (piece_app D X 1 n l0 l r0 r a0 a c0 c HD HP).
  - intros; discriminate.
  - intros _. destruct n as [|n].
    + rewrite (H0 eq_refl), app_nil_r. exact HE.
    + apply endsF_app_r. apply H1. discriminate.
Qed.

Lemma after_idle_live nl nr mfl mtl C full mfr mtr :
  mtl <> 0 \/ mfr <> 0 ->
  after_idle nl nr mfl mtl C full mfr mtr
  = mkB (mkL nl mfl mtl C full (length C) []) (mkR nr mfr mtr []) false.
Proof.
  intros H. unfold after_idle.
  destruct (Nat.eqb_spec mtl 0), (Nat.eqb_spec mfr 0); cbn [andb]; try reflexivity. lia.
Qed.

Lemma endsF_closing (D : list (elem (bin Z Z))) (M : list (elem (bin Z Z))) : endsF (D ++ M ++ [FAR]).
Proof. exists (D ++ M). now rewrite <- app_assoc. Qed.

Lemma b2n_S_split x : (if x =? 0 then 1 else 0) + b2n x = b2n (S x).
Proof. unfold b2n. cbn [Nat.eqb]. destruct (x =? 0); reflexivity. Qed.

Lemma round_trace nl nr full : nr <> 0 -> forall rest C,
  rest_ok nl nr rest -> (full = true -> no_left rest = true) ->
  exists T Cx,
    brun_msgs (after_idle nl nr (sumL cntF rest) (sumL cntT rest) C full (sumR cntF rest) nr) rest
      = (Rst nl nr (C ++ Cx) nr, T) /\
    chunk (cflat T) (sumL cntF rest + sumR cntF rest) (side_data true rest) (side_data false rest)
          (b2n (sumL cntF rest)) (b2n (sumR cntF rest)) /\
    chunk (cflat Cx) (sumL cntF rest) (side_data true rest) [] (b2n (sumL cntF rest)) 0 /\
    (no_left rest = true -> Cx = []).
Proof.
  intros Hnr. induction rest as [|d rest IH]; intros C Hok Hfull.
  - exists [], []. cbn [sumL sumR brun_msgs]. rewrite app_nil_r.
    split; [reflexivity|]. split; [apply chunk_nil|]. split; [apply chunk_nil|reflexivity].
  - destruct d as [s b | s b].
    + destruct full; [specialize (Hfull eq_refl); discriminate Hfull|]. clear Hfull.
      assert (Hfull' : false = true -> no_left rest = true) by discriminate.
      destruct (rest_ok_DL _ _ _ _ _ Hok) as (Hok' & Hcase).
      cbn [sumL sumR side_data flat_map brun_msgs].
      fold (side_data true rest). fold (side_data false rest).
      destruct Hcase as [(Hp & HT & HF) | [(Hc & HT) | ->]].
      * (* plain left batch *)
        destruct (plain_counts _ Hp) as [E1 E2]. rewrite E1, E2. cbn [Nat.add].
        rewrite after_idle_live by lia.
        assert (Hne : sumL cntT rest <> 0) by lia.
        rewrite (r1_left_step _ _ _ _ _ _ _ _ _ _ _ _ _ Hne Hnr (pi_plain BL BLEnd true b _ _ Hp))
          by (etransitivity; [|apply bfuel_ge]; lia).
        destruct (IH (C ++ [(s, map (emap BL) b)]) Hok' Hfull') as (T & Cx & HR & HcT & HcC & _).
        rewrite HR. exists ((s, map (emap BL) b) :: T), ((s, map (emap BL) b) :: Cx).
        split; [now rewrite <- app_assoc|].
        change (cflat ((s, map (emap BL) b) :: T)) with (map (emap BL) b ++ cflat T).
        change (cflat ((s, map (emap BL) b) :: Cx)) with (map (emap BL) b ++ cflat Cx).
        assert (Hn1 : sumL cntF rest + sumR cntF rest <> 0) by lia.
        assert (Hn2 : sumL cntF rest <> 0) by lia.
        split; [|split; [|discriminate]].
        -- apply (chunk_cons_noF _ _ _ _ _ _ _ _ [] (piece_plainL b Hp) Hn1 HcT).
        -- apply (chunk_cons_noF _ _ _ _ _ _ _ _ [] (piece_plainL b Hp) Hn2 HcC).
      * (* closing left batch *)
        destruct (closing_counts _ Hc) as [E1 E2]. rewrite E1, E2. cbn [Nat.add].
        destruct (closing_batch_inv _ Hc) as (p & -> & Hp).
        rewrite after_idle_live by lia.
        assert (Hne : sumL cntT rest <> 0) by lia.
        rewrite (r1_left_step _ _ _ _ _ _ _ _ _ _ _ _ _ Hne Hnr (pi_closing BL BLEnd true p _ _ Hp))
          by (etransitivity; [|apply bfuel_ge]; lia).
        cbn [pred].
        set (data := map (emap BL) p ++ (if sumL cntF rest =? 0 then [Item BLEnd] else []) ++ [FAR]).
        destruct (IH (C ++ [(s, data)]) Hok' Hfull') as (T & Cx & HR & HcT & HcC & _).
        rewrite HR. exists ((s, data) :: T), ((s, data) :: Cx).
        split; [now rewrite <- app_assoc|].
        change (cflat ((s, data) :: T)) with (data ++ cflat T).
        change (cflat ((s, data) :: Cx)) with (data ++ cflat Cx).
        pose proof (piece_closingL p (sumL cntF rest =? 0) Hp) as HD. fold data in HD.
        assert (HE : endsF data) by apply endsF_closing.
        split; [|split; [|discriminate]].
        -- eapply chunk_eq; [apply (chunk_cons_F _ _ _ _ _ _ _ _ [] _ 0 HD HE HcT)| | | | | ];
             try reflexivity. apply b2n_S_split.
        -- eapply chunk_eq; [apply (chunk_cons_F _ _ _ _ _ _ _ _ [] _ 0 HD HE HcC)| | | | | ];
             try reflexivity. apply b2n_S_split.
      * (* the sender's Terminate: dropped, an empty message is cached *)
        change (cntF [@Terminate Z]) with 0. change (cntT [@Terminate Z]) with 1. cbn [Nat.add].
        rewrite after_idle_live by lia.
        assert (Hne : S (sumL cntT rest) <> 0) by lia.
        rewrite (r1_left_step _ _ _ _ _ _ _ _ _ _ _ _ _ Hne Hnr (pi_term BL BLEnd true _ _))
          by (etransitivity; [|apply bfuel_ge]; lia).
        cbn [pred].
        destruct (IH (C ++ [(s, [])]) Hok' Hfull') as (T & Cx & HR & HcT & HcC & _).
        rewrite HR. exists ((s, []) :: T), ((s, []) :: Cx).
        split; [now rewrite <- app_assoc|]. split; [exact HcT|]. split; [exact HcC|discriminate].
    + destruct (rest_ok_DR _ _ _ _ _ Hok) as (Hs & Hok' & Hcase).
      assert (Hfull' : full = true -> no_left rest = true).
      { intros E. specialize (Hfull E). exact Hfull. }
      cbn [sumL sumR side_data flat_map brun_msgs].
      fold (side_data true rest). fold (side_data false rest).
      destruct Hcase as [(Hp & HF) | Hc].
      * (* plain right batch *)
        destruct (plain_counts _ Hp) as [E1 E2]. rewrite E1. cbn [Nat.add].
        rewrite after_idle_live by lia.
        assert (Hne : sumR cntF rest <> 0) by lia.
        rewrite (right_step _ _ _ _ _ _ _ _ _ _ _ _ _ Hne Hnr (pi_plain BR BREnd false b _ _ Hp))
          by (etransitivity; [|apply bfuel_ge]; lia).
        destruct (IH C Hok' Hfull') as (T & Cx & HR & HcT & HcC & HCx).
        rewrite HR. exists ((nl + s, map (emap BR) b) :: T), Cx.
        split; [reflexivity|]. split; [|split; [exact HcC|exact HCx]].
        change (cflat ((nl + s, map (emap BR) b) :: T)) with (map (emap BR) b ++ cflat T).
        assert (Hn1 : sumL cntF rest + sumR cntF rest <> 0) by lia.
        apply (chunk_cons_noF _ _ _ _ _ _ _ [] _ (piece_plainR b Hp) Hn1 HcT).
      * (* closing right batch *)
        destruct (closing_counts _ Hc) as [E1 E2]. rewrite E1. cbn [Nat.add].
        destruct (closing_batch_inv _ Hc) as (p & -> & Hp).
        rewrite after_idle_live by lia.
        assert (Hne : S (sumR cntF rest) <> 0) by lia.
        rewrite (right_step _ _ _ _ _ _ _ _ _ _ _ _ _ Hne Hnr (pi_closing BR BREnd false p _ _ Hp))
          by (etransitivity; [|apply bfuel_ge]; lia).
        cbn [pred].
        set (data := map (emap BR) p ++ (if sumR cntF rest =? 0 then [Item BREnd] else []) ++ [FAR]).
        destruct (IH C Hok' Hfull') as (T & Cx & HR & HcT & HcC & HCx).
        rewrite HR. exists ((nl + s, data) :: T), Cx.
        split; [reflexivity|]. split; [|split; [exact HcC|exact HCx]].
        change (cflat ((nl + s, data) :: T)) with (data ++ cflat T).
        pose proof (piece_closingR p (sumR cntF rest =? 0) Hp) as HD. fold data in HD.
        assert (HE : endsF data) by apply endsF_closing.
        eapply chunk_eq; [apply (chunk_cons_F _ _ _ _ _ _ _ [] _ 0 _ HD HE HcT)| | | | | ];
          try reflexivity; [lia|apply b2n_S_split].
Qed.

(** * Part G: the later rounds of the loop side, and the final Terminates *)
Lemma plain_no_content (b : list (elem Z)) :
  plain_batch b = true -> has_non_term b = false -> b = [].
Proof.
  destruct b as [|e b]; [reflexivity|]. intros Hp Hn. apply plain_cons in Hp as [He _].
  cbn [has_non_term existsb] in Hn. destruct e; discriminate.
Qed.
Lemma closing_content (b : list (elem Z)) : closing_batch b = true -> has_non_term b = true.
Proof.
  intros Hc. destruct (closing_batch_inv _ Hc) as (p & -> & _).
  unfold has_non_term. rewrite existsb_app. cbn [existsb]. now rewrite orb_true_r.
Qed.

Lemma no_left_facts f r : no_left r = true -> side_data true r = [] /\ sumL f r = 0.
Proof.
  unfold side_data. induction r as [|[s b|s b] r IH]; intros H; [auto|discriminate|].
  cbn [no_left forallb andb] in H. cbn [flat_map sumL app]. now apply IH.
Qed.

(** a whole later round: leading empty batches, the first batch with content, the replayed
    cache, the rest of the round *)
Lemma later_round_trace nl nr C ld :
  nr <> 0 -> C <> [] -> piece (cflat C) nl ld [] 1 0 -> endsF (cflat C) ->
  forall r, rest_ok nl nr r -> no_left r = true -> sumR cntF r = nr ->
  exists T, brun_msgs (Rst nl nr C nr) r = (Rst nl nr C nr, T) /\
            piece (cflat T) (nl + nr) ld (side_data false r) 1 1 /\ endsF (cflat T).
Proof.
  intros Hnr HC HPC HEC. induction r as [|[s b|s b] r IH]; intros Hok Hnl Hsum.
  - cbn in Hsum. congruence.
  - discriminate Hnl.
  - destruct (rest_ok_DR _ _ _ _ _ Hok) as (Hs & Hok' & Hcase).
    assert (Hnl' : no_left r = true) by exact Hnl.
    destruct (no_left_facts cntF r Hnl') as [Hsd HsF].
    destruct (no_left_facts cntT r Hnl') as [_ HsT].
    cbn [sumR] in Hsum. cbn [brun_msgs side_data flat_map]. fold (side_data false r).
    assert (Hfuel : length C + 2 <= bfuel (bpush (Rst nl nr C nr) (DR s b))).
    { pose proof (bfuel_push_R nl nl 0 C true 0 (mkR nr nr nr []) true (DR s b)) as H.
      unfold Rst. lia. }
    destruct (has_non_term b) eqn:Hnt.
    + (* first batch with content: replay, then the rest of the round *)
      destruct Hcase as [(Hp & HF) | Hc].
      * destruct (plain_counts _ Hp) as [E1 _]. rewrite E1 in Hsum. cbn [Nat.add] in Hsum.
        rewrite (later_first _ _ _ _ _ _ _ _ _ Hnr Hnr Hnt (pi_plain BR BREnd false b _ _ Hp) HC Hfuel).
        destruct (round_trace nl nr true Hnr r C Hok' (fun _ => Hnl')) as (T & Cx & HR & HcT & _ & HCx).
        rewrite (HCx Hnl'), app_nil_r in HR. rewrite HsF, HsT, Hsum in HR. rewrite HR.
        exists ((nl + s, map (emap BR) b) :: C ++ T). split; [reflexivity|].
        change ((nl + s, map (emap BR) b) :: C ++ T) with ([(nl + s, map (emap BR) b)] ++ C ++ T).
        rewrite !cflat_app. unfold cflat at 1 4. cbn [map concat snd]. rewrite !app_nil_r.
        rewrite HsF, Hsum, Hsd in HcT. destruct HcT as (HpT & _ & HeT).
        split; [|apply endsF_app_r, endsF_app_r, HeT; cbn; lia].
        eapply piece_eq; [apply piece_app; [apply piece_plainR; exact Hp|
                          apply piece_app; [exact HPC|exact HpT]]| | | | | ];
          try reflexivity; try lia.
        -- cbn [app]. now rewrite app_nil_r.
        -- unfold b2n. destruct (Nat.eqb_spec nr 0); [contradiction|reflexivity].
      * destruct (closing_counts _ Hc) as [E1 _]. rewrite E1 in Hsum.
        destruct (closing_batch_inv _ Hc) as (p & -> & Hp).
        rewrite (later_first _ _ _ _ _ _ _ _ _ Hnr Hnr Hnt (pi_closing BR BREnd false p _ _ Hp) HC Hfuel).
        assert (Hpred : pred nr = sumR cntF r) by lia. rewrite Hpred.
        set (data := map (emap BR) p ++ (if sumR cntF r =? 0 then [Item BREnd] else []) ++ [FAR]).
        destruct (round_trace nl nr true Hnr r C Hok' (fun _ => Hnl')) as (T & Cx & HR & HcT & _ & HCx).
        rewrite (HCx Hnl'), app_nil_r in HR. rewrite HsF, HsT in HR. rewrite HR.
        exists ((nl + s, data) :: C ++ T). split; [reflexivity|].
        change ((nl + s, data) :: C ++ T) with ([(nl + s, data)] ++ C ++ T).
        rewrite !cflat_app. unfold cflat at 1 4. cbn [map concat snd]. rewrite !app_nil_r.
        rewrite HsF, Hsd in HcT. destruct HcT as (HpT & H0T & HeT).
        pose proof (piece_closingR p (sumR cntF r =? 0) Hp) as HD. fold data in HD.
        split.
        -- eapply piece_eq; [apply piece_app; [exact HD|apply piece_app; [exact HPC|exact HpT]]| | | | | ];
             try reflexivity; try lia.
           ++ cbn [app]. now rewrite app_nil_r.
           ++ cbn [b2n Nat.add]. change (b2n 0) with 0. cbn [Nat.add].
              rewrite b2n_S_split. reflexivity.
        -- destruct (sumR cntF r) as [|x] eqn:Ex.
           ++ rewrite (H0T eq_refl), app_nil_r. apply endsF_app_r. exact HEC.
           ++ apply endsF_app_r, endsF_app_r, HeT. cbn; lia.
    + (* an empty batch: the receiver keeps waiting for the first message *)
      assert (Hp : plain_batch b = true).
      { destruct Hcase as [[Hp _]|Hc]; [exact Hp|]. rewrite (closing_content _ Hc) in Hnt. discriminate. }
      rewrite (plain_no_content _ Hp Hnt) in *. cbn in Hsum.
      rewrite (later_skip nl nr C nr s [] nr [] _ Hnr Hnr Hnr eq_refl eq_refl)
        by (etransitivity; [|apply bfuel_ge]; lia).
      destruct (IH Hok' Hnl' Hsum) as (T & HR & HpT & HeT). rewrite HR.
      exists ((nl + s, []) :: T). split; [reflexivity|]. split; assumption.
Qed.

Lemma final_trace nl nr C : nl <> 0 -> nr <> 0 -> forall terms mtr,
  length terms = mtr -> mtr <> 0 ->
  exists b' rest,
    brun_msgs (Rst nl nr C mtr) (map (fun s => DR s [Terminate]) terms)
    = (b', map (fun s => (nl + s, [Terminate])) terms ++ (0, repeat Terminate nl) :: rest).
Proof.
  intros Hnl Hnr. induction terms as [|s t IH]; intros mtr Hlen Hm; [cbn in Hlen; congruence|].
  cbn [map brun_msgs]. cbn [length] in Hlen. destruct t as [|s' t'].
  - subst mtr.
    destruct (final_step nl nr C s (bfuel (bpush (Rst nl nr C 1) (DR s [Terminate]))) Hnl Hnr
                ltac:(etransitivity; [|apply bfuel_ge]; lia)) as (b' & rest & HR).
    cbn [length]. rewrite HR. cbn [map brun_msgs]. exists b', rest. now rewrite app_nil_r.
  - assert (Hm' : pred mtr <> 0) by (subst mtr; cbn [length pred]; lia).
    rewrite (later_skip nl nr C mtr s [Terminate] (pred mtr) [Terminate] _ Hnr Hm Hm' eq_refl
               (pi_term BR BREnd false nr mtr)) by (etransitivity; [|apply bfuel_ge]; lia).
    destruct (IH (pred mtr) ltac:(subst mtr; reflexivity) Hm') as (b' & rest & HR).
    rewrite HR. exists b', rest. reflexivity.
Qed.
(** * Part J: the Start over whole rounds and over the final Terminates *)
Definition rout (ld rd : list (elem Z)) (o : list (elem (bin Z Z))) : Prop :=
  forallb cleanel o = true /\ Lp o = ld /\ Rp o = rd /\
  count_item BLEnd o = 1 /\ count_item BREnd o = 1.
Definition wround (N : nat) (ld : list (elem Z)) (T : list msg) (rd : list (elem Z)) : Prop :=
  piece (cflat T) N ld rd 1 1 /\ endsF (cflat T).

Lemma proj_data_eq (a b : list (elem (bin Z Z))) :
  filter is_data a = filter is_data b ->
  Lp a = Lp b /\ Rp a = Rp b /\ forall m, count_item m a = count_item m b.
Proof.
  intros H. split; [|split].
  - unfold Lp. unfold bz in *. now rewrite H.
  - unfold Rp. unfold bz in *. now rewrite H.
  - intros m. pose proof (count_item_data m a) as Ha. pose proof (count_item_data m b) as Hb.
    unfold bz in *. rewrite <- Ha, <- Hb, H. reflexivity.
Qed.

Lemma srun_wround N ld rd T mt st :
  wround N ld T rd -> SS N mt N st -> mt <> 0 ->
  exists st' o, srun st (flat T) = (st', o ++ [FAR]) /\ SS N mt N st' /\ rout ld rd o.
Proof.
  intros [(P1 & P2 & P3 & P4 & P5 & P6) [X' HX]] HS Hmt.
  rewrite HX in P1, P2, P3, P4, P5, P6.
  rewrite forallb_app in P1. apply andb_true_iff in P1 as [P1 _].
  rewrite cntF_app in P2. change (cntF [@FAR (bin Z Z)]) with 1 in P2.
  rewrite Lp_app in P3. rewrite Rp_app in P4. rewrite count_item_app in P5, P6.
  cbn in P3, P4, P5, P6. rewrite app_nil_r in P3, P4. rewrite Nat.add_0_r in P5, P6.
  assert (Hl : map snd (flat T) = X' ++ [FAR]) by (rewrite map_snd_flat; exact HX).
  destruct (srun_round (flat T) X' N mt N st Hl P1 ltac:(lia) HS Hmt)
    as (st' & o & Hr & HS' & Hc & Hd).
  exists st', o. split; [exact Hr|]. split; [exact HS'|].
  split; [exact Hc|]. destruct (proj_data_eq _ _ Hd) as (E1 & E2 & E3).
  rewrite E1, E2, !E3. auto.
Qed.

Lemma srun_rounds N ld mt : forall Ts rds st,
  Forall2 (wround N ld) Ts rds -> SS N mt N st -> mt <> 0 ->
  exists st' os, srun st (flat (concat Ts)) = (st', concat (map (fun o => o ++ [FAR]) os)) /\
                 SS N mt N st' /\ Forall2 (rout ld) rds os.
Proof.
  intros Ts rds st HF. revert st. induction HF as [|T rd Ts rds HT HF IH]; intros st HS Hmt.
  - exists st, []. cbn. auto.
  - destruct (srun_wround _ _ _ _ _ _ HT HS Hmt) as (st1 & o & Hr & HS1 & Ho).
    destruct (IH st1 HS1 Hmt) as (st2 & os & Hr2 & HS2 & Hos).
    exists st2, (o :: os). cbn [concat map]. rewrite flat_app, srun_app, Hr, Hr2.
    split; [reflexivity|]. split; [exact HS2|]. constructor; assumption.
Qed.

Lemma srun_terms : forall k l N mf st,
  SS N (S k) (S mf) st -> map snd l = repeat Terminate (S k) ->
  exists st', srun st l = (st', [Terminate]) /\ s_done st' = true.
Proof.
  induction k as [|k IH]; intros l N mf st (Hn & Hm & Hf & Hd) Hl.
  - destruct l as [|[s e] [|? ?]]; cbn in Hl; try discriminate. inversion Hl; subst e.
    cbn [srun]. unfold start_step. rewrite Hd. unfold settle. cbn [s_mterm s_mfar s_n s_front].
    rewrite Hm. cbn [pred Nat.eqb]. eexists. split; reflexivity.
  - destruct l as [|[s e] l]; cbn in Hl; try discriminate. inversion Hl as [[He Hl']]; subst e.
    cbn [srun]. unfold start_step at 1. rewrite Hd. unfold settle. cbn [s_mterm s_mfar s_n s_front].
    rewrite Hm, Hf. cbn [pred Nat.eqb].
    match goal with |- context [srun ?s1 l] =>
      destruct (IH l N mf s1) as (st' & Hr & Hd') end.
    + unfold SS. cbn. auto.
    + exact Hl'.
    + rewrite Hr. exists st'. auto.
Qed.

(** * Part K: from the structure of the output to [c11_pred] *)
Lemma strip_clean (o : list (elem (bin Z Z))) : forallb cleanel o = true -> strip_fb o = o.
Proof.
  unfold strip_fb. induction o as [|e o IH]; cbn [forallb filter]; intros H; [reflexivity|].
  apply andb_true_iff in H as [H1 H2]. rewrite (IH H2). destruct e; try discriminate; reflexivity.
Qed.

Lemma strip_struct : forall os : list (list (elem (bin Z Z))),
  Forall (fun o => forallb cleanel o = true) os ->
  strip_fb (concat (map (fun o => o ++ [FAR]) os) ++ [Terminate]) =
  concat (map (fun o => o ++ [FAR]) os) ++ [Terminate].
Proof.
  induction os as [|o os IH]; intros H; [reflexivity|].
  inversion H as [|? ? H1 H2]; subst. cbn [map concat]. rewrite <- !app_assoc.
  unfold strip_fb in *. rewrite !filter_app. fold (strip_fb o). rewrite (strip_clean _ H1).
  rewrite <- filter_app, (IH H2). reflexivity.
Qed.

Lemma split_clean : forall (o : list (elem (bin Z Z))) cur l,
  forallb cleanel o = true -> split_rounds cur (o ++ l) = split_rounds (rev o ++ cur) l.
Proof.
  induction o as [|e o IH]; intros cur l H; [reflexivity|].
  cbn [forallb] in H. apply andb_true_iff in H as [H1 H2].
  cbn [app rev]. rewrite <- app_assoc. cbn [app].
  destruct e; try discriminate; cbn [split_rounds]; apply IH; assumption.
Qed.

Lemma split_struct : forall os : list (list (elem (bin Z Z))),
  Forall (fun o => forallb cleanel o = true) os ->
  split_rounds [] (concat (map (fun o => o ++ [FAR]) os) ++ [Terminate]) = (os, [Terminate]).
Proof.
  induction os as [|o os IH]; intros H; [reflexivity|].
  inversion H as [|? ? H1 H2]; subst. cbn [map concat]. rewrite <- !app_assoc.
  rewrite split_clean by assumption. cbn [app split_rounds]. rewrite (IH H2).
  rewrite app_nil_r, rev_involutive. reflexivity.
Qed.

Lemma zelem_eqb_refl (e : elem Z) : elem_eqb Z.eqb e e = true.
Proof. destruct e; cbn; rewrite ?Z.eqb_refl; reflexivity. Qed.
Lemma zout_eqb_refl (l : list (elem Z)) : zout_eqb l l = true.
Proof.
  unfold zout_eqb. induction l as [|e l IH]; [reflexivity|].
  cbn [list_eqb]. now rewrite zelem_eqb_refl, IH.
Qed.

Lemma Rp_struct ld : forall rds os,
  Forall2 (rout ld) rds os ->
  Rp (concat (map (fun o => o ++ [FAR]) os) ++ [Terminate]) = concat rds.
Proof.
  intros rds os HF. induction HF as [|rd o rds os Ho HF IH]; [reflexivity|].
  cbn [map concat]. rewrite <- !app_assoc. rewrite Rp_app. cbn [app].
  change (FAR :: ?x) with ([@FAR bz] ++ x). rewrite Rp_app, IH.
  destruct Ho as (_ & _ & -> & _). reflexivity.
Qed.

Lemma c11_pred_intro nl nr ds (out : list (elem bz)) (rs : list (list (elem bz))) :
  nr <> 0 ->
  strip_fb out = out -> split_rounds [] out = (rs, [Terminate]) ->
  length rs * nr = side_fars false ds ->
  (forall r, In r rs -> Lp r = side_data true ds /\ count_item BLEnd r = 1 /\ count_item BREnd r = 1) ->
  Rp out = side_data false ds ->
  c11_pred nl nr true false ds out = true.
Proof.
  intros Hnr H1 H2 Hlen Hrs HR. unfold c11_pred. rewrite H1, H2.
  cbn [negb orb]. rewrite <- Hlen, Nat.div_mul by exact Hnr. rewrite Nat.eqb_refl. cbn [andb].
  fold (Rp out). rewrite HR, zout_eqb_refl, andb_true_r.
  apply forallb_forall. intros r Hr. destruct (Hrs r Hr) as (HL & E1 & E2).
  fold (Lp r). rewrite HL, zout_eqb_refl, E1, E2. reflexivity.
Qed.

Lemma c11_pred_struct nl nr ds ld rds os :
  nr <> 0 ->
  Forall2 (rout ld) rds os ->
  length os * nr = side_fars false ds ->
  ld = side_data true ds ->
  concat rds = side_data false ds ->
  c11_pred nl nr true false ds (concat (map (fun o => o ++ [FAR]) os) ++ [Terminate]) = true.
Proof.
  intros Hnr HF Hlen Hld Hrd.
  assert (Hclean : Forall (fun o => forallb cleanel o = true) os).
  { clear -HF. induction HF as [|rd o rds os Ho HF IH]; constructor; [apply Ho|exact IH]. }
  apply (c11_pred_intro nl nr ds _ os Hnr).
  - apply strip_struct. exact Hclean.
  - apply split_struct. exact Hclean.
  - exact Hlen.
  - intros r Hr.
    assert (Hrr : exists rd, rout ld rd r).
    { clear -HF Hr. induction HF as [|rd o rds os Ho HF IH]; [contradiction|].
      destruct Hr as [<-|Hr]; [eauto|auto]. }
    destruct Hrr as (rd & _ & HL & _ & E1 & E2). rewrite HL, Hld. auto.
  - rewrite <- Hrd. apply (Rp_struct ld). exact HF.
Qed.


(** * Part L: assembling the run *)
Lemma list_sum_ones {A} (g : A -> nat) l : (forall x, In x l -> g x = 1) -> list_sum (map g l) = length l.
Proof.
  induction l as [|x l IH]; intros H; [reflexivity|].
  cbn [map length]. rewrite list_sum_cons, (H x (or_introl eq_refl)), IH; [reflexivity|].
  intros y Hy. apply H. now right.
Qed.

Lemma shape_facts_n nl nr round1 later terms :
  c11_shape_n nl nr round1 later terms = true ->
  rest_ok nl nr round1 /\ sumL cntF round1 = nl /\ sumL cntT round1 = nl /\ sumR cntF round1 = nr /\
  forallb (later_round_ok nr) later = true /\ length terms = nr.
Proof.
  unfold c11_shape_n. intros H. apply andb_true_iff in H as [H _].
  apply andb_true_iff in H as [H Hterms]. apply Nat.eqb_eq in Hterms.
  apply andb_true_iff in H as [H Hlater].
  apply andb_true_iff in H as [H Hright]. apply andb_true_iff in H as [Hsend Hleft].
  rewrite forallb_forall in Hleft, Hright.
  assert (Hs : forall s, s < nl -> side_sender_ok (left_of s round1) = true).
  { intros s Hs. apply Hleft. apply in_seq. lia. }
  assert (Hr : forall s, s < nr -> loop_round_ok (right_of s round1) = true).
  { intros s Hs'. apply Hright. apply in_seq. lia. }
  split; [|split; [|split; [|split; [|split]]]].
  - split; [exact Hsend|]. split; intros s Hlt; left; auto.
  - rewrite (sumL_partition cntF nl nr round1 Hsend), list_sum_ones, seq_length; [reflexivity|].
    intros s Hin. apply in_seq in Hin. apply side_sender_sums. apply Hs. lia.
  - rewrite (sumL_partition cntT nl nr round1 Hsend), list_sum_ones, seq_length; [reflexivity|].
    intros s Hin. apply in_seq in Hin. apply side_sender_sums. apply Hs. lia.
  - rewrite (sumR_partition cntF nl nr round1 Hsend), list_sum_ones, seq_length; [reflexivity|].
    intros s Hin. apply in_seq in Hin. apply loop_round_sums. apply Hr. lia.
  - exact Hlater.
  - exact Hterms.
Qed.

Lemma left_of_no_left s r : no_left r = true -> left_of s r = [].
Proof.
  unfold left_of. induction r as [|[s' b|s' b] r IH]; intros H; [reflexivity|discriminate|].
  cbn [flat_map app]. now apply IH.
Qed.
Lemma senders_ok_n_no_left nl nr r : no_left r = true -> senders_ok_n 0 nr r = true -> senders_ok_n nl nr r = true.
Proof.
  unfold senders_ok_n. induction r as [|[s' b|s' b] r IH]; intros H1 H2; [reflexivity|discriminate|].
  cbn [forallb] in *. apply andb_true_iff in H2 as [H2 H3]. rewrite H2. cbn [andb]. now apply IH.
Qed.

Lemma later_round_facts nl nr r :
  later_round_ok nr r = true -> rest_ok nl nr r /\ no_left r = true /\ sumR cntF r = nr.
Proof.
  unfold later_round_ok. intros H. apply andb_true_iff in H as [H Hright].
  apply andb_true_iff in H as [Hnl Hsend]. rewrite forallb_forall in Hright.
  assert (Hr : forall s, s < nr -> loop_round_ok (right_of s r) = true).
  { intros s Hs'. apply Hright. apply in_seq. lia. }
  pose proof (senders_ok_n_no_left nl nr r Hnl Hsend) as Hsend'.
  split; [|split; [exact Hnl|]].
  - split; [exact Hsend'|]. split.
    + intros s _. right; right. now apply left_of_no_left.
    + intros s Hlt. left. auto.
  - rewrite (sumR_partition cntF nl nr r Hsend'), list_sum_ones, seq_length; [reflexivity|].
    intros s Hin. apply in_seq in Hin. apply loop_round_sums. apply Hr. lia.
Qed.

Lemma later_rounds nl nr C ld :
  nr <> 0 -> C <> [] -> piece (cflat C) nl ld [] 1 0 -> endsF (cflat C) ->
  forall later, forallb (later_round_ok nr) later = true ->
  exists Ts, brun_msgs (Rst nl nr C nr) (concat later) = (Rst nl nr C nr, concat Ts) /\
             Forall2 (wround (nl + nr) ld) Ts (map (side_data false) later).
Proof.
  intros Hnr HC HP HE. induction later as [|r later IH]; intros Hok.
  - exists []. split; [reflexivity|constructor].
  - cbn [forallb] in Hok. apply andb_true_iff in Hok as [Hr Hok].
    destruct (IH Hok) as (Ts & HR & HF).
    destruct (later_round_facts nl nr r Hr) as (Hrok & Hnl & Hsum).
    destruct (later_round_trace nl nr C ld Hnr HC HP HE r Hrok Hnl Hsum) as (T & HRr & HpT & HeT).
    exists (T :: Ts). cbn [concat]. rewrite brun_msgs_app, HRr, HR.
    split; [reflexivity|]. cbn [map]. constructor; [split; assumption|exact HF].
Qed.

Lemma sumR_app f a b : sumR f (a ++ b) = sumR f a + sumR f b.
Proof. induction a as [|[s x|s x] a IH]; cbn [app sumR]; lia. Qed.
Lemma sumR_concat_later nr : forall later,
  forallb (later_round_ok nr) later = true -> sumR cntF (concat later) = length later * nr.
Proof.
  induction later as [|r later IH]; intros H; [reflexivity|].
  cbn [forallb] in H. apply andb_true_iff in H as [H1 H2].
  destruct (later_round_facts 0 nr r H1) as (_ & _ & Hs).
  cbn [concat length]. rewrite sumR_app, Hs, (IH H2). cbn [Nat.mul]. reflexivity.
Qed.
Lemma sumR_terms terms : sumR cntF (map (fun s => DR s [Terminate]) terms) = 0.
Proof. induction terms as [|s t IH]; [reflexivity|]. cbn [map sumR]. rewrite IH. reflexivity. Qed.
Lemma side_data_app left a b : side_data left (a ++ b) = side_data left a ++ side_data left b.
Proof. unfold side_data. now rewrite flat_map_app. Qed.
Lemma side_data_terms left terms : side_data left (map (fun s => DR s [Terminate]) terms) = [].
Proof.
  induction terms as [|s t IH]; [reflexivity|]. cbn [map]. unfold side_data in *. cbn [flat_map].
  rewrite IH. destruct left; reflexivity.
Qed.
Lemma side_data_true_later nr : forall later,
  forallb (later_round_ok nr) later = true -> side_data true (concat later) = [].
Proof.
  induction later as [|r later IH]; intros H; [reflexivity|].
  cbn [forallb] in H. apply andb_true_iff in H as [H1 H2].
  destruct (later_round_facts 0 nr r H1) as (_ & Hnl & _).
  cbn [concat]. rewrite side_data_app, (IH H2). destruct (no_left_facts cntF r Hnl) as [-> _]. reflexivity.
Qed.
Lemma flat_map_concat {A B} (f : A -> list B) ls : flat_map f (concat ls) = concat (map (flat_map f) ls).
Proof. induction ls as [|l ls IH]; [reflexivity|]. cbn [concat map]. now rewrite flat_map_app, IH. Qed.

Lemma Forall2_length {A B} (R : A -> B -> Prop) l1 l2 : Forall2 R l1 l2 -> length l1 = length l2.
Proof. induction 1; cbn [length]; congruence. Qed.

Lemma cflat_terms nl terms :
  cflat (map (fun s => (nl + s, [@Terminate (bin Z Z)])) terms) = repeat Terminate (length terms).
Proof. induction terms as [|s t IH]; [reflexivity|]. unfold cflat in *. cbn [map concat length repeat app]. now rewrite IH. Qed.

(** * T3: any number of loop-side replicas *)
Theorem c11_replay_general :
  forall (nl nr : nat) (round1 : list del) (later : list (list del)) (terms : list nat),
  (1 <= nl)%nat -> (1 <= nr)%nat -> c11_shape_n nl nr round1 later terms = true ->
  c11_pred nl nr true false (c11_deliveries_n round1 later terms)
           (brun nl nr true false (c11_deliveries_n round1 later terms)) = true.
Proof.
  intros nl nr round1 later terms Hnl1 Hnr1 Hshape.
  assert (Hnl : nl <> 0) by lia. assert (Hnr : nr <> 0) by lia.
  destruct (shape_facts_n _ _ _ _ _ Hshape) as (Hok & HsF & HsT & HsR & Hlater & Hterms).
  set (ld := side_data true round1). set (rd1 := side_data false round1).
  (* the trace *)
  destruct (round_trace nl nr false Hnr round1 [] Hok ltac:(discriminate)) as (T1 & C1 & HR1 & HcT & HcC & _).
  rewrite HsF, HsT, HsR in HR1. rewrite HsF, HsR in HcT. rewrite HsF in HcC. cbn [app] in HR1.
  rewrite after_idle_live in HR1 by lia.
  assert (Hb2 : forall n, n <> 0 -> b2n n = 1)
    by (intros n Hn; unfold b2n; destruct (Nat.eqb_spec n 0); [contradiction|reflexivity]).
  rewrite (Hb2 nl Hnl) in HcT, HcC. rewrite (Hb2 nr Hnr) in HcT.
  destruct HcT as (HpT & _ & HeT). destruct HcC as (HpC & _ & HeC).
  specialize (HeT ltac:(lia)). specialize (HeC Hnl).
  assert (HC1 : C1 <> []).
  { intros ->. destruct HeC as [X' HX]. cbn in HX. destruct X'; discriminate. }
  destruct (later_rounds nl nr C1 ld Hnr HC1 HpC HeC later Hlater) as (Ts & HR2 & HF2).
  destruct (final_trace nl nr C1 Hnl Hnr terms nr Hterms Hnr) as (b' & rest & HR3).
  set (Tf := map (fun s => (nl + s, [@Terminate (bin Z Z)])) terms ++ [(0, repeat Terminate nl)]).
  assert (Htrace : snd (brun_msgs (binit nl nr true false) (c11_deliveries_n round1 later terms))
                   = concat (T1 :: Ts) ++ Tf ++ rest).
  { unfold c11_deliveries_n. rewrite brun_msgs_app.
    change (binit nl nr true false)
      with (mkB (mkL nl nl nl [] false (length (@nil msg)) []) (mkR nr nr nr []) false).
    rewrite HR1. rewrite brun_msgs_app, HR2, HR3. unfold Tf.
    cbn [snd concat]. rewrite <- !app_assoc. reflexivity. }
  (* the Start over the trace *)
  unfold brun. rewrite brun_trace, Htrace. clear Htrace.
  assert (HW1 : wround (nl + nr) ld T1 rd1) by (split; assumption).
  assert (HS0 : SS (nl + nr) (nl + nr) (nl + nr) (start_init (nl + nr))).
  { unfold SS, start_init. cbn. auto. }
  destruct (srun_rounds (nl + nr) ld (nl + nr) (T1 :: Ts) (rd1 :: map (side_data false) later)
              (start_init (nl + nr)) (Forall2_cons _ _ HW1 HF2) HS0 ltac:(lia))
    as (st1 & os & Hrun1 & HS1 & Hos).
  rewrite !flat_app, srun_app, Hrun1, srun_app.
  assert (HN : nl + nr = S (nl + nr - 1)) by lia. rewrite HN in HS1.
  destruct (srun_terms (nl + nr - 1) (flat Tf) _ _ st1 HS1) as (st2 & Hrun2 & Hd2).
  { rewrite map_snd_flat. unfold Tf. rewrite cflat_app, cflat_terms, Hterms.
    unfold cflat. cbn [map concat snd]. rewrite app_nil_r, <- repeat_app. f_equal. lia. }
  rewrite Hrun2, (srun_done _ _ Hd2). cbn [snd app].
  (* the predicate *)
  apply (c11_pred_struct nl nr _ ld (rd1 :: map (side_data false) later) os Hnr Hos).
  - rewrite <- (Forall2_length _ _ _ Hos). cbn [length]. rewrite map_length.
    rewrite side_fars_R. unfold c11_deliveries_n. rewrite !sumR_app, HsR, sumR_terms.
    rewrite (sumR_concat_later _ _ Hlater). cbn [Nat.mul]. lia.
  - unfold c11_deliveries_n. rewrite !side_data_app, side_data_terms.
    rewrite (side_data_true_later _ _ Hlater). cbn [app]. now rewrite app_nil_r.
  - unfold c11_deliveries_n. rewrite !side_data_app, side_data_terms. cbn [concat].
    rewrite app_nil_r. f_equal. unfold side_data. rewrite flat_map_concat. reflexivity.
Qed.

(** * T1: one loop-side replica, in the original formulation, as an instance *)
Lemma senders_ok_conv nl ds : senders_ok nl ds = true -> senders_ok_n nl 1 ds = true.
Proof.
  unfold senders_ok, senders_ok_n. induction ds as [|[s b|s b] ds IH]; cbn [forallb]; intros H;
    [reflexivity| |]; apply andb_true_iff in H as [H1 H2]; rewrite (IH H2), andb_true_r.
  - exact H1.
  - apply Nat.eqb_eq in H1. subst. reflexivity.
Qed.
Lemma right_of_0_all nl ds : senders_ok nl ds = true -> right_of 0 ds = right_all ds.
Proof.
  unfold senders_ok, right_of, right_all. induction ds as [|[s b|s b] ds IH]; cbn [forallb flat_map]; intros H;
    [reflexivity| |]; apply andb_true_iff in H as [H1 H2]; rewrite (IH H2); [reflexivity|].
  apply Nat.eqb_eq in H1. subst. reflexivity.
Qed.
Lemma later_round_conv bs : loop_round_ok bs = true -> later_round_ok 1 (map (DR 0) bs) = true.
Proof.
  intros H. unfold later_round_ok.
  assert (H1 : no_left (map (DR 0) bs) = true) by (clear H; induction bs; [reflexivity|exact IHbs]).
  assert (H2 : senders_ok_n 0 1 (map (DR 0) bs) = true) by (clear H H1; induction bs; [reflexivity|exact IHbs]).
  assert (H3 : right_of 0 (map (DR 0) bs) = bs).
  { clear. unfold right_of. induction bs as [|b bs IH]; [reflexivity|]. cbn [map flat_map]. change (0 =? 0) with true. cbn [app]. f_equal. exact IH. }
  rewrite H1, H2. cbn [seq forallb andb]. now rewrite H3, H.
Qed.

Theorem c11_replay : forall (nl : nat) (round1 : list del) (later : list (list (list (elem Z)))),
  (1 <= nl)%nat -> c11_shape nl round1 later = true ->
  c11_pred nl 1 true false (c11_deliveries round1 later)
           (brun nl 1 true false (c11_deliveries round1 later)) = true.
Proof.
  intros nl round1 later Hnl Hshape.
  assert (Hd : c11_deliveries round1 later = c11_deliveries_n round1 (map (map (DR 0)) later) [0]).
  { unfold c11_deliveries, c11_deliveries_n. now rewrite concat_map. }
  rewrite Hd. apply c11_replay_general; [exact Hnl|lia|].
  unfold c11_shape in Hshape. apply andb_true_iff in Hshape as [H Hlater].
  apply andb_true_iff in H as [H Hright]. apply andb_true_iff in H as [Hsend Hleft].
  unfold c11_shape_n. rewrite (senders_ok_conv _ _ Hsend), Hleft. cbn [seq forallb andb length Nat.eqb Nat.ltb Nat.leb].
  rewrite (right_of_0_all _ _ Hsend), Hright. cbn [andb]. rewrite !andb_true_r.
  clear -Hlater. induction later as [|bs later IH]; [reflexivity|].
  cbn [forallb map] in *. apply andb_true_iff in Hlater as [H1 H2].
  now rewrite (later_round_conv _ H1), (IH H2).
Qed.

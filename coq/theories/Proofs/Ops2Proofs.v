(** Proofs about Model/Ops2.v: every stateful element-wise flat map (filter_map, flatten,
    inspect, the rich_* family, keyed forms) preserves the stream grammar (C05) and the
    watermark contract (C06) and computes the sequential scan of its closure over the data in
    arrival order (C16); add_timestamps / drop_timestamps. *)
From Noir Require Import Base.Elem Model.Ops Model.Ops2 Proofs.StartSpec Proofs.WinCountSpec
  Proofs.OpsSpec Proofs.OpsProofs.
Open Scope Z_scope.

(** * the generic machine *)
Section SFlat.
  Context {S A B : Type}.
  Variable (f : S -> A -> S * list B) (s0 : S).

  Lemma sflat_shape : marker_shape (sflat_machine f s0) (fun _ => True).
  Proof.
    constructor.
    - intros s e He. destruct e; try discriminate; cbn [sflat_machine mstep sflat_step];
        try reflexivity.
      + destruct (f s v) as [s1 os]. cbn [snd]. apply nm_map. reflexivity.
      + destruct (f s v) as [s1 os]. cbn [snd]. apply nm_map. reflexivity.
    - intros s. exists []. repeat split.
    - reflexivity.
  Qed.

  Lemma sflat_elementwise : wm_elementwise (sflat_machine f s0).
  Proof.
    intros s e last He. cbn [sflat_machine mstep].
    destruct e; cbn [sflat_step]; try destruct (f s v) as [s1 os];
      cbn [snd wm_safe_from fold_left wm_next wm_ok] in *; rewrite ?He; try (split; reflexivity).
    - split; [|apply (fold_left_wm_next_item (fun x => x))].
      rewrite <- (app_nil_r (map Item os)). rewrite data_ok_safe; [reflexivity|].
      apply Forall_forall. intros e Hin. apply in_map_iff in Hin as (x & <- & _). exact I.
    - split; [|apply (fold_left_wm_next_tst (fun x => x))].
      rewrite <- (app_nil_r (map _ os)). rewrite data_ok_safe; [reflexivity|].
      apply Forall_forall. intros e Hin. apply in_map_iff in Hin as (x & <- & _).
      cbn [data_ok]. destruct last; cbn [olt]; [apply Z.ltb_lt; exact He|exact I].
  Qed.

  Theorem sflat_wf : forall l, wf l = true -> wf (run (sflat_machine f s0) l) = true.
  Proof. exact (wf_preserved _ _ sflat_shape). Qed.

  Theorem sflat_wm_safe : forall l, wm_safe l = true -> wm_safe (run (sflat_machine f s0) l) = true.
  Proof. exact (wm_elementwise_safe _ sflat_elementwise). Qed.

  Lemma payloads_app {X} (p q : list (elem X)) : payloads (p ++ q) = payloads p ++ payloads q.
  Proof.
    induction p as [|e p IH]; [reflexivity|]. cbn [app payloads].
    destruct (payload e); cbn [app]; now rewrite IH.
  Qed.
  Lemma payloads_map_item {X} (xs : list X) : payloads (map Item xs) = xs.
  Proof. induction xs as [|x xs IH]; [reflexivity|]. cbn [map payloads payload]. now rewrite IH. Qed.
  Lemma payloads_map_tst {X} t (xs : list X) : payloads (map (fun x => Tst x t) xs) = xs.
  Proof. induction xs as [|x xs IH]; [reflexivity|]. cbn [map payloads payload]. now rewrite IH. Qed.

  (** the data that leaves is the sequential scan of the closure over the data that enters:
      nothing is lost, duplicated or reordered, whatever control elements are interleaved *)
  Lemma sflat_payloads_from : forall l s,
    payloads (snd (run_from (sflat_machine f s0) s l)) = sscan f s (payloads l).
  Proof.
    induction l as [|e l IH]; intros s; [reflexivity|].
    rewrite snd_run_from_cons, payloads_app.
    destruct e; cbn [sflat_machine mstep sflat_step payloads payload sscan];
      try (cbn [fst snd payloads payload app]; apply IH).
    - destruct (f s v) as [s1 os]. cbn [fst snd]. rewrite payloads_map_item. f_equal. apply IH.
    - destruct (f s v) as [s1 os]. cbn [fst snd]. rewrite payloads_map_tst. f_equal. apply IH.
  Qed.
  Theorem sflat_payloads : forall l,
    payloads (run (sflat_machine f s0) l) = sscan f s0 (payloads l).
  Proof. intros l. apply sflat_payloads_from. Qed.
End SFlat.

(** * instances: the stateless forms are the iterator adaptors of the same name *)
Lemma sscan_stateless {A B} (g : A -> list B) (l : list A) :
  sscan (fun (_ : unit) v => (tt, g v)) tt l = flat_map g l.
Proof. induction l as [|v l IH]; [reflexivity|]. cbn [sscan flat_map]. now rewrite IH. Qed.

Theorem filter_map_payloads {A B} (g : A -> option B) (l : list (elem A)) :
  payloads (run (filter_map_machine g) l) = flat_map (fun v => olist (g v)) (payloads l).
Proof. unfold filter_map_machine. rewrite sflat_payloads. apply (sscan_stateless (fun v => olist (g v))). Qed.
Theorem flatten_payloads {B} (l : list (elem (list B))) :
  payloads (run flatten_machine l) = concat (payloads l).
Proof.
  unfold flatten_machine. rewrite sflat_payloads, (sscan_stateless (fun v => v)).
  rewrite flat_map_concat_map, map_id. reflexivity.
Qed.
Theorem inspect_identity {A} (l : list (elem A)) : run inspect_machine l = l.
Proof.
  unfold run. generalize (minit (@inspect_machine A)). induction l as [|e l IH]; intros s; [reflexivity|].
  rewrite snd_run_from_cons. destruct e; cbn [inspect_machine sflat_machine mstep sflat_step fst snd map app];
    now rewrite IH.
Qed.

(** keyed forms keep the key of every element and never mix the states of two keys: the
    outputs for key k are the scan of the closure over k's values *)
Fixpoint vals_of {A} (k : Z) (l : list (Z * A)) : list A :=
  match l with
  | [] => []
  | (k', v) :: l' => if Z.eqb k k' then v :: vals_of k l' else vals_of k l'
  end.
Lemma vals_of_app {A} k (p q : list (Z * A)) : vals_of k (p ++ q) = vals_of k p ++ vals_of k q.
Proof.
  induction p as [|[k' v] p IH]; [reflexivity|]. cbn [app vals_of].
  destruct (Z.eqb k k'); cbn [app]; now rewrite IH.
Qed.
Lemma vals_of_map_pair_same {B} k (os : list B) : vals_of k (map (pair k) os) = os.
Proof. induction os as [|o os IH]; [reflexivity|]. cbn [map vals_of]. rewrite Z.eqb_refl. now rewrite IH. Qed.
Lemma vals_of_map_pair_other {B} k k' (os : list B) : Z.eqb k k' = false -> vals_of k (map (pair k') os) = [].
Proof. intros H. induction os as [|o os IH]; [reflexivity|]. cbn [map vals_of]. now rewrite H. Qed.

Lemma aget_aupd_same {V} k (u : option V -> V) m : aget k (aupd k u m) = Some (u (aget k m)).
Proof.
  induction m as [|[k' v] m IH]; cbn [aupd aget].
  - now rewrite Z.eqb_refl.
  - destruct (Z.eqb k k') eqn:E; cbn [aget].
    + now rewrite Z.eqb_refl.
    + rewrite E. exact IH.
Qed.
Lemma aget_aupd_other {V} k k' (u : option V -> V) m : Z.eqb k k' = false -> aget k (aupd k' u m) = aget k m.
Proof.
  intros H. induction m as [|[k2 v] m IH]; cbn [aupd aget].
  - now rewrite H.
  - destruct (Z.eqb k' k2) eqn:E; cbn [aget].
    + apply Z.eqb_eq in E. subst k2. now rewrite H.
    + destruct (Z.eqb k k2); [reflexivity|exact IH].
Qed.

Section Keyed.
  Context {S A B : Type}.
  Variable (f : S -> Z -> A -> S * list B) (s0 : S).

  Theorem keyed_sflat_per_key : forall (l : list (Z * A)) (m : list (Z * S)) (k : Z),
    vals_of k (sscan (keyed_lift f s0) m l)
    = sscan (fun s v => f s k v) (match aget k m with Some s => s | None => s0 end) (vals_of k l).
  Proof.
    induction l as [|[k' v] l IH]; intros m k; [reflexivity|].
    cbn [sscan keyed_lift vals_of].
    destruct (f (match aget k' m with Some s => s | None => s0 end) k' v) as [s1 os] eqn:Ef.
    rewrite vals_of_app, IH.
    destruct (Z.eqb k k') eqn:E.
    - apply Z.eqb_eq in E. subst k'. cbn [sscan]. rewrite Ef, vals_of_map_pair_same.
      now rewrite aget_aupd_same.
    - rewrite vals_of_map_pair_other by exact E. cbn [app]. now rewrite aget_aupd_other by exact E.
  Qed.

  Theorem keyed_sflat_payloads_per_key : forall (l : list (elem (Z * A))) (k : Z),
    vals_of k (payloads (run (keyed_sflat_machine f s0) l))
    = sscan (fun s v => f s k v) s0 (vals_of k (payloads l)).
  Proof.
    intros l k. unfold keyed_sflat_machine. rewrite sflat_payloads.
    apply (keyed_sflat_per_key (payloads l) [] k).
  Qed.
End Keyed.

(** * add_timestamps *)
Definition no_ts {A} (l : list (elem A)) : Prop :=
  forall e, In e l -> match e with Tst _ _ | Wm _ => False | _ => True end.

Lemma no_ts_cons {A} (e : elem A) l : no_ts (e :: l) ->
  match e with Tst _ _ | Wm _ => False | _ => True end /\ no_ts l.
Proof. intros H. split; [apply H; now left|]. intros x Hx. apply H. now right. Qed.

Section AddTs.
  Context {A : Type}.
  Variable (tg : A -> Z) (wg : A -> Z -> option Z).

  Definition add_ts_out1 (e : elem A) : list (elem A) :=
    match add_ts_out tg wg e with Some o => o | None => [] end.

  (** on an input without timestamps the operator never panics and works element by element *)
  Lemma add_ts_run : forall l, no_ts l -> run (add_ts_machine tg wg) l = flat_map add_ts_out1 l.
  Proof.
    unfold run. cbn [add_ts_machine minit].
    induction l as [|e l IH]; intros H; [reflexivity|].
    apply no_ts_cons in H as [He Hl]. rewrite snd_run_from_cons. cbn [flat_map].
    destruct e; try contradiction;
      cbn [add_ts_machine mstep add_ts_step add_ts_out add_ts_out1 fst snd]; f_equal; apply IH; exact Hl.
  Qed.

  Lemma add_ts_out1_nm e : nonmarker e = true -> nm (add_ts_out1 e).
  Proof. destruct e; try discriminate; intros _; cbn [add_ts_out1 add_ts_out]; try reflexivity.
    destruct (wg v (tg v)); reflexivity. Qed.

  Lemma wf_from_flat_map_add_ts : forall l b, no_ts l ->
    wf_from b l = true -> wf_from b (flat_map add_ts_out1 l) = true.
  Proof.
    induction l as [|e l IH]; intros b Hn H; [exact H|].
    apply no_ts_cons in Hn as [He Hl]. cbn [flat_map].
    destruct e; try contradiction.
    - rewrite wf_from_nm_app by (apply add_ts_out1_nm; reflexivity).
      rewrite wf_from_nm_cons in H by reflexivity.
      cbn [add_ts_out1 add_ts_out]. apply IH; assumption.
    - cbn [add_ts_out1 add_ts_out app]. rewrite wf_from_nm_cons in * by reflexivity. apply IH; assumption.
    - cbn [add_ts_out1 add_ts_out app wf_from] in *. apply andb_true_iff in H as [Hb H].
      rewrite Hb. destruct l; [reflexivity|discriminate].
    - cbn [add_ts_out1 add_ts_out app wf_from] in *. apply IH; assumption.
  Qed.

  Theorem add_ts_wf : forall l, no_ts l -> wf l = true -> wf (run (add_ts_machine tg wg) l) = true.
  Proof. intros l Hn H. rewrite add_ts_run by exact Hn. apply wf_from_flat_map_add_ts; assumption. Qed.

  Theorem add_ts_payloads : forall l, no_ts l -> payloads (run (add_ts_machine tg wg) l) = payloads l.
  Proof.
    intros l Hn. rewrite add_ts_run by exact Hn.
    induction l as [|e l IH]; [reflexivity|]. apply no_ts_cons in Hn as [He Hl].
    cbn [flat_map]. rewrite payloads_app, IH by exact Hl.
    destruct e; try contradiction; cbn [add_ts_out1 add_ts_out payloads payload]; try reflexivity.
    destruct (wg v (tg v)); reflexivity.
  Qed.

  (** every data element leaves with the timestamp the user function assigns to it *)
  Theorem add_ts_stamps : forall l, no_ts l ->
    tdata_of (run (add_ts_machine tg wg) l) = map (fun v => (v, tg v)) (payloads l).
  Proof.
    intros l Hn. rewrite add_ts_run by exact Hn.
    induction l as [|e l IH]; [reflexivity|]. apply no_ts_cons in Hn as [He Hl].
    cbn [flat_map]. destruct e; try contradiction;
      cbn [add_ts_out1 add_ts_out app tdata_of payloads payload map]; try (apply IH; exact Hl).
    destruct (wg v (tg v)); cbn [app tdata_of]; f_equal; apply IH; exact Hl.
  Qed.

  (** The watermark contract on the output is the USER's: with timestamps that increase
      strictly within a round and the generator "the element's timestamp minus a fixed lag,
      or nothing", the output respects it. *)
  Fixpoint inc_from (last : option Z) (l : list (elem A)) : bool :=
    match l with
    | [] => true
    | Item v :: l' => match last with Some u => u <? tg v | None => true end && inc_from (Some (tg v)) l'
    | FAR :: l' => inc_from None l'
    | _ :: l' => inc_from last l'
    end.

  Variable d : Z.
  Hypothesis d_nonneg : 0 <= d.
  Hypothesis wg_lag : forall v t w, wg v t = Some w -> w = t - d.

  Lemma add_ts_wm_from : forall l last lo, no_ts l -> inc_from last l = true ->
    (forall w, lo = Some w -> match last with Some u => w <= u - d | None => False end) ->
    wm_safe_from lo (flat_map add_ts_out1 l) = true.
  Proof.
    induction l as [|e l IH]; intros last lo Hn Hi Hlo; [reflexivity|].
    apply no_ts_cons in Hn as [He Hl]. cbn [flat_map].
    destruct e; try contradiction; cbn [add_ts_out1 add_ts_out inc_from] in *.
    - apply andb_true_iff in Hi as [Hlt Hi].
      assert (Hok : match lo with Some w => w < tg v - d | None => True end).
      { destruct lo as [w|]; [|exact I]. specialize (Hlo w eq_refl).
        destruct last as [u|]; [|contradiction]. apply Z.ltb_lt in Hlt. lia. }
      cbn [app wm_safe_from].
      assert (Hts : match lo with Some w => w <? tg v | None => true end = true).
      { destruct lo as [w|]; [|reflexivity]. apply Z.ltb_lt. lia. }
      rewrite Hts. cbn [andb].
      destruct (wg v (tg v)) as [w'|] eqn:Ew.
      + apply wg_lag in Ew. subst w'. cbn [app wm_safe_from].
        assert (Hw : match lo with Some w => w <? tg v - d | None => true end = true).
        { destruct lo as [w|]; [|reflexivity]. apply Z.ltb_lt. exact Hok. }
        rewrite Hw. cbn [andb]. apply (IH (Some (tg v)) (Some (tg v - d))); [exact Hl|exact Hi|].
        intros w E. injection E as <-. lia.
      + cbn [app]. apply (IH (Some (tg v)) lo); [exact Hl|exact Hi|].
        intros w E. subst lo. lia.
    - cbn [app wm_safe_from]. apply (IH last lo); assumption.
    - cbn [app wm_safe_from]. apply (IH last lo); assumption.
    - cbn [app wm_safe_from]. apply (IH None None); [exact Hl|exact Hi|]. intros w E. discriminate.
  Qed.

  Theorem add_ts_wm_safe : forall l, no_ts l -> inc_from None l = true ->
    wm_safe (run (add_ts_machine tg wg) l) = true.
  Proof.
    intros l Hn Hi. rewrite add_ts_run by exact Hn.
    apply (add_ts_wm_from l None None Hn Hi). intros w E. discriminate.
  Qed.
End AddTs.

(** without the monotonicity of the user's timestamps the contract fails — it is not the
    operator that enforces it *)
Lemma add_ts_unsafe_when_not_increasing :
  wm_safe (run (add_ts_machine (fun v : Z => v) (fun _ t => Some t)) [Item 5; Item 3]) = false.
Proof. vm_compute. reflexivity. Qed.

(** * drop_timestamps *)
Lemma drop_ts_shape {A} : marker_shape (@drop_ts_machine A) (fun _ => True).
Proof.
  constructor.
  - intros s e He. destruct e; try discriminate; reflexivity.
  - intros s. exists []. repeat split.
  - reflexivity.
Qed.
Theorem drop_ts_wf {A} : forall l : list (elem A), wf l = true -> wf (run drop_ts_machine l) = true.
Proof. exact (wf_preserved _ _ drop_ts_shape). Qed.

Lemma drop_ts_from {A} : forall (l : list (elem A)) s,
  snd (run_from drop_ts_machine s l)
  = flat_map (fun e => match e with Wm _ => [] | Tst v _ => [Item v] | e => [e] end) l.
Proof.
  induction l as [|e l IH]; intros s; [reflexivity|].
  rewrite snd_run_from_cons. cbn [flat_map drop_ts_machine mstep drop_ts_step fst snd]. f_equal. apply IH.
Qed.

Theorem drop_ts_no_ts {A} (l : list (elem A)) : no_ts (run drop_ts_machine l).
Proof.
  unfold run. rewrite drop_ts_from. intros e Hin. apply in_flat_map in Hin as (x & _ & Hx).
  destruct x; cbn in Hx; try destruct Hx as [<-|[]]; try exact I; contradiction.
Qed.
Theorem drop_ts_payloads {A} (l : list (elem A)) : payloads (run drop_ts_machine l) = payloads l.
Proof.
  unfold run. rewrite drop_ts_from. induction l as [|e l IH]; [reflexivity|].
  cbn [flat_map]. rewrite payloads_app, IH. destruct e; reflexivity.
Qed.
Lemma no_ts_wm_safe_from {A} (l : list (elem A)) : no_ts l -> forall lo, wm_safe_from lo l = true.
Proof.
  induction l as [|e l IH]; intros H lo; [reflexivity|]. apply no_ts_cons in H as [He Hl].
  destruct e; try contradiction; cbn [wm_safe_from]; apply IH; exact Hl.
Qed.
Theorem drop_ts_wm_safe {A} (l : list (elem A)) : wm_safe (run drop_ts_machine l) = true.
Proof. apply no_ts_wm_safe_from. apply drop_ts_no_ts. Qed.

(** Statement-level definitions for the source theorems (C15). *)
From Noir Require Export Model.SrcRange Model.SrcFile.
From Coq Require Import ZArith List Lia Bool.
Import ListNotations.
Open Scope Z_scope.

(** the ten supported integer types *)
Definition ty_u8 := {| ty_lo := 0; ty_hi := 2^8 - 1 |}.
Definition ty_u16 := {| ty_lo := 0; ty_hi := 2^16 - 1 |}.
Definition ty_u32 := {| ty_lo := 0; ty_hi := 2^32 - 1 |}.
Definition ty_i8 := {| ty_lo := - 2^7; ty_hi := 2^7 - 1 |}.
Definition ty_i16 := {| ty_lo := - 2^15; ty_hi := 2^15 - 1 |}.
Definition ty_i32 := {| ty_lo := - 2^31; ty_hi := 2^31 - 1 |}.
Definition ty_i64 := {| ty_lo := i64_min; ty_hi := i64_max |}.
(** usize/isize on a 64-bit target; for usize only values below 2^63 survive `as i64` *)
Definition ty_usize63 := {| ty_lo := 0; ty_hi := i64_max |}.

(** a type whose values fit i64 (so `as i64` is the identity) *)
Definition fits_i64 (t : ity) : Prop := i64_min <= ty_lo t /\ ty_hi t <= i64_max.

(** the chunks of all replicas are a partition of [lo, hi): no replica panics, and every
    integer of the range lies in exactly one chunk, nothing outside the range in any *)
Definition partitions (gen : Z -> option (Z * Z)) (lo hi peers : Z) : Prop :=
  (forall i, 0 <= i < peers -> exists r, gen i = Some r) /\
  (forall x, lo <= x < hi ->
     exists i, 0 <= i < peers /\ (exists r, gen i = Some r /\ in_range r x) /\
       forall j r', 0 <= j < peers -> gen j = Some r' -> in_range r' x -> j = i) /\
  (forall i r x, 0 <= i < peers -> gen i = Some r -> in_range r x -> lo <= x < hi).

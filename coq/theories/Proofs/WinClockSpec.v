(** Statement-level definitions for C14 (session / processing-time windows). *)
From Noir Require Export Base.Elem Model.WinCount Model.WindowOp Model.WinClock Proofs.WinCountSpec.
Open Scope Z_scope.

Section Defs.
  Context {A B C : Type}.
  Variable (acc0 : B) (proc : B -> A -> B) (out : B -> C).

  (** a clocked input: (reading of the clock, element) *)
  Definition cin : Type := (Z * elem A)%type.

  (** payloads of the data elements, in arrival order *)
  Definition cdata (l : list cin) : list A := payloads (map snd l).

  (** clock readings never go back (`Instant::now()` is monotone) *)
  Fixpoint clock_mono (last : Z) (l : list cin) : Prop :=
    match l with
    | [] => True
    | (t, _) :: l' => last <= t /\ clock_mono t l'
    end.

  (** the result a window must give for the elements it contains *)
  Definition wfold (g : list A) : wres C := (out (fold_left proc g acc0), None).

  (** [segs] cuts [xs] into consecutive non-empty pieces *)
  Definition is_partition (xs : list A) (segs : list (list A)) : Prop :=
    concat segs = xs /\ Forall (fun g => g <> []) segs.

  (** sub-list of [xs] selected by strictly increasing positions *)
  Definition pick (xs : list A) (idx : list nat) : list A :=
    flat_map (fun i => match nth_error xs i with Some x => [x] | None => [] end) idx.
  Fixpoint increasing (l : list nat) : Prop :=
    match l with
    | a :: ((b :: _) as l') => (a < b)%nat /\ increasing l'
    | _ => True
    end.
  (** [groups] covers every position of [xs] between once and [bound] times *)
  Definition covers (n : nat) (groups : list (list nat)) (bound : Z) : Prop :=
    Forall (fun g => g <> [] /\ increasing g /\ Forall (fun i => (i < n)%nat) g) groups /\
    forall i, (i < n)%nat ->
      let c := Z.of_nat (length (filter (fun g => existsb (Nat.eqb i) g) groups)) in
      1 <= c <= bound.

  (** no end-of-round marker inside *)
  Definition cno_end (l : list cin) : Prop :=
    forall t e, In (t, e) l -> e <> FAR /\ e <> Terminate.
End Defs.

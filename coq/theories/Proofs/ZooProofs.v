(** The model of the operator zoo (Corr/ZooCorr.v, [zoo_machine]: a composition of push
    machines over stream elements) computes, on the payloads, exactly the independent
    iterator-chain oracle [zoo_spec] — for EVERY chain of operators that does not contain
    add_timestamps, every input (any control elements, any number of rounds). So the two sides
    of the correspondence check (element-wise comparison with the model, value-wise comparison
    with the oracle) are provably two views of one semantics. *)
From Noir Require Import Base.Elem Model.Ops Model.Ops2 Proofs.OpsProofs Proofs.Ops2Proofs Corr.ZooCorr.
Open Scope Z_scope.

(** a machine whose data outputs depend on the current element only *)
Lemma pointwise_payloads {A B} (M : machine (elem A) (elem B)) (g : A -> list B) :
  (forall s e, payloads (snd (mstep M s e)) = match payload e with Some v => g v | None => [] end) ->
  forall l s, payloads (snd (run_from M s l)) = flat_map g (payloads l).
Proof.
  intros H. induction l as [|e l IH]; intros s; [reflexivity|].
  rewrite snd_run_from_cons, payloads_app, H, IH.
  cbn [payloads]. destruct (payload e); reflexivity.
Qed.

Lemma map_payloads {A B} (f : A -> B) l : payloads (run (map_machine f) l) = map f (payloads l).
Proof.
  unfold run. rewrite (pointwise_payloads (map_machine f) (fun v => [f v])).
  - rewrite flat_map_concat_map. induction (payloads l) as [|v r IH]; [reflexivity|]. cbn. now f_equal.
  - intros s e. destruct e; reflexivity.
Qed.
Lemma filter_payloads {A} (p : A -> bool) l : payloads (run (filter_machine p) l) = filter p (payloads l).
Proof.
  unfold run. rewrite (pointwise_payloads (filter_machine p) (fun v => if p v then [v] else [])).
  - induction (payloads l) as [|v r IH]; [reflexivity|]. cbn [flat_map filter]. destruct (p v); cbn [app]; now rewrite IH.
  - intros s e. destruct e; cbn [filter_machine mstep snd payload]; try reflexivity; destruct (p v); reflexivity.
Qed.
Lemma flat_map_payloads {A B} (g : A -> list B) l : payloads (run (flat_map_machine g) l) = flat_map g (payloads l).
Proof.
  unfold run. apply (pointwise_payloads (flat_map_machine g) g).
  intros s e. destruct e; cbn [flat_map_machine mstep snd payload]; try reflexivity.
  - apply payloads_map_item.
  - apply payloads_map_tst.
Qed.

Lemma flat_map_if_map_filter {A B} (p : A -> bool) (h : A -> B) (l : list A) :
  flat_map (fun v => if p v then [h v] else []) l = map h (filter p l).
Proof.
  induction l as [|v l IH]; [reflexivity|]. cbn [flat_map filter]. destruct (p v); cbn [app map]; now rewrite IH.
Qed.

(** scans of the harness closures *)
Lemma sscan_sum : forall l s,
  sscan (fun s v => let '(s1, o) := f_sum s v in (s1, [o])) s l = running_sum s l.
Proof. induction l as [|v l IH]; intros s; [reflexivity|]. cbn [sscan running_sum f_sum app]. now rewrite IH. Qed.
Lemma sscan_cnt_flat : forall l c, sscan f_cnt_flat c l = cnt_flat c l.
Proof. induction l as [|v l IH]; intros c; [reflexivity|]. cbn [sscan cnt_flat f_cnt_flat]. now rewrite IH. Qed.
Lemma sscan_cnt_filter m : forall l c,
  sscan (fun s v => let '(s1, o) := f_cnt_filter m s v in (s1, olist o)) c l = cnt_filter m c l.
Proof.
  induction l as [|v l IH]; intros c; [reflexivity|]. cbn [sscan cnt_filter f_cnt_filter].
  rewrite IH. destruct (Z.eqb _ 0); reflexivity.
Qed.

(** keyed scans against the arrival-order oracle *)
Lemma map_snd_pair {B} (k : Z) (os : list B) : map snd (map (pair k) os) = os.
Proof. induction os as [|o os IH]; [reflexivity|]. cbn. now f_equal. Qed.

Lemma keyed_scan_oracle {S} (key : Z -> Z) (f f' : S -> Z -> Z -> S * list Z) (s0 : S) :
  (forall s k v, f s k v = f' s k v) ->
  forall l st, map snd (sscan (keyed_lift f s0) st (map (fun v => (key v, v)) l))
             = per_key_scan key f' s0 st l.
Proof.
  intros E. induction l as [|v l IH]; intros st; [reflexivity|].
  cbn [map sscan keyed_lift per_key_scan]. rewrite E.
  destruct (f' _ (key v) v) as [s1 os]. rewrite map_app, map_snd_pair, IH. reflexivity.
Qed.
Lemma keyed_stateless_oracle (key : Z -> Z) (g : Z -> Z -> list Z) :
  forall l st, map snd (sscan (keyed_lift (fun (_ : unit) k v => (tt, g k v)) tt) st (map (fun v => (key v, v)) l))
             = flat_map (fun v => g (key v) v) l.
Proof.
  induction l as [|v l IH]; intros st; [reflexivity|].
  cbn [map sscan keyed_lift flat_map]. rewrite map_app, map_snd_pair, IH. reflexivity.
Qed.

Lemma keyed_payloads {S} (m : Z) (f : S -> Z -> Z -> S * list Z) (s0 : S) l :
  payloads (run (keyed m (keyed_sflat_machine f s0)) l)
  = map snd (sscan (keyed_lift f s0) [] (map (fun v => (Z.modulo v m, v)) (payloads l))).
Proof.
  unfold keyed, drop_key_machine. rewrite !run_compose, map_payloads. f_equal.
  unfold keyed_sflat_machine. rewrite sflat_payloads. f_equal.
  unfold key_by_machine. apply map_payloads.
Qed.

Definition is_add_ts (o : zop) : bool := match o with ZAddTs _ _ _ _ => true | _ => false end.

Theorem zop_sound (o : zop) : is_add_ts o = false ->
  forall l, payloads (run (zop_machine o) l) = zop_spec o (payloads l).
Proof.
  intros Ho l. destruct o; try discriminate; cbn [zop_machine zop_spec].
  - apply map_payloads.
  - apply filter_payloads.
  - apply flat_map_payloads.
  - rewrite filter_map_payloads.
    rewrite <- (flat_map_if_map_filter (fun v => nz v m) (fun v => v + a)).
    apply flat_map_ext. intros v. destruct (nz v m); reflexivity.
  - rewrite run_compose, flatten_payloads, map_payloads. symmetry. apply flat_map_concat_map.
  - now rewrite inspect_identity.
  - unfold rich_map1_machine. rewrite sflat_payloads. apply sscan_sum.
  - unfold rich_flat_map1_machine. rewrite sflat_payloads. apply sscan_cnt_flat.
  - unfold rich_filter_map1_machine. rewrite sflat_payloads. apply sscan_cnt_filter.
  - rewrite keyed_payloads. apply keyed_scan_oracle. reflexivity.
  - rewrite keyed_payloads. apply (keyed_stateless_oracle (fun v => Z.modulo v m) (fun k v => rep (v + k) r)).
  - rewrite keyed_payloads.
    rewrite (keyed_stateless_oracle (fun v => Z.modulo v m) (fun k v => if nz v (m + 1) then [v + a + k] else [])).
    apply (flat_map_if_map_filter (fun v => nz v (m + 1)) (fun v => v + a + Z.modulo v m)).
  - rewrite keyed_payloads. apply keyed_scan_oracle. reflexivity.
  - rewrite keyed_payloads. apply keyed_scan_oracle.
    intros s k v. cbn [f_cnt_filter]. destruct (Z.eqb _ 0); reflexivity.
  - rewrite keyed_payloads. apply (keyed_stateless_oracle (fun v => Z.modulo v m) (fun _ v => rep v r)).
  - rewrite run_compose, map_payloads. unfold key_by_machine. rewrite map_payloads, map_map. reflexivity.
  - apply drop_ts_payloads.
Qed.

Lemma zoo_sound_from : forall ops (M : machine (elem Z) (elem Z)) l,
  forallb (fun o => negb (is_add_ts o)) ops = true ->
  payloads (run (fold_left (fun m o => compose m (zop_machine o)) ops M) l)
  = zoo_spec ops (payloads (run M l)).
Proof.
  induction ops as [|o ops IH]; intros M l H; [reflexivity|].
  cbn [forallb] in H. apply andb_true_iff in H as [Ho H].
  cbn [fold_left]. unfold zoo_spec. cbn [fold_left]. rewrite IH by exact H.
  unfold zoo_spec. f_equal. rewrite run_compose. apply zop_sound.
  now apply negb_true_iff in Ho.
Qed.

Theorem zoo_sound : forall ops l, has_add_ts ops = false ->
  payloads (run (zoo_machine ops) l) = zoo_spec ops (payloads l).
Proof.
  intros ops l H. unfold zoo_machine. rewrite zoo_sound_from.
  - f_equal. unfold id_machine. rewrite map_payloads. apply map_id.
  - unfold has_add_ts in H. induction ops as [|o ops IH]; [reflexivity|].
    cbn [existsb forallb] in *. apply orb_false_iff in H as [Ho H].
    unfold is_add_ts. destruct o; try discriminate; cbn [negb andb]; apply IH; exact H.
Qed.

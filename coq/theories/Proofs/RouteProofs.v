(** Proofs about the router (Model/Route.v): every route receives exactly the elements
    addressed to it, in order, whatever the batch mode and the clock; a data element goes
    to the first matching route only; control elements go to every route. *)
From Noir Require Import Base.Elem Model.End Model.Route Proofs.LinkProofs.
From Coq Require Import NArith Lia.
Local Open Scope nat_scope.

Section RouteProofs.
  Context {A : Type}.
  Notation bst := (@bstate A).
  Notation dbs := (([], 0%N) : @bstate A).

  (* ---------------------------------------------------------------- *)
  (** * first_match / routed_to *)

  Notation pfalse := (fun _ : A => false).

  Lemma first_match_some : forall (preds : list (A -> bool)) v i,
    first_match preds v = Some i <->
    (i < length preds /\ nth i preds pfalse v = true /\
     forall j, j < i -> nth j preds pfalse v = false).
  Proof.
    induction preds as [|p preds IH]; intros v i; cbn [first_match length].
    - split; [discriminate|]. intros [H _]. lia.
    - destruct (p v) eqn:Ep.
      + split.
        * intros H. inversion H; subst i. cbn [nth]. repeat split; [lia|exact Ep|intros; lia].
        * intros [_ [Hi Hj]]. destruct i as [|i]; [reflexivity|].
          specialize (Hj 0 ltac:(lia)). cbn [nth] in Hj. congruence.
      + destruct (first_match preds v) as [i'|] eqn:Ef; cbn [option_map].
        * split.
          -- intros H. inversion H; subst i. destruct (proj1 (IH v i') Ef) as [Hl [Hn Hj]].
             cbn [nth]. repeat split; [lia|exact Hn|].
             intros [|j] Hlt; cbn [nth]; [exact Ep|apply Hj; lia].
          -- intros [Hl [Hn Hj]]. destruct i as [|i]; [cbn [nth] in Hn; congruence|].
             cbn [nth] in Hn. f_equal. symmetry.
             assert (H : Some i' = Some i); [|now inversion H].
             rewrite <- Ef. apply (IH v i). repeat split; [lia|exact Hn|].
             intros j Hlt. apply (Hj (S j)). lia.
        * split; [discriminate|]. intros [Hl [Hn Hj]].
          destruct i as [|i]; [cbn [nth] in Hn; congruence|]. cbn [nth] in Hn.
          assert (H : @None nat = Some i); [|discriminate].
          rewrite <- Ef. apply (IH v i). repeat split; [lia|exact Hn|].
          intros j Hlt. apply (Hj (S j)). lia.
  Qed.

  Lemma first_match_none : forall (preds : list (A -> bool)) v,
    first_match preds v = None <-> forall j, j < length preds -> nth j preds pfalse v = false.
  Proof.
    induction preds as [|p preds IH]; intros v; cbn [first_match length].
    - split; [intros _ j H; lia|reflexivity].
    - destruct (p v) eqn:Ep.
      + split; [discriminate|]. intros H. specialize (H 0 ltac:(lia)). cbn [nth] in H. congruence.
      + destruct (first_match preds v) as [i'|] eqn:Ef; cbn [option_map].
        * split; [discriminate|]. intros H.
          assert (H' : Some i' = None); [|discriminate].
          rewrite <- Ef. apply IH. intros j Hj. apply (H (S j)). lia.
        * split; [|reflexivity]. intros _ [|j] Hj; cbn [nth]; [exact Ep|].
          apply (proj1 (IH v) Ef). lia.
  Qed.

  (** (c) a data element (payload [v]) is addressed to route [i] iff [i] is the first route
      whose predicate holds for [v]; to no route iff no predicate holds; never to two routes *)
  Theorem route_first_match_only : forall (preds : list (A -> bool)) (e : elem A) (v : A),
    payload e = Some v ->
    (forall i, routed_to preds i e = true <-> first_match preds v = Some i) /\
    (forall i, first_match preds v = Some i <->
       (i < length preds /\ nth i preds (fun _ => false) v = true /\
        forall j, j < i -> nth j preds (fun _ => false) v = false)) /\
    ((forall i, routed_to preds i e = false) <->
       (forall j, j < length preds -> nth j preds (fun _ => false) v = false)) /\
    (forall i j, routed_to preds i e = true -> routed_to preds j e = true -> i = j).
  Proof.
    intros preds e v Hp.
    assert (R : forall i, routed_to preds i e
                = match first_match preds v with Some j => Nat.eqb i j | None => false end).
    { intros i. destruct e; cbn [payload] in Hp; try discriminate; inversion Hp; subst; reflexivity. }
    assert (R1 : forall i, routed_to preds i e = true <-> first_match preds v = Some i).
    { intros i. rewrite R. destruct (first_match preds v) as [j|].
      - rewrite Nat.eqb_eq. split; [intros ->; reflexivity|intros H; now inversion H].
      - split; discriminate. }
    split; [exact R1|]. split; [intros i; apply first_match_some|]. split.
    - rewrite <- first_match_none. split.
      + intros H. destruct (first_match preds v) as [j|] eqn:E; [|reflexivity].
        specialize (H j). rewrite (proj2 (R1 j) eq_refl) in H. discriminate.
      + intros E i. rewrite R, E. reflexivity.
    - intros i j Hi Hj. apply R1 in Hi. apply R1 in Hj. congruence.
  Qed.

  (** (d) Watermark / FlushAndRestart / Terminate are addressed to every route, FlushBatch
      to none *)
  Theorem route_control_all : forall (preds : list (A -> bool)) (i : nat),
    (forall t, routed_to preds i (Wm t) = true) /\
    routed_to preds i FAR = true /\
    routed_to preds i Terminate = true /\
    routed_to preds i FlushBatch = false.
  Proof. intros; repeat split. Qed.

  (* ---------------------------------------------------------------- *)
  (** * the loop over the senders *)

  Lemma route_batches_app (o1 o2 : @rout A) i :
    route_batches (o1 ++ o2) i = route_batches o1 i ++ route_batches o2 i.
  Proof. unfold route_batches. apply flat_map_app. Qed.

  Lemma route_batches_tag (sent : list (list (elem A))) i j :
    route_batches (map (fun batch => (j, batch)) sent) i = if Nat.eqb i j then sent else [].
  Proof.
    unfold route_batches. induction sent as [|b sent IH]; cbn [map flat_map].
    - destruct (Nat.eqb i j); reflexivity.
    - rewrite IH. destruct (Nat.eqb i j); reflexivity.
  Qed.

  (** the batcher of route [j] becomes [fst (f j _)], route [j] gets [snd (f j _)], and
      nothing goes anywhere else *)
  Lemma each_sender_spec (f : nat -> bst -> bst * list (list (elem A))) :
    forall st k st' o, each_sender f k st = (st', o) ->
      length st' = length st /\
      (forall j, k <= j < k + length st ->
         nth (j - k) st' dbs = fst (f j (nth (j - k) st dbs)) /\
         route_batches o j = snd (f j (nth (j - k) st dbs))) /\
      (forall j b, In (j, b) o ->
         k <= j < k + length st /\ In b (snd (f j (nth (j - k) st dbs)))).
  Proof.
    induction st as [|bs st IH]; intros k st' o H; cbn [each_sender] in H.
    - inversion H; subst. cbn [length]. split; [reflexivity|]. split; [intros; lia|intros j b []].
    - destruct (f k bs) as [bs1 sent] eqn:Ef.
      destruct (each_sender f (S k) st) as [st1 o1] eqn:Er. inversion H; subst st' o.
      destruct (IH _ _ _ Er) as [Hl [Hn Hin]]. cbn [length].
      split; [now rewrite Hl|]. split.
      + intros j Hj. rewrite route_batches_app, route_batches_tag.
        destruct (Nat.eqb_spec j k) as [->|Hne].
        * rewrite Nat.sub_diag. cbn [nth]. rewrite Ef. cbn [fst snd]. split; [reflexivity|].
          destruct (route_batches o1 k) as [|b bs'] eqn:Eb; [now rewrite app_nil_r|].
          exfalso. assert (Hi : exists b0, In (k, b0) o1).
          { unfold route_batches in Eb. assert (Hb : In b (b :: bs')) by now left.
            rewrite <- Eb in Hb. apply in_flat_map in Hb. destruct Hb as [[j0 b0] [Hb0 Hb1]].
            destruct (Nat.eqb_spec k j0) as [->|]; [|destruct Hb1]. now exists b0. }
          destruct Hi as [b0 Hb0]. apply Hin in Hb0. lia.
        * replace (j - k) with (S (j - S k)) by lia. cbn [nth app]. apply Hn. lia.
      + intros j b Hb. apply in_app_or in Hb. destruct Hb as [Hb|Hb].
        * apply in_map_iff in Hb. destruct Hb as [b0 [E Hb0]]. inversion E; subst.
          rewrite Nat.sub_diag. cbn [nth]. rewrite Ef. split; [lia|exact Hb0].
        * apply Hin in Hb. destruct Hb as [Hj Hb]. split; [lia|].
          replace (j - k) with (S (j - S k)) by lia. exact Hb.
  Qed.

  (** the instance used below: the loop starts at route 0 *)
  Lemma each_sender_0 (f : nat -> bst -> bst * list (list (elem A))) st st' o :
    each_sender f 0 st = (st', o) ->
    length st' = length st /\
    (forall j, j < length st ->
       nth j st' dbs = fst (f j (nth j st dbs)) /\ route_batches o j = snd (f j (nth j st dbs))) /\
    (forall j b, In (j, b) o -> j < length st /\ In b (snd (f j (nth j st dbs)))).
  Proof.
    intros H. destruct (each_sender_spec f _ _ _ _ H) as [Hl [Hn Hin]].
    split; [exact Hl|]. split.
    - intros j Hj. specialize (Hn j ltac:(lia)). now rewrite Nat.sub_0_r in Hn.
    - intros j b Hb. apply Hin in Hb. rewrite Nat.sub_0_r in Hb. split; [lia|apply Hb].
  Qed.

  Lemma enqueue_sent_nonempty m now (bs : bst) e b :
    In b (snd (enqueue m now bs e)) -> b <> [].
  Proof.
    destruct (enqueue_cases m now bs e) as [[_ E]|[[_ [E _]]|[_ [E _]]]]; rewrite E; cbn [snd].
    - intros [<-|[]]. discriminate.
    - intros [].
    - intros [<-|[]]. destruct (fst bs); discriminate.
  Qed.

  Lemma flush_sent_nonempty now (bs : bst) b : In b (snd (flush now bs)) -> b <> [].
  Proof.
    intros H. destruct (flush_spec now bs) as [_ [_ [_ [_ [_ F]]]]].
    rewrite Forall_forall in F. now apply F.
  Qed.

  (* ---------------------------------------------------------------- *)
  (** * one step, seen from route [i] *)

  Variable (clock : nat -> N) (t0 : N) (m : batch_mode) (preds : list (A -> bool)).
  Notation M := (route_machine clock t0 m preds).

  Definition flushes (e : elem A) : bool :=
    match e with FAR | Terminate | FlushBatch => true | _ => false end.

  Lemma route_step_route : forall i k (st : list bst) e k' st' out,
    route_step clock m preds (k, st) e = ((k', st'), out) ->
    i < length st -> mode_ok m (fst (nth i st dbs)) ->
    k' = S k /\ length st' = length st /\ mode_ok m (fst (nth i st' dbs)) /\
    route_received out i ++ fst (nth i st' dbs)
      = fst (nth i st dbs) ++ (if routed_to preds i e then [e] else []) /\
    (flushes e = true -> fst (nth i st' dbs) = []).
  Proof.
    intros i k st e k' st' out H Hi Hm. unfold route_step in H. unfold route_received.
    (* the three building blocks, seen from route i *)
    assert (Enq : forall e0 s1 o1, enqueue_all m (clock k) e0 st = (s1, o1) ->
              length s1 = length st /\ mode_ok m (fst (nth i s1 dbs)) /\
              concat (route_batches o1 i) ++ fst (nth i s1 dbs) = fst (nth i st dbs) ++ [e0]).
    { intros e0 s1 o1 E. destruct (each_sender_0 _ _ _ _ E) as [Hl [Hn _]].
      destruct (Hn i Hi) as [Hs Ho]. rewrite Hs, Ho. split; [exact Hl|].
      destruct (enqueue m (clock k) (nth i st dbs) e0) as [b1 s] eqn:Eq. cbn [fst snd].
      exact (enqueue_spec _ _ _ _ _ _ Eq Hm). }
    assert (Fl : forall (s0 s1 : list bst) o1, rflush_all (clock k) s0 = (s1, o1) ->
              length s0 = length st ->
              length s1 = length st /\ fst (nth i s1 dbs) = [] /\
              concat (route_batches o1 i) = fst (nth i s0 dbs)).
    { intros s0 s1 o1 E Hl0. destruct (each_sender_0 _ _ _ _ E) as [Hl [Hn _]].
      destruct (Hn i ltac:(lia)) as [Hs Ho]. rewrite Hs, Ho.
      destruct (flush_spec (clock k) (nth i s0 dbs)) as [_ [Hb [_ [_ [Hc _]]]]].
      split; [lia|]. split; assumption. }
    assert (Data : forall e0, is_data e0 = true -> forall s1 o1,
              match payload e0 with
              | Some v => match first_match preds v with
                          | Some j => enqueue_one m (clock k) j e0 st
                          | None => (st, [])
                          end
              | None => (st, [])
              end = (s1, o1) ->
              length s1 = length st /\ mode_ok m (fst (nth i s1 dbs)) /\
              concat (route_batches o1 i) ++ fst (nth i s1 dbs)
                = fst (nth i st dbs) ++ (if routed_to preds i e0 then [e0] else [])).
    { intros e0 Hd s1 o1 E.
      assert (R : exists v, payload e0 = Some v /\ routed_to preds i e0
                = match first_match preds v with Some j => Nat.eqb i j | None => false end).
      { destruct e0; try discriminate; eexists; split; reflexivity. }
      destruct R as [v [Ep R]]. rewrite R. rewrite Ep in E.
      destruct (first_match preds v) as [j|].
      - destruct (each_sender_0 _ _ _ _ E) as [Hl [Hn _]].
        destruct (Hn i Hi) as [Hs Ho]. rewrite Hs, Ho. split; [exact Hl|].
        destruct (Nat.eqb i j).
        + destruct (enqueue m (clock k) (nth i st dbs) e0) as [b1 s] eqn:Eq. cbn [fst snd].
          exact (enqueue_spec _ _ _ _ _ _ Eq Hm).
        + cbn [fst snd concat app]. split; [exact Hm|now rewrite app_nil_r].
      - inversion E; subst. cbn [route_batches flat_map concat app].
        split; [reflexivity|]. split; [exact Hm|now rewrite app_nil_r]. }
    destruct e as [v|v t|t| | | ].
    - (* Item *)
      specialize (Data (Item v) eq_refl). cbn [payload] in Data.
      destruct (match first_match preds v with Some j => _ | None => _ end) as [s1 o1] eqn:E.
      inversion H; subst. destruct (Data _ _ eq_refl) as [Hl [Hm1 Hs]].
      repeat split; try assumption; try reflexivity. intros Hf; discriminate Hf.
    - (* Tst *)
      specialize (Data (Tst v t) eq_refl). cbn [payload] in Data.
      destruct (match first_match preds v with Some j => _ | None => _ end) as [s1 o1] eqn:E.
      inversion H; subst. destruct (Data _ _ eq_refl) as [Hl [Hm1 Hs]].
      repeat split; try assumption; try reflexivity. intros Hf; discriminate Hf.
    - (* Wm *)
      destruct (enqueue_all m (clock k) (Wm t) st) as [s1 o1] eqn:E.
      inversion H; subst. destruct (Enq _ _ _ E) as [Hl [Hm1 Hs]].
      repeat split; try assumption; try reflexivity. intros Hf; discriminate Hf.
    - (* FlushBatch *)
      destruct (rflush_all (clock k) st) as [s1 o1] eqn:E.
      inversion H; subst. destruct (Fl _ _ _ E eq_refl) as [Hl [Hb Hc]].
      split; [reflexivity|]. split; [exact Hl|]. split; [rewrite Hb; intros _; reflexivity|].
      split; [|intros _; exact Hb].
      rewrite Hb, Hc. cbn [routed_to]. reflexivity.
    - (* Terminate *)
      destruct (enqueue_all m (clock k) Terminate st) as [s1 o1] eqn:E.
      destruct (rflush_all (clock k) s1) as [s2 o2] eqn:E2.
      inversion H; subst. destruct (Enq _ _ _ E) as [Hl [Hm1 Hs]].
      destruct (Fl _ _ _ E2 Hl) as [Hl2 [Hb Hc]].
      split; [reflexivity|]. split; [exact Hl2|]. split; [rewrite Hb; intros _; reflexivity|].
      split; [|intros _; exact Hb].
      rewrite route_batches_app, concat_app, Hb, Hc, app_nil_r. exact Hs.
    - (* FAR *)
      destruct (enqueue_all m (clock k) FAR st) as [s1 o1] eqn:E.
      destruct (rflush_all (clock k) s1) as [s2 o2] eqn:E2.
      inversion H; subst. destruct (Enq _ _ _ E) as [Hl [Hm1 Hs]].
      destruct (Fl _ _ _ E2 Hl) as [Hl2 [Hb Hc]].
      split; [reflexivity|]. split; [exact Hl2|]. split; [rewrite Hb; intros _; reflexivity|].
      split; [|intros _; exact Hb].
      rewrite route_batches_app, concat_app, Hb, Hc, app_nil_r. exact Hs.
  Qed.

  Lemma route_received_app (o1 o2 : @rout A) i :
    route_received (o1 ++ o2) i = route_received o1 i ++ route_received o2 i.
  Proof. unfold route_received. now rewrite route_batches_app, concat_app. Qed.

  (** what route [i] has received plus what is still in its batcher is what it had plus the
      elements addressed to it, in order *)
  Lemma route_run_route : forall i l k (st : list bst) k' st' out,
    run_from M (k, st) l = ((k', st'), out) ->
    i < length st -> mode_ok m (fst (nth i st dbs)) ->
    length st' = length st /\ mode_ok m (fst (nth i st' dbs)) /\
    route_received out i ++ fst (nth i st' dbs)
      = fst (nth i st dbs) ++ filter (routed_to preds i) l.
  Proof.
    intros i. induction l as [|e l IH]; intros k st k' st' out H Hi Hm.
    - cbn [run_from] in H. inversion H; subst. cbn [filter]. unfold route_received.
      cbn [route_batches flat_map concat app]. now rewrite app_nil_r.
    - cbn [run_from] in H. change (mstep M) with (route_step clock m preds) in H.
      destruct (route_step clock m preds (k, st) e) as [[k1 st1] o1] eqn:E1.
      destruct (run_from M (k1, st1) l) as [[k2 st2] o2] eqn:E2. inversion H; subst.
      destruct (route_step_route i _ _ _ _ _ _ E1 Hi Hm) as [_ [Hl1 [Hm1 [Hs1 _]]]].
      destruct (IH _ _ _ _ _ E2 ltac:(lia) Hm1) as [Hl2 [Hm2 Hs2]].
      split; [lia|]. split; [exact Hm2|].
      rewrite route_received_app, <- app_assoc, Hs2, app_assoc, Hs1, <- app_assoc.
      cbn [filter]. destruct (routed_to preds i e); reflexivity.
  Qed.

  (** general form: once a flushing element (FlushAndRestart, Terminate, FlushBatch) has
      been handled, route [i] has received exactly the elements addressed to it so far, in
      order — for every batch mode (also degenerate sizes), every clock, every input *)
  Theorem route_flushed : forall i l last,
    i < length preds -> flushes last = true ->
    route_received (run M (l ++ [last])) i = filter (routed_to preds i) (l ++ [last]).
  Proof.
    intros i l last Hi Hf. unfold run. rewrite run_from_app.
    change (minit M) with (rinit t0 preds). unfold rinit.
    destruct (run_from M (0, repeat ([], t0) (length preds)) l) as [[k1 st1] o1] eqn:E1.
    cbn [run_from]. change (mstep M) with (route_step clock m preds).
    destruct (route_step clock m preds (k1, st1) last) as [[k2 st2] o2] eqn:E2.
    rewrite app_nil_r. cbn [snd].
    destruct (route_run_route i _ _ _ _ _ _ E1) as [Hl1 [Hm1 Hs1]].
    { now rewrite repeat_length. }
    { rewrite nth_repeat_lt by exact Hi. intros _. reflexivity. }
    rewrite repeat_length in Hl1. rewrite nth_repeat_lt in Hs1 by exact Hi. cbn [fst app] in Hs1.
    destruct (route_step_route i _ _ _ _ _ _ E2 ltac:(lia) Hm1) as [_ [_ [_ [Hs2 Hb]]]].
    rewrite (Hb Hf), app_nil_r in Hs2.
    rewrite route_received_app, Hs2, app_assoc, Hs1, filter_app. cbn [filter].
    destruct (routed_to preds i last); reflexivity.
  Qed.

  (** (a) every route receives exactly its elements, in order, and the final Terminate *)
  Theorem route_sequence : forall (l : list (elem A)) (i : nat),
    i < length preds ->
    (forall e, In e l -> e <> Terminate) ->
    match m with BFixed n => 1 <= n | BAdaptive n _ => 1 <= n | BSingle => True end ->
    route_received (run M (l ++ [Terminate])) i = filter (routed_to preds i) l ++ [Terminate].
  Proof.
    intros l i Hi _ _. rewrite route_flushed by (exact Hi || reflexivity).
    rewrite filter_app. reflexivity.
  Qed.

  (** (b) everything of a round is out when the round ends (FlushAndRestart), and
      everything pulled so far is out after a FlushBatch *)
  Theorem route_round_flushed : forall (l : list (elem A)) (i : nat),
    i < length preds ->
    (forall e, In e l -> e <> Terminate) ->
    match m with BFixed n => 1 <= n | BAdaptive n _ => 1 <= n | BSingle => True end ->
    route_received (run M (l ++ [FAR])) i = filter (routed_to preds i) l ++ [FAR] /\
    route_received (run M (l ++ [FlushBatch])) i = filter (routed_to preds i) l.
  Proof.
    intros l i Hi _ _. split; rewrite route_flushed by (exact Hi || reflexivity);
      rewrite filter_app; cbn [filter routed_to app]; [reflexivity|apply app_nil_r].
  Qed.

  (* ---------------------------------------------------------------- *)
  (** * (e) nothing is sent anywhere else, and no empty batch *)

  Lemma route_step_out : forall k (st : list bst) e k' st' out,
    route_step clock m preds (k, st) e = ((k', st'), out) ->
    length st' = length st /\
    forall j b, In (j, b) out -> j < length st /\ b <> [].
  Proof.
    intros k st e k' st' out H. unfold route_step in H.
    assert (Enq : forall e0 s1 o1, enqueue_all m (clock k) e0 st = (s1, o1) ->
              length s1 = length st /\ forall j b, In (j, b) o1 -> j < length st /\ b <> []).
    { intros e0 s1 o1 E. destruct (each_sender_0 _ _ _ _ E) as [Hl [_ Hin]].
      split; [exact Hl|]. intros j b Hb. destruct (Hin _ _ Hb) as [Hj Hb'].
      split; [exact Hj|]. eapply enqueue_sent_nonempty; exact Hb'. }
    assert (Fl : forall (s0 s1 : list bst) o1, rflush_all (clock k) s0 = (s1, o1) ->
              length s1 = length s0 /\ forall j b, In (j, b) o1 -> j < length s0 /\ b <> []).
    { intros s0 s1 o1 E. destruct (each_sender_0 _ _ _ _ E) as [Hl [_ Hin]].
      split; [exact Hl|]. intros j b Hb. destruct (Hin _ _ Hb) as [Hj Hb'].
      split; [exact Hj|]. eapply flush_sent_nonempty; exact Hb'. }
    assert (Data : forall e0 v s1 o1,
              match first_match preds v with
              | Some j => enqueue_one m (clock k) j e0 st
              | None => (st, [])
              end = (s1, o1) ->
              length s1 = length st /\ forall j b, In (j, b) o1 -> j < length st /\ b <> []).
    { intros e0 v s1 o1 E. destruct (first_match preds v) as [j0|].
      - destruct (each_sender_0 _ _ _ _ E) as [Hl [_ Hin]].
        split; [exact Hl|]. intros j b Hb. destruct (Hin _ _ Hb) as [Hj Hb'].
        split; [exact Hj|]. destruct (Nat.eqb j j0); [|destruct Hb'].
        eapply enqueue_sent_nonempty; exact Hb'.
      - inversion E; subst. split; [reflexivity|intros j b []]. }
    destruct e as [v|v t|t| | | ].
    - destruct (match first_match preds v with Some j => _ | None => _ end) as [s1 o1] eqn:E.
      inversion H; subst. exact (Data _ _ _ _ E).
    - destruct (match first_match preds v with Some j => _ | None => _ end) as [s1 o1] eqn:E.
      inversion H; subst. exact (Data _ _ _ _ E).
    - destruct (enqueue_all m (clock k) (Wm t) st) as [s1 o1] eqn:E.
      inversion H; subst. exact (Enq _ _ _ E).
    - destruct (rflush_all (clock k) st) as [s1 o1] eqn:E.
      inversion H; subst. exact (Fl _ _ _ E).
    - destruct (enqueue_all m (clock k) Terminate st) as [s1 o1] eqn:E.
      destruct (rflush_all (clock k) s1) as [s2 o2] eqn:E2.
      inversion H; subst. destruct (Enq _ _ _ E) as [Hl H1]. destruct (Fl _ _ _ E2) as [Hl2 H2].
      split; [lia|]. intros j b Hb. apply in_app_or in Hb. destruct Hb as [Hb|Hb].
      + now apply H1.
      + rewrite <- Hl. now apply H2.
    - destruct (enqueue_all m (clock k) FAR st) as [s1 o1] eqn:E.
      destruct (rflush_all (clock k) s1) as [s2 o2] eqn:E2.
      inversion H; subst. destruct (Enq _ _ _ E) as [Hl H1]. destruct (Fl _ _ _ E2) as [Hl2 H2].
      split; [lia|]. intros j b Hb. apply in_app_or in Hb. destruct Hb as [Hb|Hb].
      + now apply H1.
      + rewrite <- Hl. now apply H2.
  Qed.

  Lemma route_run_out : forall l k (st : list bst) k' st' out,
    run_from M (k, st) l = ((k', st'), out) ->
    forall j b, In (j, b) out -> j < length st /\ b <> [].
  Proof.
    induction l as [|e l IH]; intros k st k' st' out H j b Hb.
    - cbn [run_from] in H. inversion H; subst. destruct Hb.
    - cbn [run_from] in H. change (mstep M) with (route_step clock m preds) in H.
      destruct (route_step clock m preds (k, st) e) as [[k1 st1] o1] eqn:E1.
      destruct (run_from M (k1, st1) l) as [[k2 st2] o2] eqn:E2. inversion H; subst.
      destruct (route_step_out _ _ _ _ _ _ E1) as [Hl H1].
      apply in_app_or in Hb. destruct Hb as [Hb|Hb]; [now apply H1|].
      rewrite <- Hl. exact (IH _ _ _ _ _ E2 _ _ Hb).
  Qed.

  (** (e) every output goes to an existing route and is a non-empty batch; for every batch
      mode, every clock and every input *)
  Theorem route_no_output_elsewhere : forall (l : list (elem A)) (i : nat) (batch : list (elem A)),
    In (i, batch) (run M l) -> i < length preds /\ batch <> [].
  Proof.
    intros l i batch H. unfold run in H.
    change (minit M) with (rinit t0 preds) in H. unfold rinit in H.
    destruct (run_from M (0, repeat ([], t0) (length preds)) l) as [[k1 st1] o1] eqn:E1.
    cbn [snd] in H. destruct (route_run_out _ _ _ _ _ _ E1 _ _ H) as [Hi Hb].
    rewrite repeat_length in Hi. split; assumption.
  Qed.
End RouteProofs.

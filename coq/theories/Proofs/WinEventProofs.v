(** C13: proofs about the event-time and transaction window managers
    (models: Model/WinEvent.v, statement-level definitions: Proofs/WinEventSpec.v).

    T1  [tx_commits]            transaction windows commit exactly the segments of the logic
    E0  [Inv], [et_step_inv], [et_run_inv], [et_invariant]   structural invariant
    E1  [et_no_panic]           no panic on in-contract input
    E2  [et_result_interval]    every result is the fold of one interval of the key's data
    E3  [et_fire_on_watermark], [et_data_emits_nothing], [et_round_end_flushes]
    E4  [et_sliding_upper], [et_sliding_cover_inorder], [et_tumbling_exactly_once_inorder]
    witnesses: [et_drop_refuted] (F4), [et_cover_needs_monotone_watermarks],
               [et_skip_depends_on_watermark]

    Method for E2/E4: the model is generic in the accumulator, so the same [et_step] is run
    on payloads tagged with their arrival index and with accumulator (B * list nat); forgetting
    the indices gives back the real run ([sim_run], [run_proj]); the invariants [GI]/[SI]
    say what index group every slot and every emitted result holds. *)
From Noir Require Import Proofs.WinEventSpec.
From Coq Require Import ZifyBool Sorted.
Ltac Zify.zify_post_hook ::= Z.div_mod_to_equations.
Open Scope Z_scope.

(** * Generic facts about machines *)
Section RunFacts.
  Context {I O : Type} (M : machine I O).
  Lemma run_from_cons_fst s x l :
    fst (run_from M s (x :: l)) = fst (run_from M (fst (mstep M s x)) l).
  Proof.
    cbn [run_from]. destruct (mstep M s x) as [s1 o1]. cbn [fst].
    destruct (run_from M s1 l); reflexivity.
  Qed.
  Lemma run_from_cons_snd s x l :
    snd (run_from M s (x :: l)) = snd (mstep M s x) ++ snd (run_from M (fst (mstep M s x)) l).
  Proof.
    cbn [run_from]. destruct (mstep M s x) as [s1 o1]. cbn [fst snd].
    destruct (run_from M s1 l); reflexivity.
  Qed.
  Lemma run_from_app_fst s l1 l2 :
    fst (run_from M s (l1 ++ l2)) = fst (run_from M (fst (run_from M s l1)) l2).
  Proof.
    rewrite run_from_app. destruct (run_from M s l1) as [s1 o1]. cbn [fst].
    destruct (run_from M s1 l2); reflexivity.
  Qed.
  Lemma run_from_app_snd s l1 l2 :
    snd (run_from M s (l1 ++ l2)) =
    snd (run_from M s l1) ++ snd (run_from M (fst (run_from M s l1)) l2).
  Proof.
    rewrite run_from_app. destruct (run_from M s l1) as [s1 o1]. cbn [fst snd].
    destruct (run_from M s1 l2); reflexivity.
  Qed.
End RunFacts.

(** * T1: transaction windows commit exactly as the logic dictates *)
Section Tx.
  Context {A B C : Type}.
  Variable (acc0 : B) (proc : B -> A -> B) (out : B -> C).
  Variable logic : A -> txop.

  Definition TM : machine (elem A) (wres C) :=
    Build_machine (elem A) (wres C)
      (wst (tx_mgr acc0 proc out logic)) (winit (tx_mgr acc0 proc out logic))
      (wstep (tx_mgr acc0 proc out logic)).

  (** the manager's state against the specification's (current segment, closing time) *)
  Definition tx_rel (st : option (option (@tslot B))) (cur : list A) (close : option Z) : Prop :=
    match st with
    | None => False
    | Some None => cur = [] /\ close = None
    | Some (Some s) => t_acc s = fold_left proc cur acc0 /\ t_close s = close
    end.

  Lemma no_items_cons (e : elem A) l : no_items (e :: l) -> no_items l.
  Proof. intros H v Hin. apply (H v). now right. Qed.

  Lemma tx_commits_gen : forall l st cur close,
    tx_rel st cur close -> no_items l ->
    snd (run_from TM st l) =
    map (fun g => (out (fold_left proc g acc0), None)) (tx_segments logic cur close l).
  Proof.
    induction l as [|e l IH]; intros st cur close HR HN; [reflexivity|].
    pose proof (no_items_cons _ _ HN) as HN'.
    rewrite run_from_cons_snd.
    destruct st as [w|]; [|contradiction].
    destruct e as [v|v t|w'| | | ].
    - exfalso. apply (HN v). now left.
    - cbn [mstep TM wstep tx_mgr tx_step tx_segments].
      destruct w as [s|]; cbn [tx_rel] in HR; destruct HR as [H1 H2].
      + destruct (logic v) eqn:EL; cbn [fst snd t_acc t_close app map].
        * rewrite (IH _ (cur ++ [v]) close); [reflexivity| |assumption].
          cbn [tx_rel t_acc t_close]. rewrite fold_left_app, H1. now split.
        * rewrite (IH _ [] None); [|cbn; now split|assumption].
          rewrite fold_left_app, H1. reflexivity.
        * rewrite (IH _ (cur ++ [v]) (Some t0)); [reflexivity| |assumption].
          cbn [tx_rel t_acc t_close]. rewrite fold_left_app, H1. now split.
        * rewrite (IH _ [] None); [reflexivity|cbn; now split|assumption].
      + subst cur close.
        destruct (logic v) eqn:EL; cbn [fst snd t_acc t_close app map].
        * rewrite (IH _ ([] ++ [v]) None); [reflexivity| |assumption].
          cbn [tx_rel t_acc t_close]. now split.
        * rewrite (IH _ [] None); [reflexivity|cbn; now split|assumption].
        * rewrite (IH _ ([] ++ [v]) (Some t0)); [reflexivity| |assumption].
          cbn [tx_rel t_acc t_close]. now split.
        * rewrite (IH _ [] None); [reflexivity|cbn; now split|assumption].
    - cbn [mstep TM wstep tx_mgr tx_step tx_segments].
      destruct w as [s|]; cbn [tx_rel] in HR; destruct HR as [H1 H2].
      + rewrite H2. destruct close as [c|].
        * destruct (c <? w') eqn:EC; cbn [fst snd app map].
          -- rewrite (IH _ [] None); [|cbn; now split|assumption]. now rewrite H1.
          -- apply IH; [|assumption]. cbn [tx_rel]. now split.
        * cbn [fst snd app]. apply IH; [|assumption]. cbn [tx_rel]. now split.
      + subst cur close. cbn [fst snd app]. apply IH; [|assumption]. cbn [tx_rel]. now split.
    - cbn [mstep TM wstep tx_mgr tx_step tx_segments fst snd app]. now apply IH.
    - cbn [mstep TM wstep tx_mgr tx_step tx_segments].
      destruct w as [s|]; cbn [tx_rel] in HR; destruct HR as [H1 H2].
      + rewrite H2. destruct close as [c|]; cbn [fst snd app map].
        * rewrite (IH _ [] None); [|cbn; now split|assumption]. now rewrite H1.
        * apply IH; [|assumption]. cbn [tx_rel]. now split.
      + subst cur close. cbn [fst snd app]. apply IH; [|assumption]. cbn [tx_rel]. now split.
    - cbn [mstep TM wstep tx_mgr tx_step tx_segments].
      destruct w as [s|]; cbn [tx_rel] in HR; destruct HR as [H1 H2].
      + rewrite H2. destruct close as [c|]; cbn [fst snd app map].
        * rewrite (IH _ [] None); [|cbn; now split|assumption]. now rewrite H1.
        * apply IH; [|assumption]. cbn [tx_rel]. now split.
      + subst cur close. cbn [fst snd app]. apply IH; [|assumption]. cbn [tx_rel]. now split.
  Qed.

  Theorem tx_commits : forall l, no_items l ->
    run TM l = map (fun g => (out (fold_left proc g acc0), None)) (tx_segments logic [] None l).
  Proof.
    intros l HN. unfold run. apply tx_commits_gen; [|assumption].
    cbn. now split.
  Qed.
End Tx.

(** * Event-time windows: basic facts about slot lists *)
Section SlotFacts.
  Context {B : Type}.
  Lemma last_start_nil : @last_start B [] = None.
  Proof. reflexivity. Qed.
  Lemma last_start_snoc (ws : list (@eslot B)) a : last_start (ws ++ [a]) = Some (e_start a).
  Proof. unfold last_start. now rewrite rev_unit. Qed.
  Lemma last_start_inv (ws : list (@eslot B)) s :
    last_start ws = Some s -> exists ws0 a, ws = ws0 ++ [a] /\ e_start a = s.
  Proof.
    destruct ws as [|b ws] using rev_ind; [discriminate|].
    rewrite last_start_snoc. intros [= <-]. now exists ws, b.
  Qed.
  Lemma last_start_none (ws : list (@eslot B)) : last_start ws = None -> ws = [].
  Proof.
    destruct ws as [|b ws] using rev_ind; [reflexivity|].
    rewrite last_start_snoc. discriminate.
  Qed.
  Lemma last_start_cons a (ws : list (@eslot B)) :
    last_start (a :: ws) =
    match last_start ws with Some s => Some s | None => Some (e_start a) end.
  Proof.
    destruct ws as [|b ws] using rev_ind; [reflexivity|].
    rewrite app_comm_cons, !last_start_snoc. reflexivity.
  Qed.
  Lemma last_start_app_ne (a b : list (@eslot B)) : b <> [] -> last_start (a ++ b) = last_start b.
  Proof.
    destruct b as [|x b] using rev_ind; [congruence|]. intros _.
    now rewrite app_assoc, !last_start_snoc.
  Qed.

End SlotFacts.

(** * Event-time windows: structural facts, generic in the accumulator *)
Section ETGen.
  Context {A B C : Type}.
  Variable (acc0 : B) (proc : B -> A -> B) (out : B -> C).
  Variable (size slide : Z).
  Hypothesis Hslide : 0 < slide.
  Hypothesis Hss : slide <= size.
  #[local] Set Default Proof Using "All".

  Notation slot := (@eslot B).
  Notation state := (@estate B).

  Definition EM : machine (elem A) (wres C) :=
    Build_machine (elem A) (wres C)
      (wst (et_mgr acc0 proc out size slide)) (winit (et_mgr acc0 proc out size slide))
      (wstep (et_mgr acc0 proc out size slide)).

  (** ** E0: the structural invariant *)
  Definition link (prev : option Z) (a : slot) : Prop :=
    match prev with
    | Some p => exists k, 1 <= k /\ e_start a = p + k * slide
    | None => True
    end.
  (** starts strictly increasing by positive multiples of [slide] *)
  Fixpoint chain (prev : option Z) (ws : list slot) : Prop :=
    match ws with
    | [] => True
    | a :: ws' => link prev a /\ chain (Some (e_start a)) ws'
    end.
  Definition wf_slot (sl : slot) : Prop :=
    e_end sl = e_start sl + size /\ (e_active sl = false -> e_acc sl = acc0).
  Definition above (lw : option Z) (ws : list slot) : Prop :=
    forall w, lw = Some w -> Forall (fun sl => w < e_end sl) ws.
  Definition Inv (s : state) : Prop :=
    chain None (e_ws s) /\ Forall wf_slot (e_ws s) /\ above (e_lw s) (e_ws s).

  Lemma chain_weaken p ws : chain p ws -> chain None ws.
  Proof. destruct ws as [|a ws]; cbn [chain]; [trivial|]. intros [_ H]. split; [exact I|exact H]. Qed.
  Lemma chain_snoc : forall ws p b,
    chain p (ws ++ [b]) <->
    chain p ws /\ link (match last_start ws with Some s => Some s | None => p end) b.
  Proof.
    induction ws as [|a ws IH]; intros p b.
    - cbn. tauto.
    - cbn [app chain]. rewrite IH, last_start_cons.
      destruct (last_start ws); tauto.
  Qed.
  Lemma chain_lb : forall ws p,
    chain (Some p) ws -> Forall (fun sl => p + slide <= e_start sl) ws.
  Proof.
    induction ws as [|a ws IH]; intros p H; [constructor|].
    destruct H as [[k [Hk Ha]] Hc]. constructor; [nia|].
    apply IH in Hc. eapply Forall_impl; [|exact Hc]. cbn. intros; nia.
  Qed.
  Lemma chain_app_inv : forall a b p, chain p (a ++ b) -> chain p a /\ chain None b.
  Proof.
    induction a as [|x a IH]; intros b p H.
    - cbn in *. split; [exact I|]. eapply chain_weaken; eauto.
    - cbn [app chain] in *. destruct H as [H1 H2]. apply IH in H2. tauto.
  Qed.

  (** ** alloc *)
  Definition need (ws : list slot) (ts : Z) : bool :=
    match last_start ws with Some s => s <? ts | None => true end.
  Definition next_start (lw : option Z) (ws : list slot) (ts : Z) : Z :=
    let ns0 := match last_start ws with Some s => s + slide | None => ts end in
    match lw with
    | Some w => ns0 + Z.quot (Z.max (w - ns0) 0) slide * slide
    | None => ns0
    end.
  Definition fresh (ns : Z) : slot :=
    {| e_acc := acc0; e_start := ns; e_end := ns + size; e_active := false |}.

  Lemma alloc_S f lw ws ts :
    alloc acc0 size slide (S f) lw ws ts =
    if need ws ts then alloc acc0 size slide f lw (ws ++ [fresh (next_start lw ws ts)]) ts
    else ws.
  Proof. reflexivity. Qed.

  Lemma skip_arith d :
    let q := Z.quot (Z.max d 0) slide in
    0 <= q /\ q * slide <= Z.max d 0 < (q + 1) * slide.
  Proof.
    cbv zeta. rewrite Z.quot_div_nonneg by lia.
    pose proof (Z.mul_div_le (Z.max d 0) slide Hslide).
    pose proof (Z.mul_succ_div_gt (Z.max d 0) slide Hslide).
    assert (0 <= Z.max d 0 / slide) by (apply Z.div_pos; lia).
    lia.
  Qed.

  (** the start of the next allocated slot: [base + (1+q) * slide], skipping only below lw *)
  Lemma next_start_spec lw ws ts :
    (forall w, lw = Some w -> w < ts) ->
    let ns := next_start lw ws ts in
    (last_start ws = None -> ns = ts) /\
    (forall s, last_start ws = Some s ->
       exists q, 0 <= q /\ ns = s + slide + q * slide /\
                 (0 < q -> exists w, lw = Some w /\ ns <= w)) /\
    (forall w, lw = Some w -> w < ns + size).
  Proof.
    intros Hlw. cbv zeta. unfold next_start.
    destruct lw as [w|].
    - specialize (Hlw w eq_refl).
      destruct (last_start ws) as [s|].
      + pose proof (skip_arith (w - (s + slide))) as HS. cbv zeta in HS.
        set (q := Z.quot (Z.max (w - (s + slide)) 0) slide) in *.
        split; [discriminate|]. split.
        * intros s0 [= <-]. exists q. repeat split; try lia.
          intros Hq. exists w. split; [reflexivity|]. nia.
        * intros w0 [= <-]. nia.
      + pose proof (skip_arith (w - ts)) as HS. cbv zeta in HS.
        set (q := Z.quot (Z.max (w - ts) 0) slide) in *.
        assert (q = 0) by nia.
        split; [intros _; lia|]. split; [discriminate|].
        intros w0 [= <-]. nia.
    - destruct (last_start ws) as [s|].
      + split; [discriminate|]. split; [|discriminate].
        intros s0 [= <-]. exists 0. repeat split; lia.
      + split; [reflexivity|]. split; discriminate.
  Qed.

  Lemma fresh_wf ns : wf_slot (fresh ns).
  Proof. split; reflexivity. Qed.

  Definition is_fresh (sl : slot) : Prop := e_acc sl = acc0 /\ e_active sl = false.

  Lemma alloc_inv : forall f lw ws ts,
    (forall w, lw = Some w -> w < ts) ->
    chain None ws -> Forall wf_slot ws -> above lw ws ->
    exists new, alloc acc0 size slide f lw ws ts = ws ++ new /\
      chain None (ws ++ new) /\ Forall wf_slot (ws ++ new) /\ above lw (ws ++ new) /\
      Forall is_fresh new.
  Proof.
    induction f as [|f IH]; intros lw ws ts Hlw Hc Hwf Hab.
    - exists []. cbn [alloc]. rewrite app_nil_r. repeat split; auto.
    - rewrite alloc_S. destruct (need ws ts) eqn:EN.
      2:{ exists []. rewrite app_nil_r. repeat split; auto. }
      pose proof (next_start_spec lw ws ts Hlw) as HNS. cbv zeta in HNS.
      set (ns := next_start lw ws ts) in *.
      destruct HNS as (HN1 & HN2 & HN3).
      destruct (IH lw (ws ++ [fresh ns]) ts Hlw) as (new & E & H1 & H2 & H3 & H4).
      + apply chain_snoc. split; [assumption|].
        destruct (last_start ws) as [s|] eqn:EL; [|exact I].
        destruct (HN2 s eq_refl) as (q & Hq & Ens & _).
        exists (1 + q). split; [lia|]. cbn [fresh e_start]. lia.
      + apply Forall_app. split; [assumption|]. constructor; [apply fresh_wf|constructor].
      + intros w Hw. apply Forall_app. split; [now apply Hab|].
        constructor; [|constructor]. cbn [fresh e_end]. now apply HN3.
      + exists (fresh ns :: new). rewrite E, <- !app_assoc. cbn [app].
        rewrite <- app_assoc in H1, H2, H3. cbn [app] in H1, H2, H3.
        repeat split; auto. constructor; [split; reflexivity|assumption].
  Qed.

  Lemma alloc_reach : forall f lw ws ts,
    (forall w, lw = Some w -> w < ts) ->
    match last_start ws with
    | Some s => ts - s <= (Z.of_nat f - 1) * slide /\ (1 <= f)%nat
    | None => (2 <= f)%nat
    end ->
    exists L, last_start (alloc acc0 size slide f lw ws ts) = Some L /\ ts <= L.
  Proof.
    induction f as [|f IH]; intros lw ws ts Hlw Hf.
    - destruct (last_start ws); lia.
    - rewrite alloc_S. unfold need.
      pose proof (next_start_spec lw ws ts Hlw) as HNS. cbv zeta in HNS.
      set (ns := next_start lw ws ts) in *.
      destruct HNS as (HN1 & HN2 & HN3).
      destruct (last_start ws) as [s|] eqn:EL.
      + destruct (s <? ts) eqn:ES.
        * apply IH; [assumption|]. rewrite last_start_snoc. cbn [fresh e_start].
          destruct (HN2 s eq_refl) as (q & Hq & Ens & _).
          destruct Hf as [Hf1 Hf2].
          assert (f <> 0%nat) by (intros ->; cbn in Hf1; lia).
          split; [nia|lia].
        * exists s. split; [assumption|lia].
      + apply IH; [assumption|]. rewrite last_start_snoc. cbn [fresh e_start].
        rewrite (HN1 eq_refl). split; [nia|lia].
  Qed.

  Lemma alloc_fuel_ok lw ws ts :
    (forall w, lw = Some w -> w < ts) ->
    exists L, last_start (alloc acc0 size slide (alloc_fuel slide ws ts) lw ws ts) = Some L /\ ts <= L.
  Proof.
    intros Hlw. apply alloc_reach; [assumption|]. unfold alloc_fuel.
    destruct (last_start ws) as [s|]; [|lia].
    replace (Z.max slide 1) with slide by lia.
    pose proof (skip_arith (ts - s)) as HS. cbv zeta in HS.
    set (q := Z.quot (Z.max (ts - s) 0) slide) in *.
    split; [|lia]. rewrite Nat2Z.inj_add, Z2Nat.id by lia. nia.
  Qed.

  (** ** feed *)
  Definition hit (ts : Z) (sl : slot) : bool := (e_start sl <=? ts) && (ts <? e_end sl).
  Definition upd (x : A) (sl : slot) : slot :=
    {| e_acc := proc (e_acc sl) x; e_start := e_start sl; e_end := e_end sl; e_active := true |}.
  Definition feed1 (x : A) (ts : Z) (sl : slot) : slot := if hit ts sl then upd x sl else sl.

  Lemma feed1_id x ts (ws : list slot) :
    Forall (fun sl => hit ts sl = false) ws -> map (feed1 x ts) ws = ws.
  Proof.
    induction 1 as [|a ws Ha _ IH]; [reflexivity|].
    cbn [map]. unfold feed1 at 1. now rewrite Ha, IH.
  Qed.

  Lemma sorted_tail a (ws : list slot) p :
    chain p (a :: ws) -> Forall wf_slot (a :: ws) ->
    Forall (fun sl => e_start a < e_start sl /\ e_end a < e_end sl) ws.
  Proof.
    intros [_ Hc] Hwf. apply chain_lb in Hc. inversion Hwf as [|? ? [Ha _] Hwf']; subst.
    rewrite Forall_forall in *. intros sl Hin.
    specialize (Hc _ Hin). destruct (Hwf' _ Hin) as [Hs _]. lia.
  Qed.

  Lemma feed_take_map x ts : forall ws p,
    chain p ws -> Forall wf_slot ws -> Forall (fun sl => ts < e_end sl) ws ->
    feed_take proc ws x ts = map (feed1 x ts) ws.
  Proof.
    induction ws as [|a ws IH]; intros p Hc Hwf He; [reflexivity|].
    pose proof (sorted_tail _ _ _ Hc Hwf) as Hs.
    inversion He as [|? ? Ha He']; subst.
    inversion Hwf as [|? ? _ Hwf']; subst. destruct Hc as [_ Hc].
    cbn [feed_take map]. unfold feed1 at 1, hit.
    destruct (e_start a <=? ts) eqn:E1.
    - replace (ts <? e_end a) with true by lia. cbn [andb].
      unfold upd at 1. f_equal. eapply IH; eauto.
    - cbn [andb]. f_equal. symmetry. apply feed1_id.
      eapply Forall_impl; [|exact Hs]. cbn. unfold hit. intros; lia.
  Qed.

  Lemma feed_map x ts : forall ws p,
    chain p ws -> Forall wf_slot ws ->
    feed proc ws x ts = map (feed1 x ts) ws.
  Proof.
    induction ws as [|a ws IH]; intros p Hc Hwf; [reflexivity|].
    pose proof (sorted_tail _ _ _ Hc Hwf) as Hs.
    cbn [feed]. destruct (e_end a <=? ts) eqn:E1.
    - cbn [map]. unfold feed1 at 1, hit. replace (ts <? e_end a) with false by lia.
      rewrite andb_false_r. f_equal.
      inversion Hwf; subst. destruct Hc as [_ Hc]. eapply IH; eauto.
    - eapply feed_take_map; eauto. constructor; [lia|].
      eapply Forall_impl; [|exact Hs]. cbn. intros; lia.
  Qed.

  Lemma feed1_start x ts sl : e_start (feed1 x ts sl) = e_start sl.
  Proof. unfold feed1. now destruct (hit ts sl). Qed.
  Lemma feed1_end x ts sl : e_end (feed1 x ts sl) = e_end sl.
  Proof. unfold feed1. now destruct (hit ts sl). Qed.

  Lemma chain_map_feed1 x ts : forall ws p, chain p ws -> chain p (map (feed1 x ts) ws).
  Proof.
    induction ws as [|a ws IH]; intros p H; [exact I|].
    destruct H as [H1 H2]. cbn [map chain]. rewrite feed1_start. split.
    - destruct p; [|exact I]. cbn in *. now rewrite feed1_start.
    - now apply IH.
  Qed.
  Lemma feed1_wf x ts sl : wf_slot sl -> wf_slot (feed1 x ts sl).
  Proof.
    unfold feed1. destruct (hit ts sl); [|auto]. intros [H1 H2].
    split; cbn; [assumption|discriminate].
  Qed.
  Lemma last_start_map_feed1 x ts (ws : list slot) :
    last_start (map (feed1 x ts) ws) = last_start ws.
  Proof.
    destruct ws as [|b ws] using rev_ind; [reflexivity|].
    rewrite map_app. cbn [map]. rewrite !last_start_snoc. now rewrite feed1_start.
  Qed.

  (** ** fire_split *)
  Lemma fire_split_app w : forall (ws a b : list slot),
    fire_split ws w = (a, b) -> ws = a ++ b /\ Forall (fun sl => e_end sl <= w) a.
  Proof.
    induction ws as [|x ws IH]; intros a b H; cbn [fire_split] in H.
    - injection H as <- <-. split; [reflexivity|constructor].
    - destruct (e_end x <=? w) eqn:E.
      + destruct (fire_split ws w) as [a' b'] eqn:EF. injection H as <- <-.
        destruct (IH _ _ eq_refl) as [-> HF]. split; [reflexivity|].
        constructor; [lia|assumption].
      + injection H as <- <-. split; [reflexivity|constructor].
  Qed.
  Lemma fire_split_rest w : forall (ws a b : list slot) p,
    chain p ws -> Forall wf_slot ws ->
    fire_split ws w = (a, b) -> Forall (fun sl => w < e_end sl) b.
  Proof.
    induction ws as [|x ws IH]; intros a b p Hc Hwf H; cbn [fire_split] in H.
    - injection H as <- <-. constructor.
    - destruct (e_end x <=? w) eqn:E.
      + destruct (fire_split ws w) as [a' b'] eqn:EF. injection H as <- <-.
        inversion Hwf; subst. destruct Hc as [_ Hc]. eapply IH; eauto.
      + injection H as <- <-. constructor; [lia|].
        pose proof (sorted_tail _ _ _ Hc Hwf) as Hs.
        eapply Forall_impl; [|exact Hs]. cbn. intros; lia.
  Qed.

  (** ** one step preserves the invariant *)
  Definition ok_elem (lw : option Z) (e : elem A) : Prop :=
    match e with
    | Item _ => False
    | Tst _ t => forall w, lw = Some w -> w < t
    | _ => True
    end.
  Definition next_lw (lw : option Z) (e : elem A) : option Z :=
    match e with Wm w => Some w | _ => lw end.

  Lemma et_step_inv s e :
    Inv s -> ok_elem (e_lw s) e ->
    exists s', fst (et_step acc0 proc out size slide (Some s) e) = Some s' /\
               Inv s' /\ e_lw s' = next_lw (e_lw s) e.
  Proof.
    intros (Hc & Hwf & Hab) Hok. destruct e as [v|v t|w| | | ]; cbn [ok_elem] in Hok.
    - contradiction.
    - cbn [et_step].
      replace (match e_lw s with Some w => t <? w | None => false end) with false.
      2:{ destruct (e_lw s) as [w|]; [|reflexivity]. specialize (Hok w eq_refl). lia. }
      cbn [fst]. eexists. split; [reflexivity|]. split; [|reflexivity].
      destruct (alloc_inv (alloc_fuel slide (e_ws s) t) (e_lw s) (e_ws s) t Hok Hc Hwf Hab)
        as (new & E & H1 & H2 & H3 & _).
      rewrite E. unfold Inv. cbn [e_ws e_lw].
      rewrite (feed_map v t _ None H1 H2). split; [|split].
      + now apply chain_map_feed1.
      + rewrite Forall_map. eapply Forall_impl; [|exact H2]. intros; now apply feed1_wf.
      + intros w Hw. rewrite Forall_map. eapply Forall_impl; [|exact (H3 w Hw)].
        cbn. intros a. now rewrite feed1_end.
    - cbn [et_step]. destruct (fire_split (e_ws s) w) as [a b] eqn:EF. cbn [fst].
      eexists. split; [reflexivity|]. split; [|reflexivity].
      pose proof (fire_split_rest _ _ _ _ _ Hc Hwf EF) as Hb.
      destruct (fire_split_app _ _ _ _ EF) as [E _].
      unfold Inv. cbn [e_ws e_lw]. rewrite E in Hc, Hwf.
      apply chain_app_inv in Hc. apply Forall_app in Hwf. split; [tauto|]. split; [tauto|].
      intros w0 [= <-]. assumption.
    - cbn [et_step fst]. eexists. split; [reflexivity|]. split; [|reflexivity].
      repeat split; assumption.
    - cbn [et_step fst]. eexists. split; [reflexivity|]. split; [|reflexivity].
      unfold Inv. cbn [e_ws e_lw]. split; [exact I|]. split; [constructor|].
      intros w _. constructor.
    - cbn [et_step fst]. eexists. split; [reflexivity|]. split; [|reflexivity].
      unfold Inv. cbn [e_ws e_lw]. split; [exact I|]. split; [constructor|].
      intros w _. constructor.
  Qed.

  Lemma in_contract_cons lw (e : elem A) l :
    in_contract lw (e :: l) -> ok_elem lw e /\ in_contract (next_lw lw e) l.
  Proof.
    destruct e; cbn; try tauto.
    intros [H1 H2]. split; [|assumption]. intros w ->. assumption.
  Qed.

  Definition init_state : state := {| e_lw := None; e_ws := [] |}.
  Lemma Inv_init : Inv init_state.
  Proof. unfold Inv. cbn. split; [exact I|]. split; [constructor|]. intros w; discriminate. Qed.

  Lemma et_run_inv : forall l s,
    Inv s -> in_contract (e_lw s) l ->
    exists s', fst (run_from EM (Some s) l) = Some s' /\ Inv s'.
  Proof.
    induction l as [|e l IH]; intros s HI HC.
    - exists s. now split.
    - apply in_contract_cons in HC. destruct HC as [Hok HC].
      destruct (et_step_inv s e HI Hok) as (s1 & E1 & HI1 & Elw).
      rewrite run_from_cons_fst. assert (E1' : fst (mstep EM (Some s) e) = Some s1) by exact E1. rewrite E1'.
      apply IH; [assumption|]. now rewrite Elw.
  Qed.

  (** E0 *)
  Theorem et_invariant : forall l,
    in_contract None l -> exists s, fst (run_from EM (minit EM) l) = Some s /\ Inv s.
  Proof. intros l H. apply (et_run_inv l init_state Inv_init H). Qed.

  (** E1 *)
  Theorem et_no_panic : forall l,
    in_contract None l -> exists s, fst (run_from EM (minit EM) l) = Some s.
  Proof. intros l H. destruct (et_invariant l H) as (s & E & _). now exists s. Qed.

  (** ** E3: when results are emitted *)
  Lemma et_data_emits_nothing : forall st x t,
    snd (et_step acc0 proc out size slide st (Tst x t)) = [].
  Proof using Type.
    intros [s|] x t; [|reflexivity]. cbn [et_step].
    destruct (match e_lw s with Some w => t <? w | None => false end); reflexivity.
  Qed.

  Lemma et_round_end_flushes : forall s e, (e = FAR \/ e = Terminate) ->
    exists s', fst (et_step acc0 proc out size slide (Some s) e) = Some s' /\ e_ws s' = [].
  Proof using Type. intros s e [-> | ->]; cbn [et_step fst]; eexists; split; reflexivity. Qed.

  Lemma et_round_end_results : forall s e, (e = FAR \/ e = Terminate) ->
    snd (et_step acc0 proc out size slide (Some s) e) = results out (e_ws s).
  Proof using Type. intros s e [-> | ->]; reflexivity. Qed.

  Lemma in_results r (ws : list slot) :
    In r (results out ws) -> exists sl, In sl ws /\ e_active sl = true /\ r = eres out sl.
  Proof.
    unfold results. rewrite in_map_iff. intros (sl & <- & Hin).
    apply filter_In in Hin. destruct Hin. now exists sl.
  Qed.

  Theorem et_fire_on_watermark : forall l w s s' rs,
    in_contract None l ->
    fst (run_from EM (minit EM) l) = Some s ->
    et_step acc0 proc out size slide (Some s) (Wm w) = (Some s', rs) ->
    (forall r, In r rs -> exists e, snd r = Some e /\ e <= w) /\
    (forall sl, In sl (e_ws s') -> w < e_end sl).
  Proof.
    intros l w s s' rs HC Hrun Hstep.
    destruct (et_invariant l HC) as (s0 & E0 & HI).
    assert (s0 = s) by congruence. subst s0.
    destruct HI as (Hc & Hwf & _).
    cbn [et_step] in Hstep. destruct (fire_split (e_ws s) w) as [a b] eqn:EF.
    injection Hstep as <- <-.
    destruct (fire_split_app _ _ _ _ EF) as [_ Ha].
    pose proof (fire_split_rest _ _ _ _ _ Hc Hwf EF) as Hb.
    split.
    - intros r Hr. apply in_results in Hr. destruct Hr as (sl & Hin & _ & ->).
      exists (e_end sl). split; [reflexivity|].
      rewrite Forall_forall in Ha. now apply Ha.
    - cbn [e_ws]. now rewrite Forall_forall in Hb.
  Qed.

  (** ** how many slots one element can hit *)
  Lemma filter_length_le {X} (f g : X -> bool) (l : list X) :
    (forall x, f x = true -> g x = true) ->
    (length (filter f l) <= length (filter g l))%nat.
  Proof.
    intros H. induction l as [|x l IH]; [reflexivity|]. cbn [filter].
    destruct (f x) eqn:Ef.
    - rewrite (H _ Ef). cbn [length]. lia.
    - destruct (g x); cbn [length]; lia.
  Qed.

  Lemma le_count ts : forall ws p,
    chain (Some p) ws ->
    Z.of_nat (length (filter (fun sl : slot => e_start sl <=? ts) ws)) * slide <= Z.max 0 (ts - p).
  Proof.
    induction ws as [|a ws IH]; intros p Hc; [cbn; lia|].
    destruct Hc as [[k [Hk Ha]] Hc]. specialize (IH _ Hc). cbn [filter].
    destruct (e_start a <=? ts) eqn:E.
    - cbn [length]. rewrite Nat2Z.inj_succ. nia.
    - nia.
  Qed.

  Definition nwin : Z := (size + slide - 1) / slide.

  Lemma hit_count_bound ts : forall ws p,
    chain p ws -> Forall wf_slot ws ->
    Z.of_nat (length (filter (hit ts) ws)) <= nwin.
  Proof.
    assert (H0 : 0 <= nwin) by (unfold nwin; apply Z.div_pos; lia).
    induction ws as [|a ws IH]; intros p Hc Hwf; [cbn; lia|].
    inversion Hwf as [|? ? [Ha _] Hwf']; subst. destruct Hc as [_ Hc].
    cbn [filter]. destruct (hit ts a) eqn:EH; [|eapply IH; eauto].
    cbn [length]. rewrite Nat2Z.inj_succ.
    pose proof (le_count ts _ _ Hc) as HL.
    pose proof (filter_length_le (hit ts) (fun sl : slot => e_start sl <=? ts) ws) as HF.
    assert (HF' : Z.of_nat (length (filter (hit ts) ws)) <=
                  Z.of_nat (length (filter (fun sl : slot => e_start sl <=? ts) ws))).
    { apply Nat2Z.inj_le. apply HF. unfold hit. intros; lia. }
    unfold hit in EH. unfold nwin.
    apply Z.div_le_lower_bound; [lia|]. nia.
  Qed.

  (** ** coverage (used for in-order arrivals) *)
  Definition covered (ws : list slot) (t : Z) : Prop :=
    Exists (fun sl => e_start sl <= t < e_end sl) ws.

  Definition cov_from (lo : Z) (ws : list slot) : Prop :=
    forall t L, last_start ws = Some L -> lo <= t <= L -> covered ws t.

  Lemma alloc_cov : forall f lw ws ts,
    (forall w, lw = Some w -> w < ts) ->
    Forall wf_slot ws -> cov_from ts ws ->
    cov_from ts (alloc acc0 size slide f lw ws ts).
  Proof.
    induction f as [|f IH]; intros lw ws ts Hlw Hwf HJ; [exact HJ|].
    rewrite alloc_S. destruct (need ws ts) eqn:EN; [|exact HJ].
    pose proof (next_start_spec lw ws ts Hlw) as HNS. cbv zeta in HNS.
    set (ns := next_start lw ws ts) in *.
    destruct HNS as (HN1 & HN2 & HN3).
    apply IH; [assumption| |].
    - apply Forall_app. split; [assumption|]. constructor; [apply fresh_wf|constructor].
    - intros t L. rewrite last_start_snoc. cbn [fresh e_start]. intros [= <-] Ht.
      unfold covered. apply Exists_app. unfold need in EN.
      destruct (last_start ws) as [s|] eqn:EL.
      + destruct (HN2 s eq_refl) as (q & Hq & Ens & Hskip).
        assert (q = 0) as ->.
        { destruct (Z.eq_dec q 0); [assumption|].
          destruct Hskip as (w & Hw & Hle); [lia|]. specialize (Hlw w Hw). lia. }
        destruct (Z.eq_dec t ns) as [->|Hne].
        * right. constructor. cbn [fresh e_start e_end]. lia.
        * left. destruct (last_start_inv _ _ EL) as (ws0 & a & -> & Ea).
          apply Exists_app. right. constructor.
          apply Forall_app in Hwf. destruct Hwf as [_ Hwf].
          inversion Hwf as [|? ? [Hae _] _]; subst. lia.
      + right. constructor. cbn [fresh e_start e_end]. rewrite (HN1 eq_refl) in *. lia.
  Qed.
End ETGen.

(** * Index groups *)
Definition pick {X} (xs : list X) (idx : list nat) : list X :=
  flat_map (fun i => match nth_error xs i with Some x => [x] | None => [] end) idx.
Definition has (i : nat) (g : list nat) : bool := existsb (Nat.eqb i) g.
(** number of groups containing index [i] *)
Definition cnt (i : nat) (gl : list (list nat)) : nat := length (filter (has i) gl).

Section PickFacts.
  Context {X : Type}.
  Implicit Types (xs ys : list X) (g : list nat).

  Lemma pick_app xs g1 g2 : pick xs (g1 ++ g2) = pick xs g1 ++ pick xs g2.
  Proof. apply flat_map_app. Qed.
  Lemma pick_app_l xs ys g :
    Forall (fun i => (i < length xs)%nat) g -> pick (xs ++ ys) g = pick xs g.
  Proof.
    induction 1 as [|i g Hi _ IH]; [reflexivity|].
    unfold pick in *. cbn [flat_map]. now rewrite IH, nth_error_app1.
  Qed.
  Lemma pick_new xs y : pick (xs ++ [y]) [length xs] = [y].
  Proof.
    cbn [pick flat_map]. rewrite nth_error_app2, Nat.sub_diag by lia. reflexivity.
  Qed.
  Lemma pick_snoc_new xs y g :
    Forall (fun i => (i < length xs)%nat) g ->
    pick (xs ++ [y]) (g ++ [length xs]) = pick xs g ++ [y].
  Proof. intros H. now rewrite pick_app, pick_app_l, pick_new. Qed.
  Lemma pick_In xs g x : In x (pick xs g) -> In x xs.
  Proof.
    unfold pick. rewrite in_flat_map. intros (i & _ & Hx).
    destruct (nth_error xs i) as [y|] eqn:E; [|contradiction].
    destruct Hx as [<-|[]]. eapply nth_error_In; eauto.
  Qed.
  Lemma pick_seq_gen : forall xs pre, pick (pre ++ xs) (seq (length pre) (length xs)) = xs.
  Proof.
    induction xs as [|x xs IH]; intros pre; [reflexivity|].
    cbn [length seq pick flat_map].
    rewrite nth_error_app2, Nat.sub_diag by lia. cbn [nth_error app]. f_equal.
    specialize (IH (pre ++ [x])). rewrite <- app_assoc, app_length in IH. cbn [app length] in IH.
    rewrite Nat.add_1_r in IH. exact IH.
  Qed.
  Lemma pick_seq xs : pick xs (seq 0 (length xs)) = xs.
  Proof. exact (pick_seq_gen xs []). Qed.
End PickFacts.

Lemma cnt_app i a b : cnt i (a ++ b) = (cnt i a + cnt i b)%nat.
Proof. unfold cnt. now rewrite filter_app, app_length. Qed.
Lemma cnt_cons i g gl : cnt i (g :: gl) = ((if has i g then 1 else 0) + cnt i gl)%nat.
Proof. unfold cnt. cbn [filter]. destruct (has i g); reflexivity. Qed.
Lemma has_snoc i g n : has i (g ++ [n]) = has i g || (i =? n)%nat.
Proof. unfold has. rewrite existsb_app. cbn. now rewrite orb_false_r. Qed.
Lemma has_lt n g : Forall (fun j => (j < n)%nat) g -> has n g = false.
Proof.
  induction 1 as [|j g Hj _ IH]; [reflexivity|].
  cbn [has existsb]. fold (has n g). rewrite IH.
  replace (n =? j)%nat with false by (symmetry; apply Nat.eqb_neq; lia). reflexivity.
Qed.
Lemma has_In i g : has i g = true <-> In i g.
Proof.
  unfold has. rewrite existsb_exists. split.
  - intros (x & Hx & E). apply Nat.eqb_eq in E. now subst.
  - intros H. exists i. split; [assumption|apply Nat.eqb_refl].
Qed.
Lemma cnt_zero i gl : Forall (fun g => has i g = false) gl -> cnt i gl = 0%nat.
Proof.
  induction 1 as [|g gl Hg _ IH]; [reflexivity|].
  unfold cnt in *. cbn [filter]. now rewrite Hg.
Qed.
Lemma ssorted_snoc g n :
  StronglySorted lt g -> Forall (fun j => (j < n)%nat) g -> StronglySorted lt (g ++ [n]).
Proof.
  induction 1 as [|a g Hs IH Ha]; intros Hn; cbn [app].
  - constructor; constructor.
  - inversion Hn; subst. constructor; [now apply IH|].
    apply Forall_app. split; [assumption|]. constructor; [assumption|constructor].
Qed.

(** watermarks never decrease (the extra hypothesis of the in-order coverage theorems) *)
Fixpoint wm_sorted {A : Type} (lw : option Z) (l : list (elem A)) : Prop :=
  match l with
  | [] => True
  | Wm w :: l' => match lw with Some u => u <= w | None => True end /\ wm_sorted (Some w) l'
  | _ :: l' => wm_sorted lw l'
  end.

(** * The manager run on index-tagged payloads (ghost instance of the same model) *)
Section ETGhost.
  Context {A B C : Type}.
  Variable (acc0 : B) (proc : B -> A -> B) (out : B -> C).
  Variable (size slide : Z).
  Hypothesis Hslide : 0 < slide.
  Hypothesis Hss : slide <= size.
  #[local] Set Default Proof Using "All".

  Notation A' := (A * nat)%type.
  Notation B' := (B * list nat)%type.
  Definition gacc0 : B' := (acc0, []).
  Definition gproc (b : B') (x : A') : B' := (proc (fst b) (fst x), snd b ++ [snd x]).
  Definition gout (b : B') : B' := b.
  Notation inst L := (L A' B' B' gacc0 gproc gout size slide Hslide Hss).
  Notation gstep := (et_step gacc0 gproc gout size slide).
  Definition GM : machine (elem A') (wres B') := EM gacc0 gproc gout size slide.

  (** forgetting the indices gives back the real run *)
  Definition pslot (sl : @eslot B') : @eslot B :=
    {| e_acc := fst (e_acc sl); e_start := e_start sl; e_end := e_end sl;
       e_active := e_active sl |}.
  Definition pstate (s : @estate B') : @estate B :=
    {| e_lw := e_lw s; e_ws := map pslot (e_ws s) |}.
  Definition pres (r : wres B') : wres C := (out (fst (fst r)), snd r).

  Lemma last_start_pslot ws : last_start (map pslot ws) = last_start ws.
  Proof.
    destruct ws as [|b ws] using rev_ind; [reflexivity|].
    rewrite map_app. cbn [map]. now rewrite !last_start_snoc.
  Qed.
  Lemma alloc_pslot : forall f lw ws ts,
    alloc acc0 size slide f lw (map pslot ws) ts = map pslot (alloc gacc0 size slide f lw ws ts).
  Proof.
    induction f as [|f IH]; intros lw ws ts; [reflexivity|].
    cbn [alloc]. cbv zeta. rewrite last_start_pslot.
    destruct (match last_start ws with Some s => s <? ts | None => true end); [|reflexivity].
    rewrite <- IH, map_app. reflexivity.
  Qed.
  Lemma alloc_fuel_pslot ws ts : alloc_fuel slide (map pslot ws) ts = alloc_fuel slide ws ts.
  Proof. unfold alloc_fuel. now rewrite last_start_pslot. Qed.
  Lemma feed_take_pslot x ts : forall ws,
    feed_take proc (map pslot ws) (fst x) ts = map pslot (feed_take gproc ws x ts).
  Proof.
    induction ws as [|a ws IH]; [reflexivity|].
    cbn [feed_take map]. change (e_start (pslot a)) with (e_start a).
    destruct (e_start a <=? ts); cbn [map]; [|reflexivity].
    rewrite IH. reflexivity.
  Qed.
  Lemma feed_pslot x ts : forall ws,
    feed proc (map pslot ws) (fst x) ts = map pslot (feed gproc ws x ts).
  Proof.
    induction ws as [|a ws IH]; [reflexivity|].
    cbn [feed map]. change (e_end (pslot a)) with (e_end a).
    destruct (e_end a <=? ts); cbn [map].
    - now rewrite IH.
    - apply (feed_take_pslot x ts (a :: ws)).
  Qed.
  Lemma fire_split_pslot w : forall ws,
    fire_split (map pslot ws) w =
    (map pslot (fst (fire_split ws w)), map pslot (snd (fire_split ws w))).
  Proof.
    induction ws as [|a ws IH]; [reflexivity|].
    cbn [fire_split map]. change (e_end (pslot a)) with (e_end a).
    destruct (e_end a <=? w); [|reflexivity].
    rewrite IH. destruct (fire_split ws w); reflexivity.
  Qed.
  Lemma results_pslot ws : results out (map pslot ws) = map pres (results gout ws).
  Proof.
    unfold results. induction ws as [|a ws IH]; [reflexivity|].
    cbn [map filter]. change (e_active (pslot a)) with (e_active a).
    destruct (e_active a); cbn [map]; [|exact IH].
    rewrite IH. reflexivity.
  Qed.

  Lemma sim_step st e :
    et_step acc0 proc out size slide (option_map pstate st) (emap fst e) =
    (option_map pstate (fst (gstep st e)), map pres (snd (gstep st e))).
  Proof.
    destruct st as [s|]; [|reflexivity].
    destruct e as [v|v t|w| | | ]; cbn [option_map emap et_step].
    - reflexivity.
    - cbn [pstate e_lw e_ws].
      destruct (match e_lw s with Some w => t <? w | None => false end); [reflexivity|].
      cbn [fst snd option_map pstate map e_lw e_ws].
      now rewrite alloc_fuel_pslot, alloc_pslot, feed_pslot.
    - cbn [pstate e_lw e_ws]. rewrite fire_split_pslot.
      destruct (fire_split (e_ws s) w) as [a b].
      cbn [fst snd option_map pstate e_lw e_ws]. now rewrite results_pslot.
    - reflexivity.
    - cbn [pstate e_lw e_ws fst snd option_map]. now rewrite results_pslot.
    - cbn [pstate e_lw e_ws fst snd option_map]. now rewrite results_pslot.
  Qed.

  Lemma sim_run : forall l st,
    run_from (EM acc0 proc out size slide) (option_map pstate st) (map (emap fst) l) =
    (option_map pstate (fst (run_from GM st l)), map pres (snd (run_from GM st l))).
  Proof.
    induction l as [|e l IH]; intros st; [reflexivity|].
    cbn [map run_from].
    change (mstep (EM acc0 proc out size slide) (option_map pstate st) (emap fst e))
      with (et_step acc0 proc out size slide (option_map pstate st) (emap fst e)).
    rewrite sim_step.
    change (mstep GM st e) with (gstep st e).
    destruct (gstep st e) as [s1 o1]. cbn [fst snd].
    rewrite IH. destruct (run_from GM s1 l) as [s2 o2]. cbn [fst snd].
    now rewrite map_app.
  Qed.

  (** tagging the k-th timestamped element with k *)
  Definition tag1 (n : nat) (e : elem A) : elem A' :=
    match e with
    | Item v => Item (v, n) | Tst v t => Tst (v, n) t | Wm t => Wm t
    | FlushBatch => FlushBatch | Terminate => Terminate | FAR => FAR
    end.
  Definition bump (n : nat) (e : elem A) : nat :=
    match e with Tst _ _ => S n | _ => n end.
  Fixpoint tag (n : nat) (l : list (elem A)) : list (elem A') :=
    match l with
    | [] => []
    | e :: l' => tag1 n e :: tag (bump n e) l'
    end.
  Lemma untag_tag : forall l n, map (emap fst) (tag n l) = l.
  Proof.
    induction l as [|e l IH]; intros n; [reflexivity|].
    cbn [tag map]. rewrite IH. now destruct e.
  Qed.

  (** the real run is the projection of the tagged run *)
  Lemma run_proj l :
    run_from (EM acc0 proc out size slide) (minit (EM acc0 proc out size slide)) l =
    (option_map pstate (fst (run_from GM (minit GM) (tag 0 l))),
     map pres (snd (run_from GM (minit GM) (tag 0 l)))).
  Proof.
    rewrite <- sim_run, untag_tag. reflexivity.
  Qed.

  (** ** the ghost invariant: what each slot and each emitted result contains *)
  Definition nonempty (g : list nat) : bool := match g with [] => false | _ => true end.
  Definition gs_ok (D : list (A * Z)) (sl : @eslot B') : Prop :=
    fst (e_acc sl) = fold_left proc (map fst (pick D (snd (e_acc sl)))) acc0 /\
    Forall (fun i => (i < length D)%nat) (snd (e_acc sl)) /\
    StronglySorted lt (snd (e_acc sl)) /\
    e_active sl = nonempty (snd (e_acc sl)) /\
    Forall (fun x => e_start sl <= snd x < e_end sl) (pick D (snd (e_acc sl))).
  Definition gd_ok (D : list (A * Z)) (r : wres B') : Prop :=
    exists e, snd r = Some e /\ snd (fst r) <> [] /\
    fst (fst r) = fold_left proc (map fst (pick D (snd (fst r)))) acc0 /\
    Forall (fun i => (i < length D)%nat) (snd (fst r)) /\
    StronglySorted lt (snd (fst r)) /\
    Forall (fun x => e - size <= snd x < e) (pick D (snd (fst r))).
  Definition grp_ws (ws : list (@eslot B')) : list (list nat) :=
    map (fun sl => snd (e_acc sl)) ws.
  Definition grp_done (done : list (wres B')) : list (list nat) :=
    map (fun r => snd (fst r)) done.
  Definition GI (D : list (A * Z)) (done : list (wres B')) (s : @estate B') : Prop :=
    Inv gacc0 size slide s /\ Forall (gs_ok D) (e_ws s) /\ Forall (gd_ok D) done /\
    forall i, (i < length D)%nat ->
      Z.of_nat (cnt i (grp_done done ++ grp_ws (e_ws s))) <= nwin size slide.

  Lemma grp_done_app a b : grp_done (a ++ b) = grp_done a ++ grp_done b.
  Proof. apply map_app. Qed.
  Lemma grp_ws_app a b : grp_ws (a ++ b) = grp_ws a ++ grp_ws b.
  Proof. apply map_app. Qed.

  Lemma lt_app_mono (D E : list (A * Z)) g :
    Forall (fun i => (i < length D)%nat) g -> Forall (fun i => (i < length (D ++ E))%nat) g.
  Proof. apply Forall_impl. intros i Hi. rewrite app_length. lia. Qed.

  Lemma gs_ok_mono D E sl : gs_ok D sl -> gs_ok (D ++ E) sl.
  Proof.
    intros (H1 & H2 & H3 & H4 & H5). unfold gs_ok.
    rewrite (pick_app_l D E _ H2). repeat split; auto. now apply lt_app_mono.
  Qed.
  Lemma gd_ok_mono D E r : gd_ok D r -> gd_ok (D ++ E) r.
  Proof.
    intros (e & H0 & Hne & H1 & H2 & H3 & H5). exists e. unfold gd_ok.
    rewrite (pick_app_l D E _ H2). repeat split; auto. now apply lt_app_mono.
  Qed.
  Lemma gs_ok_fresh D sl : is_fresh gacc0 sl -> gs_ok D sl.
  Proof.
    intros [H1 H2]. unfold gs_ok. rewrite H1, H2. cbn. repeat split; constructor.
  Qed.

  Lemma gs_ok_feed1 D x ts sl :
    gs_ok D sl -> gs_ok (D ++ [(x, ts)]) (feed1 gproc (x, length D) ts sl).
  Proof.
    intros H. unfold feed1. destruct (hit ts sl) eqn:EH; [|now apply gs_ok_mono].
    destruct H as (H1 & H2 & H3 & H4 & H5). unfold gs_ok.
    cbn [upd e_acc e_start e_end e_active gproc fst snd].
    rewrite (pick_snoc_new D (x, ts) _ H2). repeat split.
    - rewrite map_app, fold_left_app, <- H1. reflexivity.
    - apply Forall_app. split; [now apply lt_app_mono|].
      constructor; [|constructor]. rewrite app_length. cbn. lia.
    - now apply ssorted_snoc.
    - destruct (snd (e_acc sl)); reflexivity.
    - apply Forall_app. split; [assumption|]. constructor; [|constructor].
      unfold hit in EH. cbn [snd]. lia.
  Qed.

  Lemma has_feed1_old i n x ts sl : i <> n ->
    has i (snd (e_acc (feed1 gproc (x, n) ts sl))) = has i (snd (e_acc sl)).
  Proof.
    intros Hne. unfold feed1. destruct (hit ts sl); [|reflexivity].
    cbn [upd e_acc gproc fst snd]. rewrite has_snoc.
    replace (i =? n)%nat with false by (symmetry; now apply Nat.eqb_neq).
    apply orb_false_r.
  Qed.
  Lemma cnt_feed_old i n x ts ws : i <> n ->
    cnt i (grp_ws (map (feed1 gproc (x, n) ts) ws)) = cnt i (grp_ws ws).
  Proof.
    intros Hne. unfold cnt, grp_ws. induction ws as [|a ws IH]; [reflexivity|].
    cbn [map filter]. rewrite (has_feed1_old i n x ts a Hne).
    destruct (has i (snd (e_acc a))); cbn [length]; now rewrite IH.
  Qed.
  Lemma cnt_feed_new n x ts ws :
    Forall (fun sl => Forall (fun j => (j < n)%nat) (snd (e_acc sl))) ws ->
    cnt n (grp_ws (map (feed1 gproc (x, n) ts) ws)) = length (filter (hit ts) ws).
  Proof.
    unfold cnt, grp_ws. induction 1 as [|a ws Ha _ IH]; [reflexivity|].
    cbn [map filter]. unfold feed1 at 1. destruct (hit ts a).
    - cbn [upd e_acc gproc fst snd]. rewrite has_snoc, Nat.eqb_refl, orb_true_r.
      cbn [length]. now rewrite IH.
    - now rewrite (has_lt _ _ Ha).
  Qed.
  Lemma cnt_fresh i new : Forall (is_fresh gacc0) new -> cnt i (grp_ws new) = 0%nat.
  Proof.
    intros H. apply cnt_zero. unfold grp_ws. rewrite Forall_map.
    eapply Forall_impl; [|exact H]. intros sl [-> _]. reflexivity.
  Qed.
  Lemma cnt_done_new D done :
    Forall (gd_ok D) done -> cnt (length D) (grp_done done) = 0%nat.
  Proof.
    intros H. apply cnt_zero. unfold grp_done. rewrite Forall_map.
    eapply Forall_impl; [|exact H]. intros r (e & _ & _ & _ & Hlt & _). now apply has_lt.
  Qed.
  Lemma cnt_results D i a :
    Forall (gs_ok D) a -> cnt i (grp_done (results gout a)) = cnt i (grp_ws a).
  Proof.
    unfold results.
    induction 1 as [|sl a Hsl _ IH]; [reflexivity|].
    destruct Hsl as (_ & _ & _ & Hact & _). cbn [filter].
    unfold grp_ws. cbn [map]. fold (grp_ws a). rewrite cnt_cons.
    destruct (e_active sl).
    - unfold grp_done. cbn [map]. fold (grp_done (map (eres gout) (filter e_active a))).
      rewrite cnt_cons, IH. reflexivity.
    - destruct (snd (e_acc sl)); [|discriminate]. cbn [has existsb]. exact IH.
  Qed.
  Lemma gd_ok_results D a :
    Forall (wf_slot gacc0 size) a -> Forall (gs_ok D) a -> Forall (gd_ok D) (results gout a).
  Proof.
    intros Hwf H. unfold results. rewrite Forall_map. rewrite Forall_forall in *.
    intros sl Hin. apply filter_In in Hin. destruct Hin as [Hin Hact].
    destruct (H _ Hin) as (H1 & H2 & H3 & H4 & H5). destruct (Hwf _ Hin) as [He _].
    exists (e_end sl). unfold eres, gout. cbn [fst snd]. repeat split; auto.
    - intros E. rewrite E in H4. cbn in H4. congruence.
    - eapply Forall_impl; [|exact H5]. cbn. intros; lia.
  Qed.

  Lemma ok_elem_tag1 lw n e : ok_elem lw (tag1 n e) <-> ok_elem lw e.
  Proof. destruct e; reflexivity. Qed.
  Lemma next_lw_tag1 lw n e : next_lw lw (tag1 n e) = next_lw lw e.
  Proof. destruct e; reflexivity. Qed.

  Lemma GI_Inv D done s : GI D done s -> Inv gacc0 size slide s.
  Proof. now intros [H _]. Qed.

  (** one step of the tagged manager preserves the ghost invariant *)
  Lemma ghost_step D done s e :
    GI D done s -> ok_elem (e_lw s) e ->
    exists s1, fst (gstep (Some s) (tag1 (length D) e)) = Some s1 /\
      GI (D ++ tdata [e]) (done ++ snd (gstep (Some s) (tag1 (length D) e))) s1 /\
      e_lw s1 = next_lw (e_lw s) e.
  Proof.
    intros (HI & Hws & Hdn & Hcnt) Hok.
    destruct (inst (@et_step_inv) s (tag1 (length D) e) HI) as (s1 & E1 & HI1 & Elw);
      [now apply ok_elem_tag1|].
    exists s1. split; [assumption|]. rewrite next_lw_tag1 in Elw. split; [|assumption].
    split; [assumption|].
    destruct HI as (Hc & Hwf & Hab).
    destruct e as [v|v t|w| | | ]; cbn [ok_elem] in Hok; [contradiction| | | | | ];
      cbn [tag1 tdata] in *; rewrite ?app_nil_r.
    - (* data *)
      cbn [et_step] in E1 |- *.
      replace (match e_lw s with Some w => t <? w | None => false end) with false in *.
      2:{ destruct (e_lw s) as [w|]; [|reflexivity]. specialize (Hok w eq_refl). lia. }
      cbn [fst snd] in E1 |- *. injection E1 as <-. rewrite app_nil_r. cbn [e_ws].
      destruct (inst (@alloc_inv) (alloc_fuel slide (e_ws s) t) (e_lw s) (e_ws s) t Hok Hc Hwf Hab)
        as (new & E & H1 & H2 & H3 & H4).
      rewrite E. rewrite (inst (@feed_map) (v, length D) t _ None H1 H2).
      split; [|split].
      + rewrite Forall_map. apply Forall_app. split.
        * eapply Forall_impl; [|exact Hws]. intros; now apply gs_ok_feed1.
        * eapply Forall_impl; [|exact H4]. intros sl Hsl. apply gs_ok_feed1.
          now apply gs_ok_fresh.
      + eapply Forall_impl; [|exact Hdn]. intros; now apply gd_ok_mono.
      + intros i Hi. rewrite app_length in Hi. cbn [length] in Hi.
        rewrite cnt_app.
        destruct (Nat.eq_dec i (length D)) as [->|Hne].
        * rewrite (cnt_done_new D done Hdn), cnt_feed_new. cbn [Nat.add].
          -- apply (inst (@hit_count_bound) t _ None H1 H2).
          -- apply Forall_app. split.
             ++ eapply Forall_impl; [|exact Hws]. now intros sl (_ & Hlt & _).
             ++ eapply Forall_impl; [|exact H4]. intros sl [-> _]. constructor.
        * rewrite cnt_feed_old by assumption.
          rewrite grp_ws_app, cnt_app, (cnt_fresh i new H4), Nat.add_0_r, <- cnt_app.
          apply Hcnt. lia.
    - (* watermark *)
      cbn [et_step] in E1 |- *. destruct (fire_split (e_ws s) w) as [a b] eqn:EF.
      cbn [fst snd] in E1 |- *. injection E1 as <-. cbn [e_ws].
      destruct (inst (@fire_split_app) _ _ _ _ EF) as [E _].
      rewrite E in Hws, Hwf, Hcnt. apply Forall_app in Hws, Hwf.
      split; [tauto|]. split.
      + apply Forall_app. split; [assumption|]. apply gd_ok_results; tauto.
      + intros i Hi. specialize (Hcnt i Hi).
        rewrite grp_ws_app in Hcnt. rewrite grp_done_app.
        rewrite !cnt_app in *. rewrite (cnt_results D i a) by tauto. lia.
    - (* flush batch *)
      cbn [et_step fst snd] in E1 |- *. injection E1 as <-. rewrite ?app_nil_r. tauto.
    - (* terminate *)
      cbn [et_step fst snd] in E1 |- *. injection E1 as <-. cbn [e_ws].
      split; [constructor|]. split.
      + apply Forall_app. split; [assumption|]. now apply gd_ok_results.
      + intros i Hi. specialize (Hcnt i Hi).
        rewrite grp_done_app.
        rewrite !cnt_app in *. rewrite (cnt_results D i (e_ws s)) by assumption.
        cbn [grp_ws map cnt filter length]. lia.
    - (* flush and restart *)
      cbn [et_step fst snd] in E1 |- *. injection E1 as <-. cbn [e_ws].
      split; [constructor|]. split.
      + apply Forall_app. split; [assumption|]. now apply gd_ok_results.
      + intros i Hi. specialize (Hcnt i Hi).
        rewrite grp_done_app.
        rewrite !cnt_app in *. rewrite (cnt_results D i (e_ws s)) by assumption.
        cbn [grp_ws map cnt filter length]. lia.
  Qed.

  Lemma bump_length D e : bump (length D) e = length (D ++ tdata [e]).
  Proof.
    destruct e; cbn [bump tdata]; rewrite ?app_nil_r; try reflexivity.
    rewrite app_length. cbn. lia.
  Qed.
  Lemma tdata_cons (e : elem A) l : tdata (e :: l) = tdata [e] ++ tdata l.
  Proof. destruct e; reflexivity. Qed.

  Lemma ghost_run : forall l D done s,
    GI D done s -> in_contract (e_lw s) l ->
    exists s1, fst (run_from GM (Some s) (tag (length D) l)) = Some s1 /\
      GI (D ++ tdata l) (done ++ snd (run_from GM (Some s) (tag (length D) l))) s1.
  Proof.
    induction l as [|e l IH]; intros D done s HG HC.
    - exists s. cbn [tag run_from fst snd tdata]. now rewrite !app_nil_r.
    - apply (@in_contract_cons A B C acc0 proc out size slide Hslide Hss) in HC. destruct HC as [Hok HC].
      destruct (ghost_step D done s e HG Hok) as (s1 & E1 & HG1 & Elw).
      cbn [tag]. rewrite run_from_cons_fst, run_from_cons_snd.
      assert (E1' : fst (mstep GM (Some s) (tag1 (length D) e)) = Some s1) by exact E1.
      rewrite E1'.
      change (snd (mstep GM (Some s) (tag1 (length D) e)))
        with (snd (gstep (Some s) (tag1 (length D) e))).
      rewrite bump_length, (tdata_cons e l), !app_assoc.
      apply IH; [assumption|]. now rewrite Elw.
  Qed.

  Lemma GI_init : GI [] [] init_state.
  Proof.
    split; [apply (inst (@Inv_init))|]. split; [constructor|]. split; [constructor|].
    cbn [length]. intros i Hi. lia.
  Qed.

  (** ** in-order arrivals: every element lands in at least one slot *)
  Definition cov (T lw : option Z) (ws : list (@eslot B')) : Prop :=
    forall t L, (forall u, T = Some u -> u <= t) -> (forall w, lw = Some w -> w < t) ->
                last_start ws = Some L -> t <= L -> covered ws t.
  Definition SI (T : option Z) (D : list (A * Z)) (done : list (wres B')) (s : @estate B') : Prop :=
    cov T (e_lw s) (e_ws s) /\
    forall i, (i < length D)%nat -> (1 <= cnt i (grp_done done ++ grp_ws (e_ws s)))%nat.
  Definition sorted_elem (T lw : option Z) (e : elem A) : Prop :=
    match e with
    | Tst _ t => forall u, T = Some u -> u <= t
    | Wm w => forall u, lw = Some u -> u <= w
    | _ => True
    end.
  Definition next_T (T : option Z) (e : elem A) : option Z :=
    match e with Tst _ t => Some t | _ => T end.

  Lemma covered_map_feed1 x ts (ws : list (@eslot B')) t :
    covered ws t -> covered (map (feed1 gproc x ts) ws) t.
  Proof.
    unfold covered. rewrite Exists_map. apply Exists_impl.
    intros sl. now rewrite (inst (@feed1_start)), (inst (@feed1_end)).
  Qed.
  Lemma covered_hit (ws : list (@eslot B')) t :
    covered ws t -> (1 <= length (filter (hit t) ws))%nat.
  Proof.
    induction 1 as [sl ws H|sl ws _ IH]; cbn [filter].
    - replace (hit t sl) with true by (unfold hit; lia). cbn [length]. lia.
    - destruct (hit t sl); cbn [length]; lia.
  Qed.

  Lemma sorted_step T D done s e s1 :
    GI D done s -> SI T D done s -> ok_elem (e_lw s) e -> sorted_elem T (e_lw s) e ->
    fst (gstep (Some s) (tag1 (length D) e)) = Some s1 ->
    SI (next_T T e) (D ++ tdata [e]) (done ++ snd (gstep (Some s) (tag1 (length D) e))) s1.
  Proof.
    intros (HI & Hws & Hdn & _) (Hcov & Hcnt) Hok Hso E1.
    destruct HI as (Hc & Hwf & Hab).
    destruct e as [v|v t|w| | | ]; cbn [ok_elem sorted_elem] in Hok, Hso; [contradiction| | | | | ];
      cbn [tag1 tdata next_T] in *; rewrite ?app_nil_r.
    - (* data *)
      cbn [et_step] in E1 |- *.
      replace (match e_lw s with Some w => t <? w | None => false end) with false in *.
      2:{ destruct (e_lw s) as [w|]; [|reflexivity]. specialize (Hok w eq_refl). lia. }
      cbn [fst snd] in E1 |- *. injection E1 as <-. rewrite app_nil_r.
      unfold SI. cbn [e_ws e_lw].
      destruct (inst (@alloc_inv) (alloc_fuel slide (e_ws s) t) (e_lw s) (e_ws s) t Hok Hc Hwf Hab)
        as (new & E & H1 & H2 & H3 & H4).
      destruct (inst (@alloc_fuel_ok) (e_lw s) (e_ws s) t Hok) as (L0 & EL0 & HL0).
      assert (HJ : cov_from t (alloc gacc0 size slide (alloc_fuel slide (e_ws s) t) (e_lw s) (e_ws s) t)).
      { apply (inst (@alloc_cov)); [assumption|assumption|].
        intros t' L HL [Ht1 Ht2]. apply (Hcov t' L); auto.
        - intros u Hu. specialize (Hso u Hu). lia.
        - intros w Hw. specialize (Hok w Hw). lia. }
      rewrite E in *. rewrite (inst (@feed_map) (v, length D) t _ None H1 H2).
      split.
      + intros t' L HT _ HL Hle. rewrite (inst (@last_start_map_feed1)) in HL.
        apply covered_map_feed1. apply (HJ t' L HL). split; [|assumption].
        now apply HT.
      + intros i Hi. rewrite app_length in Hi. cbn [length] in Hi.
        rewrite cnt_app.
        destruct (Nat.eq_dec i (length D)) as [->|Hne].
        * rewrite (cnt_done_new D done Hdn), cnt_feed_new. cbn [Nat.add].
          -- apply covered_hit. apply (HJ t L0 EL0). lia.
          -- apply Forall_app. split.
             ++ eapply Forall_impl; [|exact Hws]. now intros sl (_ & Hlt & _).
             ++ eapply Forall_impl; [|exact H4]. intros sl [-> _]. constructor.
        * rewrite cnt_feed_old by assumption.
          rewrite grp_ws_app, cnt_app, (cnt_fresh i new H4), Nat.add_0_r, <- cnt_app.
          apply Hcnt. lia.
    - (* watermark *)
      cbn [et_step] in E1 |- *. destruct (fire_split (e_ws s) w) as [a b] eqn:EF.
      cbn [fst snd] in E1 |- *. injection E1 as <-. unfold SI. cbn [e_ws e_lw].
      destruct (inst (@fire_split_app) _ _ _ _ EF) as [E Ha].
      rewrite E in Hws, Hcov, Hcnt. apply Forall_app in Hws.
      split.
      + intros t' L HT Hlw HL Hle.
        assert (Hb : b <> []) by (intros ->; discriminate).
        specialize (Hlw w eq_refl).
        assert (Hcv : covered (a ++ b) t').
        { apply (Hcov t' L); auto.
          - intros u Hu. specialize (Hso u Hu). lia.
          - now rewrite last_start_app_ne. }
        unfold covered in *. apply Exists_app in Hcv. destruct Hcv as [Hcv|Hcv]; [|assumption].
        exfalso. apply Exists_exists in Hcv. destruct Hcv as (sl & Hin & Hsl).
        rewrite Forall_forall in Ha. specialize (Ha _ Hin). lia.
      + intros i Hi. specialize (Hcnt i Hi).
        rewrite grp_ws_app in Hcnt. rewrite grp_done_app.
        rewrite !cnt_app in *. rewrite (cnt_results D i a) by tauto. lia.
    - (* flush batch *)
      cbn [et_step fst snd] in E1 |- *. injection E1 as <-. rewrite ?app_nil_r. now split.
    - (* terminate *)
      cbn [et_step fst snd] in E1 |- *. injection E1 as <-. unfold SI. cbn [e_ws e_lw]. split.
      + intros t' L _ _ HL. discriminate.
      + intros i Hi. specialize (Hcnt i Hi). rewrite grp_done_app.
        rewrite !cnt_app in *. rewrite (cnt_results D i (e_ws s)) by assumption.
        cbn [grp_ws map cnt filter length]. lia.
    - (* flush and restart *)
      cbn [et_step fst snd] in E1 |- *. injection E1 as <-. unfold SI. cbn [e_ws e_lw]. split.
      + intros t' L _ _ HL. discriminate.
      + intros i Hi. specialize (Hcnt i Hi). rewrite grp_done_app.
        rewrite !cnt_app in *. rewrite (cnt_results D i (e_ws s)) by assumption.
        cbn [grp_ws map cnt filter length]. lia.
  Qed.

  Lemma sorted_cons T lw (e : elem A) l :
    ts_sorted T (e :: l) -> wm_sorted lw (e :: l) ->
    sorted_elem T lw e /\ ts_sorted (next_T T e) l /\ wm_sorted (next_lw lw e) l.
  Proof.
    destruct e; cbn; try tauto.
    - intros [H1 H2] H3. repeat split; auto. intros u ->. assumption.
    - intros H1 [H2 H3]. repeat split; auto. intros u ->. assumption.
  Qed.

  Lemma sorted_run : forall l T D done s s1,
    GI D done s -> SI T D done s ->
    in_contract (e_lw s) l -> ts_sorted T l -> wm_sorted (e_lw s) l ->
    fst (run_from GM (Some s) (tag (length D) l)) = Some s1 ->
    exists T', SI T' (D ++ tdata l) (done ++ snd (run_from GM (Some s) (tag (length D) l))) s1.
  Proof.
    induction l as [|e l IH]; intros T D done s s1 HG HS HC HT HW E.
    - cbn [tag run_from fst snd tdata] in *. injection E as <-. exists T. now rewrite !app_nil_r.
    - apply (@in_contract_cons A B C acc0 proc out size slide Hslide Hss) in HC.
      destruct HC as [Hok HC].
      destruct (sorted_cons _ _ _ _ HT HW) as (Hso & HT' & HW').
      destruct (ghost_step D done s e HG Hok) as (s0 & E0 & HG0 & Elw).
      pose proof (sorted_step T D done s e s0 HG HS Hok Hso E0) as HS0.
      cbn [tag] in E |- *. rewrite run_from_cons_fst in E. rewrite run_from_cons_snd.
      assert (E0' : fst (mstep GM (Some s) (tag1 (length D) e)) = Some s0) by exact E0.
      rewrite E0' in *.
      change (snd (mstep GM (Some s) (tag1 (length D) e)))
        with (snd (gstep (Some s) (tag1 (length D) e))).
      rewrite bump_length in *. rewrite (tdata_cons e l), !app_assoc.
      apply (IH (next_T T e)); auto; now rewrite Elw.
  Qed.

  Lemma SI_init : SI None [] [] init_state.
  Proof.
    split.
    - intros t L _ _ HL. discriminate.
    - cbn [length]. intros i Hi. lia.
  Qed.

  (** ** E2: every result is one interval of the key's elements *)
  Notation RM := (EM acc0 proc out size slide).

  Definition to_idx (r : wres B') : list nat * Z :=
    (snd (fst r), match snd r with Some e => e | None => 0 end).

  Lemma pick_nonempty {X} (xs : list X) g :
    g <> [] -> Forall (fun i => (i < length xs)%nat) g -> pick xs g <> [].
  Proof.
    destruct g as [|i g]; [congruence|]. intros _ H. inversion H as [|? ? Hi _]; subst.
    cbn [pick flat_map]. apply nth_error_Some in Hi.
    destruct (nth_error xs i); [discriminate|congruence].
  Qed.

  Lemma pres_to_idx D r :
    gd_ok D r -> pres r = eres_of acc0 proc out (pick D (fst (to_idx r))) (snd (to_idx r)).
  Proof.
    destruct r as [[b g] o]. intros (e & H0 & _ & H1 & _). cbn [fst snd] in *. subst o.
    unfold pres, eres_of, to_idx. cbn [fst snd]. now rewrite H1.
  Qed.
  Lemma gd_ok_group D r :
    gd_ok D r ->
    in_interval size (pick D (fst (to_idx r))) (snd (to_idx r)) /\
    StronglySorted lt (fst (to_idx r)) /\
    Forall (fun i => (i < length D)%nat) (fst (to_idx r)).
  Proof.
    destruct r as [[b g] o]. intros (e & H0 & Hne & _ & H2 & H3 & H4). cbn [fst snd] in *. subst o.
    unfold to_idx. cbn [fst snd]. repeat split; auto. now apply pick_nonempty.
  Qed.

  Theorem et_result_interval : forall l r,
    in_contract None l -> In r (run RM l) ->
    exists g e, r = eres_of acc0 proc out g e /\ in_interval size g e /\
                (forall x, In x g -> In x (tdata l)) /\
                exists idx, StronglySorted lt idx /\ g = pick (tdata l) idx.
  Proof.
    intros l r HC Hin. unfold run in Hin. rewrite run_proj in Hin. cbn [snd] in Hin.
    apply in_map_iff in Hin. destruct Hin as (r' & <- & Hin).
    destruct (ghost_run l [] [] init_state GI_init HC) as (s1 & _ & (_ & _ & Hdn & _)).
    cbn [length app] in Hdn. rewrite Forall_forall in Hdn.
    change (minit GM) with (Some (@init_state B')) in Hin.
    specialize (Hdn r' Hin).
    destruct (gd_ok_group _ _ Hdn) as (H1 & H2 & H3).
    exists (pick (tdata l) (fst (to_idx r'))), (snd (to_idx r')).
    split; [now apply pres_to_idx|]. split; [assumption|]. split.
    - intros x. apply pick_In.
    - exists (fst (to_idx r')). now split.
  Qed.

  (** ** E4: the results of one round as index groups *)
  Lemma round_outputs l e :
    (e = FAR \/ e = Terminate) -> in_contract None l ->
    exists s1, fst (run_from GM (Some init_state) (tag 0 l)) = Some s1 /\
      GI (tdata l) (snd (run_from GM (Some init_state) (tag 0 l))) s1 /\
      run RM (l ++ [e]) =
      map pres (snd (run_from GM (Some init_state) (tag 0 l)) ++ results gout (e_ws s1)).
  Proof.
    intros He HC.
    destruct (ghost_run l [] [] init_state GI_init HC) as (s1 & E1 & HG).
    cbn [length app] in E1, HG. exists s1. split; [assumption|]. split; [assumption|].
    unfold run. rewrite run_from_app_snd, run_proj. cbn [fst snd].
    change (minit GM) with (Some (@init_state B')). rewrite E1. cbn [option_map].
    rewrite map_app. f_equal. rewrite <- results_pslot.
    destruct He as [-> | ->]; cbn; now rewrite app_nil_r.
  Qed.

  Lemma round_groups l e :
    (e = FAR \/ e = Terminate) -> in_contract None l ->
    exists outs : list (wres B'),
      run RM (l ++ [e]) = map pres outs /\
      Forall (gd_ok (tdata l)) outs /\
      (forall i, (i < length (tdata l))%nat -> Z.of_nat (cnt i (grp_done outs)) <= nwin size slide) /\
      (ts_sorted None l -> wm_sorted None l ->
       forall i, (i < length (tdata l))%nat -> (1 <= cnt i (grp_done outs))%nat).
  Proof.
    intros He HC.
    destruct (round_outputs l e He HC) as (s1 & E1 & HG & Erun).
    set (outs1 := snd (run_from GM (Some init_state) (tag 0 l))) in *.
    exists (outs1 ++ results gout (e_ws s1)). split; [assumption|].
    pose proof HG as (HI & Hws & Hdn & Hcnt). destruct HI as (_ & Hwf & _).
    split; [|split].
    - apply Forall_app. split; [assumption|]. now apply gd_ok_results.
    - intros i Hi. specialize (Hcnt i Hi).
      rewrite grp_done_app, cnt_app, (cnt_results (tdata l) i (e_ws s1)) by assumption.
      now rewrite cnt_app in Hcnt.
    - intros HT HW i Hi.
      destruct (sorted_run l None [] [] init_state s1 GI_init SI_init HC HT HW E1) as (T' & _ & HS).
      cbn [length app] in HS. specialize (HS i Hi). fold outs1 in HS.
      rewrite grp_done_app, cnt_app, (cnt_results (tdata l) i (e_ws s1)) by assumption.
      now rewrite cnt_app in HS.
  Qed.

  Definition group_ok (l : list (elem A)) (ie : list nat * Z) : Prop :=
    in_interval size (pick (tdata l) (fst ie)) (snd ie) /\
    StronglySorted lt (fst ie) /\
    Forall (fun i => (i < length (tdata l))%nat) (fst ie).

  Lemma round_idxs l e :
    (e = FAR \/ e = Terminate) -> in_contract None l ->
    exists idxs : list (list nat * Z),
      run RM (l ++ [e]) =
        map (fun ie => eres_of acc0 proc out (pick (tdata l) (fst ie)) (snd ie)) idxs /\
      Forall (group_ok l) idxs /\
      (forall i, (i < length (tdata l))%nat -> Z.of_nat (cnt i (map fst idxs)) <= nwin size slide) /\
      (ts_sorted None l -> wm_sorted None l ->
       forall i, (i < length (tdata l))%nat -> (1 <= cnt i (map fst idxs))%nat).
  Proof.
    intros He HC. destruct (round_groups l e He HC) as (outs & Erun & Hok & Hup & Hlo).
    exists (map to_idx outs).
    assert (Eg : map fst (map to_idx outs) = grp_done outs).
    { rewrite map_map. reflexivity. }
    rewrite Eg. split; [|split; [|split; assumption]].
    - rewrite Erun, map_map. apply map_ext_in. intros r Hr.
      rewrite Forall_forall in Hok. now apply pres_to_idx, Hok.
    - rewrite Forall_map. eapply Forall_impl; [|exact Hok].
      intros r Hr. now apply gd_ok_group.
  Qed.

  (** any in-contract round: no element is in more than ceil(size/slide) windows *)
  Theorem et_sliding_upper : forall l,
    in_contract None l ->
    exists idxs : list (list nat * Z),
      run RM (l ++ [FAR]) =
        map (fun ie => eres_of acc0 proc out (pick (tdata l) (fst ie)) (snd ie)) idxs /\
      Forall (group_ok l) idxs /\
      forall i, (i < length (tdata l))%nat ->
        Z.of_nat (cnt i (map fst idxs)) <= (size + slide - 1) / slide.
  Proof.
    intros l HC. destruct (round_idxs l FAR (or_introl eq_refl) HC) as (idxs & H1 & H2 & H3 & _).
    exists idxs. repeat split; assumption.
  Qed.

  (** in-order arrivals, monotone watermarks: between 1 and ceil(size/slide) windows *)
  Theorem et_sliding_cover_inorder : forall l,
    no_end l -> in_contract None l -> wm_sorted None l -> ts_sorted None l ->
    exists idxs : list (list nat * Z),
      run RM (l ++ [FAR]) =
        map (fun ie => eres_of acc0 proc out (pick (tdata l) (fst ie)) (snd ie)) idxs /\
      Forall (group_ok l) idxs /\
      forall i, (i < length (tdata l))%nat ->
        (1 <= cnt i (map fst idxs))%nat /\
        Z.of_nat (cnt i (map fst idxs)) <= (size + slide - 1) / slide.
  Proof.
    intros l _ HC HW HT.
    destruct (round_idxs l FAR (or_introl eq_refl) HC) as (idxs & H1 & H2 & H3 & H4).
    exists idxs. split; [assumption|]. split; [assumption|].
    intros i Hi. split; [now apply H4|now apply H3].
  Qed.

  (** ** tumbling windows (slide = size): every element in exactly one window *)
  Lemma ssorted_nodup g : StronglySorted lt g -> NoDup g.
  Proof.
    induction 1 as [|a g _ IH Ha]; constructor; [|assumption].
    intros Hin. rewrite Forall_forall in Ha. specialize (Ha _ Hin). lia.
  Qed.
  Lemma nodup_app {X} (a b : list X) :
    NoDup a -> NoDup b -> (forall x, In x a -> ~ In x b) -> NoDup (a ++ b).
  Proof.
    induction 1 as [|x a Hx _ IH]; intros Hb Hd; [assumption|].
    cbn [app]. constructor.
    - rewrite in_app_iff. intros [H|H]; [contradiction|]. apply (Hd x); [now left|assumption].
    - apply IH; [assumption|]. intros y Hy. apply Hd. now right.
  Qed.
  Lemma cnt_pos i g gl : In g gl -> has i g = true -> (1 <= cnt i gl)%nat.
  Proof.
    induction gl as [|g' gl IH]; [contradiction|]. rewrite cnt_cons. intros [->|Hin] Hh.
    - rewrite Hh. lia.
    - specialize (IH Hin Hh). lia.
  Qed.
  Lemma cnt_pos_inv i gl : (1 <= cnt i gl)%nat -> exists g, In g gl /\ In i g.
  Proof.
    induction gl as [|g gl IH]; [cbn; lia|]. rewrite cnt_cons.
    destruct (has i g) eqn:Eh.
    - intros _. exists g. split; [now left|now apply has_In].
    - intros H. destruct IH as (g' & Hin & Hi); [lia|]. exists g'. split; [now right|assumption].
  Qed.
  Lemma concat_nodup gl :
    (forall g, In g gl -> NoDup g) -> (forall i, (cnt i gl <= 1)%nat) -> NoDup (concat gl).
  Proof.
    induction gl as [|g gl IH]; intros Hnd Hc; [constructor|].
    cbn [concat]. apply nodup_app.
    - apply Hnd. now left.
    - apply IH; [intros; apply Hnd; now right|].
      intros i. specialize (Hc i). rewrite cnt_cons in Hc. lia.
    - intros x Hx Hin. apply in_concat in Hin. destruct Hin as (g' & Hg' & Hx').
      specialize (Hc x). rewrite cnt_cons in Hc.
      apply has_In in Hx. rewrite Hx in Hc.
      pose proof (cnt_pos x g' gl Hg' (proj2 (has_In x g') Hx')). lia.
  Qed.
  Lemma concat_perm_seq gl n :
    (forall g, In g gl -> NoDup g /\ Forall (fun i => (i < n)%nat) g) ->
    (forall i, (i < n)%nat -> cnt i gl = 1%nat) ->
    Permutation (concat gl) (seq 0 n).
  Proof.
    intros Hg Hc. apply NoDup_Permutation.
    - apply concat_nodup; [intros g Hin; now apply Hg|].
      intros i. destruct (Nat.lt_ge_cases i n) as [Hi|Hi]; [rewrite Hc; lia|].
      rewrite cnt_zero; [lia|]. rewrite Forall_forall. intros g Hin.
      destruct (Hg g Hin) as [_ Hlt]. destruct (has i g) eqn:Eh; [|reflexivity].
      apply has_In in Eh. rewrite Forall_forall in Hlt. specialize (Hlt _ Eh). lia.
    - apply seq_NoDup.
    - intros x. rewrite in_seq. split.
      + intros Hin. apply in_concat in Hin. destruct Hin as (g & Hgin & Hx).
        destruct (Hg g Hgin) as [_ Hlt]. rewrite Forall_forall in Hlt. specialize (Hlt _ Hx). lia.
      + intros [_ Hx]. cbn in Hx. destruct (cnt_pos_inv x gl) as (g & Hgin & Hi); [rewrite Hc; lia|].
        apply in_concat. now exists g.
  Qed.
  Lemma pick_concat {X} (xs : list X) gl : pick xs (concat gl) = concat (map (pick xs) gl).
  Proof.
    induction gl as [|g gl IH]; [reflexivity|]. cbn [concat map]. now rewrite pick_app, IH.
  Qed.

  Theorem et_tumbling_exactly_once_inorder : forall l,
    slide = size ->
    no_end l -> in_contract None l -> wm_sorted None l -> ts_sorted None l ->
    exists groups : list (list (A * Z) * Z),
      run RM (l ++ [FAR]) = map (fun ge => eres_of acc0 proc out (fst ge) (snd ge)) groups /\
      Forall (fun ge => in_interval size (fst ge) (snd ge)) groups /\
      Permutation (concat (map fst groups)) (tdata l).
  Proof.
    intros l Heq Hne HC HW HT.
    destruct (et_sliding_cover_inorder l Hne HC HW HT) as (idxs & Erun & Hok & Hcnt).
    exists (map (fun ie => (pick (tdata l) (fst ie), snd ie)) idxs). split; [|split].
    - rewrite Erun, map_map. reflexivity.
    - rewrite Forall_map. eapply Forall_impl; [|exact Hok]. now intros ie (H & _).
    - rewrite map_map. cbn [fst].
      rewrite <- (map_map fst (pick (tdata l))), <- pick_concat.
      rewrite <- (pick_seq (tdata l)) at 2. unfold pick. apply Permutation_flat_map.
      apply concat_perm_seq.
      + intros g Hin. apply in_map_iff in Hin. destruct Hin as (ie & <- & Hin).
        rewrite Forall_forall in Hok. destruct (Hok ie Hin) as (_ & Hs & Hlt).
        split; [now apply ssorted_nodup|assumption].
      + intros i Hi. destruct (Hcnt i Hi) as [H1 H2].
        assert ((size + slide - 1) / slide = 1) as E1.
        { subst slide. symmetry. apply Z.div_unique with (r := size - 1); lia. }
        rewrite E1 in H2. lia.
  Qed.
End ETGhost.

(** * Witnesses *)
Definition EMZ (size slide : Z) : machine (elem Z) (wres (list Z)) :=
  EM (@nil Z) (fun b x => b ++ [x]) (fun b => b) size slide.

(** F4: an element older than the first slot of its key is silently dropped
    (element 2, timestamp 5, is not late: no watermark has been seen). *)
Theorem et_drop_refuted :
  run (EMZ 10 10) [Tst 1 10; Tst 2 5; Wm 30; FAR] = [([1], Some 20)].
Proof. vm_compute. reflexivity. Qed.

(** why [wm_sorted] is needed: with a decreasing watermark the same loss happens to an
    in-order, in-contract element (element 3 is in no window) *)
Theorem et_cover_needs_monotone_watermarks :
  let l := [Tst 1 0; Tst 2 1; Wm 11; Wm 0; Tst 3 1] in
  in_contract None l /\ ts_sorted None l /\
  run (EMZ 10 2) (l ++ [FAR]) = [([1; 2], Some 10)].
Proof. cbv zeta. split; [|split]; [cbn; lia|cbn; lia|vm_compute; reflexivity]. Qed.

(** an observation on `alloc_windows`: the windows "skipped below the watermark" need not
    be below it; here [2,12), [4,14), [6,16) would contain elements 2 and 3 (both above
    the watermark 9) and are produced without the watermark but not with it *)
Theorem et_skip_depends_on_watermark :
  run (EMZ 10 2) [Tst 1 0; Wm 9; Tst 2 10; Tst 3 11; FAR] =
    [([1], Some 10); ([2; 3], Some 18); ([2; 3], Some 20)] /\
  run (EMZ 10 2) [Tst 1 0; Tst 2 10; Tst 3 11; FAR] =
    [([1], Some 10); ([2; 3], Some 12); ([2; 3], Some 14); ([2; 3], Some 16);
     ([2; 3], Some 18); ([2; 3], Some 20)].
Proof. split; vm_compute; reflexivity. Qed.

(** Machine-checked proofs for the keyed window operator model: per key, the operator
    behaves exactly like that key's own window manager run on the key's projection of the
    input; every control element is forwarded exactly once, in order. *)
From Noir Require Import Base.Elem Model.WinCount Model.WindowOp Proofs.WinCountSpec.
From Noir Require Import Proofs.WinCountProofs.
Open Scope Z_scope.

Section WindowOpProofs.
  Context {A C : Type} (M : wmgr A C).

  (** a control element does nothing to a manager that has seen nothing *)
  Hypothesis Hnoop : forall e : elem A,
    is_data e = false -> wstep M (winit M) e = (winit M, []).
  (** only a manager that is back in its initial state asks to be recycled *)
  Hypothesis Hrecycle : forall s, wrecycle M s = true -> s = winit M.

  Let KM : machine (elem A) (wres C) := Build_machine _ _ (wst M) (winit M) (wstep M).

  (** state of key [k]'s manager in the map (initial if absent) *)
  Definition st (k : Z) (m : wmap M) : wst M :=
    match wlookup M k m with Some s => s | None => winit M end.

  (** ** Projections of outputs *)

  Lemma proj_out_app (k : Z) (l1 l2 : list (elem (Z * C))) :
    proj_out k (l1 ++ l2) = proj_out k l1 ++ proj_out k l2.
  Proof.
    induction l1 as [|e l1 IH]; [reflexivity|].
    cbn [app proj_out]. destruct (key_of e) as [k'|]; [|exact IH].
    destruct (Z.eqb k k'); [|exact IH]. cbn [app]. now rewrite IH.
  Qed.

  Lemma proj_out_add_key_same (k : Z) (rs : list (wres C)) :
    proj_out k (map (add_key k) rs) = map wres_elem rs.
  Proof.
    induction rs as [|[c [t|]] rs IH]; [reflexivity| |];
      cbn [map add_key proj_out key_of wres_elem]; rewrite Z.eqb_refl, IH; reflexivity.
  Qed.

  Lemma proj_out_add_key_diff (k k0 : Z) (rs : list (wres C)) :
    k <> k0 -> proj_out k (map (add_key k0) rs) = [].
  Proof.
    intros Hk. apply Z.eqb_neq in Hk.
    induction rs as [|[c [t|]] rs IH]; [reflexivity| |];
      cbn [map add_key proj_out key_of]; rewrite Hk; exact IH.
  Qed.

  (** ** The association list *)

  Lemma wlookup_notin (k : Z) (m : wmap M) :
    ~ In k (map fst m) -> wlookup M k m = None.
  Proof.
    induction m as [|[k' s] m IH]; intros H; [reflexivity|].
    cbn [wlookup]. cbn [map fst In] in H.
    destruct (Z.eqb_spec k k') as [E|E].
    - exfalso. apply H. now left.
    - apply IH. intro. apply H. now right.
  Qed.

  Lemma wlookup_wset_same (k : Z) (s : wst M) (m : wmap M) :
    wlookup M k (wset M k s m) = Some s.
  Proof.
    induction m as [|[k' s'] m IH]; cbn [wset wlookup].
    - now rewrite Z.eqb_refl.
    - destruct (Z.eqb_spec k k') as [E|E]; cbn [wlookup].
      + now rewrite Z.eqb_refl.
      + apply Z.eqb_neq in E. now rewrite E.
  Qed.

  Lemma wlookup_wset_other (k k' : Z) (s : wst M) (m : wmap M) :
    k <> k' -> wlookup M k (wset M k' s m) = wlookup M k m.
  Proof.
    intros Hk. induction m as [|[k0 s0] m IH]; cbn [wset wlookup].
    - apply Z.eqb_neq in Hk. now rewrite Hk.
    - destruct (Z.eqb_spec k' k0) as [E|E]; cbn [wlookup].
      + subst k0. apply Z.eqb_neq in Hk. now rewrite Hk.
      + destruct (Z.eqb k k0); [reflexivity|exact IH].
  Qed.

  Lemma wset_keys (k k0 : Z) (s : wst M) (m : wmap M) :
    In k0 (map fst (wset M k s m)) -> k0 = k \/ In k0 (map fst m).
  Proof.
    induction m as [|[k' s'] m IH]; cbn [wset map fst In].
    - intros [H|[]]. now left.
    - destruct (Z.eqb_spec k k') as [E|E]; cbn [map fst In].
      + intros [H|H]; [now left|right; now right].
      + intros [H|H]; [right; now left|]. destruct (IH H); [now left|right; now right].
  Qed.

  Lemma wset_nodup (k : Z) (s : wst M) (m : wmap M) :
    NoDup (map fst m) -> NoDup (map fst (wset M k s m)).
  Proof.
    induction m as [|[k' s'] m IH]; intros H; cbn [wset map fst].
    - constructor; [intros []|constructor].
    - cbn [map fst] in H. inversion H as [|? ? Hni Hnd]; subst.
      destruct (Z.eqb_spec k k') as [E|E]; cbn [map fst].
      + subst k'. constructor; assumption.
      + constructor; [|now apply IH]. intro Hin. apply wset_keys in Hin.
        destruct Hin as [Hin|Hin]; [now apply E|now apply Hni].
  Qed.

  Lemma st_wset_same (k : Z) (s : wst M) (m : wmap M) : st k (wset M k s m) = s.
  Proof. unfold st. now rewrite wlookup_wset_same. Qed.

  Lemma st_wset_other (k k' : Z) (s : wst M) (m : wmap M) :
    k <> k' -> st k (wset M k' s m) = st k m.
  Proof. intros. unfold st. now rewrite wlookup_wset_other. Qed.

  (** ** The control loop over all managers *)

  Lemma wctl_keys (e : elem A) (m : wmap M) (k : Z) :
    In k (map fst (fst (wctl M e m))) -> In k (map fst m).
  Proof.
    induction m as [|[k0 s0] m IH]; cbn [wctl]; [intros []|].
    destruct (wstep M s0 e) as [s1 rs]. destruct (wctl M e m) as [m1 o1].
    cbn [fst] in *. destruct (wrecycle M s1); cbn [map fst In].
    - intros H. right. now apply IH.
    - intros [H|H]; [now left|right; now apply IH].
  Qed.

  Lemma wctl_nodup (e : elem A) (m : wmap M) :
    NoDup (map fst m) -> NoDup (map fst (fst (wctl M e m))).
  Proof.
    induction m as [|[k0 s0] m IH]; intros H; cbn [wctl]; [constructor|].
    cbn [map fst] in H. inversion H as [|? ? Hni Hnd]; subst.
    pose proof (wctl_keys e m k0) as Hk. specialize (IH Hnd).
    destruct (wstep M s0 e) as [s1 rs]. destruct (wctl M e m) as [m1 o1].
    cbn [fst] in *. destruct (wrecycle M s1); cbn [map fst]; [assumption|].
    constructor; [|assumption]. intro Hin. now apply Hni, Hk.
  Qed.

  Lemma wctl_notin_out (e : elem A) (m : wmap M) (k : Z) :
    ~ In k (map fst m) -> proj_out k (snd (wctl M e m)) = [].
  Proof.
    induction m as [|[k0 s0] m IH]; intros H; cbn [wctl]; [reflexivity|].
    cbn [map fst In] in H.
    assert (Hk : k <> k0) by (intro; apply H; left; congruence).
    assert (Hn : ~ In k (map fst m)) by (intro; apply H; now right).
    specialize (IH Hn).
    destruct (wstep M s0 e) as [s1 rs]. destruct (wctl M e m) as [m1 o1].
    cbn [snd] in *. now rewrite proj_out_app, proj_out_add_key_diff, IH.
  Qed.

  Lemma wctl_st (k : Z) (e : elem A) (m : wmap M) :
    NoDup (map fst m) -> is_data e = false ->
    st k (fst (wctl M e m)) = fst (wstep M (st k m) e) /\
    proj_out k (snd (wctl M e m)) = map wres_elem (snd (wstep M (st k m) e)).
  Proof.
    intros Hnd He. induction m as [|[k0 s0] m IH].
    - unfold st. cbn [wctl wlookup fst snd proj_out]. rewrite (Hnoop e He). now split.
    - cbn [map fst] in Hnd. inversion Hnd as [|? ? Hni Hnd']; subst.
      specialize (IH Hnd'). cbn [wctl].
      assert (Hst : st k ((k0, s0) :: m) = if Z.eqb k k0 then s0 else st k m).
      { unfold st. cbn [wlookup]. now destruct (Z.eqb k k0). }
      rewrite Hst. clear Hst.
      destruct (Z.eqb_spec k k0) as [E|E].
      + subst k0. clear IH.
        pose proof (wctl_keys e m k) as Hk. pose proof (wctl_notin_out e m k Hni) as Ho.
        destruct (wstep M s0 e) as [s1 rs]. destruct (wctl M e m) as [m1 o1].
        cbn [fst snd] in *. split.
        * destruct (wrecycle M s1) eqn:R.
          -- unfold st. rewrite wlookup_notin by (intro Hin; now apply Hni, Hk).
             symmetry. now apply Hrecycle.
          -- unfold st. cbn [wlookup]. now rewrite Z.eqb_refl.
        * now rewrite proj_out_app, proj_out_add_key_same, Ho, app_nil_r.
      + destruct IH as [IH1 IH2].
        destruct (wstep M s0 e) as [s1 rs]. destruct (wctl M e m) as [m1 o1].
        cbn [fst snd] in *. split.
        * rewrite <- IH1. destruct (wrecycle M s1); [reflexivity|].
          unfold st. cbn [wlookup]. apply Z.eqb_neq in E. now rewrite E.
        * now rewrite proj_out_app, proj_out_add_key_diff, IH2.
  Qed.

  (** ** Per-key behaviour *)

  Lemma wop_gen (k : Z) : forall (l : list (elem (Z * A))) (m : wmap M),
    NoDup (map fst m) ->
    proj_out k (snd (run_from (wop_machine M) m l)) =
      map wres_elem (snd (run_from KM (st k m) (proj_in k l))).
  Proof.
    assert (Hdata : forall (e : elem (Z * A)) k0 l m,
      key_of e = Some k0 ->
      (forall m, NoDup (map fst m) ->
         proj_out k (snd (run_from (wop_machine M) m l)) =
           map wres_elem (snd (run_from KM (st k m) (proj_in k l)))) ->
      NoDup (map fst m) ->
      wop_step M m e =
        (let '(s1, rs) := wstep M (st k0 m) (strip_key e) in
         (wset M k0 s1 m, map (add_key k0) rs)) ->
      proj_out k (snd (run_from (wop_machine M) m (e :: l))) =
        map wres_elem (snd (run_from KM (st k m) (proj_in k (e :: l))))).
    { intros e k0 l m Hkey IH Hnd Hstep. cbn [run_from proj_in]. rewrite Hkey.
      change (mstep (wop_machine M) m e) with (wop_step M m e). rewrite Hstep.
      destruct (Z.eqb_spec k k0) as [E|E].
      - subst k0. cbn [run_from].
        change (mstep KM (st k m) (strip_key e)) with (wstep M (st k m) (strip_key e)).
        destruct (wstep M (st k m) (strip_key e)) as [s1 rs].
        specialize (IH (wset M k s1 m) (wset_nodup k s1 m Hnd)).
        rewrite st_wset_same in IH.
        destruct (run_from (wop_machine M) (wset M k s1 m) l) as [m2 o2].
        destruct (run_from KM s1 (proj_in k l)) as [s2 o2'].
        cbn [snd] in *. now rewrite proj_out_app, proj_out_add_key_same, IH, map_app.
      - destruct (wstep M (st k0 m) (strip_key e)) as [s1 rs].
        specialize (IH (wset M k0 s1 m) (wset_nodup k0 s1 m Hnd)).
        rewrite st_wset_other in IH by assumption.
        destruct (run_from (wop_machine M) (wset M k0 s1 m) l) as [m2 o2].
        cbn [snd] in *. now rewrite proj_out_app, proj_out_add_key_diff, IH. }
    assert (Hctl : forall (e : elem (Z * A)) l m,
      key_of e = None -> is_flush_batch e = false ->
      (forall m, NoDup (map fst m) ->
         proj_out k (snd (run_from (wop_machine M) m l)) =
           map wres_elem (snd (run_from KM (st k m) (proj_in k l)))) ->
      NoDup (map fst m) ->
      (exists e' : elem (Z * C), key_of e' = None /\
        wop_step M m e = (let '(m1, o) := wctl M (strip_key e) m in (m1, o ++ [e']))) ->
      is_data (strip_key e) = false ->
      proj_out k (snd (run_from (wop_machine M) m (e :: l))) =
        map wres_elem (snd (run_from KM (st k m) (proj_in k (e :: l))))).
    { intros e l m Hkey Hfb IH Hnd (e' & Hk' & Hstep) Hd. cbn [run_from proj_in].
      rewrite Hkey, Hfb. cbn [run_from].
      change (mstep (wop_machine M) m e) with (wop_step M m e). rewrite Hstep.
      destruct (wctl_st k (strip_key e) m Hnd Hd) as [H1 H2].
      pose proof (wctl_nodup (strip_key e) m Hnd) as H3.
      destruct (wctl M (strip_key e) m) as [m1 o]. cbn [fst snd] in *.
      specialize (IH m1 H3).
      change (mstep KM (st k m) (strip_key e)) with (wstep M (st k m) (strip_key e)).
      destruct (wstep M (st k m) (strip_key e)) as [s1 rs]. cbn [fst snd] in *.
      rewrite H1 in IH.
      destruct (run_from (wop_machine M) m1 l) as [m2 o2].
      destruct (run_from KM s1 (proj_in k l)) as [s2 o2'].
      cbn [snd] in *. rewrite !proj_out_app, H2, IH, map_app.
      cbn [proj_out]. rewrite Hk'. cbn [proj_out]. now rewrite app_nil_r. }
    induction l as [|e l IH]; intros m Hnd; [reflexivity|].
    destruct e as [[k0 v]|[k0 v] t|t| | |].
    - apply (Hdata _ k0); auto.
    - apply (Hdata _ k0); auto.
    - apply Hctl; auto. exists (Wm t). split; [reflexivity|]. reflexivity.
    - cbn [run_from proj_in key_of is_flush_batch].
      change (mstep (wop_machine M) m FlushBatch) with (m, [@FlushBatch (Z * C)]).
      cbv beta iota.
      specialize (IH m Hnd). destruct (run_from (wop_machine M) m l) as [m2 o2].
      cbn [snd app proj_out key_of] in *. exact IH.
    - apply Hctl; auto. exists Terminate. split; reflexivity.
    - apply Hctl; auto. exists FAR. split; reflexivity.
  Qed.

  Theorem wop_per_key : forall (l : list (elem (Z * A))) (k : Z),
    proj_out k (run (wop_machine M) l) =
      map wres_elem (run (Build_machine _ _ (wst M) (winit M) (wstep M)) (proj_in k l)).
  Proof.
    intros l k. exact (wop_gen k l [] (NoDup_nil _)).
  Qed.

  (** ** Control elements are forwarded *)

  Lemma controls_app {X} (l1 l2 : list (elem X)) :
    controls (l1 ++ l2) = controls l1 ++ controls l2.
  Proof. unfold controls. now rewrite filter_app, map_app. Qed.

  Lemma controls_add_key (k : Z) (rs : list (wres C)) :
    controls (map (add_key k) rs) = [].
  Proof. induction rs as [|[c [t|]] rs IH]; [reflexivity| |]; exact IH. Qed.

  Lemma controls_wctl (e : elem A) (m : wmap M) : controls (snd (wctl M e m)) = [].
  Proof.
    induction m as [|[k0 s0] m IH]; cbn [wctl]; [reflexivity|].
    destruct (wstep M s0 e) as [s1 rs]. destruct (wctl M e m) as [m1 o1].
    cbn [snd] in *. now rewrite controls_app, controls_add_key, IH.
  Qed.

  Lemma wop_controls_gen : forall (l : list (elem (Z * A))) (m : wmap M),
    controls (snd (run_from (wop_machine M) m l)) = controls l.
  Proof.
    induction l as [|e l IH]; intros m; [reflexivity|].
    cbn [run_from]. change (mstep (wop_machine M) m e) with (wop_step M m e).
    destruct e as [[k0 v]|[k0 v] t|t| | |]; cbn [wop_step].
    - destruct (wstep M _ _) as [s1 rs]. specialize (IH (wset M k0 s1 m)).
      destruct (run_from (wop_machine M) _ l) as [m2 o2]. cbn [snd] in *.
      rewrite controls_app, controls_add_key, IH. reflexivity.
    - destruct (wstep M _ _) as [s1 rs]. specialize (IH (wset M k0 s1 m)).
      destruct (run_from (wop_machine M) _ l) as [m2 o2]. cbn [snd] in *.
      rewrite controls_app, controls_add_key, IH. reflexivity.
    - pose proof (controls_wctl (Wm t) m) as Hc.
      destruct (wctl M (Wm t) m) as [m1 o]. specialize (IH m1).
      destruct (run_from (wop_machine M) m1 l) as [m2 o2]. cbn [snd] in *.
      rewrite !controls_app, Hc, IH. reflexivity.
    - specialize (IH m).
      destruct (run_from (wop_machine M) m l) as [m2 o2]. cbn [snd] in *.
      rewrite controls_app, IH. reflexivity.
    - pose proof (controls_wctl Terminate m) as Hc.
      destruct (wctl M Terminate m) as [m1 o]. specialize (IH m1).
      destruct (run_from (wop_machine M) m1 l) as [m2 o2]. cbn [snd] in *.
      rewrite !controls_app, Hc, IH. reflexivity.
    - pose proof (controls_wctl FAR m) as Hc.
      destruct (wctl M FAR m) as [m1 o]. specialize (IH m1).
      destruct (run_from (wop_machine M) m1 l) as [m2 o2]. cbn [snd] in *.
      rewrite !controls_app, Hc, IH. reflexivity.
  Qed.

  Theorem wop_controls : forall l : list (elem (Z * A)),
    controls (run (wop_machine M) l) = controls l.
  Proof. intros l. exact (wop_controls_gen l []). Qed.
End WindowOpProofs.

(** ** The count-window manager satisfies the two hypotheses *)

Lemma wc_mgr_noop {A B C : Type} (acc0 : B) (proc : B -> A -> B) (out : B -> C)
  (size slide : nat) (exact : bool) :
  forall e : elem A, is_data e = false ->
    wstep (wc_mgr acc0 proc out size slide exact)
          (winit (wc_mgr acc0 proc out size slide exact)) e =
      (winit (wc_mgr acc0 proc out size slide exact), []).
Proof. intros e He. exact (wc_ctrl_init_noop acc0 proc out size slide exact e He). Qed.

Lemma wc_mgr_recycle {A B C : Type} (acc0 : B) (proc : B -> A -> B) (out : B -> C)
  (size slide : nat) (exact : bool) :
  forall s, wrecycle (wc_mgr (A := A) acc0 proc out size slide exact) s = true ->
    s = winit (wc_mgr acc0 proc out size slide exact).
Proof. intros s H. discriminate H. Qed.

(** Proofs of the join theorems (C08): hash join, keyed inner join, sort-merge join,
    interval join. *)
From Noir Require Import Proofs.JoinSpec.
From Coq Require Import Permutation Lia.
Open Scope Z_scope.

Local Arguments h_data {X}. Local Arguments h_keys {X}. Local Arguments h_ended {X}.
Local Arguments Build_hside {X}.

(** * Generic list / permutation lemmas *)
Section Generic.
  Context {X Y : Type}.

  Lemma flat_map_perm_ext (f g : X -> list Y) l :
    (forall x, In x l -> Permutation (f x) (g x)) ->
    Permutation (flat_map f l) (flat_map g l).
  Proof.
    induction l as [|x l IH]; intros H; cbn [flat_map]; [constructor|].
    apply Permutation_app; [apply H; now left|apply IH; intros; apply H; now right].
  Qed.

  Lemma flat_map_ext_in (f g : X -> list Y) l :
    (forall x, In x l -> f x = g x) -> flat_map f l = flat_map g l.
  Proof.
    induction l as [|x l IH]; intros H; cbn [flat_map]; [reflexivity|].
    rewrite H by now left. rewrite IH; [reflexivity|intros; apply H; now right].
  Qed.

  Lemma flat_map_snoc (f : X -> list Y) l x : flat_map f (l ++ [x]) = flat_map f l ++ f x.
  Proof. rewrite flat_map_app. cbn [flat_map]. now rewrite app_nil_r. Qed.

  (** distributing a pointwise append under flat_map *)
  Lemma flat_map_app_pointwise (f g : X -> list Y) l :
    Permutation (flat_map (fun x => f x ++ g x) l) (flat_map f l ++ flat_map g l).
  Proof.
    induction l as [|x l IH]; cbn [flat_map]; [constructor|].
    rewrite IH. rewrite <- !app_assoc. apply Permutation_app_head.
    rewrite !app_assoc. apply Permutation_app_tail. apply Permutation_app_comm.
  Qed.

  Lemma filter_snoc (p : X -> bool) l x : filter p (l ++ [x]) = filter p l ++ (if p x then [x] else []).
  Proof. rewrite filter_app. cbn [filter]. now destruct (p x). Qed.

  Lemma existsb_false_filter (p : X -> bool) l : existsb p l = false -> filter p l = [].
  Proof.
    induction l as [|x l IH]; cbn [existsb filter]; [reflexivity|].
    destruct (p x); cbn [orb]; [discriminate|exact IH].
  Qed.

  Lemma existsb_true_filter (p : X -> bool) l : existsb p l = true -> filter p l <> [].
  Proof.
    induction l as [|x l IH]; cbn [existsb filter]; [discriminate|].
    destruct (p x); cbn [orb]; [discriminate|exact IH].
  Qed.

  Lemma filter_map_comm (g : X -> Y) (p : Y -> bool) l :
    filter p (map g l) = map g (filter (fun x => p (g x)) l).
  Proof.
    induction l as [|x l IH]; cbn [map filter]; [reflexivity|].
    destruct (p (g x)); cbn [map]; now rewrite IH.
  Qed.

  Lemma existsb_map (g : X -> Y) (p : Y -> bool) l : existsb p (map g l) = existsb (fun x => p (g x)) l.
  Proof. induction l as [|x l IH]; cbn [map existsb]; [reflexivity|now rewrite IH]. Qed.

  Lemma existsb_ext_in (p q : X -> bool) l : (forall x, In x l -> p x = q x) -> existsb p l = existsb q l.
  Proof.
    induction l as [|x l IH]; intros H; cbn [existsb]; [reflexivity|].
    rewrite H by now left. rewrite IH; [reflexivity|intros; apply H; now right].
  Qed.

  Lemma existsb_rev (p : X -> bool) l : existsb p (rev l) = existsb p l.
  Proof.
    induction l as [|x l IH]; cbn [rev existsb]; [reflexivity|].
    rewrite existsb_app, IH. cbn [existsb]. rewrite orb_false_r. apply orb_comm.
  Qed.

  Lemma existsb_perm (p : X -> bool) l l' : Permutation l l' -> existsb p l = existsb p l'.
  Proof.
    induction 1; cbn [existsb]; [reflexivity|now rewrite IHPermutation| |congruence].
    destruct (p x), (p y); reflexivity.
  Qed.

  Lemma filter_perm (p : X -> bool) l l' : Permutation l l' -> Permutation (filter p l) (filter p l').
  Proof.
    induction 1; cbn [filter]; [constructor| | |eapply perm_trans; eassumption].
    - destruct (p x); [now constructor|assumption].
    - destruct (p x), (p y); try reflexivity. apply perm_swap.
  Qed.

  Lemma map_Item_app (a b : list X) : map (@Item X) a ++ map Item b = map Item (a ++ b).
  Proof. now rewrite map_app. Qed.
End Generic.

Section JoinProofs.
  Context {A B : Type}.
  Variable (kl : A -> Z) (kr : B -> Z).
  Notation jo := (@jout A B).

  Definition kmapl (la : list A) : list (Z * A) := map (fun x => (kl x, x)) la.
  Definition kmapr (ra : list B) : list (Z * B) := map (fun y => (kr y, y)) ra.

  Lemma kmapl_snoc la x : kmapl (la ++ [x]) = kmapl la ++ [(kl x, x)].
  Proof. unfold kmapl. now rewrite map_app. Qed.
  Lemma kmapr_snoc ra y : kmapr (ra ++ [y]) = kmapr ra ++ [(kr y, y)].
  Proof. unfold kmapr. now rewrite map_app. Qed.

  Lemma vals_kmapl k la : vals k (kmapl la) = filter (fun l => kl l =? k) la.
  Proof.
    unfold vals, kmapl. rewrite filter_map_comm, map_map. cbn [fst snd]. apply map_id.
  Qed.
  Lemma vals_kmapr k ra : vals k (kmapr ra) = filter (fun r => kr r =? k) ra.
  Proof.
    unfold vals, kmapr. rewrite filter_map_comm, map_map. cbn [fst snd]. apply map_id.
  Qed.
  Lemma has_key_kmapl k la : has_key k (kmapl la) = existsb (fun l => kl l =? k) la.
  Proof. unfold has_key, kmapl. now rewrite existsb_map. Qed.
  Lemma has_key_kmapr k ra : has_key k (kmapr ra) = existsb (fun r => kr r =? k) ra.
  Proof. unfold has_key, kmapr. now rewrite existsb_map. Qed.

  (** ** The pieces of the relational join *)
  Section GPairs.
    Context {C : Type} (mk : A -> B -> C).
    Definition gpairs (la : list A) (ra : list B) : list C :=
      flat_map (fun l => map (mk l) (filter (fun r => kr r =? kl l) ra)) la.
    Lemma gpairs_snoc_l la ra x :
      gpairs (la ++ [x]) ra = gpairs la ra ++ map (mk x) (filter (fun r => kr r =? kl x) ra).
    Proof. unfold gpairs. now rewrite flat_map_snoc. Qed.
    Lemma gpairs_snoc_r la ra y :
      Permutation (gpairs la (ra ++ [y]))
                  (gpairs la ra ++ map (fun l => mk l y) (filter (fun l => kl l =? kr y) la)).
    Proof.
      unfold gpairs. induction la as [|l la IH]; cbn [flat_map filter map]; [constructor|].
      rewrite IH. rewrite filter_snoc, map_app.
      rewrite <- !app_assoc. apply Permutation_app_head.
      rewrite (Z.eqb_sym (kl l) (kr y)).
      destruct (kr y =? kl l) eqn:E; cbn [map app].
      - apply Permutation_middle.
      - reflexivity.
    Qed.
  End GPairs.

  Definition prow (l : A) (ra : list B) : list jo :=
    map (fun r => (kl l, (Some l, Some r))) (filter (fun r => kr r =? kl l) ra).
  Definition pairs (la : list A) (ra : list B) : list jo := flat_map (fun l => prow l ra) la.
  Definition unl (la : list A) (ra : list B) : list jo :=
    flat_map (fun l => if existsb (fun r => kr r =? kl l) ra then [] else [(kl l, (Some l, None))]) la.
  Definition unr (la : list A) (ra : list B) : list jo :=
    flat_map (fun r => if existsb (fun l => kl l =? kr r) la then [] else [(kr r, (None, Some r))]) ra.

  Definition pcol (la : list A) (y : B) : list jo :=
    map (fun l => (kr y, (Some l, Some y))) (filter (fun l => kl l =? kr y) la).

  Lemma pairs_gpairs la ra : pairs la ra = gpairs (fun l r => (kl l, (Some l, Some r))) la ra.
  Proof. reflexivity. Qed.

  Lemma pairs_snoc_l la ra x : pairs (la ++ [x]) ra = pairs la ra ++ prow x ra.
  Proof. rewrite !pairs_gpairs. apply gpairs_snoc_l. Qed.

  Lemma pairs_snoc_r la ra y : Permutation (pairs la (ra ++ [y])) (pairs la ra ++ pcol la y).
  Proof.
    rewrite !pairs_gpairs, gpairs_snoc_r. apply Permutation_app_head.
    unfold pcol. erewrite map_ext_in; [reflexivity|].
    intros l Hl. apply filter_In in Hl. destruct Hl as [_ Hl]. apply Z.eqb_eq in Hl. now rewrite Hl.
  Qed.

  Lemma unl_snoc_l la ra x :
    unl (la ++ [x]) ra = unl la ra ++ (if existsb (fun r => kr r =? kl x) ra then [] else [(kl x, (Some x, None))]).
  Proof. unfold unl. now rewrite flat_map_snoc. Qed.
  Lemma unr_snoc_r la ra y :
    unr la (ra ++ [y]) = unr la ra ++ (if existsb (fun l => kl l =? kr y) la then [] else [(kr y, (None, Some y))]).
  Proof. unfold unr. now rewrite flat_map_snoc. Qed.

  Section Variant.
    Variable v : variant.

    (** the relational join, regrouped *)
    Lemma rel_join_pieces ls rs :
      Permutation (pairs ls rs ++ (if left_outer v then unl ls rs else []) ++ (if right_outer v then unr ls rs else []))
                  (rel_join kl kr v ls rs).
    Proof.
      unfold rel_join. rewrite app_assoc. apply Permutation_app.
      - assert (H : Permutation (pairs ls rs ++ (if left_outer v then unl ls rs else []))
                      (flat_map (fun l => prow l rs ++ (if left_outer v then if existsb (fun r => kr r =? kl l) rs then [] else [(kl l, (Some l, None))] else [])) ls)).
        { rewrite flat_map_app_pointwise. apply Permutation_app_head.
          destruct (left_outer v); [reflexivity|].
          clear. induction ls; cbn [flat_map app]; auto. }
        rewrite H. apply flat_map_perm_ext. intros l _. unfold prow.
        destruct (existsb (fun r => kr r =? kl l) rs) eqn:E.
        + apply existsb_true_filter in E. destruct (filter _ rs) eqn:F; [congruence|].
          destruct (left_outer v); now rewrite app_nil_r.
        + apply existsb_false_filter in E. rewrite E. cbn [map app]. reflexivity.
      - destruct (right_outer v); reflexivity.
    Qed.

    (** ** J1: the symmetric hash join *)
    Definition hst (la : list A) (ra : list B) (le re : bool) : @hstate A B :=
      {| hl := {| h_data := if re then [] else kmapl la;
                  h_keys := if right_outer v && negb le then rev (map kl la) else [];
                  h_ended := le |};
         hr := {| h_data := if le then [] else kmapr ra;
                  h_keys := if left_outer v && negb re then rev (map kr ra) else [];
                  h_ended := re |} |}.

    (** what has been emitted when [la]/[ra] have arrived and the sides have ended or not *)
    Definition emitted (la : list A) (ra : list B) (le re : bool) : list jo :=
      pairs la ra ++ (if left_outer v && re then unl la ra else []) ++ (if right_outer v && le then unr la ra else []).

    Lemma hst_init : hst [] [] false false = hstate0.
    Proof. unfold hst, hstate0, hside0. cbn. now destruct (left_outer v), (right_outer v). Qed.

    Lemma add_left_spec la ra re x :
      exists o, add_left kl v (hst la ra false re) x = (hst (la ++ [x]) ra false re, o) /\
                Permutation (emitted la ra false re ++ o) (emitted (la ++ [x]) ra false re).
    Proof.
      unfold add_left. eexists; split.
      - f_equal. unfold hst. cbn [hl hr h_data h_keys h_ended]. f_equal.
        rewrite kmapl_snoc, map_app, rev_app_distr. cbn [map rev app].
        destruct re, (right_outer v); reflexivity.
      - cbn [hst hl hr h_data h_keys h_ended]. rewrite has_key_kmapr, vals_kmapr.
        unfold emitted. rewrite pairs_snoc_l, unl_snoc_l. rewrite !andb_false_r.
        rewrite !app_nil_r. fold (prow x ra).
        destruct (existsb (fun r => kr r =? kl x) ra) eqn:E.
        + rewrite !app_nil_r. rewrite <- !app_assoc. apply Permutation_app_head.
          apply Permutation_app_comm.
        + assert (P : prow x ra = []) by (unfold prow; now rewrite existsb_false_filter).
          rewrite P, !app_nil_r.
          destruct (left_outer v), re; cbn [andb]; rewrite ?app_nil_r, <- ?app_assoc; reflexivity.
    Qed.

    Lemma add_right_spec la ra le y :
      exists o, add_right kr v (hst la ra le false) y = (hst la (ra ++ [y]) le false, o) /\
                Permutation (emitted la ra le false ++ o) (emitted la (ra ++ [y]) le false).
    Proof.
      unfold add_right. eexists; split.
      - f_equal. unfold hst. cbn [hl hr h_data h_keys h_ended]. f_equal.
        rewrite kmapr_snoc, map_app, rev_app_distr. cbn [map rev app].
        destruct le, (left_outer v); reflexivity.
      - cbn [hst hl hr h_data h_keys h_ended]. rewrite has_key_kmapl, vals_kmapl.
        unfold emitted. rewrite pairs_snoc_r, unr_snoc_r. rewrite !andb_false_r.
        cbn [app]. fold (pcol la y).
        destruct (existsb (fun l => kl l =? kr y) la) eqn:E.
        + rewrite ?app_nil_r. rewrite <- !app_assoc. apply Permutation_app_head.
          apply Permutation_app_comm.
        + assert (P : pcol la y = []) by (unfold pcol; now rewrite existsb_false_filter).
          rewrite P, ?app_nil_r.
          destruct (right_outer v), le; cbn [andb]; rewrite ?app_nil_r, <- ?app_assoc; reflexivity.
    Qed.

    Lemma left_ended_spec la ra re :
      exists o, left_ended v (hst la ra false re) = (hst la ra true re, o) /\
                Permutation (emitted la ra false re ++ o) (emitted la ra true re).
    Proof.
      unfold left_ended. eexists; split.
      - f_equal. unfold hst. cbn [hl hr h_data h_keys h_ended negb].
        now rewrite ?andb_false_r, ?andb_true_r.
      - cbn [hst hl hr h_data h_keys h_ended]. unfold emitted.
        rewrite !andb_false_r, !andb_true_r. cbn [negb]. rewrite app_nil_r.
        destruct (right_outer v); [|now rewrite !app_nil_r].
        rewrite <- app_assoc. do 2 apply Permutation_app_head.
        unfold unr, kmapr. rewrite flat_map_concat_map, map_map, <- flat_map_concat_map.
        cbn [fst snd]. apply flat_map_perm_ext. intros r _.
        rewrite existsb_rev, existsb_map.
        erewrite existsb_ext_in; [reflexivity|]. intros; apply Z.eqb_sym.
    Qed.

    Lemma right_ended_spec la ra le :
      exists o, right_ended v (hst la ra le false) = (hst la ra le true, o) /\
                Permutation (emitted la ra le false ++ o) (emitted la ra le true).
    Proof.
      unfold right_ended. eexists; split.
      - f_equal. unfold hst. cbn [hl hr h_data h_keys h_ended negb].
        now rewrite ?andb_false_r, ?andb_true_r.
      - cbn [hst hl hr h_data h_keys h_ended]. unfold emitted.
        rewrite !andb_false_r, !andb_true_r. cbn [negb app].
        destruct (left_outer v); [|now rewrite !app_nil_r].
        rewrite <- !app_assoc. apply Permutation_app_head.
        rewrite Permutation_app_comm. apply Permutation_app_tail.
        unfold unl, kmapl. rewrite flat_map_concat_map, map_map, <- flat_map_concat_map.
        cbn [fst snd]. apply flat_map_perm_ext. intros l _.
        rewrite existsb_rev, existsb_map.
        erewrite existsb_ext_in; [reflexivity|]. intros; apply Z.eqb_sym.
    Qed.

    (** the remaining part of one side's stream *)
    Definition lstr (le : bool) (lrem : list A) : list (elem (bin A B)) :=
      if le then [] else left_stream lrem.
    Definition rstr (re : bool) (rrem : list B) : list (elem (bin A B)) :=
      if re then [] else right_stream rrem.

    Lemma lstr_cons e a le lrem :
      e :: a = lstr le lrem ->
      le = false /\ ((lrem = [] /\ e = Item BLEnd /\ a = lstr true []) \/
                     (exists x l', lrem = x :: l' /\ e = Item (BL x) /\ a = lstr false l')).
    Proof.
      unfold lstr, left_stream. destruct le; [discriminate|]. intros H. split; [reflexivity|].
      destruct lrem as [|x l']; cbn [map app] in H; injection H as -> ->.
      - now left.
      - right. now exists x, l'.
    Qed.
    Lemma rstr_cons e b re rrem :
      e :: b = rstr re rrem ->
      re = false /\ ((rrem = [] /\ e = Item BREnd /\ b = rstr true []) \/
                     (exists y r', rrem = y :: r' /\ e = Item (BR y) /\ b = rstr false r')).
    Proof.
      unfold rstr, right_stream. destruct re; [discriminate|]. intros H. split; [reflexivity|].
      destruct rrem as [|y r']; cbn [map app] in H; injection H as -> ->.
      - now left.
      - right. now exists y, r'.
    Qed.
    Lemma lstr_nil le lrem : [] = lstr le lrem -> le = true.
    Proof. unfold lstr, left_stream. destruct le; [reflexivity|]. destruct lrem; discriminate. Qed.
    Lemma rstr_nil re rrem : [] = rstr re rrem -> re = true.
    Proof. unfold rstr, right_stream. destruct re; [reflexivity|]. destruct rrem; discriminate. Qed.

    Lemma hash_run a b s :
      merge2 a b s ->
      forall la lrem ra rrem le re,
        a = lstr le lrem -> b = rstr re rrem ->
        (le = true -> lrem = []) -> (re = true -> rrem = []) ->
        exists out,
          run_from (hash_join_machine kl kr v) (Some (hst la ra le re)) s
          = (Some (hst (la ++ lrem) (ra ++ rrem) true true), map Item out) /\
          Permutation (emitted la ra le re ++ out) (emitted (la ++ lrem) (ra ++ rrem) true true).
    Proof.
      induction 1 as [|x a b s M IH|y a b s M IH]; intros la lrem ra rrem le re Ha Hb Hle Hre.
      - apply lstr_nil in Ha. apply rstr_nil in Hb. subst le re.
        rewrite (Hle eq_refl), (Hre eq_refl), !app_nil_r. exists []. split; [reflexivity|].
        now rewrite app_nil_r.
      - apply lstr_cons in Ha. destruct Ha as [-> [(-> & -> & Ha)|(x' & l' & -> & -> & Ha)]].
        + destruct (IH la [] ra rrem true re Ha Hb (fun _ => eq_refl) Hre) as (out & Hr & Hp).
          destruct (left_ended_spec la ra re) as (o & Ho & Hpo).
          exists (o ++ out). cbn [run_from hash_join_machine mstep hash_step].
          rewrite Ho. cbn [hash_join_machine] in Hr. rewrite Hr. split.
          * now rewrite map_app.
          * rewrite app_assoc, Hpo. exact Hp.
        + destruct (IH (la ++ [x']) l' ra rrem false re Ha Hb (fun H => ltac:(discriminate)) Hre)
            as (out & Hr & Hp).
          destruct (add_left_spec la ra re x') as (o & Ho & Hpo).
          exists (o ++ out). cbn [run_from hash_join_machine mstep hash_step].
          rewrite Ho. cbn [hash_join_machine] in Hr. rewrite Hr. rewrite <- app_assoc in *. split.
          * now rewrite map_app.
          * rewrite app_assoc, Hpo. exact Hp.
      - apply rstr_cons in Hb. destruct Hb as [-> [(-> & -> & Hb)|(y' & r' & -> & -> & Hb)]].
        + destruct (IH la lrem ra [] le true Ha Hb Hle (fun _ => eq_refl)) as (out & Hr & Hp).
          destruct (right_ended_spec la ra le) as (o & Ho & Hpo).
          exists (o ++ out). cbn [run_from hash_join_machine mstep hash_step].
          rewrite Ho. cbn [hash_join_machine] in Hr. rewrite Hr. split.
          * now rewrite map_app.
          * rewrite app_assoc, Hpo. exact Hp.
        + destruct (IH la lrem (ra ++ [y']) r' le false Ha Hb Hle (fun H => ltac:(discriminate)))
            as (out & Hr & Hp).
          destruct (add_right_spec la ra le y') as (o & Ho & Hpo).
          exists (o ++ out). cbn [run_from hash_join_machine mstep hash_step].
          rewrite Ho. cbn [hash_join_machine] in Hr. rewrite Hr. rewrite <- app_assoc in *. split.
          * now rewrite map_app.
          * rewrite app_assoc, Hpo. exact Hp.
    Qed.

    Theorem hash_join_correct :
      forall (ls : list A) (rs : list B) (s : list (elem (bin A B))) (rest : list (elem (bin A B))),
        merge2 (left_stream ls) (right_stream rs) s ->
        exists out,
          run (hash_join_machine kl kr v) (s ++ FAR :: rest)
          = map Item out ++ FAR :: run (hash_join_machine kl kr v) rest /\
          Permutation out (rel_join kl kr v ls rs).
    Proof.
      intros ls rs s rest M.
      destruct (hash_run _ _ _ M [] ls [] rs false false eq_refl eq_refl
                  (fun H => ltac:(discriminate)) (fun H => ltac:(discriminate))) as (out & Hr & Hp).
      exists out. split.
      - unfold run. rewrite run_from_app.
        change (minit (hash_join_machine kl kr v)) with (Some (@hstate0 A B)).
        rewrite <- hst_init, Hr. cbn [app]. rewrite hst_init.
        cbn [run_from hash_join_machine mstep hash_step hst hl hr h_data h_keys h_ended negb andb].
        rewrite !andb_false_r.
        destruct (run_from (hash_join_machine kl kr v) (Some hstate0) rest) as [s2 o2] eqn:E2.
        reflexivity.
      - cbn [app] in Hp. unfold emitted in Hp. cbn [pairs flat_map app] in Hp.
        rewrite !andb_false_r in Hp. cbn [app] in Hp. rewrite Hp.
        unfold emitted. rewrite !andb_true_r. apply rel_join_pieces.
    Qed.
  End Variant.

  (** ** J2: the keyed inner join *)
  Definition ipairs (la : list A) (ra : list B) : list (Z * (A * B)) :=
    gpairs (fun l r => (kl l, (l, r))) la ra.

  Lemma ipairs_inner la ra : ipairs la ra = inner_pairs kl kr la ra.
  Proof. reflexivity. Qed.

  Definition kinv (st : @kistate A B) (la : list A) (ra : list B) (le re : bool) : Prop :=
    ki_le st = le /\ ki_re st = re /\
    (re = false -> ki_l st = kmapl la) /\ (le = false -> ki_r st = kmapr ra) /\
    (le = true -> re = true -> ki_l st = [] /\ ki_r st = []).

  Lemma kinner_run a b s :
    merge2 a b s ->
    forall la lrem ra rrem le re st,
      a = lstr le lrem -> b = rstr re rrem ->
      (le = true -> lrem = []) -> (re = true -> rrem = []) ->
      kinv st la ra le re ->
      exists out st',
        run_from (kinner_machine kl kr) (Some st) s = (Some st', map Item out) /\
        kinv st' (la ++ lrem) (ra ++ rrem) true true /\
        Permutation (ipairs la ra ++ out) (ipairs (la ++ lrem) (ra ++ rrem)).
  Proof.
    induction 1 as [|x a b s M IH|y a b s M IH]; intros la lrem ra rrem le re st Ha Hb Hle Hre Hinv.
    - apply lstr_nil in Ha. apply rstr_nil in Hb. subst le re.
      rewrite (Hle eq_refl), (Hre eq_refl), !app_nil_r. exists [], st. split; [reflexivity|].
      split; [assumption|]. now rewrite app_nil_r.
    - destruct Hinv as (Ele & Ere & Hl & Hr & Hboth).
      apply lstr_cons in Ha. destruct Ha as [-> [(-> & -> & Ha)|(x' & l' & -> & -> & Ha)]].
      + cbn [run_from kinner_machine mstep kinner_step].
        match goal with |- context [run_from _ (Some ?st1) s] =>
          assert (Hk : kinv st1 la ra true re) end.
        { clear IH. unfold kinv; cbn [ki_l ki_r ki_le ki_re]. rewrite Ere.
          destruct re; repeat split; intros; try easy; auto. }
        destruct (IH la [] ra rrem true re _ Ha Hb (fun _ => eq_refl) Hre Hk) as (out & st' & Hrun & Hi & Hp).
        exists out, st'. cbn [kinner_machine] in Hrun. rewrite Hrun. cbn [app]. split; [reflexivity|].
        split; assumption.
      + cbn [run_from kinner_machine mstep kinner_step].
        match goal with |- context [run_from _ (Some ?st1) s] =>
          assert (Hk : kinv st1 (la ++ [x']) ra false re) end.
        { unfold kinv. cbn [ki_l ki_r ki_le ki_re].
          repeat split; try discriminate; try assumption.
          intros H. rewrite (Hl H). now rewrite kmapl_snoc. }
        destruct (IH (la ++ [x']) l' ra rrem false re _ Ha Hb (fun H => ltac:(discriminate)) Hre Hk)
          as (out & st' & Hrun & Hi & Hp).
        exists (map (fun r => (kl x', (x', r))) (vals (kl x') (ki_r st)) ++ out), st'.
        cbn [kinner_machine] in Hrun. rewrite Hrun. rewrite <- app_assoc in *. cbn [app] in *.
        split; [now rewrite map_app, map_map|]. split; [assumption|].
        rewrite <- Hp. rewrite app_assoc. apply Permutation_app_tail.
        unfold ipairs. rewrite gpairs_snoc_l. rewrite (Hr eq_refl), vals_kmapr. reflexivity.
    - destruct Hinv as (Ele & Ere & Hl & Hr & Hboth).
      apply rstr_cons in Hb. destruct Hb as [-> [(-> & -> & Hb)|(y' & r' & -> & -> & Hb)]].
      + cbn [run_from kinner_machine mstep kinner_step].
        match goal with |- context [run_from _ (Some ?st1) s] =>
          assert (Hk : kinv st1 la ra le true) end.
        { clear IH. unfold kinv; cbn [ki_l ki_r ki_le ki_re]. rewrite Ele.
          destruct le; repeat split; intros; try easy; auto. }
        destruct (IH la lrem ra [] le true _ Ha Hb Hle (fun _ => eq_refl) Hk) as (out & st' & Hrun & Hi & Hp).
        exists out, st'. cbn [kinner_machine] in Hrun. rewrite Hrun. cbn [app]. split; [reflexivity|].
        split; assumption.
      + cbn [run_from kinner_machine mstep kinner_step].
        match goal with |- context [run_from _ (Some ?st1) s] =>
          assert (Hk : kinv st1 la (ra ++ [y']) le false) end.
        { unfold kinv. cbn [ki_l ki_r ki_le ki_re].
          repeat split; try discriminate; try assumption.
          intros H. rewrite (Hr H). now rewrite kmapr_snoc. }
        destruct (IH la lrem (ra ++ [y']) r' le false _ Ha Hb Hle (fun H => ltac:(discriminate)) Hk)
          as (out & st' & Hrun & Hi & Hp).
        exists (map (fun l => (kr y', (l, y'))) (vals (kr y') (ki_l st)) ++ out), st'.
        cbn [kinner_machine] in Hrun. rewrite Hrun. rewrite <- app_assoc in *. cbn [app] in *.
        split; [now rewrite map_app, map_map|]. split; [assumption|].
        rewrite <- Hp. rewrite app_assoc. apply Permutation_app_tail.
        unfold ipairs. rewrite gpairs_snoc_r. apply Permutation_app_head.
        rewrite (Hl eq_refl), vals_kmapl.
        erewrite map_ext_in; [reflexivity|].
        intros l Hin. apply filter_In in Hin. destruct Hin as [_ Hin].
        apply Z.eqb_eq in Hin. now rewrite Hin.
  Qed.

  Theorem kinner_correct :
    forall ls rs s rest,
      merge2 (left_stream ls) (right_stream rs) s ->
      exists out,
        run (kinner_machine kl kr) (s ++ FAR :: rest)
        = map Item out ++ FAR :: run (kinner_machine kl kr) rest /\
        Permutation out (inner_pairs kl kr ls rs).
  Proof.
    intros ls rs s rest M.
    destruct (kinner_run _ _ _ M [] ls [] rs false false ki0 eq_refl eq_refl
                (fun H => ltac:(discriminate)) (fun H => ltac:(discriminate)))
      as (out & st' & Hr & Hi & Hp).
    { unfold kinv. cbn. repeat split; discriminate. }
    exists out. split.
    - unfold run. rewrite run_from_app.
      change (minit (kinner_machine kl kr)) with (Some (@ki0 A B)).
      rewrite Hr. destruct Hi as (_ & _ & _ & _ & Hb). destruct (Hb eq_refl eq_refl) as [H1 H2].
      cbn [run_from kinner_machine mstep kinner_step]. rewrite H1, H2.
      destruct (run_from (kinner_machine kl kr) (Some ki0) rest) as [s2 o2] eqn:E2.
      reflexivity.
    - cbn [app] in Hp. exact Hp.
  Qed.

  (** ** J3: the sort-merge join *)
  Section Sorting.
    Context {X : Type}.
    Fixpoint desc (l : list (Z * X)) : Prop :=
      match l with
      | [] => True
      | x :: l' => (forall y, In y l' -> fst y <= fst x) /\ desc l'
      end.

    Lemma zk_insert_perm (x : Z * X) l : Permutation (zk_insert x l) (x :: l).
    Proof.
      induction l as [|y l IH]; cbn [zk_insert]; [reflexivity|].
      destruct (fst y <? fst x); [reflexivity|].
      rewrite IH. apply perm_swap.
    Qed.

    Lemma sort_desc_perm (l : list (Z * X)) : Permutation (sort_desc l) l.
    Proof.
      unfold sort_desc. induction l as [|x l IH]; cbn [fold_right]; [constructor|].
      rewrite zk_insert_perm. now constructor.
    Qed.

    Lemma zk_insert_desc (x : Z * X) l : desc l -> desc (zk_insert x l).
    Proof.
      induction l as [|y l IH]; cbn [zk_insert desc].
      - intros _. split; [intros y []|exact I].
      - intros [Hy Hd]. destruct (fst y <? fst x) eqn:E.
        + apply Z.ltb_lt in E. cbn [desc]. split; [|split; assumption].
          intros z [<-|Hz]; [lia|]. specialize (Hy z Hz). lia.
        + apply Z.ltb_ge in E. cbn [desc]. split; [|now apply IH].
          intros z Hz. apply (Permutation_in _ (zk_insert_perm x l)) in Hz.
          destruct Hz as [<-|Hz]; [lia|now apply Hy].
    Qed.

    Lemma sort_desc_desc (l : list (Z * X)) : desc (sort_desc l).
    Proof.
      unfold sort_desc. induction l as [|x l IH]; cbn [fold_right]; [exact I|].
      now apply zk_insert_desc.
    Qed.

    Lemma span_gt_spec k (l : list (Z * X)) a b :
      span_gt k l = (a, b) -> desc l ->
      l = a ++ b /\ (forall y, In y a -> k < fst y) /\ (forall y, In y b -> fst y <= k) /\ desc b.
    Proof.
      revert a b. induction l as [|y l IH]; cbn [span_gt]; intros a b H Hd.
      - injection H as <- <-. repeat split; try easy.
      - destruct (k <? fst y) eqn:E.
        + destruct (span_gt k l) as [a' b'] eqn:ES. injection H as <- <-.
          destruct Hd as [Hy Hd]. destruct (IH a' b' eq_refl Hd) as (-> & Ha & Hb & Hdb).
          apply Z.ltb_lt in E. repeat split; try assumption.
          intros z [<-|Hz]; [assumption|now apply Ha].
        + injection H as <- <-. apply Z.ltb_ge in E.
          split; [reflexivity|]. split; [easy|]. split; [|assumption].
          intros z [<-|Hz]; [assumption|]. destruct Hd as [Hy _]. specialize (Hy z Hz). lia.
    Qed.
  End Sorting.

  Lemma flat_map_nil {X Y} (f : X -> list Y) l : (forall x, In x l -> f x = []) -> flat_map f l = [].
  Proof.
    induction l as [|x l IH]; intros H; cbn [flat_map]; [reflexivity|].
    rewrite H by now left. apply IH. intros; apply H; now right.
  Qed.

  Lemma flat_map_map {X Y W} (g : X -> Y) (f : Y -> list W) l :
    flat_map f (map g l) = flat_map (fun x => f (g x)) l.
  Proof. induction l as [|x l IH]; cbn [map flat_map]; [reflexivity|now rewrite IH]. Qed.

  Section SortMerge.
    Variable v : variant.

    Definition krow (l : Z * A) (R : list (Z * B)) : list jo :=
      match filter (fun r => fst r =? fst l) R with
      | [] => if left_outer v then [(fst l, (Some (snd l), None))] else []
      | ms => map (fun r => (fst l, (Some (snd l), Some (snd r)))) ms
      end.
    Definition kjoin (L : list (Z * A)) (R : list (Z * B)) : list jo := flat_map (fun l => krow l R) L.
    Definition kunr (last : option Z) (L : list (Z * A)) (R : list (Z * B)) : list jo :=
      flat_map (fun r =>
        if (match last with Some lk => lk =? fst r | None => false end)
           || existsb (fun l => fst l =? fst r) L
        then [] else if right_outer v then [(fst r, (None, Some (snd r)))] else []) R.

    Lemma discard_out_kunr last d : discard_out v last d = kunr last [] d.
    Proof.
      unfold discard_out, kunr. apply flat_map_ext_in. intros r _. cbn [existsb].
      rewrite orb_false_r.
      destruct (match last with Some lk => lk =? fst r | None => false end), (right_outer v); reflexivity.
    Qed.

    Lemma krow_perm l R R' : Permutation R R' -> Permutation (krow l R) (krow l R').
    Proof.
      intros P. apply (filter_perm (fun r => fst r =? fst l)) in P. unfold krow.
      destruct (filter _ R) as [|r0 m] eqn:E1, (filter _ R') as [|r0' m'] eqn:E2.
      - reflexivity.
      - apply Permutation_nil in P. discriminate.
      - symmetry in P. apply Permutation_nil in P. discriminate.
      - now apply Permutation_map.
    Qed.

    Lemma kjoin_perm L L' R R' :
      Permutation L L' -> Permutation R R' -> Permutation (kjoin L R) (kjoin L' R').
    Proof.
      intros PL PR. unfold kjoin. rewrite (Permutation_flat_map _ PL).
      apply flat_map_perm_ext. intros l _. now apply krow_perm.
    Qed.

    Lemma kunr_perm last L L' R R' :
      Permutation L L' -> Permutation R R' -> Permutation (kunr last L R) (kunr last L' R').
    Proof.
      intros PL PR. unfold kunr. rewrite (Permutation_flat_map _ PR).
      apply flat_map_perm_ext. intros r _. now rewrite (existsb_perm _ _ _ PL).
    Qed.

    Lemma krow_skip l (disc R1 : list (Z * B)) :
      (forall y, In y disc -> fst l < fst y) -> krow l (disc ++ R1) = krow l R1.
    Proof.
      intros H. unfold krow. rewrite filter_app.
      rewrite (existsb_false_filter _ disc); [reflexivity|].
      apply not_true_is_false. intros E. apply existsb_exists in E. destruct E as (y & Hy & E).
      apply Z.eqb_eq in E. specialize (H y Hy). lia.
    Qed.

    Lemma smj_spec L :
      forall R last,
        desc L -> desc R ->
        (forall lk, last = Some lk -> forall l, In l L -> fst l <= lk) ->
        Permutation (smj v L R last) (kjoin L R ++ kunr last L R).
    Proof.
      induction L as [|[lk lv] L' IH]; intros R last HdL HdR Hlast.
      - cbn [smj kjoin flat_map app]. now rewrite discard_out_kunr.
      - cbn [smj]. destruct (span_gt lk R) as [disc R1] eqn:ES.
        destruct (span_gt_spec _ _ _ _ ES HdR) as (-> & Hdisc & HR1 & HdR1).
        destruct HdL as [HL' HdL'].
        rewrite (IH R1 (Some lk) HdL' HdR1) by (intros ? [= <-]; exact HL').
        assert (Erow : krow (lk, lv) (disc ++ R1) =
                       match filter (fun r => fst r =? lk) R1 with
                       | [] => if left_outer v then [(lk, (Some lv, None))] else []
                       | _ :: _ => map (fun r => (lk, (Some lv, Some (snd r)))) (filter (fun r => fst r =? lk) R1)
                       end).
        { rewrite krow_skip by exact Hdisc. unfold krow. cbn [fst snd].
          destruct (filter (fun r => fst r =? lk) R1); reflexivity. }
        assert (Ejoin : kjoin L' (disc ++ R1) = kjoin L' R1).
        { unfold kjoin. apply flat_map_ext_in. intros l Hl. apply krow_skip.
          intros y Hy. specialize (Hdisc y Hy). specialize (HL' l Hl). cbn [fst] in HL'. lia. }
        assert (Eun1 : kunr last ((lk, lv) :: L') disc = discard_out v last disc).
        { rewrite discard_out_kunr. unfold kunr. apply flat_map_ext_in. intros r Hr.
          replace (existsb (fun l => fst l =? fst r) ((lk, lv) :: L')) with false; [reflexivity|].
          symmetry. apply not_true_is_false. intros E. apply existsb_exists in E.
          destruct E as (l & Hl & E). apply Z.eqb_eq in E. specialize (Hdisc r Hr).
          destruct Hl as [<-|Hl]; [cbn [fst] in E; lia|].
          specialize (HL' l Hl). cbn [fst] in HL'. lia. }
        assert (Eun2 : kunr last ((lk, lv) :: L') R1 = kunr (Some lk) L' R1).
        { unfold kunr. apply flat_map_ext_in. intros r Hr. cbn [existsb fst].
          destruct (lk =? fst r) eqn:E1; [now rewrite orb_true_r|].
          replace (match last with Some lk0 => lk0 =? fst r | None => false end) with false; [reflexivity|].
          destruct last as [k0|]; [|reflexivity]. symmetry. apply Z.eqb_neq. intros ->.
          apply Z.eqb_neq in E1. specialize (HR1 r Hr).
          specialize (Hlast _ eq_refl (lk, lv) (or_introl eq_refl)). cbn [fst] in Hlast. lia. }
        cbn [kjoin flat_map]. fold (kjoin L' (disc ++ R1)).
        rewrite Erow, Ejoin. unfold kunr at 2. rewrite flat_map_app.
        fold (kunr last ((lk, lv) :: L') disc). fold (kunr last ((lk, lv) :: L') R1).
        rewrite Eun1, Eun2.
        set (D := discard_out v last disc). set (U := kunr (Some lk) L' R1). set (J := kjoin L' R1).
        match goal with |- Permutation (D ++ ?row ++ J ++ U) _ => set (ROW := row) end.
        rewrite <- !app_assoc.
        rewrite (app_assoc D), (Permutation_app_comm D ROW), <- app_assoc.
        apply Permutation_app_head. rewrite (app_assoc D), (Permutation_app_comm D J), <- app_assoc.
        reflexivity.
    Qed.

    Lemma kjoin_rel_join ls rs :
      kjoin (kmapl ls) (kmapr rs) ++ kunr None (kmapl ls) (kmapr rs) = rel_join kl kr v ls rs.
    Proof.
      unfold rel_join. f_equal.
      - unfold kjoin, kmapl. rewrite flat_map_map. apply flat_map_ext_in. intros l _.
        unfold krow, kmapr. cbn [fst snd]. rewrite filter_map_comm. cbn [fst].
        destruct (filter (fun r => kr r =? kl l) rs) as [|r0 m]; [reflexivity|].
        cbn [map snd]. f_equal. rewrite map_map. reflexivity.
      - unfold kunr, kmapr. rewrite flat_map_map. cbn [fst snd orb].
        destruct (right_outer v).
        + apply flat_map_ext_in. intros r _. unfold kmapl. rewrite existsb_map. reflexivity.
        + apply flat_map_nil. intros r _. now destruct (existsb _ _).
    Qed.

    Lemma smj_sorted_rel_join ls rs :
      Permutation (smj v (sort_desc (kmapl ls)) (sort_desc (kmapr rs)) None) (rel_join kl kr v ls rs).
    Proof.
      rewrite smj_spec; [|apply sort_desc_desc|apply sort_desc_desc|discriminate].
      rewrite <- kjoin_rel_join. apply Permutation_app.
      - apply kjoin_perm; apply sort_desc_perm.
      - apply kunr_perm; apply sort_desc_perm.
    Qed.

    Definition smst (la : list A) (ra : list B) (le re : bool) : @smstate A B :=
      if le && re then {| sm_l := []; sm_r := []; sm_le := true; sm_re := true |}
      else {| sm_l := kmapl la; sm_r := kmapr ra; sm_le := le; sm_re := re |}.
    Definition sm_emitted (la : list A) (ra : list B) (le re : bool) : list jo :=
      if le && re then smj v (sort_desc (kmapl la)) (sort_desc (kmapr ra)) None else [].

    Lemma sm_run a b s :
      merge2 a b s ->
      forall la lrem ra rrem le re,
        a = lstr le lrem -> b = rstr re rrem ->
        (le = true -> lrem = []) -> (re = true -> rrem = []) ->
        exists out,
          run_from (sort_merge_machine kl kr v) (Some (smst la ra le re)) s
          = (Some (smst (la ++ lrem) (ra ++ rrem) true true), map Item out) /\
          sm_emitted la ra le re ++ out = sm_emitted (la ++ lrem) (ra ++ rrem) true true.
    Proof.
      induction 1 as [|x a b s M IH|y a b s M IH]; intros la lrem ra rrem le re Ha Hb Hle Hre.
      - apply lstr_nil in Ha. apply rstr_nil in Hb. subst le re.
        rewrite (Hle eq_refl), (Hre eq_refl), !app_nil_r. exists []. split; [reflexivity|].
        now rewrite app_nil_r.
      - apply lstr_cons in Ha. destruct Ha as [-> [(-> & -> & Ha)|(x' & l' & -> & -> & Ha)]].
        + destruct (IH la [] ra rrem true re Ha Hb (fun _ => eq_refl) Hre) as (out & Hr & Hp).
          cbn [run_from sort_merge_machine mstep sm_step]. cbn [sort_merge_machine] in Hr.
          unfold smst at 1 2 3 4. cbn [andb sm_l sm_r sm_le sm_re]. unfold sm_flush.
          cbn [sm_l sm_r sm_le sm_re andb]. unfold sm_emitted at 1. cbn [andb app].
          destruct re.
          * exists (smj v (sort_desc (kmapl la)) (sort_desc (kmapr ra)) None ++ out).
            unfold smst in Hr at 1. cbn [andb] in Hr. rewrite Hr. split; [now rewrite map_app|].
            exact Hp.
          * exists out. unfold smst in Hr at 1. cbn [andb] in Hr. rewrite Hr. split; [reflexivity|].
            exact Hp.
        + destruct (IH (la ++ [x']) l' ra rrem false re Ha Hb (fun H => ltac:(discriminate)) Hre)
            as (out & Hr & Hp).
          cbn [run_from sort_merge_machine mstep sm_step]. cbn [sort_merge_machine] in Hr.
          unfold smst at 1 2 3 4. cbn [andb sm_l sm_r sm_le sm_re].
          unfold smst in Hr at 1. cbn [andb] in Hr. rewrite kmapl_snoc in Hr. rewrite Hr.
          exists out. rewrite <- app_assoc in *. split; [reflexivity|exact Hp].
      - apply rstr_cons in Hb. destruct Hb as [-> [(-> & -> & Hb)|(y' & r' & -> & -> & Hb)]].
        + destruct (IH la lrem ra [] le true Ha Hb Hle (fun _ => eq_refl)) as (out & Hr & Hp).
          cbn [run_from sort_merge_machine mstep sm_step]. cbn [sort_merge_machine] in Hr.
          unfold smst at 1 2 3 4. rewrite andb_false_r. cbn [sm_l sm_r sm_le sm_re]. unfold sm_flush.
          cbn [sm_l sm_r sm_le sm_re]. unfold sm_emitted at 1. rewrite andb_false_r. cbn [app].
          rewrite andb_true_r in *.
          destruct le.
          * exists (smj v (sort_desc (kmapl la)) (sort_desc (kmapr ra)) None ++ out).
            unfold smst in Hr at 1. cbn [andb] in Hr. rewrite Hr. split; [now rewrite map_app|].
            exact Hp.
          * exists out. unfold smst in Hr at 1. cbn [andb] in Hr. rewrite Hr. split; [reflexivity|].
            exact Hp.
        + destruct (IH la lrem (ra ++ [y']) r' le false Ha Hb Hle (fun H => ltac:(discriminate)))
            as (out & Hr & Hp).
          cbn [run_from sort_merge_machine mstep sm_step]. cbn [sort_merge_machine] in Hr.
          unfold smst at 1 2 3 4. rewrite andb_false_r. cbn [sm_l sm_r sm_le sm_re].
          unfold smst in Hr at 1. rewrite andb_false_r in Hr. rewrite kmapr_snoc in Hr. rewrite Hr.
          exists out. rewrite <- app_assoc in *. split; [reflexivity|].
          unfold sm_emitted in Hp at 1. unfold sm_emitted at 1. rewrite andb_false_r in *. exact Hp.
    Qed.

    Theorem sort_merge_correct :
      forall ls rs s rest,
        merge2 (left_stream ls) (right_stream rs) s ->
        exists out,
          run (sort_merge_machine kl kr v) (s ++ FAR :: rest)
          = map Item out ++ FAR :: run (sort_merge_machine kl kr v) rest /\
          Permutation out (rel_join kl kr v ls rs).
    Proof.
      intros ls rs s rest M.
      destruct (sm_run _ _ _ M [] ls [] rs false false eq_refl eq_refl
                  (fun H => ltac:(discriminate)) (fun H => ltac:(discriminate))) as (out & Hr & Hp).
      exists out. split.
      - unfold run. rewrite run_from_app.
        change (minit (sort_merge_machine kl kr v)) with (Some (@sm0 A B)).
        change (@sm0 A B) with (smst [] [] false false) at 1. rewrite Hr.
        cbn [run_from sort_merge_machine mstep sm_step smst andb sm_l sm_r sm_le sm_re].
        destruct (run_from (sort_merge_machine kl kr v) (Some sm0) rest) as [s2 o2] eqn:E2.
        reflexivity.
      - cbn [app sm_emitted andb] in Hp. rewrite Hp. apply smj_sorted_rel_join.
    Qed.
  End SortMerge.
End JoinProofs.

(** * J4: the interval join *)
Section IntervalProofs.
  Context {A B : Type}.
  Variable (lb ub : Z).
  Notation lel := (Z * (Z * A))%type.
  Notation rel := (Z * (Z * B))%type.
  Notation io := (@iout A B).
  Notation rts r := (fst (snd r)).

  Fixpoint rsorted (R : list rel) : Prop :=
    match R with
    | [] => True
    | r :: R' => (forall r', In r' R' -> rts r <= rts r') /\ rsorted R'
    end.
  Fixpoint lsorted (L : list lel) : Prop :=
    match L with
    | [] => True
    | l :: L' => (forall l', In l' L' -> fst l <= fst l') /\ lsorted L'
    end.

  Lemma rsorted_filter p R : rsorted R -> rsorted (filter p R).
  Proof.
    induction R as [|r R IH]; cbn [filter rsorted]; [easy|]. intros [H1 H2].
    destruct (p r); [|now apply IH]. cbn [rsorted]. split; [|now apply IH].
    intros r' Hr'. apply filter_In in Hr'. now apply H1.
  Qed.
  Lemma rsorted_snoc R r : rsorted R -> (forall r', In r' R -> rts r' <= rts r) -> rsorted (R ++ [r]).
  Proof.
    induction R as [|r0 R IH]; cbn [app rsorted]; intros H1 H2.
    - split; [intros ? []|exact I].
    - destruct H1 as [H1 H1']. split.
      + intros r' Hr'. apply in_app_or in Hr'. destruct Hr' as [Hr'|[<-|[]]]; [now apply H1|].
        apply H2. now left.
      + apply IH; [assumption|]. intros; apply H2; now right.
  Qed.
  Lemma lsorted_snoc L l : lsorted L -> (forall l', In l' L -> fst l' <= fst l) -> lsorted (L ++ [l]).
  Proof.
    induction L as [|l0 L IH]; cbn [app lsorted]; intros H1 H2.
    - split; [intros ? []|exact I].
    - destruct H1 as [H1 H1']. split.
      + intros l' Hl'. apply in_app_or in Hl'. destruct Hl' as [Hl'|[<-|[]]]; [now apply H1|].
        apply H2. now left.
      + apply IH; [assumption|]. intros; apply H2; now right.
  Qed.
  Lemma lsorted_mid a x b : lsorted (a ++ x :: b) -> forall y, In y a -> fst y <= fst x.
  Proof.
    induction a as [|a0 a IH]; cbn [app lsorted]; [intros _ ? []|].
    intros [H1 H2] y [<-|Hy]; [|now apply IH].
    apply H1. apply in_or_app. right. now left.
  Qed.

  Lemma filter_all_true {X} (p : X -> bool) l : (forall x, In x l -> p x = true) -> filter p l = l.
  Proof.
    induction l as [|x l IH]; intros H; cbn [filter]; [reflexivity|].
    rewrite H by now left. f_equal. apply IH. intros; apply H; now right.
  Qed.
  Lemma filter_all_false {X} (p : X -> bool) l : (forall x, In x l -> p x = false) -> filter p l = [].
  Proof.
    induction l as [|x l IH]; intros H; cbn [filter]; [reflexivity|].
    rewrite H by now left. apply IH. intros; apply H; now right.
  Qed.
  Lemma filter_filter {X} (p q : X -> bool) l : filter p (filter q l) = filter (fun x => q x && p x) l.
  Proof.
    induction l as [|x l IH]; cbn [filter]; [reflexivity|].
    destruct (q x); cbn [andb filter]; [destruct (p x)|]; now rewrite IH.
  Qed.
  Lemma filter_ext_in' {X} (p q : X -> bool) l : (forall x, In x l -> p x = q x) -> filter p l = filter q l.
  Proof.
    induction l as [|x l IH]; intros H; cbn [filter]; [reflexivity|].
    rewrite H by now left. rewrite IH; [reflexivity|intros; apply H; now right].
  Qed.
  Lemma map_filter_flat_map {X Y} (f : X -> Y) (p : X -> bool) l :
    map f (filter p l) = flat_map (fun x => if p x then [f x] else []) l.
  Proof.
    induction l as [|x l IH]; cbn [filter flat_map map]; [reflexivity|].
    destruct (p x); cbn [map app]; now rewrite IH.
  Qed.

  (** the two local loops of [iadvance], named *)
  Definition dropf (lk lower : Z) :=
    fix dropf (l : list rel) (dropping : bool) : list rel :=
      match l with
      | [] => []
      | r :: l' =>
          if Z.eqb (fst r) lk then
            if dropping && (fst (snd r) <? lower) then dropf l' true
            else r :: dropf l' false
          else r :: dropf l' dropping
      end.
  Definition tw (upper : Z) :=
    fix tw (l : list rel) : list rel :=
      match l with
      | [] => []
      | r :: l' => if fst (snd r) <=? upper then r :: tw l' else []
      end.

  Lemma iadvance_S f (s : @istate A B) :
    iadvance lb ub (S f) s =
    match i_left s with
    | [] => (s, [])
    | (lts, (lk, lv)) :: left' =>
        if (i_last s <=? lts + ub) && negb (i_restart s) then (s, [])
        else
          let keep := dropf lk (lts - lb) (i_right s) true in
          let ms := tw (lts + ub) (filter (fun r => Z.eqb (fst r) lk) keep) in
          let o := map (fun r => Tst (lk, (lv, snd (snd r))) (Z.max (fst (snd r)) lts)) ms in
          let '(s1, o1) := iadvance lb ub f {| i_left := left'; i_right := keep; i_last := i_last s; i_restart := i_restart s |} in
          (s1, o ++ o1)
    end.
  Proof. reflexivity. Qed.

  Definition keepf (lk lower : Z) (r : rel) : bool := negb ((fst r =? lk) && (rts r <? lower)).

  Lemma dropf_false lk lower l : dropf lk lower l false = l.
  Proof.
    induction l as [|r l IH]; cbn [dropf]; [reflexivity|].
    cbn [andb]. destruct (fst r =? lk); now rewrite IH.
  Qed.

  Lemma dropf_true lk lower l : rsorted l -> dropf lk lower l true = filter (keepf lk lower) l.
  Proof.
    induction l as [|r l IH]; cbn [dropf filter rsorted]; [reflexivity|]. intros [H1 H2].
    unfold keepf at 1. destruct (fst r =? lk) eqn:Ek; cbn [andb negb].
    - destruct (rts r <? lower) eqn:Et; cbn [negb]; [now apply IH|].
      rewrite dropf_false. f_equal. symmetry. apply filter_all_true.
      intros r' Hr'. unfold keepf. apply Z.ltb_ge in Et. specialize (H1 r' Hr').
      replace (rts r' <? lower) with false; [now rewrite andb_false_r|].
      symmetry. apply Z.ltb_ge. lia.
    - f_equal. now apply IH.
  Qed.

  Lemma tw_filter upper l : rsorted l -> tw upper l = filter (fun r => rts r <=? upper) l.
  Proof.
    induction l as [|r l IH]; cbn [tw filter rsorted]; [reflexivity|]. intros [H1 H2].
    destruct (rts r <=? upper) eqn:E; [f_equal; now apply IH|].
    symmetry. apply filter_all_false. intros r' Hr'. apply Z.leb_gt in E. apply Z.leb_gt.
    specialize (H1 r' Hr'). lia.
  Qed.

  (** one left element's row of the specification *)
  Definition mkout (l : lel) (r : rel) : elem io :=
    Tst (fst (snd l), (snd (snd l), snd (snd r))) (Z.max (rts r) (fst l)).
  Definition irow (l : lel) (RR : list rel) : list (elem io) :=
    flat_map (fun r =>
      if Z.eqb (fst r) (fst (snd l)) && (fst l - lb <=? fst (snd r)) && (fst (snd r) <=? fst l + ub)
      then [mkout l r] else []) RR.
  Definition fkt (k t : Z) (r : rel) : bool := (fst r =? k) && (t <=? rts r).

  Lemma IS_cons (l : lel) (ls : list lel) (RR : list rel) : interval_spec lb ub (l :: ls) RR = irow l RR ++ interval_spec lb ub ls RR.
  Proof. reflexivity. Qed.
  Lemma IS_app (l1 l2 : list lel) (RR : list rel) : interval_spec lb ub (l1 ++ l2) RR = interval_spec lb ub l1 RR ++ interval_spec lb ub l2 RR.
  Proof. unfold interval_spec. apply flat_map_app. Qed.

  Lemma irow_filter l RR :
    irow l RR = map (mkout l) (filter (fun r => rts r <=? fst l + ub) (filter (fkt (fst (snd l)) (fst l - lb)) RR)).
  Proof.
    rewrite filter_filter, map_filter_flat_map. reflexivity.
  Qed.

  Lemma process_row lts lk lv R RR :
    rsorted R ->
    filter (fkt lk (lts - lb)) R = filter (fkt lk (lts - lb)) RR ->
    map (fun r : rel => Tst (lk, (lv, snd (snd r))) (Z.max (fst (snd r)) lts))
        (tw (lts + ub) (filter (fun r => Z.eqb (fst r) lk) (dropf lk (lts - lb) R true)))
    = irow (lts, (lk, lv)) RR.
  Proof.
    intros Hs Hc. rewrite irow_filter. cbn [fst snd]. rewrite <- Hc.
    rewrite dropf_true by assumption.
    rewrite tw_filter by (do 2 apply rsorted_filter; assumption).
    rewrite !filter_filter. unfold mkout. cbn [fst snd].
    f_equal. apply filter_ext_in'. intros r _. unfold keepf, fkt.
    destruct (fst r =? lk); cbn [andb negb]; [|reflexivity].
    now rewrite (Z.leb_antisym (rts r) (lts - lb)).
  Qed.

  (** [R] still holds every element of [RR] that an unprocessed left element could match *)
  Definition cov (done : list lel) (R RR : list rel) : Prop :=
    forall k t, (forall l, In l done -> fst (snd l) = k -> fst l - lb <= t) ->
                filter (fkt k t) R = filter (fkt k t) RR.

  Lemma cov_drop done R RR lts lk lv :
    cov done R RR -> cov (done ++ [(lts, (lk, lv))]) (filter (keepf lk (lts - lb)) R) RR.
  Proof.
    intros Hc k t Hkt. rewrite <- (Hc k t).
    2:{ intros l Hl. apply Hkt. apply in_or_app. now left. }
    rewrite filter_filter. apply filter_ext_in'. intros r _.
    unfold keepf, fkt. destruct (fst r =? k) eqn:Ek; cbn [andb]; [|now rewrite andb_false_r].
    destruct (t <=? rts r) eqn:Et; [|now rewrite andb_false_r]. rewrite andb_true_r.
    apply Z.eqb_eq in Ek. apply Z.leb_le in Et.
    destruct (fst r =? lk) eqn:Ek2; cbn [andb negb]; [|reflexivity].
    apply Z.eqb_eq in Ek2.
    assert (lts - lb <= t).
    { apply (Hkt (lts, (lk, lv))); [apply in_or_app; right; now left|]. cbn [fst snd]. congruence. }
    replace (rts r <? lts - lb) with false; [reflexivity|]. symmetry. apply Z.ltb_ge. lia.
  Qed.

  Definition pre (LL : list lel) (RR : list rel) (done : list lel) (s : @istate A B) : Prop :=
    LL = done ++ i_left s /\ lsorted LL /\
    rsorted (i_right s) /\ (forall r, In r (i_right s) -> rts r <= i_last s) /\
    cov done (i_right s) RR /\
    (forall l, In l done -> i_restart s = true \/ fst l + ub < i_last s).

  Lemma advance_pre LL RR fuel :
    forall done s,
      pre LL RR done s -> (length (i_left s) < fuel)%nat ->
      exists proc s2,
        iadvance lb ub fuel s = (s2, interval_spec lb ub proc RR) /\
        pre LL RR (done ++ proc) s2 /\
        i_restart s2 = i_restart s /\ i_last s2 = i_last s /\
        (i_restart s = true -> i_left s2 = []).
  Proof.
    induction fuel as [|f IH]; intros done s Hpre Hlen; [lia|].
    rewrite iadvance_S.
    destruct (i_left s) as [|[lts [lk lv]] left'] eqn:EL.
    - exists [], s. rewrite app_nil_r.
      split; [reflexivity|]. split; [exact Hpre|]. split; [reflexivity|]. split; [reflexivity|].
      intros _; exact EL.
    - destruct ((i_last s <=? lts + ub) && negb (i_restart s)) eqn:Estop.
      + exists [], s. rewrite app_nil_r.
        split; [reflexivity|]. split; [exact Hpre|]. split; [reflexivity|]. split; [reflexivity|].
        intros Hr. rewrite Hr, andb_false_r in Estop. discriminate.
      + destruct Hpre as (HLL & HLs & HRs & HRb & Hcov & Hclosed). rewrite EL in HLL.
        cbv zeta.
        set (s' := {| i_left := left'; i_right := dropf lk (lts - lb) (i_right s) true;
                      i_last := i_last s; i_restart := i_restart s |}).
        assert (Hd : dropf lk (lts - lb) (i_right s) true = filter (keepf lk (lts - lb)) (i_right s))
          by now apply dropf_true.
        assert (Hle : forall l, In l done -> fst l <= lts).
        { intros l Hl. rewrite HLL in HLs. apply (lsorted_mid _ _ _ HLs l Hl). }
        assert (Hpre' : pre LL RR (done ++ [(lts, (lk, lv))]) s').
        { unfold pre, s'. cbn [i_left i_right i_last i_restart]. rewrite Hd. repeat split.
          - now rewrite <- app_assoc.
          - assumption.
          - now apply rsorted_filter.
          - intros r Hr. apply filter_In in Hr. now apply HRb.
          - now apply cov_drop.
          - intros l Hl. apply in_app_or in Hl. destruct Hl as [Hl|[<-|[]]]; [now apply Hclosed|].
            cbn [fst]. apply andb_false_iff in Estop. destruct Estop as [E|E].
            + right. apply Z.leb_gt in E. lia.
            + left. now destruct (i_restart s). }
        destruct (IH _ s' Hpre') as (proc & s2 & Hrun & Hpre2 & Hr2 & Hl2 & Hemp).
        { unfold s'. cbn [i_left]. cbn [length] in Hlen. lia. }
        exists ((lts, (lk, lv)) :: proc), s2. rewrite Hrun. split.
        * f_equal. rewrite IS_cons. f_equal. apply process_row; [assumption|].
          apply Hcov. intros l Hl Hk. specialize (Hle l Hl). lia.
        * rewrite <- app_assoc in Hpre2. cbn [app] in Hpre2.
          split; [exact Hpre2|]. split; [exact Hr2|]. split; [exact Hl2|]. exact Hemp.
  Qed.

  Notation el := (elem (Z * merged A B)).
  Notation IM := (@interval_machine A B lb ub).

  (** FlushBatch markers are forwarded *)
  Definition flushes (l : list el) : list (elem io) :=
    flat_map (fun e => match e with FlushBatch => [FlushBatch] | _ => [] end) l.

  Lemma lefts_snoc (p : list el) e : lefts (p ++ [e]) = lefts p ++ lefts [e].
  Proof. unfold lefts. apply flat_map_app. Qed.
  Lemma rights_snoc (p : list el) e : rights (p ++ [e]) = rights p ++ rights [e].
  Proof. unfold rights. apply flat_map_app. Qed.
  Lemma flushes_snoc (p : list el) e : flushes (p ++ [e]) = flushes p ++ flushes [e].
  Proof. unfold flushes. apply flat_map_app. Qed.

  Lemma irow_snoc_far (l : lel) (RR : list rel) (r : rel) :
    fst l + ub < rts r -> irow l (RR ++ [r]) = irow l RR.
  Proof.
    intros H. unfold irow. rewrite flat_map_snoc.
    replace (rts r <=? fst l + ub) with false; [now rewrite andb_false_r, app_nil_r|].
    symmetry. apply Z.leb_gt. lia.
  Qed.
  Lemma IS_snoc_far (done : list lel) (RR : list rel) (r : rel) :
    (forall l, In l done -> fst l + ub < rts r) ->
    interval_spec lb ub done (RR ++ [r]) = interval_spec lb ub done RR.
  Proof.
    intros H. unfold interval_spec. apply flat_map_ext_in. intros l Hl.
    apply (irow_snoc_far l RR r). now apply H.
  Qed.
  Lemma cov_snoc done R RR r : cov done R RR -> cov done (R ++ [r]) (RR ++ [r]).
  Proof. intros Hc k t H. now rewrite !filter_app, (Hc k t H). Qed.

  Definition inv (p : list el) (s : @istate A B) (acc : list (elem io)) : Prop :=
    exists done,
      pre (lefts p) (rights p) done s /\
      (forall l, In l (lefts p) -> fst l <= i_last s) /\
      i_restart s = false /\
      Permutation acc (interval_spec lb ub done (rights p) ++ flushes p).

  Lemma advance_inv (p' : list el) s1 done acc0 :
    pre (lefts p') (rights p') done s1 ->
    (forall l, In l (lefts p') -> fst l <= i_last s1) ->
    i_restart s1 = false ->
    Permutation acc0 (interval_spec lb ub done (rights p') ++ flushes p') ->
    exists s2 o,
      iadvance lb ub (S (length (i_left s1))) s1 = (s2, o) /\ inv p' s2 (acc0 ++ o) /\ i_last s2 = i_last s1.
  Proof.
    intros Hpre Hb Hr Hacc.
    destruct (advance_pre _ _ (S (length (i_left s1))) done s1 Hpre (Nat.lt_succ_diag_r _))
      as (proc & s2 & Hrun & Hpre2 & Hr2 & Hl2 & _).
    exists s2, (interval_spec lb ub proc (rights p')). split; [exact Hrun|]. split; [|exact Hl2].
    exists (done ++ proc). split; [exact Hpre2|]. split; [now rewrite Hl2|]. split; [congruence|].
    rewrite Hacc, IS_app, <- !app_assoc. apply Permutation_app_head. apply Permutation_app_comm.
  Qed.

  Lemma closed_of_pre LL RR done s :
    pre LL RR done s -> i_restart s = false -> forall l, In l done -> fst l + ub < i_last s.
  Proof.
    intros (_ & _ & _ & _ & _ & Hc) Hr l Hl. destruct (Hc l Hl) as [E|E]; [congruence|exact E].
  Qed.

  Lemma pre_bump LL RR done s t :
    pre LL RR done s -> i_restart s = false -> i_last s <= t ->
    pre LL RR done {| i_left := i_left s; i_right := i_right s; i_last := t; i_restart := false |}.
  Proof.
    intros Hpre Hr Ht. pose proof (closed_of_pre _ _ _ _ Hpre Hr) as Hcl.
    destruct Hpre as (H1 & H2 & H3 & H4 & H5 & H6).
    unfold pre. cbn [i_left i_right i_last i_restart]. repeat split; try assumption.
    - intros r Hin. specialize (H4 r Hin). lia.
    - intros l Hl. right. specialize (Hcl l Hl). lia.
  Qed.

  Lemma pre_bump_l LL RR done s t k a :
    pre LL RR done s -> i_restart s = false -> i_last s <= t ->
    (forall l, In l LL -> fst l <= i_last s) ->
    pre (LL ++ [(t, (k, a))]) RR done
        {| i_left := i_left s ++ [(t, (k, a))]; i_right := i_right s; i_last := t; i_restart := false |}.
  Proof.
    intros Hpre Hr Ht Hb. pose proof (closed_of_pre _ _ _ _ Hpre Hr) as Hcl.
    destruct Hpre as (H1 & H2 & H3 & H4 & H5 & H6).
    unfold pre. cbn [i_left i_right i_last i_restart]. repeat split; try assumption.
    - now rewrite H1, app_assoc.
    - apply lsorted_snoc; [assumption|]. intros l Hl. specialize (Hb l Hl). cbn [fst]. lia.
    - intros r Hin. specialize (H4 r Hin). lia.
    - intros l Hl. right. specialize (Hcl l Hl). lia.
  Qed.

  Lemma pre_bump_r LL RR done s t k b :
    pre LL RR done s -> i_restart s = false -> i_last s <= t ->
    pre LL (RR ++ [(k, (t, b))]) done
        {| i_left := i_left s; i_right := i_right s ++ [(k, (t, b))]; i_last := t; i_restart := false |}.
  Proof.
    intros Hpre Hr Ht. pose proof (closed_of_pre _ _ _ _ Hpre Hr) as Hcl.
    destruct Hpre as (H1 & H2 & H3 & H4 & H5 & H6).
    unfold pre. cbn [i_left i_right i_last i_restart]. repeat split; try assumption.
    - apply rsorted_snoc; [assumption|]. intros r Hin. specialize (H4 r Hin). cbn [fst snd]. lia.
    - intros r Hin. apply in_app_or in Hin. destruct Hin as [Hin|[<-|[]]].
      + specialize (H4 r Hin). lia.
      + cbn [fst snd]. lia.
    - now apply cov_snoc.
    - intros l Hl. right. specialize (Hcl l Hl). lia.
  Qed.

  Lemma interval_step_inv p s acc e rem :
    inv p s acc -> ts_sorted_from (i_last s) (e :: rem) ->
    exists s' o,
      interval_step lb ub (Some s) e = (Some s', o) /\ inv (p ++ [e]) s' (acc ++ o) /\
      ts_sorted_from (i_last s') rem.
  Proof.
    intros (done & Hpre & Hb & Hr & Hacc) Hs.
    destruct e as [x|[k m] t|t| | |]; cbn [ts_sorted_from] in Hs; try contradiction.
    - (* timestamped element *)
      destruct Hs as [Ht Hs]. cbn [interval_step].
      replace (t <? i_last s) with false by (symmetry; apply Z.ltb_ge; lia).
      destruct m as [a|b].
      + match goal with |- context [iadvance _ _ _ ?s1] =>
          destruct (advance_inv (p ++ [Tst (k, ML a) t]) s1 done acc) as (s2 & o & Hrun & Hinv & Hl) end.
        * rewrite lefts_snoc, rights_snoc. cbn [lefts rights flat_map app]. rewrite app_nil_r.
          now apply pre_bump_l.
        * rewrite lefts_snoc. cbn [lefts flat_map app i_last]. intros l Hl.
          apply in_app_or in Hl. destruct Hl as [Hl|[<-|[]]]; [specialize (Hb l Hl); lia|cbn [fst]; lia].
        * reflexivity.
        * rewrite rights_snoc, flushes_snoc. cbn [rights flushes flat_map app]. now rewrite !app_nil_r.
        * exists s2, o. cbn [i_left] in Hrun |- *. rewrite Hrun. split; [reflexivity|]. split; [exact Hinv|].
          now rewrite Hl.
      + match goal with |- context [iadvance _ _ _ ?s1] =>
          destruct (advance_inv (p ++ [Tst (k, MR b) t]) s1 done acc) as (s2 & o & Hrun & Hinv & Hl) end.
        * rewrite lefts_snoc, rights_snoc. cbn [lefts rights flat_map app]. rewrite app_nil_r.
          now apply pre_bump_r.
        * rewrite lefts_snoc. cbn [lefts flat_map app i_last]. rewrite app_nil_r. intros l Hl.
          specialize (Hb l Hl); lia.
        * reflexivity.
        * rewrite rights_snoc, flushes_snoc. cbn [rights flushes flat_map app]. rewrite !app_nil_r.
          rewrite IS_snoc_far; [exact Hacc|]. intros l Hl. cbn [fst snd].
          pose proof (closed_of_pre _ _ _ _ Hpre Hr l Hl). lia.
        * exists s2, o. cbn [i_left] in Hrun |- *. rewrite Hrun. split; [reflexivity|]. split; [exact Hinv|].
          now rewrite Hl.
    - (* watermark *)
      destruct Hs as [Ht Hs]. cbn [interval_step].
      replace (t <? i_last s) with false by (symmetry; apply Z.ltb_ge; lia).
      match goal with |- context [iadvance _ _ _ ?s1] =>
        destruct (advance_inv (p ++ [Wm t]) s1 done acc) as (s2 & o & Hrun & Hinv & Hl) end.
      * rewrite lefts_snoc, rights_snoc. cbn [lefts rights flat_map app]. rewrite !app_nil_r.
        now apply pre_bump.
      * rewrite lefts_snoc. cbn [lefts flat_map app i_last]. rewrite app_nil_r. intros l Hl.
        specialize (Hb l Hl); lia.
      * reflexivity.
      * rewrite rights_snoc, flushes_snoc. cbn [rights flushes flat_map app]. now rewrite !app_nil_r.
      * exists s2, o. cbn [i_left] in Hrun |- *. rewrite Hrun. split; [reflexivity|]. split; [exact Hinv|].
        now rewrite Hl.
    - (* FlushBatch *)
      cbn [interval_step]. exists s, [FlushBatch]. split; [reflexivity|]. split; [|exact Hs].
      exists done. rewrite lefts_snoc, rights_snoc, flushes_snoc.
      cbn [lefts rights flushes flat_map app]. rewrite !app_nil_r.
      split; [exact Hpre|]. split; [exact Hb|]. split; [exact Hr|].
      rewrite Hacc. now rewrite app_assoc.
  Qed.

  Lemma interval_far_inv p s acc :
    inv p s acc ->
    exists o,
      interval_step lb ub (Some s) FAR = (Some i0, o ++ [FAR]) /\
      Permutation (acc ++ o) (interval_spec lb ub (lefts p) (rights p) ++ flushes p).
  Proof.
    intros (done & Hpre & Hb & Hr & Hacc). cbn [interval_step].
    set (s1 := {| i_left := i_left s; i_right := i_right s; i_last := i_last s; i_restart := true |}).
    assert (Hpre1 : pre (lefts p) (rights p) done s1).
    { destruct Hpre as (H1 & H2 & H3 & H4 & H5 & H6). unfold pre, s1.
      cbn [i_left i_right i_last i_restart]. repeat split; try assumption. intros; now left. }
    destruct (advance_pre _ _ (S (length (i_left s))) done s1 Hpre1 (Nat.lt_succ_diag_r _))
      as (proc & s2 & Hrun & Hpre2 & _ & _ & Hemp).
    rewrite Hrun. exists (interval_spec lb ub proc (rights p)). split; [reflexivity|].
    destruct Hpre2 as (HLL & _). rewrite (Hemp eq_refl), app_nil_r in HLL.
    rewrite HLL, IS_app, Hacc, <- !app_assoc. apply Permutation_app_head. apply Permutation_app_comm.
  Qed.

  Lemma interval_run (rest : list el) :
    forall (rem p : list el) s acc,
      inv p s acc -> ts_sorted_from (i_last s) rem ->
      exists out,
        run_from IM (Some s) (rem ++ FAR :: rest)
        = (fst (run_from IM (Some i0) rest), out ++ FAR :: snd (run_from IM (Some i0) rest)) /\
        Permutation (acc ++ out)
                    (interval_spec lb ub (lefts (p ++ rem)) (rights (p ++ rem)) ++ flushes (p ++ rem)).
  Proof.
    induction rem as [|e rem IH]; intros p s acc Hinv Hs.
    - destruct (interval_far_inv _ _ _ Hinv) as (o & Hstep & Hp).
      exists o. rewrite app_nil_r. cbn [app run_from interval_machine mstep].
      rewrite Hstep. destruct (run_from IM (Some i0) rest) as [s2 o2] eqn:E.
      cbn [fst snd]. split; [|exact Hp].
      now rewrite <- app_assoc.
    - destruct (interval_step_inv _ _ _ _ _ Hinv Hs) as (s' & o & Hstep & Hinv' & Hs').
      destruct (IH _ _ _ Hinv' Hs') as (out & Hrun & Hp).
      exists (o ++ out). cbn [app run_from interval_machine mstep].
      rewrite Hstep. cbn [interval_machine] in Hrun. rewrite Hrun.
      rewrite <- !app_assoc in Hp. cbn [app] in Hp. rewrite app_assoc. split; [|exact Hp].
      now rewrite <- app_assoc.
  Qed.

  Lemma inv_init : inv [] i0 [].
  Proof.
    exists []. unfold pre, i0. cbn. repeat split; try easy.
  Qed.

  (** the general statement: FlushBatch markers in the input are forwarded *)
  Theorem interval_join_correct_gen :
    forall (l : list el) (rest : list el),
      ts_sorted_from 0 l ->
      exists out,
        run IM (l ++ FAR :: rest) = out ++ FAR :: run IM rest /\
        Permutation out (interval_spec lb ub (lefts l) (rights l) ++ flushes l).
  Proof.
    intros l rest Hs.
    destruct (interval_run rest l [] i0 [] inv_init Hs) as (out & Hrun & Hp).
    exists out. split; [|exact Hp]. unfold run.
    change (minit IM) with (Some (@i0 A B)). now rewrite Hrun.
  Qed.

  (** The statement without the [flushes] term is false when the input contains a
      FlushBatch marker: the machine forwards it, the specification has no such element. *)
  Lemma interval_join_flush_batch_counterexample :
    ts_sorted_from 0 ([FlushBatch] : list el) /\
    run IM ([FlushBatch] ++ FAR :: []) = [FlushBatch] ++ FAR :: run IM [] /\
    ~ exists out,
        run IM ([FlushBatch] ++ FAR :: []) = out ++ FAR :: run IM [] /\
        Permutation out (interval_spec lb ub (lefts ([FlushBatch] : list el)) (rights ([FlushBatch] : list el))).
  Proof.
    split; [exact I|]. split; [reflexivity|].
    intros (out & Hrun & Hp). cbn in Hp. apply Permutation_sym, Permutation_nil in Hp. subst out.
    discriminate Hrun.
  Qed.

  Definition no_flush_batch (l : list el) : Prop := ~ In FlushBatch l.

  Lemma flushes_nil (l : list el) : no_flush_batch l -> flushes l = [].
  Proof.
    intros H. unfold flushes. apply flat_map_nil. intros e He.
    destruct e; try reflexivity. contradiction.
  Qed.

  (** the statement as posed, for inputs without FlushBatch markers *)
  Theorem interval_join_correct :
    forall (l : list el) (rest : list el),
      ts_sorted_from 0 l -> no_flush_batch l ->
      exists out,
        run IM (l ++ FAR :: rest) = out ++ FAR :: run IM rest /\
        Permutation out (interval_spec lb ub (lefts l) (rights l)).
  Proof.
    intros l rest Hs Hnf. destruct (interval_join_correct_gen l rest Hs) as (out & Hrun & Hp).
    exists out. split; [exact Hrun|]. now rewrite (flushes_nil l Hnf), app_nil_r in Hp.
  Qed.
End IntervalProofs.

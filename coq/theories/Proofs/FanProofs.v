(** Machine-checked proofs for the fan-in operators behind the two-input Start (zip, merge)
    and for protocol-level properties of the keyed window operator:
    Z1 zip pairs positionally, Z2 merge is the union in arrival order,
    W1 the window operator keeps the stream grammar, W2 watermark safety of windows. *)
From Noir Require Import Proofs.OpsSpec Proofs.JoinSpec Proofs.WinEventSpec.
From Noir Require Import Proofs.WinCountProofs Proofs.WindowOpProofs Proofs.WinEventProofs Proofs.OpsProofs.
From Noir Require Import Model.Fan Model.WinCount Model.WindowOp Model.WinEvent.
From Coq Require Import List ZArith Bool Lia Permutation.
Import ListNotations.
Open Scope Z_scope.

(** * Interleavings *)
Section Merge2Facts.
  Context {X : Type}.

  Lemma merge2_Forall (P : X -> Prop) a b s :
    merge2 a b s -> Forall P a -> Forall P b -> Forall P s.
  Proof.
    induction 1 as [|x a b s _ IH|y a b s _ IH]; intros Ha Hb.
    - constructor.
    - inversion Ha; subst. constructor; auto.
    - inversion Hb; subst. constructor; auto.
  Qed.

  Lemma merge2_perm a b (s : list X) : merge2 a b s -> Permutation s (a ++ b).
  Proof.
    induction 1 as [|x a b s _ IH|y a b s _ IH].
    - constructor.
    - cbn [app]. now constructor.
    - rewrite IH. apply Permutation_middle.
  Qed.

  Lemma merge2_flat_map_l {Y} (f : X -> list Y) a b s :
    merge2 a b s -> flat_map f b = [] -> flat_map f s = flat_map f a.
  Proof.
    induction 1 as [|x a b s _ IH|y a b s _ IH]; intros Hb.
    - reflexivity.
    - cbn [flat_map]. now rewrite IH.
    - cbn [flat_map] in *. apply app_eq_nil in Hb as [H1 H2]. rewrite H1. cbn [app]. auto.
  Qed.

  Lemma merge2_flat_map_r {Y} (f : X -> list Y) a b s :
    merge2 a b s -> flat_map f a = [] -> flat_map f s = flat_map f b.
  Proof.
    induction 1 as [|x a b s _ IH|y a b s _ IH]; intros Ha.
    - reflexivity.
    - cbn [flat_map] in *. apply app_eq_nil in Ha as [H1 H2]. rewrite H1. cbn [app]. auto.
    - cbn [flat_map]. now rewrite IH.
  Qed.
End Merge2Facts.

Lemma flat_map_map_nil {X Y Z'} (g : X -> Y) (f : Y -> list Z') (l : list X) :
  (forall x, f (g x) = []) -> flat_map f (map g l) = [].
Proof. intros H. induction l as [|x l IH]; [reflexivity|]. cbn [map flat_map]. now rewrite H, IH. Qed.

Lemma flat_map_map_single {X Y Z'} (g : X -> Y) (f : Y -> list Z') (h : X -> Z') (l : list X) :
  (forall x, f (g x) = [h x]) -> flat_map f (map g l) = map h l.
Proof. intros H. induction l as [|x l IH]; [reflexivity|]. cbn [map flat_map]. now rewrite H, IH. Qed.

(** * Watermark safety of a machine with a state invariant (generalises
    [wm_elementwise_safe] of OpsProofs.v): every step maps an admissible element to a safe
    block that moves the watermark bound exactly as the element does. *)
Lemma wm_inv_from {A B} (M : machine (elem A) (elem B))
  (I : option Z -> mstate M -> Prop) (EC : elem A -> Prop) (dead : mstate M -> Prop) :
  (forall s l, dead s -> snd (run_from M s l) = []) ->
  (forall s e last, I last s -> EC e -> wm_ok last e = true ->
     wm_safe_from last (snd (mstep M s e)) = true /\
     (dead (fst (mstep M s e)) \/
      (fold_left wm_next (snd (mstep M s e)) last = wm_next last e /\
       I (wm_next last e) (fst (mstep M s e))))) ->
  forall l s last, I last s -> Forall EC l -> wm_safe_from last l = true ->
    wm_safe_from last (snd (run_from M s l)) = true.
Proof.
  intros Hdead H. induction l as [|e l IH]; intros s last Hi Hc Hl; [reflexivity|].
  inversion Hc as [|? ? Hce Hc']; subst.
  rewrite wm_safe_from_cons in Hl. apply andb_true_iff in Hl as [He Hl].
  rewrite snd_run_from_cons, wm_safe_from_app.
  destruct (H s e last Hi Hce He) as (H1 & [Hd|[H2 H3]]); rewrite H1; cbn [andb].
  - now rewrite (Hdead _ l Hd).
  - rewrite H2. apply IH; assumption.
Qed.

(** timestamped sides, as the two-input Start delivers them in a timestamped stream *)
Definition left_stream_ts {A B} (ls : list (A * Z)) : list (elem (bin A B)) :=
  map (fun x => Tst (BL (fst x)) (snd x)) ls ++ [Item BLEnd].
Definition right_stream_ts {A B} (rs : list (B * Z)) : list (elem (bin A B)) :=
  map (fun y => Tst (BR (fst y)) (snd y)) rs ++ [Item BREnd].

(** * Z1: zip *)
Section ZipProofs.
  Context {A B : Type}.
  Notation ZM := (@zip_machine A B).

  (** the items of each side with their optional timestamps, in arrival order *)
  Definition Lz (s : list (elem (bin A B))) : list (A * option Z) :=
    flat_map (fun e => match e with
                       | Item (BL x) => [(x, None)] | Tst (BL x) t => [(x, Some t)]
                       | _ => [] end) s.
  Definition Rz (s : list (elem (bin A B))) : list (B * option Z) :=
    flat_map (fun e => match e with
                       | Item (BR y) => [(y, None)] | Tst (BR y) t => [(y, Some t)]
                       | _ => [] end) s.

  (** the pair emitted for two stashed elements (total version of [zpair]) *)
  Definition zp (a : A * option Z) (b : B * option Z) : elem (A * B) :=
    match snd a, snd b with
    | Some t, Some u => Tst (fst a, fst b) (Z.max t u)
    | _, _ => Item (fst a, fst b)
    end.
  Definition zps (la : list (A * option Z)) (lb : list (B * option Z)) : list (elem (A * B)) :=
    map (fun ab => zp (fst ab) (snd ab)) (combine la lb).

  (** all elements timestamped ([o = true]) or none ([o = false]) *)
  Definition tagged {X} (o : bool) (l : list (X * option Z)) : Prop :=
    Forall (fun a => match snd a with Some _ => true | None => false end = o) l.

  Lemma zpair_tagged o a b :
    match snd a with Some _ => true | None => false end = o ->
    match snd b with Some _ => true | None => false end = o ->
    zpair a b = Some (zp a b).
  Proof.
    unfold zpair, zp. destruct (snd a), (snd b); intros Ha Hb; try reflexivity; congruence.
  Qed.

  Lemma zemit_left o p1 p2 a :
    (p1 = [] \/ p2 = []) -> tagged o (p1 ++ [a]) -> tagged o p2 ->
    zemit {| z1 := p1 ++ [a]; z2 := p2 |} =
      match p2 with
      | [] => (Some {| z1 := p1 ++ [a]; z2 := [] |}, [])
      | b :: r2 => (Some {| z1 := []; z2 := r2 |}, [zp a b])
      end.
  Proof.
    intros Hd H1 H2. unfold zemit. cbn [z1 z2]. destruct p2 as [|b r2].
    - destruct (p1 ++ [a]); reflexivity.
    - destruct Hd as [->|Hd]; [|discriminate]. cbn [app] in *.
      inversion H1 as [|? ? Hta _]. inversion H2 as [|? ? Htb _].
      now rewrite (zpair_tagged o a b Hta Htb).
  Qed.

  Lemma zemit_right o p1 p2 b :
    (p1 = [] \/ p2 = []) -> tagged o p1 -> tagged o (p2 ++ [b]) ->
    zemit {| z1 := p1; z2 := p2 ++ [b] |} =
      match p1 with
      | [] => (Some {| z1 := []; z2 := p2 ++ [b] |}, [])
      | a :: r1 => (Some {| z1 := r1; z2 := [] |}, [zp a b])
      end.
  Proof.
    intros Hd H1 H2. unfold zemit. cbn [z1 z2]. destruct p1 as [|a r1].
    - reflexivity.
    - destruct Hd as [Hd| ->]; [discriminate|]. cbn [app] in *.
      inversion H1 as [|? ? Hta _]. inversion H2 as [|? ? Htb _].
      now rewrite (zpair_tagged o a b Hta Htb).
  Qed.

  Lemma tagged_app {X} o (l1 l2 : list (X * option Z)) :
    tagged o (l1 ++ l2) <-> tagged o l1 /\ tagged o l2.
  Proof. apply Forall_app. Qed.

  Lemma zps_nil_r la : zps la [] = [].
  Proof. unfold zps. now rewrite combine_nil. Qed.

  (** The invariant, as a generalisation over the two stashes: at most one is non-empty;
      from there the operator emits the positional pairs of (stash ++ remaining arrivals)
      of the two sides, forgets what is left at FAR and starts the next round afresh. *)
  Lemma zip_gen o : forall s p1 p2 rest,
    Forall (fun e => is_data e = true) s ->
    (p1 = [] \/ p2 = []) ->
    tagged o (p1 ++ Lz s) -> tagged o (p2 ++ Rz s) ->
    snd (run_from ZM (Some {| z1 := p1; z2 := p2 |}) (s ++ FAR :: rest)) =
      zps (p1 ++ Lz s) (p2 ++ Rz s) ++ FAR :: run ZM rest.
  Proof.
    induction s as [|e s IH]; intros p1 p2 rest Hs Hd H1 H2.
    - cbn [app Lz Rz flat_map]. rewrite !app_nil_r, snd_run_from_cons.
      cbn [zip_machine mstep zip_step fst snd app].
      replace (zps p1 p2) with (@nil (elem (A * B))); [reflexivity|].
      destruct Hd as [-> | ->]; [reflexivity|now rewrite zps_nil_r].
    - inversion Hs as [|? ? He Hs']; subst.
      assert (EL : Lz (e :: s) = Lz [e] ++ Lz s)
        by (unfold Lz; cbn [flat_map]; now rewrite app_nil_r).
      assert (ER : Rz (e :: s) = Rz [e] ++ Rz s)
        by (unfold Rz; cbn [flat_map]; now rewrite app_nil_r).
      rewrite EL in *. rewrite ER in *. clear EL ER.
      cbn [app]. rewrite snd_run_from_cons.
      assert (HL : forall a, Lz [e] = [a] -> Rz [e] = [] ->
                mstep ZM (Some {| z1 := p1; z2 := p2 |}) e =
                  zemit {| z1 := p1 ++ [a]; z2 := p2 |} ->
                snd (mstep ZM (Some {| z1 := p1; z2 := p2 |}) e) ++
                snd (run_from ZM (fst (mstep ZM (Some {| z1 := p1; z2 := p2 |}) e)) (s ++ FAR :: rest)) =
                zps (p1 ++ Lz [e] ++ Lz s) (p2 ++ Rz [e] ++ Rz s) ++ FAR :: run ZM rest).
      { intros a Ea Eb Estep. rewrite Estep. rewrite Ea, Eb in *. cbn [app] in *.
        apply tagged_app in H1 as H1'. destruct H1' as [H1a H1b].
        inversion H1b as [|? ? Hta H1c].
        apply tagged_app in H2 as H2'. destruct H2' as [H2a H2b].
        rewrite (zemit_left o p1 p2 a Hd).
        2:{ apply tagged_app. split; [assumption|]. constructor; [assumption|constructor]. }
        2:{ assumption. }
        destruct p2 as [|b r2]; cbn [fst snd app].
        - rewrite IH; try assumption.
          + now rewrite <- app_assoc.
          + now right.
          + now rewrite <- app_assoc.
        - destruct Hd as [->|Hd]; [|discriminate]. cbn [app] in *.
          rewrite IH; try assumption.
          + reflexivity.
          + now left.
          + now inversion H2. }
      assert (HR : forall b, Lz [e] = [] -> Rz [e] = [b] ->
                mstep ZM (Some {| z1 := p1; z2 := p2 |}) e =
                  zemit {| z1 := p1; z2 := p2 ++ [b] |} ->
                snd (mstep ZM (Some {| z1 := p1; z2 := p2 |}) e) ++
                snd (run_from ZM (fst (mstep ZM (Some {| z1 := p1; z2 := p2 |}) e)) (s ++ FAR :: rest)) =
                zps (p1 ++ Lz [e] ++ Lz s) (p2 ++ Rz [e] ++ Rz s) ++ FAR :: run ZM rest).
      { intros b Ea Eb Estep. rewrite Estep. rewrite Ea, Eb in *. cbn [app] in *.
        apply tagged_app in H2 as H2'. destruct H2' as [H2a H2b].
        inversion H2b as [|? ? Htb H2c].
        apply tagged_app in H1 as H1'. destruct H1' as [H1a H1b].
        rewrite (zemit_right o p1 p2 b Hd).
        2:{ assumption. }
        2:{ apply tagged_app. split; [assumption|]. constructor; [assumption|constructor]. }
        destruct p1 as [|a r1]; cbn [fst snd app].
        - rewrite IH; try assumption.
          + now rewrite <- app_assoc.
          + now left.
          + now rewrite <- app_assoc.
        - destruct Hd as [Hd| ->]; [discriminate|]. cbn [app] in *.
          rewrite IH; try assumption.
          + reflexivity.
          + now right.
          + now inversion H1. }
      assert (HN : Lz [e] = [] -> Rz [e] = [] ->
                mstep ZM (Some {| z1 := p1; z2 := p2 |}) e = (Some {| z1 := p1; z2 := p2 |}, []) ->
                snd (mstep ZM (Some {| z1 := p1; z2 := p2 |}) e) ++
                snd (run_from ZM (fst (mstep ZM (Some {| z1 := p1; z2 := p2 |}) e)) (s ++ FAR :: rest)) =
                zps (p1 ++ Lz [e] ++ Lz s) (p2 ++ Rz [e] ++ Rz s) ++ FAR :: run ZM rest).
      { intros Ea Eb Estep. rewrite Estep. rewrite Ea, Eb in *. cbn [fst snd app] in *.
        now apply IH. }
      destruct e as [[x|y| |]|[x|y| |] t|t| | |]; try discriminate He.
      + apply (HL (x, None)); reflexivity.
      + apply (HR (y, None)); reflexivity.
      + apply HN; reflexivity.
      + apply HN; reflexivity.
      + apply (HL (x, Some t)); reflexivity.
      + apply (HR (y, Some t)); reflexivity.
      + apply HN; reflexivity.
      + apply HN; reflexivity.
  Qed.

  Lemma zps_items (ls : list A) (rs : list B) :
    zps (map (fun x => (x, None)) ls) (map (fun y => (y, None)) rs) = map Item (combine ls rs).
  Proof.
    unfold zps. revert rs. induction ls as [|x ls IH]; intros [|y rs]; try reflexivity.
    cbn [map combine]. now rewrite IH.
  Qed.

  Lemma zps_tst (ls : list (A * Z)) (rs : list (B * Z)) :
    zps (map (fun x => (fst x, Some (snd x))) ls) (map (fun y => (fst y, Some (snd y))) rs) =
    map (fun ab => Tst (fst (fst ab), fst (snd ab)) (Z.max (snd (fst ab)) (snd (snd ab)))) (combine ls rs).
  Proof.
    unfold zps. revert rs. induction ls as [|x ls IH]; intros [|y rs]; try reflexivity.
    cbn [map combine]. now rewrite IH.
  Qed.

  Lemma tagged_map {X Y} o (g : X -> Y * option Z) (l : list X) :
    (forall x, match snd (g x) with Some _ => true | None => false end = o) -> tagged o (map g l).
  Proof. intros H. unfold tagged. rewrite Forall_map. apply Forall_forall. intros; apply H. Qed.

  Lemma Lz_left_stream ls : Lz (left_stream ls) = map (fun x => (x, None)) ls.
  Proof.
    unfold Lz, left_stream. rewrite flat_map_app. cbn [flat_map app].
    rewrite app_nil_r. now apply flat_map_map_single.
  Qed.
  Lemma Rz_left_stream ls : Rz (left_stream ls) = [].
  Proof.
    unfold Rz, left_stream. rewrite flat_map_app. cbn [flat_map app].
    rewrite app_nil_r. now apply flat_map_map_nil.
  Qed.
  Lemma Rz_right_stream rs : Rz (right_stream rs) = map (fun y => (y, None)) rs.
  Proof.
    unfold Rz, right_stream. rewrite flat_map_app. cbn [flat_map app].
    rewrite app_nil_r. now apply flat_map_map_single.
  Qed.
  Lemma Lz_right_stream rs : Lz (right_stream rs) = [].
  Proof.
    unfold Lz, right_stream. rewrite flat_map_app. cbn [flat_map app].
    rewrite app_nil_r. now apply flat_map_map_nil.
  Qed.
  Lemma Lz_left_stream_ts ls : Lz (left_stream_ts ls) = map (fun x => (fst x, Some (snd x))) ls.
  Proof.
    unfold Lz, left_stream_ts. rewrite flat_map_app. cbn [flat_map app].
    rewrite app_nil_r. now apply flat_map_map_single.
  Qed.
  Lemma Rz_left_stream_ts ls : Rz (left_stream_ts ls) = [].
  Proof.
    unfold Rz, left_stream_ts. rewrite flat_map_app. cbn [flat_map app].
    rewrite app_nil_r. now apply flat_map_map_nil.
  Qed.
  Lemma Rz_right_stream_ts rs : Rz (right_stream_ts rs) = map (fun y => (fst y, Some (snd y))) rs.
  Proof.
    unfold Rz, right_stream_ts. rewrite flat_map_app. cbn [flat_map app].
    rewrite app_nil_r. now apply flat_map_map_single.
  Qed.
  Lemma Lz_right_stream_ts rs : Lz (right_stream_ts rs) = [].
  Proof.
    unfold Lz, right_stream_ts. rewrite flat_map_app. cbn [flat_map app].
    rewrite app_nil_r. now apply flat_map_map_nil.
  Qed.

  (** Z1 *)
  Theorem zip_pairs : forall (ls : list A) (rs : list B) (s rest : list (elem (bin A B))),
    merge2 (left_stream ls) (right_stream rs) s ->
    run zip_machine (s ++ FAR :: rest) = map Item (combine ls rs) ++ FAR :: run zip_machine rest.
  Proof.
    intros ls rs s rest Hm. unfold run at 1. cbn [minit zip_machine]. fold ZM. unfold z0.
    assert (EL : Lz s = map (fun x => (x, None)) ls).
    { unfold Lz. rewrite (merge2_flat_map_l _ _ _ _ Hm); [apply Lz_left_stream|apply Lz_right_stream]. }
    assert (ER : Rz s = map (fun y => (y, None)) rs).
    { unfold Rz. rewrite (merge2_flat_map_r _ _ _ _ Hm); [apply Rz_right_stream|apply Rz_left_stream]. }
    rewrite (zip_gen false).
    - cbn [app]. now rewrite EL, ER, zps_items.
    - apply (merge2_Forall _ _ _ _ Hm); unfold left_stream, right_stream;
        (apply Forall_app; split; [rewrite Forall_map; apply Forall_forall; reflexivity|repeat constructor]).
    - now left.
    - cbn [app]. rewrite EL. now apply tagged_map.
    - cbn [app]. rewrite ER. now apply tagged_map.
  Qed.

  (** Z1, timestamped: a pair carries the maximum of the two timestamps *)
  Theorem zip_pairs_ts : forall (ls : list (A * Z)) (rs : list (B * Z)) (s rest : list (elem (bin A B))),
    merge2 (left_stream_ts ls) (right_stream_ts rs) s ->
    run zip_machine (s ++ FAR :: rest) =
      map (fun ab => Tst (fst (fst ab), fst (snd ab)) (Z.max (snd (fst ab)) (snd (snd ab)))) (combine ls rs)
      ++ FAR :: run zip_machine rest.
  Proof.
    intros ls rs s rest Hm. unfold run at 1. cbn [minit zip_machine]. fold ZM. unfold z0.
    assert (EL : Lz s = map (fun x => (fst x, Some (snd x))) ls).
    { unfold Lz. rewrite (merge2_flat_map_l _ _ _ _ Hm); [apply Lz_left_stream_ts|apply Lz_right_stream_ts]. }
    assert (ER : Rz s = map (fun y => (fst y, Some (snd y))) rs).
    { unfold Rz. rewrite (merge2_flat_map_r _ _ _ _ Hm); [apply Rz_right_stream_ts|apply Rz_left_stream_ts]. }
    rewrite (zip_gen true).
    - cbn [app]. now rewrite EL, ER, zps_tst.
    - apply (merge2_Forall _ _ _ _ Hm); unfold left_stream_ts, right_stream_ts;
        (apply Forall_app; split; [rewrite Forall_map; apply Forall_forall; reflexivity|repeat constructor]).
    - now left.
    - cbn [app]. rewrite EL. now apply tagged_map.
    - cbn [app]. rewrite ER. now apply tagged_map.
  Qed.

  (** ** watermark safety of zip: it is an element-wise operator in the sense of
      [wm_elementwise]: a pair is emitted at the arrival of its second element and carries
      a timestamp >= that element's, which is above the last watermark by input safety. *)
  Lemma zemit_out (s : @zstate A B) :
    snd (zemit s) = [] \/
    exists a r1 b r2, z1 s = a :: r1 /\ z2 s = b :: r2 /\ snd (zemit s) = [zp a b] /\ zpair a b = Some (zp a b).
  Proof.
    unfold zemit. destruct (z1 s) as [|a r1]; [now left|]. destruct (z2 s) as [|b r2]; [now left|].
    destruct (zpair a b) as [p|] eqn:E; [|now left]. right. exists a, r1, b, r2.
    assert (p = zp a b).
    { unfold zpair, zp in *. destruct (snd a), (snd b); congruence. }
    subst p. now repeat split.
  Qed.

  Definition zinv (st : option (@zstate A B)) : Prop :=
    match st with Some s => z1 s = [] \/ z2 s = [] | None => True end.

  Lemma zip_dead : forall l, snd (run_from ZM None l) = [].
  Proof.
    induction l as [|e l IH]; [reflexivity|]. rewrite snd_run_from_cons.
    cbn [zip_machine mstep zip_step fst snd app]. exact IH.
  Qed.

  Lemma zemit_inv s : zinv (Some s) \/ (exists a, z1 s = [a]) \/ (exists b, z2 s = [b]) ->
    zinv (fst (zemit s)).
  Proof.
    unfold zemit. intros H. destruct (z1 s) as [|a r1] eqn:E1.
    { cbn [fst zinv]. left. exact E1. }
    destruct (z2 s) as [|b r2] eqn:E2.
    { cbn [fst zinv]. right. exact E2. }
    destruct (zpair a b); cbn [fst zinv z1 z2]; [|exact I].
    destruct H as [[H|H]|[[a' H]|[b' H]]]; cbn [zinv] in H; try congruence.
    - left. congruence.
    - right. congruence.
  Qed.

  Lemma zip_step_safe : forall st e last, zinv (Some st) -> wm_ok last e = true ->
    wm_safe_from last (snd (zip_step (Some st) e)) = true /\
    fold_left wm_next (snd (zip_step (Some st) e)) last = wm_next last e /\
    zinv (fst (zip_step (Some st) e)).
  Proof.
    intros st e last Hi He.
    cbn [zinv] in Hi.
    destruct e as [[x|y| |]|[x|y| |] t|t| | |]; cbn [zip_step fst snd wm_next];
      try (split; [cbn [wm_safe_from]; rewrite ?He; reflexivity|split; [reflexivity|]]);
      try exact Hi; try (left; reflexivity).
    - split; [|split].
      3:{ apply zemit_inv. cbn [z1 z2 zinv]. destruct Hi as [->|Hi]; [right; left; now eexists|left; now right]. }
      all: destruct (zemit_out {| z1 := z1 st ++ [(x, None)]; z2 := z2 st |})
        as [->|(a & r1 & b & r2 & E1 & E2 & -> & Ep)]; try reflexivity;
        cbn [z1 z2] in *; destruct Hi as [Hi|Hi]; try congruence;
        rewrite Hi in E1; injection E1 as <- <-;
        unfold zpair, zp in *; cbn [snd] in *; destruct (snd b); try discriminate Ep; reflexivity.
    - split; [|split].
      3:{ apply zemit_inv. cbn [z1 z2 zinv]. destruct Hi as [Hi| ->]; [left; now left|right; right; now eexists]. }
      all: destruct (zemit_out {| z1 := z1 st; z2 := z2 st ++ [(y, None)] |})
        as [->|(a & r1 & b & r2 & E1 & E2 & -> & Ep)]; try reflexivity;
        cbn [z1 z2] in *; destruct Hi as [Hi|Hi]; try congruence;
        rewrite Hi in E2; injection E2 as <- <-;
        unfold zpair, zp in *; cbn [snd] in *; destruct (snd a); try discriminate Ep; reflexivity.
    - split; [|split].
      3:{ apply zemit_inv. cbn [z1 z2 zinv]. destruct Hi as [->|Hi]; [right; left; now eexists|left; now right]. }
      all: destruct (zemit_out {| z1 := z1 st ++ [(x, Some t)]; z2 := z2 st |})
        as [->|(a & r1 & b & r2 & E1 & E2 & -> & Ep)]; try reflexivity;
        cbn [z1 z2] in *; destruct Hi as [Hi|Hi]; try congruence;
        rewrite Hi in E1; injection E1 as <- <-;
        unfold zpair, zp in *; cbn [snd] in *; destruct (snd b) as [u|]; try discriminate Ep;
        cbn [wm_safe_from fold_left wm_next]; try reflexivity.
      rewrite andb_true_r. cbn [wm_ok] in He. destruct last as [w|]; [|reflexivity].
      apply Z.ltb_lt in He. apply Z.ltb_lt. lia.
    - split; [|split].
      3:{ apply zemit_inv. cbn [z1 z2 zinv]. destruct Hi as [Hi| ->]; [left; now left|right; right; now eexists]. }
      all: destruct (zemit_out {| z1 := z1 st; z2 := z2 st ++ [(y, Some t)] |})
        as [->|(a & r1 & b & r2 & E1 & E2 & -> & Ep)]; try reflexivity;
        cbn [z1 z2] in *; destruct Hi as [Hi|Hi]; try congruence;
        rewrite Hi in E2; injection E2 as <- <-;
        unfold zpair, zp in *; cbn [snd] in *; destruct (snd a) as [u|]; try discriminate Ep;
        cbn [wm_safe_from fold_left wm_next]; try reflexivity.
      rewrite andb_true_r. cbn [wm_ok] in He. destruct last as [w|]; [|reflexivity].
      apply Z.ltb_lt in He. apply Z.ltb_lt. lia.
    - cbn [wm_ok] in He. cbn [wm_safe_from fold_left wm_next]. rewrite He. now repeat split.
  Qed.

  Theorem zip_wm_safe : forall l : list (elem (bin A B)),
    wm_safe l = true -> wm_safe (run zip_machine l) = true.
  Proof.
    intros l Hl. unfold wm_safe, run.
    apply (wm_inv_from ZM (fun _ st => zinv st /\ st <> None) (fun _ => True) (fun st => st = None));
      try assumption.
    - intros s l0 ->. apply zip_dead.
    - intros [s|] e last [Hi Hn] _ He; [|congruence].
      destruct (zip_step_safe s e last Hi He) as (H1 & H2 & H3). split; [exact H1|].
      destruct (fst (zip_step (Some s) e)) as [z|] eqn:E; [right|left; exact E].
      split; [exact H2|]. split.
      + change (zinv (fst (zip_step (Some s) e))). rewrite E. exact H3.
      + change (fst (zip_step (Some s) e) <> None). rewrite E. discriminate.
    - split; [cbn; now left|discriminate].
    - apply Forall_forall. trivial.
  Qed.
End ZipProofs.

(** * Z2: merge *)
Section MergeProofs.
  Context {A : Type}.
  Notation MM := (@merge_machine A).

  Definition merge_payload (e : elem (bin A A)) : list A :=
    match e with Item (BL x) | Item (BR x) | Tst (BL x) _ | Tst (BR x) _ => [x] | _ => [] end.

  Theorem merge_union : forall l : list (elem (bin A A)),
    run merge_machine l = flat_map (fun e => snd (merge_step tt e)) l.
  Proof.
    intros l. unfold run. generalize (minit MM).
    induction l as [|e l IH]; intros st; [reflexivity|].
    rewrite snd_run_from_cons, IH. destruct st. reflexivity.
  Qed.

  Lemma payloads_app {X} (l1 l2 : list (elem X)) : payloads (l1 ++ l2) = payloads l1 ++ payloads l2.
  Proof.
    induction l1 as [|e l1 IH]; [reflexivity|]. cbn [app payloads].
    destruct (payload e); [cbn [app]|]; now rewrite IH.
  Qed.

  Theorem merge_payloads : forall s : list (elem (bin A A)),
    payloads (run merge_machine s) = flat_map merge_payload s.
  Proof.
    intros s. rewrite merge_union. induction s as [|e s IH]; [reflexivity|].
    cbn [flat_map]. rewrite payloads_app, IH. f_equal.
    destruct e as [[x|x| |]|[x|x| |] t|t| | |]; reflexivity.
  Qed.

  Theorem merge_perm : forall (ls rs : list A) (s : list (elem (bin A A))),
    merge2 (left_stream ls) (right_stream rs) s ->
    Permutation (payloads (run merge_machine s)) (ls ++ rs).
  Proof.
    intros ls rs s Hm. rewrite merge_payloads.
    rewrite (Permutation_flat_map merge_payload (merge2_perm _ _ _ Hm)).
    rewrite flat_map_app. unfold left_stream, right_stream. rewrite !flat_map_app.
    cbn [flat_map merge_payload app]. rewrite !app_nil_r.
    rewrite (flat_map_map_single (fun x => Item (BL x)) merge_payload (fun x => x)) by reflexivity.
    rewrite (flat_map_map_single (fun x => Item (BR x)) merge_payload (fun x => x)) by reflexivity.
    now rewrite !map_id.
  Qed.

  (** the timestamped sides likewise *)
  Theorem merge_perm_ts : forall (ls rs : list (A * Z)) (s : list (elem (bin A A))),
    merge2 (left_stream_ts ls) (right_stream_ts rs) s ->
    Permutation (payloads (run merge_machine s)) (map fst ls ++ map fst rs).
  Proof.
    intros ls rs s Hm. rewrite merge_payloads.
    rewrite (Permutation_flat_map merge_payload (merge2_perm _ _ _ Hm)).
    rewrite flat_map_app. unfold left_stream_ts, right_stream_ts. rewrite !flat_map_app.
    cbn [flat_map merge_payload app]. rewrite !app_nil_r.
    rewrite (flat_map_map_single (fun x => Tst (BL (fst x)) (snd x)) merge_payload fst) by reflexivity.
    rewrite (flat_map_map_single (fun x => Tst (BR (fst x)) (snd x)) merge_payload fst) by reflexivity.
    reflexivity.
  Qed.

  Lemma merge_shape : marker_shape MM (fun _ => True).
  Proof.
    split.
    - intros [] e He. destruct e as [[x|x| |]|[x|x| |] t|t| | |]; try discriminate He; reflexivity.
    - intros []. exists []. repeat split.
    - intros [] _. reflexivity.
  Qed.

  Theorem merge_wf : forall l : list (elem (bin A A)), wf l = true -> wf (run merge_machine l) = true.
  Proof. apply (wf_preserved MM _ merge_shape). Qed.

  Lemma merge_elementwise : wm_elementwise MM.
  Proof.
    intros [] e last He.
    destruct e as [[x|x| |]|[x|x| |] t|t| | |];
      cbn [merge_machine mstep merge_step snd wm_safe_from fold_left wm_next wm_ok] in *;
      rewrite ?He; split; reflexivity.
  Qed.

  Theorem merge_wm_safe : forall l : list (elem (bin A A)),
    wm_safe l = true -> wm_safe (run merge_machine l) = true.
  Proof. apply (wm_elementwise_safe MM merge_elementwise). Qed.
End MergeProofs.

(** * W1: the keyed window operator keeps the stream grammar *)
Section WopWf.
  Context {A C : Type} (M : wmgr A C).

  (** A manager that has been through the end of a round emits nothing at Terminate.
      Without this the statement is false for an arbitrary [wmgr]: see [wop_wf_needs_quiet]. *)
  Definition quiet_after_far : Prop :=
    forall s, snd (wstep M (fst (wstep M s FAR)) Terminate) = [].

  Lemma nm_add_key (k : Z) (rs : list (wres C)) : nm (map (add_key k) rs).
  Proof. apply nm_map. intros [c [t|]]; reflexivity. Qed.

  Lemma nm_wctl (e : elem A) (m : wmap M) : nm (snd (wctl M e m)).
  Proof.
    induction m as [|[k s] m IH]; cbn [wctl]; [reflexivity|].
    destruct (wstep M s e) as [s1 rs]. destruct (wctl M e m) as [m1 o1]. cbn [snd] in *.
    apply nm_app; [apply nm_add_key|exact IH].
  Qed.

  Definition wclean (m : wmap M) : Prop :=
    Forall (fun p => snd (wstep M (snd p) Terminate) = []) m.

  Lemma wctl_far_clean (m : wmap M) : quiet_after_far -> wclean (fst (wctl M FAR m)).
  Proof.
    intros Hq. induction m as [|[k s] m IH]; cbn [wctl]; [constructor|].
    pose proof (Hq s) as Hs.
    destruct (wstep M s FAR) as [s1 rs]. destruct (wctl M FAR m) as [m1 o1]. cbn [fst snd] in *.
    destruct (wrecycle M s1); [exact IH|]. constructor; [exact Hs|exact IH].
  Qed.

  Lemma wctl_term_clean (m : wmap M) : wclean m -> snd (wctl M Terminate m) = [].
  Proof.
    induction 1 as [|[k s] m Hs _ IH]; cbn [wctl]; [reflexivity|]. cbn [snd] in Hs.
    destruct (wstep M s Terminate) as [s1 rs]. destruct (wctl M Terminate m) as [m1 o1].
    cbn [snd] in *. now rewrite Hs, IH.
  Qed.

  Lemma wop_shape : quiet_after_far -> marker_shape (wop_machine M) wclean.
  Proof.
    intros Hq. split.
    - intros m e He. cbn [wop_machine mstep].
      destruct e as [[k v]|[k v] t|t| | |]; try discriminate He; cbn [wop_step].
      + destruct (wstep M _ _) as [s1 rs]. cbn [snd]. apply nm_add_key.
      + destruct (wstep M _ _) as [s1 rs]. cbn [snd]. apply nm_add_key.
      + pose proof (nm_wctl (Wm t) m) as Hn. destruct (wctl M (Wm t) m) as [m1 o]. cbn [snd] in *.
        apply nm_app; [exact Hn|reflexivity].
      + reflexivity.
    - intros m. cbn [wop_machine mstep wop_step].
      pose proof (nm_wctl FAR m) as Hn. pose proof (wctl_far_clean m Hq) as Hc.
      destruct (wctl M FAR m) as [m1 o]. cbn [fst snd] in *. exists o. repeat split; assumption.
    - intros m Hc. cbn [wop_machine mstep wop_step].
      pose proof (wctl_term_clean m Hc) as Ho.
      destruct (wctl M Terminate m) as [m1 o]. cbn [snd] in *. now rewrite Ho.
  Qed.

  Theorem wop_wf : quiet_after_far ->
    forall l, wf l = true -> wf (run (wop_machine M) l) = true.
  Proof. intros Hq. exact (wf_preserved (wop_machine M) wclean (wop_shape Hq)). Qed.
End WopWf.

(** the three window managers of the models are quiet after the end of a round *)
Lemma wc_mgr_quiet {A B C} (acc0 : B) (proc : B -> A -> B) (out : B -> C) size slide exact :
  quiet_after_far (wc_mgr acc0 proc out size slide exact).
Proof. intros s. cbn [wc_mgr wstep wc_step fst snd]. unfold flush. now destruct exact. Qed.

Lemma et_mgr_quiet {A B C} (acc0 : B) (proc : B -> A -> B) (out : B -> C) size slide :
  quiet_after_far (et_mgr acc0 proc out size slide).
Proof. intros [s|]; reflexivity. Qed.

Lemma tx_mgr_quiet {A B C} (acc0 : B) (proc : B -> A -> B) (out : B -> C) (logic : A -> txop) :
  quiet_after_far (tx_mgr acc0 proc out logic).
Proof.
  intros [[s|]|]; try reflexivity. cbn [tx_mgr wstep tx_step].
  destruct (t_close s) eqn:E; cbn [fst snd tx_step]; [reflexivity|]. now rewrite E.
Qed.

Theorem wc_wop_wf {A B C} (acc0 : B) (proc : B -> A -> B) (out : B -> C) size slide exact :
  forall l, wf l = true -> wf (run (wop_machine (wc_mgr acc0 proc out size slide exact)) l) = true.
Proof. apply wop_wf, wc_mgr_quiet. Qed.
Theorem et_wop_wf {A B C} (acc0 : B) (proc : B -> A -> B) (out : B -> C) size slide :
  forall l, wf l = true -> wf (run (wop_machine (et_mgr acc0 proc out size slide)) l) = true.
Proof. apply wop_wf, et_mgr_quiet. Qed.
Theorem tx_wop_wf {A B C} (acc0 : B) (proc : B -> A -> B) (out : B -> C) (logic : A -> txop) :
  forall l, wf l = true -> wf (run (wop_machine (tx_mgr acc0 proc out logic)) l) = true.
Proof. apply wop_wf, tx_mgr_quiet. Qed.

(** counterexample to [wop_wf] for an arbitrary manager: one that emits a result at
    every Terminate and is never recycled *)
Definition loud_mgr : wmgr unit unit :=
  {| wst := unit; winit := tt;
     wstep := fun _ e => (tt, match e with Terminate => [(tt, None)] | _ => [] end);
     wrecycle := fun _ => false |}.

Theorem wop_wf_needs_quiet :
  let l := [Item (0, tt); FAR; Terminate] in
  wf l = true /\
  run (wop_machine loud_mgr) l = [FAR; Item (0, tt); Terminate] /\
  wf (run (wop_machine loud_mgr) l) = false.
Proof. vm_compute. repeat split. Qed.

(** * W2: watermark safety of the keyed window operator *)

Lemma fold_wm_next_data {X} lo (d : list (elem X)) :
  Forall (data_ok lo) d -> fold_left wm_next d lo = lo.
Proof.
  induction 1 as [|e d He _ IH]; [reflexivity|]. cbn [fold_left].
  destruct e; cbn [data_ok] in He; try contradiction; exact IH.
Qed.

Lemma wm_ok_strip_key {A} lo (e : elem (Z * A)) : wm_ok lo (strip_key e) = wm_ok lo e.
Proof. destruct e; reflexivity. Qed.

(** Generic argument: a per-manager invariant [MI lo s] relative to the last watermark
    [lo] forwarded in the current round, such that every result a manager emits is stamped
    above [lo] (or not stamped at all). *)
Section WopWm.
  Context {A C : Type} (M : wmgr A C).
  Variable MI : option Z -> wst M -> Prop.
  Variable EC : elem A -> Prop.

  Definition res_ok (lo : option Z) (r : wres C) : Prop :=
    match snd r with Some t => olt lo t | None => True end.

  Hypothesis H_init : forall lo, MI lo (winit M).
  Hypothesis H_data : forall lo s e, MI lo s -> is_data e = true -> EC e -> wm_ok lo e = true ->
    MI lo (fst (wstep M s e)) /\ Forall (res_ok lo) (snd (wstep M s e)).
  Hypothesis H_ctl : forall lo s e, MI lo s -> is_data e = false -> wm_ok lo e = true ->
    (wrecycle M (fst (wstep M s e)) = true \/ MI (wm_next lo e) (fst (wstep M s e))) /\
    Forall (res_ok lo) (snd (wstep M s e)).

  Definition WI (lo : option Z) (m : wmap M) : Prop := Forall (fun p => MI lo (snd p)) m.

  Lemma WI_lookup lo k m : WI lo m ->
    MI lo (match wlookup M k m with Some s => s | None => winit M end).
  Proof.
    induction 1 as [|[k' s] m Hs _ IH]; cbn [wlookup]; [apply H_init|].
    destruct (Z.eqb k k'); [exact Hs|exact IH].
  Qed.

  Lemma WI_wset lo k s m : WI lo m -> MI lo s -> WI lo (wset M k s m).
  Proof.
    intros Hm Hs. induction Hm as [|[k' s'] m Hs' Hm IH]; cbn [wset].
    - constructor; [exact Hs|constructor].
    - destruct (Z.eqb k k'); constructor; try assumption.
  Qed.

  Lemma data_ok_add_key lo k (rs : list (wres C)) :
    Forall (res_ok lo) rs -> Forall (data_ok lo) (map (add_key k) rs).
  Proof.
    intros H. rewrite Forall_map. eapply Forall_impl; [|exact H].
    intros [c [t|]]; unfold res_ok; cbn [snd add_key data_ok]; auto.
  Qed.

  Lemma WI_wctl lo e m : WI lo m -> is_data e = false -> wm_ok lo e = true ->
    WI (wm_next lo e) (fst (wctl M e m)) /\ Forall (data_ok lo) (snd (wctl M e m)).
  Proof.
    intros Hm He Hok. induction Hm as [|[k s] m Hs Hm IH]; cbn [wctl].
    - split; constructor.
    - cbn [snd] in Hs. destruct (H_ctl lo s e Hs He Hok) as [H1 H2].
      destruct (wstep M s e) as [s1 rs]. destruct (wctl M e m) as [m1 o1]. cbn [fst snd] in *.
      destruct IH as [IH1 IH2]. split.
      + destruct (wrecycle M s1); [exact IH1|].
        destruct H1 as [H1|H1]; [discriminate|]. constructor; assumption.
      + apply Forall_app. split; [now apply data_ok_add_key|exact IH2].
  Qed.

  Lemma wop_step_safe : forall m (e : elem (Z * A)) lo,
    WI lo m -> (is_data e = true -> EC (strip_key e)) -> wm_ok lo e = true ->
    wm_safe_from lo (snd (wop_step M m e)) = true /\
    fold_left wm_next (snd (wop_step M m e)) lo = wm_next lo e /\
    WI (wm_next lo e) (fst (wop_step M m e)).
  Proof.
    intros m e lo Hm Hc Hok.
    assert (Hdata : forall k, key_of e = Some k -> is_data e = true ->
              wop_step M m e =
                (let '(s1, rs) := wstep M (match wlookup M k m with Some s => s | None => winit M end)
                                          (strip_key e) in
                 (wset M k s1 m, map (add_key k) rs)) ->
              wm_next lo e = lo ->
              wm_safe_from lo (snd (wop_step M m e)) = true /\
              fold_left wm_next (snd (wop_step M m e)) lo = wm_next lo e /\
              WI (wm_next lo e) (fst (wop_step M m e))).
    { intros k Hk Hd Hstep Hn. rewrite Hstep, Hn.
      pose proof (WI_lookup lo k m Hm) as Hs.
      assert (Hd' : is_data (strip_key e) = true) by (destruct e; exact Hd).
      rewrite <- wm_ok_strip_key in Hok.
      destruct (H_data lo _ (strip_key e) Hs Hd' (Hc Hd) Hok) as [H1 H2].
      destruct (wstep M _ (strip_key e)) as [s1 rs]. cbn [fst snd] in *.
      pose proof (data_ok_add_key lo k rs H2) as Hdo.
      split; [|split].
      - rewrite <- (app_nil_r (map (add_key k) rs)). now rewrite data_ok_safe.
      - now apply fold_wm_next_data.
      - now apply WI_wset. }
    assert (Hctl : forall (e0 : elem A) (e' : elem (Z * C)),
              is_data e0 = false -> wm_ok lo e0 = wm_ok lo e -> wm_next lo e0 = wm_next lo e ->
              wm_ok lo e' = wm_ok lo e -> wm_next lo e' = wm_next lo e ->
              wop_step M m e = (let '(m1, o) := wctl M e0 m in (m1, o ++ [e'])) ->
              wm_safe_from lo (snd (wop_step M m e)) = true /\
              fold_left wm_next (snd (wop_step M m e)) lo = wm_next lo e /\
              WI (wm_next lo e) (fst (wop_step M m e))).
    { intros e0 e' Hd0 Hok0 Hn0 Hok' Hn' Hstep. rewrite Hstep.
      rewrite <- Hok0 in Hok.
      destruct (WI_wctl lo e0 m Hm Hd0 Hok) as [H1 H2].
      destruct (wctl M e0 m) as [m1 o]. cbn [fst snd] in *.
      split; [|split].
      - rewrite data_ok_safe by exact H2. rewrite wm_safe_from_cons, Hok', <- Hok0, Hok. reflexivity.
      - rewrite fold_left_app, (fold_wm_next_data lo o H2). cbn [fold_left]. exact Hn'.
      - now rewrite <- Hn0. }
    destruct e as [[k v]|[k v] t|t| | |].
    - apply (Hdata k); reflexivity.
    - apply (Hdata k); reflexivity.
    - apply (Hctl (Wm t) (Wm t)); reflexivity.
    - cbn [wop_step fst snd wm_next wm_safe_from fold_left]. now repeat split.
    - apply (Hctl Terminate Terminate); reflexivity.
    - apply (Hctl FAR FAR); reflexivity.
  Qed.

  Theorem wop_wm_safe_gen : forall l : list (elem (Z * A)),
    Forall (fun e => is_data e = true -> EC (strip_key e)) l ->
    wm_safe l = true -> wm_safe (run (wop_machine M) l) = true.
  Proof.
    intros l Hc Hl. unfold wm_safe, run.
    apply (wm_inv_from (wop_machine M) WI (fun e => is_data e = true -> EC (strip_key e))
                       (fun _ => False)); try assumption.
    - intros s l0 [].
    - intros s e last Hi Hce He.
      destruct (wop_step_safe s e last Hi Hce He) as (H1 & H2 & H3).
      split; [exact H1|]. right. split; [exact H2|exact H3].
    - constructor.
  Qed.
End WopWm.

(** contract on the data of a stream: only timestamped / only non-timestamped elements *)
Definition only_tst {X} (l : list (elem X)) : Prop := forall v, ~ In (Item v) l.
Definition only_items {X} (l : list (elem X)) : Prop := forall v t, ~ In (Tst v t) l.

(** ** W2(b): count windows in exact mode *)
Section WcWm.
  Context {A B C : Type}.
  Variable (acc0 : B) (proc : B -> A -> B) (out : B -> C).
  Variable (size slide : nat) (exact : bool).

  (** a result emitted at the arrival of a timestamped element is stamped at or above it *)
  Lemma step_data_res (ws : list (@slot B)) x t r :
    In r (snd (step_data acc0 proc out size slide ws x (Some t))) ->
    exists u, snd r = Some u /\ t <= u.
  Proof.
    unfold step_data. destruct (ensure acc0 size slide ws) as [|w0 rest0].
    - cbn [upd snd]. intros [].
    - rewrite Nat.add_1_r. cbn [upd].
      destruct (Nat.eqb (cnt (upd1 proc w0 x (Some t))) size); cbn [snd]; [|intros []].
      intros [<-|[]]. unfold slot_res, upd1. cbn [snd sts].
      destruct (sts w0) as [u|]; cbn [omax]; eexists; split; try reflexivity; lia.
  Qed.
End WcWm.

Theorem wc_wop_wm_safe_exact {A B C} (acc0 : B) (proc : B -> A -> B) (out : B -> C) :
  forall size slide (l : list (elem (Z * A))),
    only_tst l -> wm_safe l = true ->
    wm_safe (run (wop_machine (wc_mgr acc0 proc out size slide true)) l) = true.
Proof.
  intros size slide l Ht Hl.
  apply (wop_wm_safe_gen (wc_mgr acc0 proc out size slide true) (fun _ _ => True)
           (fun e => match e with Item _ => False | _ => True end)); try assumption.
  - trivial.
  - intros lo s e _ Hd Hc Hok. split; [exact I|].
    destruct e as [v|v t| t| | |]; try discriminate Hd; [contradiction|].
    cbn [wc_mgr wstep wc_step]. apply Forall_forall. intros r Hr.
    apply step_data_res in Hr. destruct Hr as (u & Eu & Hu).
    unfold res_ok. rewrite Eu. apply wm_ok_olt in Hok. destruct lo; cbn [olt] in *; lia.
  - intros lo s e _ Hd Hok. split; [now right|].
    destruct e; try discriminate Hd; cbn [wc_mgr wstep wc_step snd flush]; constructor.
  - apply Forall_forall. intros e He Hd. destruct e as [[k v]|[k v] t|t| | |]; try exact I.
    exact (Ht _ He).
Qed.

(** a stream without timestamped data gives only non-timestamped results, in both modes *)
Section WcItems.
  Context {A B C : Type}.
  Variable (acc0 : B) (proc : B -> A -> B) (out : B -> C).
  Variable (size slide : nat) (exact : bool).

  Definition unstamped (ws : list (@slot B)) : Prop := Forall (fun w => sts w = None) ws.

  Lemma upd_unstamped x : forall k ws, unstamped ws -> unstamped (upd proc k x None ws).
  Proof.
    induction k as [|k IH]; intros ws H; [exact H|]. destruct ws as [|w ws]; [exact H|].
    inversion H as [|? ? Hw Hws]; subst. cbn [upd]. constructor; [|now apply IH].
    unfold upd1. cbn [sts]. now rewrite Hw.
  Qed.

  Lemma step_data_unstamped ws x :
    unstamped ws ->
    unstamped (fst (step_data acc0 proc out size slide ws x None)) /\
    Forall (fun r : wres C => snd r = None) (snd (step_data acc0 proc out size slide ws x None)).
  Proof.
    intros H. unfold step_data.
    assert (H1 : unstamped (ensure acc0 size slide ws)).
    { unfold ensure. apply Forall_app. split; [exact H|]. apply Forall_forall.
      intros w Hw. apply repeat_spec in Hw. now subst w. }
    set (k := match ensure acc0 size slide ws with w :: _ => (WinCount.cnt w / slide + 1)%nat | [] => 0%nat end).
    pose proof (upd_unstamped x k _ H1) as H2.
    destruct (upd proc k x None (ensure acc0 size slide ws)) as [|w rest]; [split; constructor|].
    inversion H2 as [|? ? Hw Hrest]; subst.
    destruct (Nat.eqb (WinCount.cnt w) size); cbn [fst snd]; split; try assumption; try constructor.
    - exact Hw.
    - constructor.
  Qed.
End WcItems.

Theorem wc_wop_wm_safe_items {A B C} (acc0 : B) (proc : B -> A -> B) (out : B -> C) :
  forall size slide exact (l : list (elem (Z * A))),
    only_items l -> wm_safe l = true ->
    wm_safe (run (wop_machine (wc_mgr acc0 proc out size slide exact)) l) = true.
Proof.
  intros size slide exact l Ht Hl.
  assert (Hnone : forall lo (rs : list (wres C)), Forall (fun r => snd r = None) rs -> Forall (res_ok lo) rs).
  { intros lo rs H. eapply Forall_impl; [|exact H]. intros r Hr. unfold res_ok. now rewrite Hr. }
  apply (wop_wm_safe_gen (wc_mgr acc0 proc out size slide exact) (fun _ ws => unstamped ws)
           (fun e => match e with Tst _ _ => False | _ => True end)); try assumption.
  - intros _. constructor.
  - intros lo s e Hs Hd Hc Hok.
    destruct e as [v|v t| t| | |]; try discriminate Hd; [|contradiction].
    cbn [wc_mgr wstep wc_step].
    destruct (step_data_unstamped acc0 proc out size slide s v Hs) as [H1 H2]. split; [exact H1|now apply Hnone].
  - intros lo s e Hs Hd Hok.
    destruct e; try discriminate Hd; cbn [wc_mgr wstep wc_step fst snd];
      try (split; [right; exact Hs|constructor]).
    + split; [right; constructor|]. apply Hnone. unfold flush. destruct exact; [constructor|].
      destruct Hs as [|w ws Hw _]; [constructor|]. destruct (Nat.ltb 0 (WinCount.cnt w)); constructor; [exact Hw|constructor].
    + split; [right; constructor|]. apply Hnone. unfold flush. destruct exact; [constructor|].
      destruct Hs as [|w ws Hw _]; [constructor|]. destruct (Nat.ltb 0 (WinCount.cnt w)); constructor; [exact Hw|constructor].
  - apply Forall_forall. intros e He Hd. destruct e as [[k v]|[k v] t|t| | |]; try exact I.
    exact (Ht _ _ He).
Qed.

(** the hypothesis [only_tst] is needed: in a stream mixing timestamped and non-timestamped
    elements, a non-timestamped element can close a window stamped below the watermark *)
Theorem wc_exact_mixed_unsafe :
  let l := [Tst (0, 1) 1; Wm 5; Item (0, 2); FAR] in
  wm_safe l = true /\
  run (wop_machine (wc_mgr [] (fun b x => b ++ [x]) (fun b => b) 2 2 true)) l
    = [Wm 5; Tst (0, [1; 2]) 1; FAR] /\
  wm_safe (run (wop_machine (wc_mgr [] (fun b x => b ++ [x]) (fun b => b) 2 2 true)) l) = false.
Proof. vm_compute. repeat split. Qed.

(** ** W2(c): count windows in non-exact mode are not watermark safe (finding F6):
    the partial group flushed at FAR is stamped 2 after [Wm 5] has been forwarded *)
Theorem wc_nonexact_wm_unsafe :
  wm_safe (run (wop_machine (wc_mgr [] (fun b x => b ++ [x]) (fun b => b) 3 3 false))
               [Tst (0, 1) 1; Tst (0, 2) 2; Wm 5; FAR]) = false.
Proof. vm_compute. reflexivity. Qed.

Theorem wc_nonexact_wm_unsafe_input :
  wm_safe [Tst (0, 1) 1; Tst (0, 2) 2; @Wm (Z * Z) 5; FAR] = true /\
  run (wop_machine (wc_mgr [] (fun b x => b ++ [x]) (fun b => b) 3 3 false))
      [Tst (0, 1) 1; Tst (0, 2) 2; Wm 5; FAR] = [Wm 5; Tst (0, [1; 2]) 2; FAR].
Proof. vm_compute. split; reflexivity. Qed.

(** ** W2(a): event-time windows *)
Section EtWm.
  Context {A B C : Type}.
  Variable (acc0 : B) (proc : B -> A -> B) (out : B -> C).
  Variable (size slide : Z).
  Hypothesis Hslide : 0 < slide.
  Hypothesis Hss : slide <= size.
  Notation slot := (@eslot B).

  Definition oabove (lo : option Z) (ws : list slot) : Prop :=
    Forall (fun sl => olt lo (e_end sl)) ws.

  (** Invariant of one key's manager relative to the last watermark [lo] the operator has
      forwarded in this round: its own [e_lw] is [lo], or still [None] if it was created
      (possibly re-created after having been recycled) since that watermark; every pending
      slot ends above [lo]. A panicked manager ([None]) emits nothing. *)
  Definition et_MI (lo : option Z) (st : option (@estate B)) : Prop :=
    match st with
    | None => True
    | Some s => (e_lw s = None \/ e_lw s = lo) /\
                chain slide None (e_ws s) /\ Forall (wf_slot acc0 size) (e_ws s) /\
                oabove lo (e_ws s)
    end.

  Lemma oabove_above lo lw (ws : list slot) : (lw = None \/ lw = lo) -> oabove lo ws -> above lw ws.
  Proof. intros [-> | ->] H w Hw; [discriminate|]. subst lo. exact H. Qed.

  Lemma alloc_oabove lo : forall f lw (ws : list slot) ts,
    (forall w, lw = Some w -> w < ts) -> olt lo ts ->
    Forall (wf_slot acc0 size) ws -> oabove lo ws ->
    oabove lo (alloc acc0 size slide f lw ws ts).
  Proof.
    induction f as [|f IH]; intros lw ws ts Hlw Hts Hwf Hab; [exact Hab|].
    rewrite (@alloc_S A B C acc0 proc out size slide Hslide Hss).
    destruct (need ws ts); [|exact Hab].
    pose proof (@next_start_spec A B C acc0 proc out size slide Hslide Hss lw ws ts Hlw) as HNS.
    cbv zeta in HNS. set (ns := next_start slide lw ws ts) in *.
    destruct HNS as (HN1 & HN2 & _).
    apply IH; try assumption.
    - apply Forall_app. split; [assumption|].
      constructor; [apply (@fresh_wf A B C acc0 proc out size slide Hslide Hss)|constructor].
    - apply Forall_app. split; [assumption|]. constructor; [|constructor].
      unfold fresh. cbn [e_end].
      destruct (last_start ws) as [s|] eqn:EL.
      + destruct (HN2 s eq_refl) as (q & Hq & Ens & _).
        destruct (last_start_inv ws s EL) as (ws0 & a & -> & Ea).
        apply Forall_app in Hwf as [_ Hwa]. inversion Hwa as [|? ? [Hea _] _]; subst.
        apply Forall_app in Hab as [_ Haa]. inversion Haa as [|? ? Hla _]; subst.
        destruct lo; cbn [olt] in *; [nia|exact I].
      + rewrite (HN1 eq_refl). destruct lo; cbn [olt] in *; [lia|exact I].
  Qed.

  Lemma results_ok lo (ws : list slot) : oabove lo ws -> Forall (@res_ok C lo) (results out ws).
  Proof.
    intros H. apply Forall_forall. intros r Hr.
    apply (@in_results A B C acc0 proc out size slide Hslide Hss) in Hr.
    destruct Hr as (sl & Hin & _ & ->). unfold res_ok, eres. cbn [snd].
    unfold oabove in H. rewrite Forall_forall in H. now apply H.
  Qed.

  Lemma et_MI_init lo : et_MI lo (winit (et_mgr acc0 proc out size slide)).
  Proof.
    cbn [et_MI et_mgr winit e_lw e_ws]. split; [now left|]. split; [exact I|]. split; constructor.
  Qed.

  Lemma et_MI_data lo st (e : elem A) :
    et_MI lo st -> is_data e = true -> wm_ok lo e = true ->
    et_MI lo (fst (et_step acc0 proc out size slide st e)) /\
    Forall (@res_ok C lo) (snd (et_step acc0 proc out size slide st e)).
  Proof.
    intros Hi Hd Hok. destruct st as [s|]; [|split; [exact I|constructor]].
    destruct e as [v|v ts|w| | |]; try discriminate Hd; [split; [exact I|constructor]|].
    apply wm_ok_olt in Hok. cbn [et_step].
    destruct (match e_lw s with Some w => ts <? w | None => false end) eqn:EP;
      cbn [fst snd]; (split; [|constructor]); [exact I|].
    destruct Hi as (Hlw & Hch & Hwf & Hab).
    assert (Hlt : forall w, e_lw s = Some w -> w < ts).
    { intros w Hw. destruct Hlw as [Hlw|Hlw]; [congruence|].
      rewrite Hw in Hlw. subst lo. exact Hok. }
    pose proof (alloc_oabove lo (alloc_fuel slide (e_ws s) ts) (e_lw s) (e_ws s) ts Hlt Hok Hwf Hab) as Hab1.
    destruct (@alloc_inv A B C acc0 proc out size slide Hslide Hss
                (alloc_fuel slide (e_ws s) ts) (e_lw s) (e_ws s) ts Hlt Hch Hwf
                (oabove_above lo _ _ Hlw Hab)) as (new & E & H1 & H2 & _ & _).
    rewrite E in *. cbn [et_MI e_lw e_ws].
    rewrite (@feed_map A B C acc0 proc out size slide Hslide Hss v ts _ None H1 H2).
    split; [exact Hlw|]. split; [|split].
    - now apply (@chain_map_feed1 A B C acc0 proc out size slide Hslide Hss).
    - rewrite Forall_map. eapply Forall_impl; [|exact H2].
      intros a Ha. now apply (@feed1_wf A B C acc0 proc out size slide Hslide Hss).
    - unfold oabove. rewrite Forall_map. eapply Forall_impl; [|exact Hab1].
      cbn beta. intros a Ha. now rewrite (@feed1_end A B C acc0 proc out size slide Hslide Hss).
  Qed.

  Lemma et_MI_ctl lo st (e : elem A) :
    et_MI lo st -> is_data e = false -> wm_ok lo e = true ->
    (wrecycle (et_mgr acc0 proc out size slide) (fst (et_step acc0 proc out size slide st e)) = true \/
     et_MI (wm_next lo e) (fst (et_step acc0 proc out size slide st e))) /\
    Forall (@res_ok C lo) (snd (et_step acc0 proc out size slide st e)).
  Proof.
    intros Hi Hd Hok. destruct st as [s|]; [|split; [right; exact I|constructor]].
    destruct Hi as (Hlw & Hch & Hwf & Hab).
    destruct e as [v|v ts|w| | |]; try discriminate Hd; cbn [et_step wm_next].
    - (* Wm w *)
      apply wm_ok_olt_wm in Hok.
      destruct (fire_split (e_ws s) w) as [a b] eqn:EF. cbn [fst snd].
      pose proof (@fire_split_rest A B C acc0 proc out size slide Hslide Hss _ _ _ _ _ Hch Hwf EF) as Hb.
      destruct (@fire_split_app A B C acc0 proc out size slide Hslide Hss _ _ _ _ EF) as [E _].
      rewrite E in Hch, Hwf, Hab.
      apply (@chain_app_inv A B C acc0 proc out size slide Hslide Hss) in Hch.
      apply Forall_app in Hwf. apply Forall_app in Hab. split.
      + right. cbn [et_MI e_lw e_ws]. split; [now right|]. split; [tauto|]. split; [tauto|]. exact Hb.
      + apply results_ok. tauto.
    - (* FlushBatch *)
      cbn [fst snd]. split; [right; repeat split; assumption|constructor].
    - (* Terminate *)
      cbn [fst snd]. split; [left; reflexivity|]. now apply results_ok.
    - (* FAR *)
      cbn [fst snd]. split; [left; reflexivity|]. now apply results_ok.
  Qed.

  (** No "only timestamped data" hypothesis is needed: a non-timestamped item makes that
      key's manager panic (model state [None]), after which it emits nothing. *)
  Theorem et_wop_wm_safe : forall l : list (elem (Z * A)),
    wm_safe l = true ->
    wm_safe (run (wop_machine (et_mgr acc0 proc out size slide)) l) = true.
  Proof.
    intros l Hl.
    apply (wop_wm_safe_gen (et_mgr acc0 proc out size slide) et_MI (fun _ => True)); try assumption.
    - exact et_MI_init.
    - intros lo s e Hi Hd _ Hok. now apply et_MI_data.
    - exact et_MI_ctl.
    - apply Forall_forall. intros; exact I.
  Qed.
End EtWm.

(** * W3: the hash join keeps the grammar on a round (no-panic part of its invariant) *)
#[local] Arguments h_data {X}.
#[local] Arguments h_keys {X}.
#[local] Arguments h_ended {X}.
Section HashJoinRound.
  Context {A B : Type}.
  Variable (kl : A -> Z) (kr : B -> Z) (v : variant).
  Notation HM := (hash_join_machine kl kr v).
  Notation hst := (@hstate A B).

  Definition nilb {X} (l : list X) : bool := match l with [] => true | _ => false end.

  (** bookkeeping of one side: before its end marker the side is not ended; afterwards it
      is ended, its key set is empty and the other side's store is empty *)
  Definition linv (ended : bool) (s : hst) : Prop :=
    if ended then h_ended (hl s) = true /\ h_keys (hl s) = [] /\ h_data (hr s) = []
    else h_ended (hl s) = false.
  Definition rinv (ended : bool) (s : hst) : Prop :=
    if ended then h_ended (hr s) = true /\ h_keys (hr s) = [] /\ h_data (hl s) = []
    else h_ended (hr s) = false.

  Lemma nilb_left_stream (ls : list A) : nilb (@left_stream A B ls) = false.
  Proof. destruct ls; reflexivity. Qed.
  Lemma nilb_right_stream (rs : list B) : nilb (@right_stream A B rs) = false.
  Proof. destruct rs; reflexivity. Qed.

  Lemma hash_round_gen : forall a b s, merge2 a b s ->
    (a = [] \/ exists ls, a = left_stream ls) ->
    (b = [] \/ exists rs, b = right_stream rs) ->
    forall st, linv (nilb a) st -> rinv (nilb b) st ->
    exists out st', run_from HM (Some st) s = (Some st', map Item out) /\
                    linv true st' /\ rinv true st'.
  Proof.
    induction 1 as [|x a b s Hm IH|y a b s Hm IH]; intros Ha Hb st Hl Hr.
    - exists [], st. split; [reflexivity|]. split; [exact Hl|exact Hr].
    - destruct Ha as [Ha|[ls Ha]]; [discriminate|].
      assert (Hstep : exists o st1, hash_step kl kr v (Some st) x = (Some st1, map Item o) /\
                        (a = [] \/ exists ls', a = left_stream ls') /\
                        linv (nilb a) st1 /\ rinv (nilb b) st1).
      { cbn [nilb linv] in Hl. destruct ls as [|x0 ls'].
        - injection Ha as -> ->. cbn [hash_step left_ended].
          eexists _, _. split; [reflexivity|]. split; [now left|].
          cbn [nilb linv hl hr h_data h_keys h_ended]. split; [now repeat split|].
          unfold rinv in *. destruct (nilb b); cbn [hl hr h_data h_keys h_ended]; tauto.
        - unfold left_stream in Ha. cbn [map app] in Ha. injection Ha as -> ->.
          cbn [hash_step add_left].
          eexists _, _. split; [reflexivity|]. split; [right; now exists ls'|].
          fold (@left_stream A B ls'). rewrite nilb_left_stream.
          cbn [linv hl hr h_data h_keys h_ended]. split; [exact Hl|].
          unfold rinv in *. destruct (nilb b); cbn [hl hr h_data h_keys h_ended]; [|exact Hr].
          destruct Hr as (H1 & H2 & H3). rewrite H1. now repeat split. }
      destruct Hstep as (o & st1 & E1 & Ha1 & Hl1 & Hr1).
      destruct (IH Ha1 Hb st1 Hl1 Hr1) as (out & st' & E2 & Hl' & Hr').
      exists (o ++ out), st'. cbn [run_from]. change (mstep HM (Some st) x) with (hash_step kl kr v (Some st) x).
      rewrite E1, E2, map_app. split; [reflexivity|]. split; assumption.
    - destruct Hb as [Hb|[rs Hb]]; [discriminate|].
      assert (Hstep : exists o st1, hash_step kl kr v (Some st) y = (Some st1, map Item o) /\
                        (b = [] \/ exists rs', b = right_stream rs') /\
                        linv (nilb a) st1 /\ rinv (nilb b) st1).
      { cbn [nilb rinv] in Hr. destruct rs as [|y0 rs'].
        - injection Hb as -> ->. cbn [hash_step right_ended].
          eexists _, _. split; [reflexivity|]. split; [now left|].
          cbn [nilb rinv hl hr h_data h_keys h_ended]. split; [|now repeat split].
          unfold linv in *. destruct (nilb a); cbn [hl hr h_data h_keys h_ended]; tauto.
        - unfold right_stream in Hb. cbn [map app] in Hb. injection Hb as -> ->.
          cbn [hash_step add_right].
          eexists _, _. split; [reflexivity|]. split; [right; now exists rs'|].
          fold (@right_stream A B rs'). rewrite nilb_right_stream.
          cbn [rinv hl hr h_data h_keys h_ended]. split; [|exact Hr].
          unfold linv in *. destruct (nilb a); cbn [hl hr h_data h_keys h_ended]; [|exact Hl].
          destruct Hl as (H1 & H2 & H3). rewrite H1. now repeat split. }
      destruct Hstep as (o & st1 & E1 & Hb1 & Hl1 & Hr1).
      destruct (IH Ha Hb1 st1 Hl1 Hr1) as (out & st' & E2 & Hl' & Hr').
      exists (o ++ out), st'. cbn [run_from]. change (mstep HM (Some st) y) with (hash_step kl kr v (Some st) y).
      rewrite E1, E2, map_app. split; [reflexivity|]. split; assumption.
  Qed.

  Theorem hash_join_wf_round : forall (ls : list A) (rs : list B) s,
    merge2 (left_stream ls) (right_stream rs) s ->
    exists out, run (hash_join_machine kl kr v) (s ++ [FAR; Terminate]) = map Item out ++ [FAR; Terminate].
  Proof.
    intros ls rs s Hm.
    destruct (hash_round_gen _ _ _ Hm (or_intror (ex_intro _ ls eq_refl))
                (or_intror (ex_intro _ rs eq_refl)) hstate0) as (out & st' & E & Hl & Hr).
    - rewrite nilb_left_stream. reflexivity.
    - rewrite nilb_right_stream. reflexivity.
    - exists out. unfold run. rewrite run_from_app. cbn [minit hash_join_machine]. fold HM.
      change (@Some hst hstate0) with (@Some hst hstate0). rewrite E.
      cbn [linv rinv] in Hl, Hr. destruct Hl as (L1 & L2 & L3). destruct Hr as (R1 & R2 & R3).
      cbn [run_from mstep hash_join_machine hash_step]. rewrite L1, L2, L3, R1, R2, R3.
      reflexivity.
  Qed.
End HashJoinRound.

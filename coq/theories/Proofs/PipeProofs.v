(** C01: every result allowed by the distributed semantics ([dexec]) is, as a multiset, the
    sequential meaning ([denote]). *)
From Noir Require Import Model.Pipe Model.PipeDist.
From Coq Require Import Lia.
Import ListNotations.
Open Scope Z_scope.

(** * Generic list facts *)

Lemma filter_perm {A} (f : A -> bool) l l' :
  Permutation l l' -> Permutation (filter f l) (filter f l').
Proof.
  induction 1; cbn [filter].
  - constructor.
  - destruct (f x); [apply perm_skip|]; assumption.
  - destruct (f x), (f y); try reflexivity. apply perm_swap.
  - etransitivity; eassumption.
Qed.

Lemma filter_nil {A} (f : A -> bool) l :
  (forall x, In x l -> f x = false) -> filter f l = [].
Proof.
  induction l as [|a l IH]; intros H; cbn [filter]; [reflexivity|].
  rewrite (H a (or_introl eq_refl)). apply IH. intros x Hx. apply H. right. exact Hx.
Qed.

Lemma existsb_perm {A} (h : A -> bool) l l' :
  Permutation l l' -> existsb h l = existsb h l'.
Proof.
  induction 1; cbn [existsb].
  - reflexivity.
  - f_equal. assumption.
  - destruct (h x), (h y); reflexivity.
  - congruence.
Qed.

Lemma existsb_false {A} (h : A -> bool) l :
  (forall x, In x l -> h x = false) -> existsb h l = false.
Proof.
  induction l as [|a l IH]; intros H; cbn [existsb]; [reflexivity|].
  rewrite (H a (or_introl eq_refl)). apply IH. intros x Hx. apply H. right. exact Hx.
Qed.

Lemma flat_map_ext_in {A B} (g g' : A -> list B) l :
  (forall x, In x l -> g x = g' x) -> flat_map g l = flat_map g' l.
Proof.
  induction l as [|a l IH]; intros H; cbn [flat_map]; [reflexivity|].
  rewrite (H a (or_introl eq_refl)). f_equal. apply IH. intros x Hx. apply H. right. exact Hx.
Qed.

Lemma flat_map_perm_pointwise {A B} (g g' : A -> list B) l :
  (forall x, Permutation (g x) (g' x)) -> Permutation (flat_map g l) (flat_map g' l).
Proof.
  intros H. induction l as [|a l IH]; cbn [flat_map]; [constructor|].
  apply Permutation_app; [apply H | exact IH].
Qed.

Lemma NoDup_app_disj {A} (l1 l2 : list A) :
  NoDup l1 -> NoDup l2 -> (forall x, In x l1 -> ~ In x l2) -> NoDup (l1 ++ l2).
Proof.
  induction 1 as [|a l1 Ha Hnd IH]; intros H2 Hd; cbn [app]; [exact H2|].
  constructor.
  - rewrite in_app_iff. intros [H|H]; [exact (Ha H)|]. exact (Hd a (or_introl eq_refl) H).
  - apply IH; [exact H2|]. intros x Hx. apply Hd. right. exact Hx.
Qed.

(** * Permutation-invariant aggregation functions *)

Definition perm_inv (f : list Z -> Z) : Prop := forall l l', Permutation l l' -> f l = f l'.

Lemma fold_add_acc l : forall a, fold_left Z.add l a = a + fold_left Z.add l 0.
Proof.
  induction l as [|x l IH]; intros a; cbn [fold_left]; [lia|].
  rewrite (IH (a + x)), (IH (0 + x)). lia.
Qed.

Lemma zsum_nil : zsum [] = 0.
Proof. reflexivity. Qed.

Lemma zsum_cons x l : zsum (x :: l) = x + zsum l.
Proof. unfold zsum. cbn [fold_left]. rewrite fold_add_acc. lia. Qed.

Lemma zsum_app a b : zsum (a ++ b) = zsum a + zsum b.
Proof.
  induction a as [|x a IH]; cbn [app].
  - rewrite zsum_nil. lia.
  - rewrite !zsum_cons, IH. lia.
Qed.

Lemma zsum_perm : perm_inv zsum.
Proof.
  intros l l' H. induction H.
  - reflexivity.
  - rewrite !zsum_cons. lia.
  - rewrite !zsum_cons. lia.
  - congruence.
Qed.

Lemma zsum_snd_perm (xs ys : list P) :
  Permutation xs ys -> zsum (map snd xs) = zsum (map snd ys).
Proof. intros H. apply zsum_perm. apply Permutation_map. exact H. Qed.

Definition zcount (l : list Z) : Z := Z.of_nat (length l).

Lemma zcount_perm : perm_inv zcount.
Proof. intros l l' H. unfold zcount. rewrite (Permutation_length H). reflexivity. Qed.

(** extremum of a list w.r.t. an order, computed by folding from the head *)
Section Ext.
  Variable op : Z -> Z -> Z.
  Variable R : Z -> Z -> Prop.
  Hypothesis R_refl : forall a, R a a.
  Hypothesis R_trans : forall a b c, R a b -> R b c -> R a c.
  Hypothesis R_antisym : forall a b, R a b -> R b a -> a = b.
  Hypothesis op_choice : forall a b, op a b = a \/ op a b = b.
  Hypothesis op_l : forall a b, R a (op a b).
  Hypothesis op_r : forall a b, R b (op a b).

  Definition zext (l : list Z) : Z := match l with [] => 0 | x :: l' => fold_left op l' x end.

  Lemma fold_ext_spec l : forall x,
    In (fold_left op l x) (x :: l) /\ forall y, In y (x :: l) -> R y (fold_left op l x).
  Proof.
    induction l as [|a l IH]; intros x; cbn [fold_left].
    - split; [left; reflexivity|]. intros y [<-|[]]. apply R_refl.
    - destruct (IH (op x a)) as [Hin Hub]. split.
      + destruct Hin as [Hin|Hin].
        * rewrite <- Hin. destruct (op_choice x a) as [->| ->]; [left|right; left]; reflexivity.
        * right; right; exact Hin.
      + intros y [<-|[<-|Hy]].
        * eapply R_trans; [apply (op_l x a)|]. apply Hub. left; reflexivity.
        * eapply R_trans; [apply (op_r x a)|]. apply Hub. left; reflexivity.
        * apply Hub. right. exact Hy.
  Qed.

  Lemma zext_spec l : l <> [] -> In (zext l) l /\ forall y, In y l -> R y (zext l).
  Proof. destruct l as [|x l]; [congruence|]. intros _. apply fold_ext_spec. Qed.

  Lemma zext_perm : perm_inv zext.
  Proof.
    intros l l' H.
    destruct l as [|x l].
    - apply Permutation_nil in H. subst. reflexivity.
    - destruct l' as [|x' l'].
      + symmetry in H. apply Permutation_nil in H. discriminate.
      + destruct (zext_spec (x :: l)) as [I1 U1]; [discriminate|].
        destruct (zext_spec (x' :: l')) as [I2 U2]; [discriminate|].
        apply R_antisym.
        * apply U2. eapply Permutation_in; [exact H | exact I1].
        * apply U1. eapply Permutation_in; [symmetry; exact H | exact I2].
  Qed.

  Lemma zext_law ls : Forall (fun l => l <> []) ls -> zext (concat ls) = zext (map zext ls).
  Proof.
    intros Hne. destruct ls as [|l0 ls]; [reflexivity|].
    assert (Hc : concat (l0 :: ls) <> []).
    { cbn [concat]. inversion Hne; subst. destruct l0; [congruence|discriminate]. }
    destruct (zext_spec _ Hc) as [I1 U1].
    destruct (zext_spec (map zext (l0 :: ls))) as [I2 U2]; [discriminate|].
    rewrite Forall_forall in Hne.
    apply R_antisym.
    - apply in_concat in I1. destruct I1 as [l [Hl Hx]].
      destruct (zext_spec l (Hne l Hl)) as [_ Ul].
      eapply R_trans; [apply Ul; exact Hx|]. apply U2. apply in_map. exact Hl.
    - apply in_map_iff in I2. destruct I2 as [l [El Hl]].
      destruct (zext_spec l (Hne l Hl)) as [Il _].
      rewrite <- El. apply U1. apply in_concat. exists l. split; assumption.
  Qed.
End Ext.

Lemma zmax_zext : forall l, zmax l = zext Z.max l.
Proof. reflexivity. Qed.
Lemma zmin_zext : forall l, zmin l = zext Z.min l.
Proof. reflexivity. Qed.

Lemma zmax_perm : perm_inv zmax.
Proof.
  intros l l' H. rewrite !zmax_zext.
  apply (zext_perm Z.max Z.le); try (intros; lia). exact H.
Qed.

Lemma zmin_perm : perm_inv zmin.
Proof.
  intros l l' H. rewrite !zmin_zext.
  apply (zext_perm Z.min (fun a b => b <= a)); try (intros; lia). exact H.
Qed.

(** combining laws for the two-phase aggregations (partials are over non-empty groups) *)
Definition comb_law (f g : list Z -> Z) : Prop :=
  forall ls, Forall (fun l => l <> []) ls -> f (concat ls) = g (map f ls).

Lemma zsum_law : comb_law zsum zsum.
Proof.
  intros ls _. induction ls as [|l ls IH]; cbn [concat map]; [reflexivity|].
  rewrite zsum_app, zsum_cons, IH. reflexivity.
Qed.

Lemma zcount_law : comb_law zcount zsum.
Proof.
  intros ls _. induction ls as [|l ls IH]; cbn [concat map]; [reflexivity|].
  rewrite zsum_cons, <- IH. unfold zcount. rewrite app_length. lia.
Qed.

Lemma zmax_law : comb_law zmax zmax.
Proof.
  intros ls H. rewrite zmax_zext.
  rewrite (zext_law Z.max Z.le); try (intros; lia); [|exact H]. reflexivity.
Qed.

Lemma zmin_law : comb_law zmin zmin.
Proof.
  intros ls H. rewrite zmin_zext.
  rewrite (zext_law Z.min (fun a b => b <= a)); try (intros; lia); [|exact H]. reflexivity.
Qed.

(** * keys_of / vals_of / per_key *)

Lemma keys_of_cons x xs :
  keys_of (x :: xs) =
  if existsb (Z.eqb (fst x)) (keys_of xs) then keys_of xs else fst x :: keys_of xs.
Proof. reflexivity. Qed.

Lemma existsb_eqb_In k l : existsb (Z.eqb k) l = true <-> In k l.
Proof.
  rewrite existsb_exists. split.
  - intros [x [H1 H2]]. apply Z.eqb_eq in H2. subst. exact H1.
  - intros H. exists k. split; [exact H | apply Z.eqb_refl].
Qed.

Lemma In_keys_of k xs : In k (keys_of xs) <-> In k (map fst xs).
Proof.
  induction xs as [|x xs IH]; [reflexivity|].
  rewrite keys_of_cons. cbn [map].
  destruct (existsb (Z.eqb (fst x)) (keys_of xs)) eqn:E.
  - apply existsb_eqb_In in E. rewrite IH. cbn [In]. split; [intros H; right; exact H|].
    intros [H|H]; [|exact H]. subst. apply IH. exact E.
  - cbn [In]. rewrite IH. reflexivity.
Qed.

Lemma In_keys_of_ex k xs : In k (keys_of xs) <-> exists v, In (k, v) xs.
Proof.
  rewrite In_keys_of, in_map_iff. split.
  - intros [[k' v] [E H]]. cbn [fst] in E. subst. exists v. exact H.
  - intros [v H]. exists (k, v). split; [reflexivity | exact H].
Qed.

Lemma NoDup_keys_of xs : NoDup (keys_of xs).
Proof.
  induction xs as [|x xs IH]; [constructor|].
  rewrite keys_of_cons.
  destruct (existsb (Z.eqb (fst x)) (keys_of xs)) eqn:E; [exact IH|].
  constructor; [|exact IH]. rewrite <- existsb_eqb_In, E. discriminate.
Qed.

Lemma vals_of_app k a b : vals_of k (a ++ b) = vals_of k a ++ vals_of k b.
Proof. unfold vals_of. rewrite filter_app, map_app. reflexivity. Qed.

Lemma vals_of_notin k xs : ~ In k (map fst xs) -> vals_of k xs = [].
Proof.
  intros H. unfold vals_of. rewrite filter_nil; [reflexivity|].
  intros x Hx. apply Z.eqb_neq. intros E. apply H. rewrite <- E. apply in_map. exact Hx.
Qed.

Lemma vals_of_in k xs : In k (map fst xs) -> vals_of k xs <> [].
Proof.
  induction xs as [|x xs IH]; cbn [map In]; [tauto|].
  unfold vals_of in *. cbn [filter]. intros H.
  destruct (Z.eqb_spec (fst x) k) as [E|E]; [cbn [map]; discriminate|].
  apply IH. destruct H as [H|H]; [contradiction | exact H].
Qed.

Lemma vals_of_perm k xs ys : Permutation xs ys -> Permutation (vals_of k xs) (vals_of k ys).
Proof. intros H. unfold vals_of. apply Permutation_map, filter_perm, H. Qed.

Lemma map_fst_per_key f xs : map fst (per_key f xs) = keys_of xs.
Proof. unfold per_key. rewrite map_map. cbn [fst]. apply map_id. Qed.

Lemma NoDup_per_key f xs : NoDup (per_key f xs).
Proof. apply NoDup_map_inv with (f := fst). rewrite map_fst_per_key. apply NoDup_keys_of. Qed.

Lemma In_per_key f xs k z :
  In (k, z) (per_key f xs) <-> In k (keys_of xs) /\ z = f (vals_of k xs).
Proof.
  unfold per_key. rewrite in_map_iff. split.
  - intros [k' [E H]]. inversion E; subst. split; [exact H | reflexivity].
  - intros [H ->]. exists k. split; [reflexivity | exact H].
Qed.

(** L1 for the keyed aggregations *)
Lemma per_key_perm f xs ys :
  Permutation xs ys -> perm_inv f -> Permutation (per_key f xs) (per_key f ys).
Proof.
  intros Hp Hf. apply NoDup_Permutation; try apply NoDup_per_key.
  intros [k z]. rewrite !In_per_key, !In_keys_of.
  rewrite (Hf _ _ (vals_of_perm k _ _ Hp)).
  split; intros [H1 H2]; (split; [|exact H2]).
  - eapply Permutation_in; [apply Permutation_map; exact Hp | exact H1].
  - eapply Permutation_in; [apply Permutation_map; symmetry; exact Hp | exact H1].
Qed.

(** ** key-partitioned streams *)

Definition kdisj (p q : list P) : Prop := forall x y, In x p -> In y q -> fst x <> fst y.

Lemma kdisj_notin p q k : kdisj p q -> In k (map fst p) -> ~ In k (map fst q).
Proof.
  intros H Hp Hq. apply in_map_iff in Hp. apply in_map_iff in Hq.
  destruct Hp as [x [Ex Hx]]. destruct Hq as [y [Ey Hy]].
  apply (H x y Hx Hy). congruence.
Qed.

Lemma kdisj_notin_l p q k : kdisj p q -> In k (map fst q) -> ~ In k (map fst p).
Proof. intros H Hq Hp. exact (kdisj_notin p q k H Hp Hq). Qed.

Lemma keys_of_app_disj p q : kdisj p q -> keys_of (p ++ q) = keys_of p ++ keys_of q.
Proof.
  induction p as [|x p IH]; intros H; [reflexivity|].
  cbn [app]. rewrite !keys_of_cons, IH.
  2:{ intros a b Ha Hb. apply H; [right; exact Ha | exact Hb]. }
  rewrite existsb_app.
  destruct (existsb (Z.eqb (fst x)) (keys_of q)) eqn:E.
  - exfalso. apply existsb_eqb_In in E. apply In_keys_of in E.
    refine (kdisj_notin (x :: p) q (fst x) H _ E). left. reflexivity.
  - rewrite orb_false_r. destruct (existsb (Z.eqb (fst x)) (keys_of p)); reflexivity.
Qed.

Lemma per_key_app_disj f p q : kdisj p q -> per_key f (p ++ q) = per_key f p ++ per_key f q.
Proof.
  intros H. unfold per_key. rewrite keys_of_app_disj by exact H. rewrite map_app.
  apply (f_equal2 (@app P)); apply map_ext_in; intros k Hk; rewrite vals_of_app; apply In_keys_of in Hk.
  - rewrite (vals_of_notin k q); [rewrite app_nil_r; reflexivity|].
    apply (kdisj_notin p q k H Hk).
  - rewrite (vals_of_notin k p); [reflexivity|].
    apply (kdisj_notin_l p q k H Hk).
Qed.

Lemma key_partitioned_cons p d :
  key_partitioned (p :: d) -> key_partitioned d /\ kdisj p (flat d).
Proof.
  intros H. split.
  - intros i j x y Hx Hy E. apply eq_add_S. apply (H (S i) (S j) x y); assumption.
  - intros x y Hx Hy E. unfold flat in Hy. apply in_concat in Hy. destruct Hy as [l [Hl Hy]].
    destruct (In_nth d l [] Hl) as [j [_ Ej]].
    assert (C : 0%nat = S j).
    { apply (H 0%nat (S j) x y); [exact Hx | cbn [nth]; rewrite Ej; exact Hy | exact E]. }
    discriminate.
Qed.

Lemma flat_cons (p : list P) d : flat (p :: d) = p ++ flat d.
Proof. reflexivity. Qed.

Lemma flat_app (d1 d2 : dist) : flat (d1 ++ d2) = flat d1 ++ flat d2.
Proof. apply concat_app. Qed.

(** L3: on a key-partitioned stream the partition-wise keyed aggregation IS the global one *)
Lemma per_key_partitioned_eq f d :
  key_partitioned d -> flat (map (per_key f) d) = per_key f (flat d).
Proof.
  induction d as [|p d IH]; intros H; [reflexivity|].
  apply key_partitioned_cons in H. destruct H as [Hd Hk].
  cbn [map]. rewrite !flat_cons, per_key_app_disj by exact Hk. rewrite IH by exact Hd. reflexivity.
Qed.

Lemma per_key_partitioned f d :
  key_partitioned d -> Permutation (flat (map (per_key f) d)) (per_key f (flat d)).
Proof. intros H. rewrite per_key_partitioned_eq by exact H. reflexivity. Qed.

(** ** two-phase aggregation *)

Definition nonnil (l : list Z) : bool := match l with [] => false | _ => true end.
Definition ne_parts (k : Z) (d : dist) : list (list Z) := filter nonnil (map (vals_of k) d).

Lemma ne_parts_cons k p d :
  ne_parts k (p :: d) = match vals_of k p with [] => ne_parts k d | _ => vals_of k p :: ne_parts k d end.
Proof. unfold ne_parts. cbn [map filter]. destruct (vals_of k p); reflexivity. Qed.

Lemma ne_parts_Forall k d : Forall (fun l => l <> []) (ne_parts k d).
Proof.
  apply Forall_forall. intros l Hl. unfold ne_parts in Hl. apply filter_In in Hl.
  destruct Hl as [_ Hl]. destruct l; [discriminate | discriminate].
Qed.

Lemma vals_flat k d : vals_of k (flat d) = concat (ne_parts k d).
Proof.
  induction d as [|p d IH]; [reflexivity|].
  rewrite flat_cons, vals_of_app, ne_parts_cons, IH.
  destruct (vals_of k p); reflexivity.
Qed.

Lemma vals_of_map_keys (h : Z -> Z) k ks :
  NoDup ks ->
  vals_of k (map (fun k' => (k', h k')) ks) = if existsb (Z.eqb k) ks then [h k] else [].
Proof.
  induction 1 as [|a ks Ha Hnd IH]; [reflexivity|].
  unfold vals_of in *. cbn [map filter fst existsb].
  destruct (Z.eqb_spec a k) as [E|E].
  - subst a. rewrite Z.eqb_refl. cbn [orb map snd]. rewrite IH.
    destruct (existsb (Z.eqb k) ks) eqn:E; [|reflexivity].
    apply existsb_eqb_In in E. contradiction.
  - rewrite IH. destruct (Z.eqb_spec k a) as [E'|E']; [congruence|]. reflexivity.
Qed.

Lemma vals_of_per_key f k p :
  vals_of k (per_key f p) = match vals_of k p with [] => [] | _ => [f (vals_of k p)] end.
Proof.
  unfold per_key. rewrite (vals_of_map_keys (fun k => f (vals_of k p))) by apply NoDup_keys_of.
  destruct (existsb (Z.eqb k) (keys_of p)) eqn:E.
  - apply existsb_eqb_In in E. apply In_keys_of in E. apply vals_of_in in E.
    destruct (vals_of k p); [congruence | reflexivity].
  - rewrite vals_of_notin; [reflexivity|]. intros H. apply In_keys_of in H.
    apply existsb_eqb_In in H. congruence.
Qed.

Lemma vals_two_phase f k d :
  vals_of k (flat (map (per_key f) d)) = map f (ne_parts k d).
Proof.
  induction d as [|p d IH]; [reflexivity|].
  cbn [map]. rewrite flat_cons, vals_of_app, vals_of_per_key, IH, ne_parts_cons.
  destruct (vals_of k p); reflexivity.
Qed.

Lemma keys_flat_per_key f d k :
  In k (map fst (flat (map (per_key f) d))) <-> In k (map fst (flat d)).
Proof.
  induction d as [|p d IH]; [reflexivity|].
  cbn [map]. rewrite !flat_cons, !map_app, !in_app_iff, IH, map_fst_per_key, In_keys_of.
  reflexivity.
Qed.

Lemma two_phase f g d :
  comb_law f g ->
  Permutation (per_key g (flat (map (per_key f) d))) (per_key f (flat d)).
Proof.
  intros Hl. apply NoDup_Permutation; try apply NoDup_per_key.
  intros [k z]. rewrite !In_per_key, !In_keys_of, keys_flat_per_key.
  rewrite vals_two_phase, vals_flat, (Hl _ (ne_parts_Forall k d)). reflexivity.
Qed.

(** the full two-phase step: pre-aggregate, exchange by key, aggregate the partials *)
Lemma two_phase_step f g d d' :
  comb_law f g -> perm_inv g ->
  exchange_by_key (map (per_key f) d) d' ->
  Permutation (flat (map (per_key g) d')) (per_key f (flat d)).
Proof.
  intros Hl Hg [Hex Hkp].
  rewrite per_key_partitioned by exact Hkp.
  rewrite <- (two_phase f g d Hl).
  apply per_key_perm; [symmetry; exact Hex | exact Hg].
Qed.

Lemma keyed_step f d d' :
  perm_inv f -> exchange_by_key d d' ->
  Permutation (flat (map (per_key f) d')) (per_key f (flat d)).
Proof.
  intros Hf [Hex Hkp]. rewrite per_key_partitioned by exact Hkp.
  apply per_key_perm; [symmetry; exact Hex | exact Hf].
Qed.

(** * Global folds *)

Definition foldsum (xs : list P) : list P :=
  match xs with [] => [] | _ => [(0, zsum (map snd xs))] end.
Definition reducemax (xs : list P) : list P :=
  match xs with [] => [] | x :: xs' => [fold_left pmax xs' x] end.

Lemma foldsum_perm xs ys : Permutation xs ys -> foldsum xs = foldsum ys.
Proof.
  intros H. destruct xs as [|x xs].
  - apply Permutation_nil in H. subst. reflexivity.
  - destruct ys as [|y ys].
    + symmetry in H. apply Permutation_nil in H. discriminate.
    + unfold foldsum. rewrite (zsum_snd_perm _ _ H). reflexivity.
Qed.

Lemma foldsum_app_l a b : foldsum (foldsum a ++ b) = foldsum (a ++ b).
Proof.
  destruct a as [|x a]; [reflexivity|].
  change (foldsum (x :: a)) with [(0, zsum (map snd (x :: a)))].
  cbn [app]. unfold foldsum.
  cbn [map snd]. rewrite !zsum_cons, map_app, zsum_app, Z.add_assoc. reflexivity.
Qed.

Lemma foldsum_app_r a b : foldsum (a ++ foldsum b) = foldsum (a ++ b).
Proof.
  rewrite (foldsum_perm (a ++ foldsum b) (foldsum b ++ a)) by apply Permutation_app_comm.
  rewrite foldsum_app_l. apply foldsum_perm, Permutation_app_comm.
Qed.

Lemma foldsum_two_phase d : foldsum (flat (map foldsum d)) = foldsum (flat d).
Proof.
  induction d as [|p d IH]; [reflexivity|].
  cbn [map]. rewrite !flat_cons, foldsum_app_l, <- foldsum_app_r, IH, foldsum_app_r. reflexivity.
Qed.

Lemma fold_pmax xs : forall x,
  fold_left pmax xs x = (fold_left Z.max (map fst xs) (fst x), fold_left Z.max (map snd xs) (snd x)).
Proof.
  induction xs as [|a xs IH]; intros x; cbn [fold_left map].
  - destruct x; reflexivity.
  - rewrite IH. reflexivity.
Qed.

Lemma reducemax_eq xs :
  reducemax xs = match xs with [] => [] | _ => [(zmax (map fst xs), zmax (map snd xs))] end.
Proof. destruct xs as [|x xs]; [reflexivity|]. unfold reducemax. rewrite fold_pmax. reflexivity. Qed.

Lemma reducemax_perm xs ys : Permutation xs ys -> reducemax xs = reducemax ys.
Proof.
  intros H. rewrite !reducemax_eq. destruct xs as [|x xs].
  - apply Permutation_nil in H. subst. reflexivity.
  - destruct ys as [|y ys].
    + symmetry in H. apply Permutation_nil in H. discriminate.
    + rewrite (zmax_perm _ _ (Permutation_map fst H)), (zmax_perm _ _ (Permutation_map snd H)).
      reflexivity.
Qed.

Lemma reducemax_app_l a b : reducemax (reducemax a ++ b) = reducemax (a ++ b).
Proof.
  destruct a as [|x a]; [reflexivity|].
  unfold reducemax. cbn [app]. rewrite fold_left_app. reflexivity.
Qed.

Lemma reducemax_app_r a b : reducemax (a ++ reducemax b) = reducemax (a ++ b).
Proof.
  rewrite (reducemax_perm (a ++ reducemax b) (reducemax b ++ a)) by apply Permutation_app_comm.
  rewrite reducemax_app_l. apply reducemax_perm, Permutation_app_comm.
Qed.

Lemma reducemax_two_phase d : reducemax (flat (map reducemax d)) = reducemax (flat d).
Proof.
  induction d as [|p d IH]; [reflexivity|].
  cbn [map]. rewrite !flat_cons, reducemax_app_l, <- reducemax_app_r, IH, reducemax_app_r.
  reflexivity.
Qed.

(** * Joins *)

Definition jrow (v : jvar) (rs : list P) (l : P) : list P :=
  match filter (fun r => Z.eqb (fst r) (fst l)) rs with
  | [] => match v with JvInner => [] | _ => [(fst l, jmix (Some (snd l)) None)] end
  | ms => map (fun r => (fst l, jmix (Some (snd l)) (Some (snd r)))) ms
  end.
Definition orow (ls : list P) (r : P) : list P :=
  if existsb (fun l => Z.eqb (fst l) (fst r)) ls then [] else [(fst r, jmix None (Some (snd r)))].
Definition opart (v : jvar) (ls rs : list P) : list P :=
  match v with JvOuter => flat_map (orow ls) rs | _ => [] end.

Lemma ev_join_eq v ls rs : ev_join v ls rs = flat_map (jrow v rs) ls ++ opart v ls rs.
Proof. reflexivity. Qed.

Lemma jrow_perm v rs rs' l : Permutation rs rs' -> Permutation (jrow v rs l) (jrow v rs' l).
Proof.
  intros H. unfold jrow.
  pose proof (filter_perm (fun r => Z.eqb (fst r) (fst l)) _ _ H) as Hf.
  destruct (filter (fun r => Z.eqb (fst r) (fst l)) rs) as [|a m];
    destruct (filter (fun r => Z.eqb (fst r) (fst l)) rs') as [|a' m'].
  - reflexivity.
  - apply Permutation_nil in Hf. discriminate.
  - symmetry in Hf. apply Permutation_nil in Hf. discriminate.
  - apply Permutation_map. exact Hf.
Qed.

Lemma ev_join_perm v ls ls' rs rs' :
  Permutation ls ls' -> Permutation rs rs' ->
  Permutation (ev_join v ls rs) (ev_join v ls' rs').
Proof.
  intros Hl Hr. rewrite !ev_join_eq. apply Permutation_app.
  - transitivity (flat_map (jrow v rs) ls').
    + apply Permutation_flat_map. exact Hl.
    + apply flat_map_perm_pointwise. intros x. apply jrow_perm. exact Hr.
  - unfold opart. destruct v; try reflexivity.
    transitivity (flat_map (orow ls) rs').
    + apply Permutation_flat_map. exact Hr.
    + rewrite (flat_map_ext (orow ls) (orow ls')); [reflexivity|].
      intros r. unfold orow. rewrite (existsb_perm _ _ _ Hl). reflexivity.
Qed.

Lemma join_broadcast v dl rs :
  v <> JvOuter -> flat (map (fun lp => ev_join v lp rs) dl) = ev_join v (flat dl) rs.
Proof.
  intros Hv.
  assert (E : forall ls, ev_join v ls rs = flat_map (jrow v rs) ls).
  { intros ls. rewrite ev_join_eq. unfold opart. destruct v; try congruence; apply app_nil_r. }
  rewrite E. rewrite (map_ext _ _ E).
  induction dl as [|p dl IH]; [reflexivity|].
  cbn [map]. rewrite !flat_cons, flat_map_app, IH. reflexivity.
Qed.

Lemma jrow_app_notin_r v r1 R l :
  (forall r, In r R -> fst r <> fst l) -> jrow v (r1 ++ R) l = jrow v r1 l.
Proof.
  intros H. unfold jrow. rewrite filter_app, (filter_nil _ R), app_nil_r; [reflexivity|].
  intros r Hr. apply Z.eqb_neq. apply H. exact Hr.
Qed.

Lemma jrow_app_notin_l v r1 R l :
  (forall r, In r r1 -> fst r <> fst l) -> jrow v (r1 ++ R) l = jrow v R l.
Proof.
  intros H. unfold jrow. rewrite filter_app, (filter_nil _ r1); [reflexivity|].
  intros r Hr. apply Z.eqb_neq. apply H. exact Hr.
Qed.

Lemma orow_app_notin_r l1 L r :
  (forall l, In l L -> fst l <> fst r) -> orow (l1 ++ L) r = orow l1 r.
Proof.
  intros H. unfold orow. rewrite existsb_app, (existsb_false _ L), orb_false_r; [reflexivity|].
  intros l Hl. apply Z.eqb_neq. apply H. exact Hl.
Qed.

Lemma orow_app_notin_l l1 L r :
  (forall l, In l l1 -> fst l <> fst r) -> orow (l1 ++ L) r = orow L r.
Proof.
  intros H. unfold orow. rewrite existsb_app, (existsb_false _ l1); [reflexivity|].
  intros l Hl. apply Z.eqb_neq. apply H. exact Hl.
Qed.

Lemma join_app_disj v l1 r1 L R :
  kdisj (l1 ++ r1) (L ++ R) ->
  Permutation (ev_join v (l1 ++ L) (r1 ++ R)) (ev_join v l1 r1 ++ ev_join v L R).
Proof.
  intros H. rewrite !ev_join_eq.
  assert (EA : flat_map (jrow v (r1 ++ R)) (l1 ++ L)
               = flat_map (jrow v r1) l1 ++ flat_map (jrow v R) L).
  { rewrite flat_map_app. apply (f_equal2 (@app P)); apply flat_map_ext_in; intros l Hl.
    - apply jrow_app_notin_r. intros r Hr E.
      apply (H l r); [apply in_or_app; left; exact Hl | apply in_or_app; right; exact Hr | congruence].
    - apply jrow_app_notin_l. intros r Hr E.
      apply (H r l); [apply in_or_app; right; exact Hr | apply in_or_app; left; exact Hl | congruence]. }
  assert (EB : opart v (l1 ++ L) (r1 ++ R) = opart v l1 r1 ++ opart v L R).
  { unfold opart. destruct v; try reflexivity.
    rewrite flat_map_app. apply (f_equal2 (@app P)); apply flat_map_ext_in; intros r Hr.
    - apply orow_app_notin_r. intros l Hl E.
      apply (H r l); [apply in_or_app; right; exact Hr | apply in_or_app; left; exact Hl | congruence].
    - apply orow_app_notin_l. intros l Hl E.
      apply (H l r); [apply in_or_app; left; exact Hl | apply in_or_app; right; exact Hr | congruence]. }
  rewrite EA, EB.
  rewrite <- !app_assoc. apply Permutation_app_head.
  rewrite !app_assoc. apply Permutation_app_tail. apply Permutation_app_comm.
Qed.

Definition zipapp (dl dr : dist) : dist := map (fun lr => fst lr ++ snd lr) (combine dl dr).

Lemma In_zipapp dl : forall dr y,
  length dl = length dr -> In y (flat dl ++ flat dr) -> In y (flat (zipapp dl dr)).
Proof.
  unfold zipapp.
  induction dl as [|l dl IH]; intros [|r dr] y Hlen; try discriminate.
  - cbn. tauto.
  - cbn [combine map fst snd]. rewrite !flat_cons. cbn [fst snd]. injection Hlen as Hlen.
    specialize (IH dr y Hlen). rewrite !in_app_iff in *. tauto.
Qed.

Lemma ev_join_nil v : ev_join v [] [] = [].
Proof. destruct v; reflexivity. Qed.

Lemma join_partitioned v dl : forall dr,
  length dl = length dr ->
  key_partitioned (map (fun lr => fst lr ++ snd lr) (combine dl dr)) ->
  Permutation (flat (map (fun lr => ev_join v (fst lr) (snd lr)) (combine dl dr)))
              (ev_join v (flat dl) (flat dr)).
Proof.
  induction dl as [|l dl IH]; intros [|r dr] Hlen Hkp; try discriminate.
  - cbn [combine map flat concat]. rewrite ev_join_nil. constructor.
  - injection Hlen as Hlen. cbn [combine map fst snd] in *.
    apply key_partitioned_cons in Hkp. destruct Hkp as [Hkp Hd].
    rewrite !flat_cons. rewrite join_app_disj.
    + apply Permutation_app_head. apply IH; assumption.
    + intros x y Hx Hy. apply Hd; [exact Hx|]. apply (In_zipapp dl dr y Hlen Hy).
Qed.

(** hash shipping: co-partitioned distributions of both sides, joined locally (used by
    [de_join_hash], [de_split_join] and the side-input join [ds_join_side]) *)
Lemma hash_join_sound v dl dr ls rs :
  Permutation (flat dl) ls -> Permutation (flat dr) rs -> length dl = length dr ->
  key_partitioned (map (fun lr => fst lr ++ snd lr) (combine dl dr)) ->
  Permutation (flat (map (fun lr => local_join v (fst lr) (snd lr)) (combine dl dr)))
              (ev_join v ls rs).
Proof.
  intros Hl Hr Hlen Hkp. unfold local_join.
  rewrite join_partitioned by assumption. apply ev_join_perm; assumption.
Qed.

(** * L2: stateless operators act partition-wise *)

Lemma local_flat st o d :
  stateless o = true -> flat (map (ev1 st o) d) = ev1 st o (flat d).
Proof.
  intros H. induction d as [|p d IH]; [destruct o; try discriminate; reflexivity|].
  cbn [map]. rewrite !flat_cons, IH.
  destruct o; try discriminate; cbn [ev1];
    first [ rewrite map_app | rewrite filter_app | rewrite flat_map_app ]; reflexivity.
Qed.

(** * The nested loop of [ev1 (ONested ..)] and [ev_replay] as one function *)

Fixpoint seq_loop (fuel : nat) (k n limit st : Z) (body : list op1) (xs : list P) : Z :=
  match fuel with
  | O => st
  | S f =>
      let st1 := st + zsum (map snd (ev_ops st body xs)) in
      if (st1 <? limit) && (k + 1 <? n) then seq_loop f (k + 1) n limit st1 body xs else st1
  end.

Lemma evs_eq : forall os st acc,
  (fix evs (st : Z) (os : list op1) (acc : list P) {struct os} : list P :=
     match os with [] => acc | o' :: os' => evs st os' (ev1 st o' acc) end) st os acc
  = ev_ops st os acc.
Proof.
  induction os as [|o os IH]; intros st acc; [reflexivity|].
  change (ev_ops st (o :: os) acc) with (ev_ops st os (ev1 st o acc)).
  rewrite <- IH. reflexivity.
Qed.

Lemma nested_loop_eq n limit body xs : forall fuel k st,
  (fix loop (fuel : nat) (k st : Z) {struct fuel} : Z :=
     match fuel with
     | O => st
     | S f =>
         let st1 := st + zsum (map snd
           ((fix evs (st : Z) (os : list op1) (acc : list P) {struct os} : list P :=
               match os with [] => acc | o' :: os' => evs st os' (ev1 st o' acc) end) st body xs)) in
         if (st1 <? limit) && (k + 1 <? n) then loop f (k + 1) st1 else st1
     end) fuel k st
  = seq_loop fuel k n limit st body xs.
Proof.
  induction fuel as [|f IH]; intros k st; [reflexivity|].
  cbn [seq_loop]. rewrite <- IH. rewrite <- evs_eq. reflexivity.
Qed.

Lemma ev1_nested st n limit body xs :
  ev1 st (ONested n limit body) xs = [(0, seq_loop (Z.to_nat (Z.max n 1)) 0 n limit 0 body xs)].
Proof. rewrite <- nested_loop_eq. reflexivity. Qed.

(** the same for [ONestedO]: the body reads the enclosing state [outer] in every round *)
Fixpoint seq_loopO (fuel : nat) (k n limit outer st : Z) (body : list op1) (xs : list P) : Z :=
  match fuel with
  | O => st
  | S f =>
      let st1 := st + zsum (map snd (ev_ops outer body xs)) in
      if (st1 <? limit) && (k + 1 <? n) then seq_loopO f (k + 1) n limit outer st1 body xs else st1
  end.

Lemma nestedO_loop_eq n limit outer body xs : forall fuel k st,
  (fix loop (fuel : nat) (k st : Z) {struct fuel} : Z :=
     match fuel with
     | O => st
     | S f =>
         let st1 := st + zsum (map snd
           ((fix evs (st : Z) (os : list op1) (acc : list P) {struct os} : list P :=
               match os with [] => acc | o' :: os' => evs st os' (ev1 st o' acc) end) outer body xs)) in
         if (st1 <? limit) && (k + 1 <? n) then loop f (k + 1) st1 else st1
     end) fuel k st
  = seq_loopO fuel k n limit outer st body xs.
Proof.
  induction fuel as [|f IH]; intros k st; [reflexivity|].
  cbn [seq_loopO]. rewrite <- IH. rewrite <- evs_eq. reflexivity.
Qed.

Lemma ev1_nestedO st n limit body xs :
  ev1 st (ONestedO n limit body) xs = [(0, seq_loopO (Z.to_nat (Z.max n 1)) 0 n limit st 0 body xs)].
Proof. rewrite <- nestedO_loop_eq. reflexivity. Qed.

Lemma ev_replay_eq body xs n limit : forall fuel k st,
  ev_replay fuel k n limit st body xs = seq_loop fuel k n limit st body xs.
Proof.
  induction fuel as [|f IH]; intros k st; [reflexivity|].
  cbn [ev_replay seq_loop]. rewrite IH. reflexivity.
Qed.

(** * L1: the sequential operators respect permutations *)

Section op1_ind'.
  Variable Q : op1 -> Prop.
  Definition is_nested (o : op1) : bool :=
    match o with ONested _ _ _ | ONestedO _ _ _ => true | _ => false end.
  Hypothesis Hbase : forall o, is_nested o = false -> Q o.
  Hypothesis Hnested : forall n limit body, Forall Q body -> Q (ONested n limit body).
  Hypothesis HnestedO : forall n limit body, Forall Q body -> Q (ONestedO n limit body).

  Lemma op1_ind' : forall o, Q o.
  Proof.
    fix IH 1. intros o. destruct o; try (apply Hbase; reflexivity).
    - apply Hnested. induction body as [|o body IHb]; constructor; [apply IH | exact IHb].
    - apply HnestedO. induction body as [|o body IHb]; constructor; [apply IH | exact IHb].
  Qed.
End op1_ind'.

Definition perm_resp (o : op1) : Prop :=
  forall st xs ys, Permutation xs ys -> Permutation (ev1 st o xs) (ev1 st o ys).

Lemma ev_ops_cons st o os xs : ev_ops st (o :: os) xs = ev_ops st os (ev1 st o xs).
Proof. reflexivity. Qed.

Lemma ev_ops_perm_Forall body :
  Forall perm_resp body ->
  forall st xs ys, Permutation xs ys -> Permutation (ev_ops st body xs) (ev_ops st body ys).
Proof.
  induction 1 as [|o body Ho Hb IH]; intros st xs ys Hp; [exact Hp|].
  rewrite !ev_ops_cons. apply IH. apply Ho. exact Hp.
Qed.

Lemma seq_loop_perm body n limit xs ys :
  (forall st, Permutation (ev_ops st body xs) (ev_ops st body ys)) ->
  forall fuel k st, seq_loop fuel k n limit st body xs = seq_loop fuel k n limit st body ys.
Proof.
  intros H. induction fuel as [|f IH]; intros k st; [reflexivity|].
  cbn [seq_loop]. rewrite (zsum_snd_perm _ _ (H st)), IH. reflexivity.
Qed.

Lemma seq_loopO_perm body n limit outer xs ys :
  Permutation (ev_ops outer body xs) (ev_ops outer body ys) ->
  forall fuel k st, seq_loopO fuel k n limit outer st body xs = seq_loopO fuel k n limit outer st body ys.
Proof.
  intros H. induction fuel as [|f IH]; intros k st; [reflexivity|].
  cbn [seq_loopO]. rewrite (zsum_snd_perm _ _ H), IH. reflexivity.
Qed.

Lemma ev1_foldsum st xs : ev1 st OFoldSum xs = foldsum xs.
Proof. reflexivity. Qed.
Lemma ev1_reducemax st xs : ev1 st OReduceMax xs = reducemax xs.
Proof. reflexivity. Qed.

Lemma ev1_perm : forall o st xs ys,
  Permutation xs ys -> Permutation (ev1 st o xs) (ev1 st o ys).
Proof.
  intros o. change (perm_resp o). induction o using op1_ind'.
  - intros st xs ys Hp.
    destruct o; try discriminate; cbn [ev1];
      try (apply ev_join_perm; [exact Hp | reflexivity]);   (* OJoinSide: left argument *)
      try (apply ev_join_perm; [reflexivity | exact Hp]);   (* OJoinSideL: right argument *)
      try (apply Permutation_map; exact Hp);
      try (apply filter_perm; exact Hp);
      try (apply Permutation_flat_map; exact Hp);
      try exact Hp;
      try (apply per_key_perm; [exact Hp | first [exact zsum_perm | exact zmax_perm | exact zmin_perm | exact zcount_perm]]).
    + change (Permutation (foldsum xs) (foldsum ys)). rewrite (foldsum_perm _ _ Hp). reflexivity.
    + change (Permutation (foldsum xs) (foldsum ys)). rewrite (foldsum_perm _ _ Hp). reflexivity.
    + change (Permutation (reducemax xs) (reducemax ys)). rewrite (reducemax_perm _ _ Hp). reflexivity.
    + change (Permutation (reducemax xs) (reducemax ys)). rewrite (reducemax_perm _ _ Hp). reflexivity.
  - intros st xs ys Hp. rewrite !ev1_nested.
    rewrite (seq_loop_perm body n limit xs ys); [reflexivity|].
    intros st'. apply ev_ops_perm_Forall; assumption.
  - intros st xs ys Hp. rewrite !ev1_nestedO.
    rewrite (seq_loopO_perm body n limit st xs ys); [reflexivity|].
    apply ev_ops_perm_Forall; assumption.
Qed.

Lemma ev_ops_perm os st xs ys :
  Permutation xs ys -> Permutation (ev_ops st os xs) (ev_ops st os ys).
Proof.
  apply ev_ops_perm_Forall. apply Forall_forall. intros o _ st' xs' ys'. apply ev1_perm.
Qed.

Lemma ev_ops_app st a b xs : ev_ops st (a ++ b) xs = ev_ops st b (ev_ops st a xs).
Proof. unfold ev_ops. apply fold_left_app. Qed.

(** * L5: distributed steps *)

Scheme dstep_mind := Minimality for dstep Sort Prop
  with dsteps_mind := Minimality for dsteps Sort Prop
  with dloop_mind := Minimality for dloop Sort Prop
  with dloopO_mind := Minimality for dloopO Sort Prop.
Combined Scheme dstep_dsteps_dloop_mind from dstep_mind, dsteps_mind, dloop_mind, dloopO_mind.

Lemma keyed_agg_spec o f :
  keyed_agg o = Some f -> perm_inv f /\ forall st xs, ev1 st o xs = per_key f xs.
Proof.
  destruct o; cbn [keyed_agg]; intros E; try discriminate; injection E as <-;
    (split; [first [exact zsum_perm | exact zmax_perm | exact zmin_perm | exact zcount_perm]
            | reflexivity]).
Qed.

Lemma flat_single (l : list P) : flat [l] = l.
Proof. unfold flat. cbn [concat]. apply app_nil_r. Qed.

Lemma dstep_dsteps_dloop_sound :
  (forall st o d d', dstep st o d d' -> Permutation (flat d') (ev1 st o (flat d))) /\
  (forall st os d d', dsteps st os d d' -> Permutation (flat d') (ev_ops st os (flat d))) /\
  (forall n limit body d fuel k st res, dloop n limit body d fuel k st res ->
     forall xs, Permutation (flat d) xs -> res = seq_loop fuel k n limit st body xs) /\
  (forall outer n limit body d fuel k st res, dloopO outer n limit body d fuel k st res ->
     forall xs, Permutation (flat d) xs -> res = seq_loopO fuel k n limit outer st body xs).
Proof.
  apply dstep_dsteps_dloop_mind.
  - (* ds_local *) intros st o d H. rewrite local_flat by exact H. reflexivity.
  - (* ds_shuffle *) intros st d d' H. cbn [ev1]. symmetry. exact H.
  - (* ds_repl *) intros st r d d' H. cbn [ev1]. symmetry. exact H.
  - (* ds_keyed *) intros st o f d d' Hk Hex.
    destruct (keyed_agg_spec o f Hk) as [Hf He]. rewrite He. apply keyed_step; assumption.
  - (* ds_two_phase_sum *) intros st o d d' Ho Hex.
    assert (E : ev1 st o (flat d) = per_key zsum (flat d)) by (destruct Ho; subst; reflexivity).
    rewrite E. apply (two_phase_step zsum zsum); [exact zsum_law | exact zsum_perm | exact Hex].
  - (* ds_two_phase_max *) intros st o d d' Ho Hex.
    assert (E : ev1 st o (flat d) = per_key zmax (flat d)) by (destruct Ho; subst; reflexivity).
    rewrite E. apply (two_phase_step zmax zmax); [exact zmax_law | exact zmax_perm | exact Hex].
  - (* ds_two_phase_min *) intros st d d' Hex. cbn [ev1].
    apply (two_phase_step zmin zmin); [exact zmin_law | exact zmin_perm | exact Hex].
  - (* ds_two_phase_count *) intros st d d' Hex. cbn [ev1].
    apply (two_phase_step zcount zsum); [exact zcount_law | exact zsum_perm | exact Hex].
  - (* ds_fold *) intros st d l Hg. rewrite flat_single, !ev1_foldsum.
    rewrite (foldsum_perm _ _ Hg). reflexivity.
  - (* ds_reduce *) intros st d l Hg. rewrite flat_single, !ev1_reducemax.
    rewrite (reducemax_perm _ _ Hg). reflexivity.
  - (* ds_fold_assoc *) intros st d l Hg. rewrite flat_single.
    change (ev1 st OFoldAssocSum (flat d)) with (foldsum (flat d)). rewrite ev1_foldsum.
    rewrite <- (foldsum_perm _ _ Hg).
    rewrite (map_ext (ev1 st OFoldSum) foldsum) by reflexivity.
    rewrite foldsum_two_phase. reflexivity.
  - (* ds_reduce_assoc *) intros st d l Hg. rewrite flat_single.
    change (ev1 st OReduceAssocMax (flat d)) with (reducemax (flat d)). rewrite ev1_reducemax.
    rewrite <- (reducemax_perm _ _ Hg).
    rewrite (map_ext (ev1 st OReduceMax) reducemax) by reflexivity.
    rewrite reducemax_two_phase. reflexivity.
  - (* ds_nested *) intros st n limit body d d0 res Hex _ IH.
    rewrite ev1_nested, flat_single.
    rewrite (IH (flat d)); [reflexivity | symmetry; exact Hex].
  - (* ds_nestedO *) intros st n limit body d d0 res Hex _ IH.
    rewrite ev1_nestedO, flat_single.
    rewrite (IH (flat d)); [reflexivity | symmetry; exact Hex].
  - (* ds_join_side *) intros st v lo side d dl' dr' Hex Hside Hlen Hkp. cbn [ev1].
    apply hash_join_sound; [symmetry; exact Hex | exact Hside | exact Hlen | exact Hkp].
  - (* ds_join_side_l *) intros st v lo side d dl' dr' Hex Hside Hlen Hkp. cbn [ev1].
    apply hash_join_sound; [exact Hside | symmetry; exact Hex | exact Hlen | exact Hkp].
  - (* dss_nil *) intros st d. reflexivity.
  - (* dss_cons *) intros st o os d d1 d2 _ IH1 _ IH2.
    rewrite ev_ops_cons. rewrite IH2. apply ev_ops_perm. exact IH1.
  - (* dl_stop *) intros n limit body d k st xs _. reflexivity.
  - (* dl_continue *) intros n limit body d fuel k st d' res _ IHs Hc _ IHl xs Hp.
    assert (E : zsum (map snd (flat d')) = zsum (map snd (ev_ops st body xs))).
    { apply zsum_snd_perm. rewrite IHs. apply ev_ops_perm. exact Hp. }
    cbn [seq_loop]. rewrite <- E, Hc. apply IHl. exact Hp.
  - (* dl_last *) intros n limit body d fuel k st d' _ IHs Hc xs Hp.
    assert (E : zsum (map snd (flat d')) = zsum (map snd (ev_ops st body xs))).
    { apply zsum_snd_perm. rewrite IHs. apply ev_ops_perm. exact Hp. }
    cbn [seq_loop]. rewrite <- E, Hc. reflexivity.
  - (* dlo_stop *) intros outer n limit body d k st xs _. reflexivity.
  - (* dlo_continue *) intros outer n limit body d fuel k st d' res _ IHs Hc _ IHl xs Hp.
    assert (E : zsum (map snd (flat d')) = zsum (map snd (ev_ops outer body xs))).
    { apply zsum_snd_perm. rewrite IHs. apply ev_ops_perm. exact Hp. }
    cbn [seq_loopO]. rewrite <- E, Hc. apply IHl. exact Hp.
  - (* dlo_last *) intros outer n limit body d fuel k st d' _ IHs Hc xs Hp.
    assert (E : zsum (map snd (flat d')) = zsum (map snd (ev_ops outer body xs))).
    { apply zsum_snd_perm. rewrite IHs. apply ev_ops_perm. exact Hp. }
    cbn [seq_loopO]. rewrite <- E, Hc. reflexivity.
Qed.

Lemma dstep_sound st o d d' : dstep st o d d' -> Permutation (flat d') (ev1 st o (flat d)).
Proof. apply dstep_dsteps_dloop_sound. Qed.

Lemma dsteps_sound st os d d' : dsteps st os d d' -> Permutation (flat d') (ev_ops st os (flat d)).
Proof. apply dstep_dsteps_dloop_sound. Qed.

Lemma dloop_sound n limit body d fuel k st res :
  dloop n limit body d fuel k st res ->
  forall xs, Permutation (flat d) xs -> res = seq_loop fuel k n limit st body xs.
Proof. apply dstep_dsteps_dloop_sound. Qed.

Lemma dloopO_sound outer n limit body d fuel k st res :
  dloopO outer n limit body d fuel k st res ->
  forall xs, Permutation (flat d) xs -> res = seq_loopO fuel k n limit outer st body xs.
Proof. apply dstep_dsteps_dloop_sound. Qed.

Lemma dloop_sound_replay n limit body d fuel k st res :
  dloop n limit body d fuel k st res ->
  forall xs, Permutation (flat d) xs -> res = ev_replay fuel k n limit st body xs.
Proof. intros H xs Hp. rewrite ev_replay_eq. eapply dloop_sound; eassumption. Qed.

Lemma diter_sound n limit body d fuel k st res :
  diter n limit body d fuel k st res ->
  forall xs, Permutation (flat d) xs ->
    fst res = fst (ev_iterate fuel k n limit st body xs) /\
    Permutation (flat (snd res)) (snd (ev_iterate fuel k n limit st body xs)).
Proof.
  induction 1 as [n limit body d k st
                 | n limit body d fuel k st d' d'' res Hs Hex Hc Hi IH
                 | n limit body d fuel k st d' d'' Hs Hex Hc]; intros xs Hp;
    unfold exchange in *.
  - cbn [ev_iterate fst snd]. split; [reflexivity | exact Hp].
  - assert (Hq : Permutation (flat d'') (ev_ops st body xs)).
    { rewrite <- Hex. rewrite (dsteps_sound _ _ _ _ Hs). apply ev_ops_perm. exact Hp. }
    cbn [ev_iterate]. rewrite <- (zsum_snd_perm _ _ Hq), Hc. apply IH. exact Hq.
  - assert (Hq : Permutation (flat d'') (ev_ops st body xs)).
    { rewrite <- Hex. rewrite (dsteps_sound _ _ _ _ Hs). apply ev_ops_perm. exact Hp. }
    cbn [ev_iterate]. rewrite <- (zsum_snd_perm _ _ Hq), Hc. cbn [fst snd].
    split; [reflexivity | exact Hq].
Qed.

(** * L6: the main theorem *)

Theorem dexec_sound : forall p d, dexec p d -> Permutation (flat d) (denote p).
Proof.
  induction 1; cbn [denote]; unfold exchange in *.
  - (* src *) assumption.
  - (* op *) rewrite (dstep_sound _ _ _ _ H0). apply ev1_perm. exact IHdexec.
  - (* join hash *)
    apply hash_join_sound; try assumption.
    + rewrite <- H1. exact IHdexec1.
    + rewrite <- H2. exact IHdexec2.
  - (* join broadcast *)
    unfold local_join. rewrite join_broadcast by assumption.
    apply ev_join_perm; [exact IHdexec1|]. rewrite <- H2. exact IHdexec2.
  - (* merge *)
    rewrite <- H1, flat_app. apply Permutation_app; assumption.
  - (* split merge *)
    rewrite <- H2, flat_app. apply Permutation_app.
    + rewrite (dsteps_sound _ _ _ _ H0). apply ev_ops_perm. exact IHdexec.
    + rewrite (dsteps_sound _ _ _ _ H1). apply ev_ops_perm. exact IHdexec.
  - (* split join *)
    apply hash_join_sound; try assumption.
    + rewrite <- H2. rewrite (dsteps_sound _ _ _ _ H0). apply ev_ops_perm. exact IHdexec.
    + rewrite <- H3. rewrite (dsteps_sound _ _ _ _ H1). apply ev_ops_perm. exact IHdexec.
  - (* replay *)
    rewrite flat_single.
    rewrite (dloop_sound_replay _ _ _ _ _ _ _ _ H1 (denote p)); [reflexivity|].
    rewrite <- H0. exact IHdexec.
  - (* iterate *)
    assert (Hp : Permutation (flat d0) (denote p)) by (rewrite <- H0; exact IHdexec).
    destruct (diter_sound _ _ _ _ _ _ _ _ H1 _ Hp) as [E1 E2].
    destruct (ev_iterate (Z.to_nat (Z.max n 1)) 0 n limit 0 body (denote p)) as [st' ys].
    cbn [fst snd] in E1, E2. subst st'.
    destruct take_state; [rewrite flat_single; reflexivity | exact E2].
Qed.

(** concrete instances of the two-phase law *)
Corollary two_phase_sum d :
  Permutation (per_key zsum (flat (map (per_key zsum) d))) (per_key zsum (flat d)).
Proof. apply two_phase, zsum_law. Qed.
Corollary two_phase_max d :
  Permutation (per_key zmax (flat (map (per_key zmax) d))) (per_key zmax (flat d)).
Proof. apply two_phase, zmax_law. Qed.
Corollary two_phase_min d :
  Permutation (per_key zmin (flat (map (per_key zmin) d))) (per_key zmin (flat d)).
Proof. apply two_phase, zmin_law. Qed.
Corollary two_phase_count d :
  Permutation (per_key zsum (flat (map (per_key (fun l => Z.of_nat (length l))) d)))
              (per_key (fun l => Z.of_nat (length l)) (flat d)).
Proof. apply (two_phase zcount zsum), zcount_law. Qed.

(** * Non-vacuity: an explicit distributed run *)

Example dexec_example :
  dexec (POp (POp (PSrc true [(1,5);(2,7);(1,1)]) OGroupBySum) OFoldAssocSum) [[(0, 13)]].
Proof.
  apply (de_op _ _ [[(1,6)];[(2,7)]]).
  - apply (de_op _ _ [[(1,5)];[(2,7);(1,1)]]).
    + apply de_src. reflexivity.
    + change [[(1,6)];[(2,7)]] with (map (per_key zsum) [[(1,5);(1,1)];[(2,7)]]).
      apply ds_keyed; [reflexivity|]. split.
      * unfold exchange, flat. cbn [concat app]. apply perm_skip. apply perm_swap.
      * intros i j x y Hx Hy E.
        destruct i as [|[|i]]; destruct j as [|[|j]]; cbn [nth] in Hx, Hy;
          try reflexivity; try (destruct i; contradiction); try (destruct j; contradiction);
          cbn [In] in Hx, Hy;
          repeat match goal with
                 | H : _ \/ _ |- _ => destruct H
                 | H : False |- _ => contradiction
                 end; subst; cbn [fst] in E; discriminate.
  - change [[(0, 13)]] with [ev1 0 OFoldSum [(0,6);(0,7)]].
    apply ds_fold_assoc. unfold gather. reflexivity.
Qed.

(** * [ONested] vs [ONestedO]: which state the body of the inner loop reads *)

(** body reads the ENCLOSING state 5: every round adds (1+5)+(2+5) = 13 *)
Example nestedO_reads_enclosing_state :
  ev1 5 (ONestedO 2 1000 [OAddState]) [(0,1);(1,2)] = [(0, 26)].
Proof. vm_compute. reflexivity. Qed.
(** body reads the loop's OWN state (0, then 3): round 1 adds 1+2 = 3, round 2 adds (1+3)+(2+3) = 9 *)
Example nested_reads_own_state :
  ev1 5 (ONested 2 1000 [OAddState]) [(0,1);(1,2)] = [(0, 12)].
Proof. vm_compute. reflexivity. Qed.
(** inside a replay loop: the enclosing state is the replay's state (0 in round 1, 6 in round 2) *)
Example nestedO_in_replay :
  denote (PReplay (PSrc true [(0,1);(1,2)]) 2 1000 [ONestedO 2 1000 [OAddState]]) = [(0, 36)].
Proof. vm_compute. reflexivity. Qed.
Example nested_in_replay :
  denote (PReplay (PSrc true [(0,1);(1,2)]) 2 1000 [ONested 2 1000 [OAddState]]) = [(0, 24)].
Proof. vm_compute. reflexivity. Qed.

(** non-vacuity of [ds_nestedO]: a two-partition run of the first example *)
Example dstep_nestedO_example :
  dstep 5 (ONestedO 2 1000 [OAddState]) [[(0,1)];[(1,2)]] [[(0, 26)]].
Proof.
  apply (ds_nestedO 5 2 1000 [OAddState] _ [[(1,2)];[(0,1)]]).
  - unfold exchange, flat. cbn [concat app]. apply perm_swap.
  - change (Z.to_nat (Z.max 2 1)) with 2%nat.
    assert (Hs : dsteps 5 [OAddState] [[(1,2)];[(0,1)]] [[(1,7)];[(0,6)]]).
    { eapply dss_cons; [apply ds_local; reflexivity | apply dss_nil]. }
    eapply dlo_continue; [exact Hs | reflexivity |].
    change 26 with (13 + zsum (map snd (flat [[(1,7)];[(0,6)]]))).
    eapply dlo_last; [exact Hs | reflexivity].
Qed.

(** * [OJoinSide]: join with a constant side input, also inside loop bodies *)

(** outer join of the stream [(1,5);(3,7)] with the side input [(1,10);(2,20)]: key 1 matches
    (jmix (Some 5) (Some 10) = 6*1009+11), key 3 is left-only (8*1009), key 2 right-only (21) *)
Example join_side_outer :
  ev1 0 (OJoinSide JvOuter LoSortMerge [(1,10);(2,20)]) [(1,5);(3,7)] = [(1, 6065); (3, 8072); (2, 21)].
Proof. vm_compute. reflexivity. Qed.
(** the state does not matter, nor does the local algorithm *)
Example join_side_state_lo :
  ev1 42 (OJoinSide JvOuter LoHash [(1,10);(2,20)]) [(1,5);(3,7)] = [(1, 6065); (3, 8072); (2, 21)].
Proof. vm_compute. reflexivity. Qed.
Lemma ev1_join_side st v lo side xs : ev1 st (OJoinSide v lo side) xs = ev_join v xs side.
Proof. reflexivity. Qed.
(** inside a replay loop body, after a state-reading op: the side input is the same in both
    rounds, the left side moves with the state. Round 1 (state 0): (1,5) joins (1,10):
    6*1009+11 = 6065; round 2 (state 6065): (1,6070) joins (1,10): 6071*1009+11 = 6125650 mod
    1000003 = 125632; state 6065 + 125632 = 131697 *)
Example join_side_in_replay :
  denote (PReplay (PSrc true [(1,5);(3,7)]) 2 1000000 [OAddState; OJoinSide JvInner LoHash [(1,10)]])
  = [(0, 131697)].
Proof. vm_compute. reflexivity. Qed.

(** non-vacuity of [ds_join_side]: a two-partition run of the first example (left side
    exchanged so that key 1 goes to replica 0 and key 3 to replica 1; the side input
    distributed with key 1 on replica 0 and key 2 on replica 1) *)
Example dstep_join_side_example :
  dstep 0 (OJoinSide JvOuter LoSortMerge [(1,10);(2,20)]) [[(3,7)];[(1,5)]]
        [[(1, 6065)]; [(3, 8072); (2, 21)]].
Proof.
  change [[(1, 6065)]; [(3, 8072); (2, 21)]]
    with (map (fun lr => local_join JvOuter (fst lr) (snd lr))
              (combine [[(1,5)];[(3,7)]] [[(1,10)];[(2,20)]])).
  apply ds_join_side.
  - unfold exchange, flat. cbn [concat app]. apply perm_swap.
  - unfold flat. cbn [concat app]. reflexivity.
  - reflexivity.
  - cbn [combine map fst snd app].
    intros i j x y Hx Hy E.
    destruct i as [|[|i]]; destruct j as [|[|j]]; cbn [nth] in Hx, Hy;
      try reflexivity; try (destruct i; contradiction); try (destruct j; contradiction);
      cbn [In] in Hx, Hy;
      repeat match goal with
             | H : _ \/ _ |- _ => destruct H
             | H : False |- _ => contradiction
             end; subst; cbn [fst] in E; discriminate.
Qed.
(** and its soundness instance *)
Example dstep_join_side_example_sound :
  Permutation (flat [[(1, 6065)]; [(3, 8072); (2, 21)]])
              (ev1 0 (OJoinSide JvOuter LoSortMerge [(1,10);(2,20)]) (flat [[(3,7)];[(1,5)]])).
Proof. apply dstep_sound, dstep_join_side_example. Qed.

(** * [OJoinSideL]: the side input on the LEFT of the join *)

(** [ev_join] respects permutations of the right argument alone (up to permutation of the
    result: the matches of a left element come in the order of the right side), as of the
    left one: both are instances of [ev_join_perm] *)
Lemma ev_join_perm_r v ls rs rs' :
  Permutation rs rs' -> Permutation (ev_join v ls rs) (ev_join v ls rs').
Proof. intros H. apply ev_join_perm; [reflexivity | exact H]. Qed.
Lemma ev_join_perm_l v ls ls' rs :
  Permutation ls ls' -> Permutation (ev_join v ls rs) (ev_join v ls' rs).
Proof. intros H. apply ev_join_perm; [exact H | reflexivity]. Qed.
Lemma ev1_join_side_l st v lo side xs : ev1 st (OJoinSideL v lo side) xs = ev_join v side xs.
Proof. reflexivity. Qed.

(** left join with the side input [(1,10);(2,20)] on the left: key 1 matches (jmix (Some 10)
    (Some 5) = 11*1009+6), the unmatched SIDE element of key 2 is kept (21*1009), the unmatched
    stream element (3,7) is dropped *)
Example join_side_l_left :
  ev1 0 (OJoinSideL JvLeft LoHash [(1,10);(2,20)]) [(1,5);(3,7)] = [(1, 11105); (2, 21189)].
Proof. vm_compute. reflexivity. Qed.
(** outer: the unmatched stream element is kept too (jmix None (Some 7) = 8) *)
Example join_side_l_outer :
  ev1 0 (OJoinSideL JvOuter LoHash [(1,10);(2,20)]) [(1,5);(3,7)] = [(1, 11105); (2, 21189); (3, 8)].
Proof. vm_compute. reflexivity. Qed.
(** not the mirror image of [OJoinSide] with the same arguments: sides and values differ *)
Example join_side_l_vs_r :
  ev1 0 (OJoinSide JvLeft LoHash [(1,10);(2,20)]) [(1,5);(3,7)] = [(1, 6065); (3, 8072)].
Proof. vm_compute. reflexivity. Qed.
(** inside a replay loop body: round 1 (state 0) gives 11105 + 21189 = 32294; round 2 (state
    32294): (1,32299) joins (1,10): 11*1009 + 32300 = 43399, plus 21189; 32294 + 64588 = 96882 *)
Example join_side_l_in_replay :
  denote (PReplay (PSrc true [(1,5);(3,7)]) 2 1000000 [OAddState; OJoinSideL JvLeft LoHash [(1,10);(2,20)]])
  = [(0, 96882)].
Proof. vm_compute. reflexivity. Qed.

(** non-vacuity of [ds_join_side_l]: a two-partition run of the outer example (the side input
    distributed with key 1 on replica 0 and key 2 on replica 1; the stream exchanged so that
    key 1 goes to replica 0 and key 3 to replica 1) *)
Example dstep_join_side_l_example :
  dstep 0 (OJoinSideL JvOuter LoHash [(1,10);(2,20)]) [[(3,7)];[(1,5)]]
        [[(1, 11105)]; [(2, 21189); (3, 8)]].
Proof.
  change [[(1, 11105)]; [(2, 21189); (3, 8)]]
    with (map (fun lr => local_join JvOuter (fst lr) (snd lr))
              (combine [[(1,10)];[(2,20)]] [[(1,5)];[(3,7)]])).
  apply ds_join_side_l.
  - unfold exchange, flat. cbn [concat app]. apply perm_swap.
  - unfold flat. cbn [concat app]. reflexivity.
  - reflexivity.
  - cbn [combine map fst snd app].
    intros i j x y Hx Hy E.
    destruct i as [|[|i]]; destruct j as [|[|j]]; cbn [nth] in Hx, Hy;
      try reflexivity; try (destruct i; contradiction); try (destruct j; contradiction);
      cbn [In] in Hx, Hy;
      repeat match goal with
             | H : _ \/ _ |- _ => destruct H
             | H : False |- _ => contradiction
             end; subst; cbn [fst] in E; discriminate.
Qed.
Example dstep_join_side_l_example_sound :
  Permutation (flat [[(1, 11105)]; [(2, 21189); (3, 8)]])
              (ev1 0 (OJoinSideL JvOuter LoHash [(1,10);(2,20)]) (flat [[(3,7)];[(1,5)]])).
Proof. apply dstep_sound, dstep_join_side_l_example. Qed.

Print Assumptions ev1_perm.
Print Assumptions dstep_sound.
Print Assumptions dsteps_sound.
Print Assumptions dloop_sound.
Print Assumptions dloopO_sound.
Print Assumptions dloop_sound_replay.
Print Assumptions diter_sound.
Print Assumptions dexec_sound.

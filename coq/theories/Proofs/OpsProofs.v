(** Proofs about the chainable operator models of Model/Ops.v:
    G1 grammar preservation, G2 round locality, G3 watermark safety, G4 Reorder sorts,
    G5 single-producer Start is the identity, G6 composition. *)
From Noir Require Import Proofs.OpsSpec.
From Coq Require Import List ZArith Bool Lia Permutation Sorted.
Import ListNotations.
Open Scope Z_scope.

(** * Generic facts about [run_from] *)
Section RunFacts.
  Context {I O : Type} (M : machine I O).

  Lemma snd_run_from_cons s x l :
    snd (run_from M s (x :: l)) = snd (mstep M s x) ++ snd (run_from M (fst (mstep M s x)) l).
  Proof.
    cbn [run_from]. destruct (mstep M s x) as [s1 o1]. cbn [fst snd].
    destruct (run_from M s1 l). reflexivity.
  Qed.

  Lemma fst_run_from_cons s x l :
    fst (run_from M s (x :: l)) = fst (run_from M (fst (mstep M s x)) l).
  Proof.
    cbn [run_from]. destruct (mstep M s x) as [s1 o1]. cbn [fst snd].
    destruct (run_from M s1 l). reflexivity.
  Qed.

  Lemma snd_run_from_app s l1 l2 :
    snd (run_from M s (l1 ++ l2)) =
    snd (run_from M s l1) ++ snd (run_from M (fst (run_from M s l1)) l2).
  Proof.
    rewrite run_from_app. destruct (run_from M s l1) as [s1 o1].
    cbn [fst snd]. destruct (run_from M s1 l2). reflexivity.
  Qed.

  Lemma fst_run_from_app s l1 l2 :
    fst (run_from M s (l1 ++ l2)) = fst (run_from M (fst (run_from M s l1)) l2).
  Proof.
    rewrite run_from_app. destruct (run_from M s l1) as [s1 o1].
    cbn [fst snd]. destruct (run_from M s1 l2). reflexivity.
  Qed.

  Lemma snd_run_from_nil s : snd (run_from M s []) = [].
  Proof. reflexivity. Qed.
  Lemma fst_run_from_nil s : fst (run_from M s []) = s.
  Proof. reflexivity. Qed.
End RunFacts.

(** * G6: composition *)
Lemma run_from_compose {I M O} (m1 : machine I M) (m2 : machine M O) :
  forall l s1 s2,
    run_from (compose m1 m2) (s1, s2) l =
    ((fst (run_from m1 s1 l), fst (run_from m2 s2 (snd (run_from m1 s1 l)))),
     snd (run_from m2 s2 (snd (run_from m1 s1 l)))).
Proof.
  induction l as [|x l IH]; intros s1 s2.
  - reflexivity.
  - rewrite snd_run_from_cons, fst_run_from_cons.
    rewrite snd_run_from_app, fst_run_from_app.
    cbn [run_from compose mstep fst snd].
    destruct (mstep m1 s1 x) as [s1' o1]. cbn [fst snd].
    destruct (run_from m2 s2 o1) as [s2' o2]. cbn [fst snd].
    change (run_from
              {| mstate := (mstate m1 * mstate m2)%type; minit := (minit m1, minit m2);
                 mstep := fun s x0 =>
                   let '(s3, o3) := mstep m1 (fst s) x0 in
                   let '(s4, o4) := run_from m2 (snd s) o3 in (s3, s4, o4) |} (s1', s2') l)
      with (run_from (compose m1 m2) (s1', s2') l).
    rewrite IH. reflexivity.
Qed.

Lemma run_compose {I M O} (m1 : machine I M) (m2 : machine M O) :
  forall l, run (compose m1 m2) l = run m2 (run m1 l).
Proof.
  intros l. unfold run. cbn [minit compose].
  change (run_from (compose m1 m2) (minit m1, minit m2) l)
    with (run_from (compose m1 m2) (minit m1, minit m2) l).
  rewrite (run_from_compose m1 m2 l (minit m1) (minit m2)). reflexivity.
Qed.

Theorem compose_wf {A B C} (m1 : machine (elem A) (elem B)) (m2 : machine (elem B) (elem C)) :
  (forall l, wf l = true -> wf (run m1 l) = true) ->
  (forall l, wf l = true -> wf (run m2 l) = true) ->
  forall l, wf l = true -> wf (run (compose m1 m2) l) = true.
Proof. intros H1 H2 l H. rewrite run_compose. auto. Qed.

Theorem compose_wm_safe {A B C} (m1 : machine (elem A) (elem B)) (m2 : machine (elem B) (elem C)) :
  (forall l, wm_safe l = true -> wm_safe (run m1 l) = true) ->
  (forall l, wm_safe l = true -> wm_safe (run m2 l) = true) ->
  forall l, wm_safe l = true -> wm_safe (run (compose m1 m2) l) = true.
Proof. intros H1 H2 l H. rewrite run_compose. auto. Qed.

(** both properties at once (for operators such as Fold whose watermark safety is
    only guaranteed on grammatical input) *)
Theorem compose_wf_wm_safe {A B C} (m1 : machine (elem A) (elem B)) (m2 : machine (elem B) (elem C)) :
  (forall l, wf l = true -> wm_safe l = true -> wf (run m1 l) = true /\ wm_safe (run m1 l) = true) ->
  (forall l, wf l = true -> wm_safe l = true -> wf (run m2 l) = true /\ wm_safe (run m2 l) = true) ->
  forall l, wf l = true -> wm_safe l = true ->
    wf (run (compose m1 m2) l) = true /\ wm_safe (run (compose m1 m2) l) = true.
Proof. intros H1 H2 l Hw Hs. rewrite run_compose. destruct (H1 l Hw Hs). auto. Qed.

(** * G1: the stream grammar is preserved *)
Definition nonmarker {A} (e : elem A) : bool :=
  match e with FAR | Terminate => false | _ => true end.
Definition nm {A} (l : list (elem A)) : Prop := forallb nonmarker l = true.

Lemma nm_nil {A} : nm (@nil (elem A)).
Proof. reflexivity. Qed.
Lemma nm_app {A} (p q : list (elem A)) : nm p -> nm q -> nm (p ++ q).
Proof. unfold nm. intros. rewrite forallb_app. now rewrite H, H0. Qed.
Lemma nm_map {X A} (g : X -> elem A) (xs : list X) :
  (forall x, nonmarker (g x) = true) -> nm (map g xs).
Proof.
  intros H. unfold nm. induction xs as [|x xs IH]; cbn [map forallb]; [reflexivity|].
  now rewrite H, IH.
Qed.

Lemma wf_from_nm_cons {A} (x : elem A) l b :
  nonmarker x = true -> wf_from b (x :: l) = wf_from false l.
Proof. destruct x; cbn [nonmarker wf_from]; intros; try reflexivity; discriminate. Qed.

Lemma wf_from_nm_app {A} (p l : list (elem A)) b :
  nm p -> wf_from b (p ++ l) = wf_from (match p with [] => b | _ => false end) l.
Proof.
  revert b. induction p as [|x p IH]; intros b H; [reflexivity|].
  unfold nm in H. cbn [forallb] in H. apply andb_true_iff in H as [Hx Hp].
  cbn [app]. rewrite wf_from_nm_cons by exact Hx. rewrite IH by exact Hp.
  destruct p; reflexivity.
Qed.

(** The shape shared by all operators: data / watermarks / FlushBatch produce only
    non-markers; FAR produces non-markers followed by exactly one FAR and leaves the machine
    in a [clean] state; in a clean state Terminate is forwarded alone. *)
Record marker_shape {A B} (M : machine (elem A) (elem B)) (clean : mstate M -> Prop) : Prop := {
  ms_data : forall s e, nonmarker e = true -> nm (snd (mstep M s e));
  ms_far : forall s, exists p, snd (mstep M s FAR) = p ++ [FAR] /\ nm p /\ clean (fst (mstep M s FAR));
  ms_term : forall s, clean s -> snd (mstep M s Terminate) = [Terminate]
}.

Lemma wf_preserved_from {A B} (M : machine (elem A) (elem B)) clean (H : marker_shape M clean) :
  forall l s b b', wf_from b l = true -> (b = true -> clean s /\ b' = true) ->
    wf_from b' (snd (run_from M s l)) = true.
Proof.
  induction l as [|e l IH]; intros s b b' Hwf Hb.
  - discriminate.
  - rewrite snd_run_from_cons.
    assert (Hdata : nonmarker e = true -> wf_from b' (snd (mstep M s e) ++ snd (run_from M (fst (mstep M s e)) l)) = true).
    { intros Hn. rewrite wf_from_nm_app by (apply (ms_data M clean H); exact Hn).
      rewrite wf_from_nm_cons in Hwf by exact Hn.
      apply IH with (b := false); [exact Hwf|discriminate]. }
    destruct e; try (apply Hdata; reflexivity).
    + (* Terminate *)
      cbn [wf_from] in Hwf. apply andb_true_iff in Hwf as [Hb1 Hl].
      destruct l; [|discriminate].
      destruct (Hb Hb1) as [Hc Hb']. subst b'.
      rewrite (ms_term M clean H s Hc). reflexivity.
    + (* FAR *)
      cbn [wf_from] in Hwf.
      destruct (ms_far M clean H s) as (p & E & Hp & Hc). rewrite E.
      rewrite <- app_assoc. cbn [app]. rewrite wf_from_nm_app by exact Hp.
      cbn [wf_from]. apply IH with (b := true); [exact Hwf|]. intros _. split; [exact Hc|reflexivity].
Qed.

Theorem wf_preserved {A B} (M : machine (elem A) (elem B)) clean :
  marker_shape M clean -> forall l, wf l = true -> wf (run M l) = true.
Proof.
  intros H l Hl. unfold wf, run.
  apply (wf_preserved_from M clean H l (minit M) false false Hl). discriminate.
Qed.

(** ** Instances *)
Lemma map_shape {A B} (f : A -> B) : marker_shape (map_machine f) (fun _ => True).
Proof.
  constructor.
  - intros s e He. destruct e; try discriminate; reflexivity.
  - intros s. exists []. repeat split.
  - reflexivity.
Qed.

Lemma filter_shape {A} (p : A -> bool) : marker_shape (filter_machine p) (fun _ => True).
Proof.
  constructor.
  - intros s e He. destruct e; try discriminate; cbn [filter_machine mstep snd];
      try destruct (p v); reflexivity.
  - intros s. exists []. repeat split.
  - reflexivity.
Qed.

Lemma flat_map_shape {A B} (g : A -> list B) : marker_shape (flat_map_machine g) (fun _ => True).
Proof.
  constructor.
  - intros s e He. destruct e; try discriminate; cbn [flat_map_machine mstep snd];
      try reflexivity; apply nm_map; reflexivity.
  - intros s. exists []. repeat split.
  - reflexivity.
Qed.

Lemma fold_flush_nm {O} (s : @fstate O) :
  nm ((match f_acc s with
       | Some a => [match f_ts s with Some t => Tst a t | None => Item a end]
       | None => [] end)
      ++ (match f_wm s with Some w => [@Wm O w] | None => [] end)).
Proof. destruct (f_acc s), (f_ts s), (f_wm s); reflexivity. Qed.

Lemma fold_shape {A O} (init : O) (f : O -> A -> O) :
  marker_shape (fold_machine init f) (fun s => s = finit).
Proof.
  constructor.
  - intros s e He. destruct e; try discriminate; reflexivity.
  - intros s. cbn [fold_machine mstep fold_step fst snd]. unfold fold_flush.
    eexists. split; [rewrite app_assoc; reflexivity|]. split; [|reflexivity].
    apply fold_flush_nm.
  - intros s ->. reflexivity.
Qed.

Lemma kfold_shape {A O} (init : O) (f : O -> A -> O) :
  marker_shape (kfold_machine init f) (fun s => s = kinit).
Proof.
  constructor.
  - intros s e He. destruct e as [[k v]|[k v] t|t| | |]; try discriminate; reflexivity.
  - intros s. cbn [kfold_machine mstep kfold_step fst snd]. unfold kfold_flush.
    eexists. split; [rewrite app_assoc; reflexivity|]. split; [|reflexivity].
    apply nm_app.
    + apply nm_map. intros [k a]. destruct (aget k (k_tss s)); reflexivity.
    + destruct (k_wm s); reflexivity.
  - intros s ->. reflexivity.
Qed.

Lemma nm_map_tst {A} (xs : list (A * Z)) : nm (map (fun '(v, t) => Tst v t) xs).
Proof. apply nm_map. intros [v t]. reflexivity. Qed.

Lemma reorder_shape {A} : marker_shape (@reorder_machine A) (fun _ => True).
Proof.
  constructor.
  - intros s e He. destruct e; try discriminate; cbn [reorder_machine mstep reorder_step snd];
      try reflexivity.
    destruct (rsplit t (rsort s)) as [rel rest]. cbn [snd].
    apply nm_app; [apply nm_map_tst|reflexivity].
  - intros s. cbn [reorder_machine mstep reorder_step fst snd].
    eexists. split; [reflexivity|]. split; [apply nm_map_tst|exact I].
  - reflexivity.
Qed.

Lemma rich_map_shape {A S O} (s0 : S) (f : S -> Z -> A -> S * O) :
  marker_shape (rich_map_machine s0 f) (fun _ => True).
Proof.
  constructor.
  - intros s e He. destruct e as [[k v]|[k v] t|t| | |]; try discriminate;
      cbn [rich_map_machine mstep rich_step]; try reflexivity.
    + destruct (f _ k v); reflexivity.
    + destruct (f _ k v); reflexivity.
  - intros s. exists []. repeat split.
  - reflexivity.
Qed.

Theorem map_wf {A B} (f : A -> B) : forall l, wf l = true -> wf (run (map_machine f) l) = true.
Proof. exact (wf_preserved _ _ (map_shape f)). Qed.
Theorem filter_wf {A} (p : A -> bool) : forall l, wf l = true -> wf (run (filter_machine p) l) = true.
Proof. exact (wf_preserved _ _ (filter_shape p)). Qed.
Theorem flat_map_wf {A B} (g : A -> list B) : forall l, wf l = true -> wf (run (flat_map_machine g) l) = true.
Proof. exact (wf_preserved _ _ (flat_map_shape g)). Qed.
Theorem key_by_wf {A} (k : A -> Z) : forall l, wf l = true -> wf (run (key_by_machine k) l) = true.
Proof. exact (map_wf _). Qed.
Theorem fold_wf {A O} (init : O) (f : O -> A -> O) :
  forall l, wf l = true -> wf (run (fold_machine init f) l) = true.
Proof. exact (wf_preserved _ _ (fold_shape init f)). Qed.
Theorem kfold_wf {A O} (init : O) (f : O -> A -> O) :
  forall l, wf l = true -> wf (run (kfold_machine init f) l) = true.
Proof. exact (wf_preserved _ _ (kfold_shape init f)). Qed.
Theorem reorder_wf {A} : forall l : list (elem A), wf l = true -> wf (run reorder_machine l) = true.
Proof. exact (wf_preserved _ _ reorder_shape). Qed.
Theorem rich_map_wf {A S O} (s0 : S) (f : S -> Z -> A -> S * O) :
  forall l, wf l = true -> wf (run (rich_map_machine s0 f) l) = true.
Proof. exact (wf_preserved _ _ (rich_map_shape s0 f)). Qed.

(** * G2: round locality *)
Lemma round_local_gen {I O} (M : machine I O) (far : I) l rest :
  fst (run_from M (minit M) (l ++ [far])) = minit M ->
  run M (l ++ far :: rest) = run M (l ++ [far]) ++ run M rest.
Proof.
  intros H. unfold run.
  replace (l ++ far :: rest) with ((l ++ [far]) ++ rest) by (rewrite <- app_assoc; reflexivity).
  rewrite snd_run_from_app, H. reflexivity.
Qed.

Lemma unit_eq (a b : unit) : a = b.
Proof. destruct a, b; reflexivity. Qed.

(** the state after a completed round is the initial state *)
Lemma fold_round_reset {A O} (init : O) (f : O -> A -> O) : forall l,
  fst (run_from (fold_machine init f) (minit (fold_machine init f)) (l ++ [FAR])) = finit.
Proof. intros l. rewrite fst_run_from_app. reflexivity. Qed.

Lemma kfold_round_reset {A O} (init : O) (f : O -> A -> O) : forall l,
  fst (run_from (kfold_machine init f) (minit (kfold_machine init f)) (l ++ [FAR])) = kinit.
Proof. intros l. rewrite fst_run_from_app. reflexivity. Qed.

Lemma reorder_round_reset {A} : forall l : list (elem A),
  fst (run_from reorder_machine (minit reorder_machine) (l ++ [FAR])) = [].
Proof. intros l. rewrite fst_run_from_app. reflexivity. Qed.

Theorem map_round_local {A B} (f : A -> B) : forall l rest, no_end l ->
  run (map_machine f) (l ++ FAR :: rest) = run (map_machine f) (l ++ [FAR]) ++ run (map_machine f) rest.
Proof. intros l rest _. apply round_local_gen. apply unit_eq. Qed.

Theorem filter_round_local {A} (p : A -> bool) : forall l rest, no_end l ->
  run (filter_machine p) (l ++ FAR :: rest) = run (filter_machine p) (l ++ [FAR]) ++ run (filter_machine p) rest.
Proof. intros l rest _. apply round_local_gen. apply unit_eq. Qed.

Theorem flat_map_round_local {A B} (g : A -> list B) : forall l rest, no_end l ->
  run (flat_map_machine g) (l ++ FAR :: rest) =
  run (flat_map_machine g) (l ++ [FAR]) ++ run (flat_map_machine g) rest.
Proof. intros l rest _. apply round_local_gen. apply unit_eq. Qed.

Theorem key_by_round_local {A} (k : A -> Z) : forall l rest, no_end l ->
  run (key_by_machine k) (l ++ FAR :: rest) = run (key_by_machine k) (l ++ [FAR]) ++ run (key_by_machine k) rest.
Proof. intros l rest _. apply round_local_gen. apply unit_eq. Qed.

Theorem fold_round_local {A O} (init : O) (f : O -> A -> O) : forall l rest, no_end l ->
  run (fold_machine init f) (l ++ FAR :: rest) =
  run (fold_machine init f) (l ++ [FAR]) ++ run (fold_machine init f) rest.
Proof. intros l rest _. apply round_local_gen. apply fold_round_reset. Qed.

Theorem kfold_round_local {A O} (init : O) (f : O -> A -> O) : forall l rest, no_end l ->
  run (kfold_machine init f) (l ++ FAR :: rest) =
  run (kfold_machine init f) (l ++ [FAR]) ++ run (kfold_machine init f) rest.
Proof. intros l rest _. apply round_local_gen. apply kfold_round_reset. Qed.

Theorem reorder_round_local {A} : forall (l rest : list (elem A)), no_end l ->
  run reorder_machine (l ++ FAR :: rest) = run reorder_machine (l ++ [FAR]) ++ run reorder_machine rest.
Proof. intros l rest _. apply round_local_gen. apply reorder_round_reset. Qed.

(** RichMap is NOT round local: its per-key state survives FlushAndRestart.
    Witness: a running counter per key. *)
Definition counter_fn (s : Z) (_ : Z) (_ : unit) : Z * Z := (s + 1, s + 1).

Example rich_map_counter_trace :
  run (rich_map_machine 0 counter_fn) [Item (1, tt); FAR; Item (1, tt); FAR; Terminate]
  = [Item (1, 1); FAR; Item (1, 2); FAR; Terminate].
Proof. vm_compute. reflexivity. Qed.

Theorem rich_map_not_round_local :
  exists (s0 : Z) (f : Z -> Z -> unit -> Z * Z) (l rest : list (elem (Z * unit))),
    no_end l /\
    run (rich_map_machine s0 f) (l ++ FAR :: rest) <>
    run (rich_map_machine s0 f) (l ++ [FAR]) ++ run (rich_map_machine s0 f) rest.
Proof.
  exists 0, counter_fn, [Item (1, tt)], [Item (1, tt)]. split.
  - intros e [<-|[]]. split; discriminate.
  - vm_compute. discriminate.
Qed.

(** * G3: watermark safety *)
Definition wm_ok {A} (last : option Z) (e : elem A) : bool :=
  match e with
  | Tst _ t | Wm t => match last with Some w => w <? t | None => true end
  | _ => true
  end.
Definition wm_next {A} (last : option Z) (e : elem A) : option Z :=
  match e with Wm t => Some t | FAR => None | _ => last end.

Lemma wm_safe_from_cons {A} last (e : elem A) l :
  wm_safe_from last (e :: l) = wm_ok last e && wm_safe_from (wm_next last e) l.
Proof. destruct e; reflexivity. Qed.

Lemma wm_safe_from_app {A} (o l : list (elem A)) : forall last,
  wm_safe_from last (o ++ l) = wm_safe_from last o && wm_safe_from (fold_left wm_next o last) l.
Proof.
  induction o as [|e o IH]; intros last; [reflexivity|].
  cbn [app fold_left]. rewrite !wm_safe_from_cons, IH, andb_assoc. reflexivity.
Qed.

(** strict / weak order between an optional bound and a timestamp *)
Definition olt (o : option Z) (x : Z) : Prop := match o with Some a => a < x | None => True end.
Definition ole (lo li : option Z) : Prop :=
  match lo with
  | None => True
  | Some a => match li with Some b => a <= b | None => False end
  end.

Lemma wm_ok_olt {A} last (v : A) t : wm_ok last (Tst v t) = true <-> olt last t.
Proof. destruct last; cbn [wm_ok olt]; [apply Z.ltb_lt|tauto]. Qed.
Lemma wm_ok_olt_wm {A} last t : wm_ok last (@Wm A t) = true <-> olt last t.
Proof. destruct last; cbn [wm_ok olt]; [apply Z.ltb_lt|tauto]. Qed.
Lemma ole_refl o : ole o o.
Proof. destruct o; cbn; lia. Qed.
Lemma ole_olt lo li t : ole lo li -> olt li t -> olt lo t.
Proof. destruct lo, li; cbn; try tauto; lia. Qed.
Lemma ole_olt_some lo li t : ole lo li -> olt li t -> ole lo (Some t).
Proof. destruct lo, li; cbn; try tauto; lia. Qed.
Lemma olt_ole_some lo t : olt lo t -> ole lo (Some t).
Proof. destruct lo; cbn; try tauto; lia. Qed.

(** a block of data elements whose timestamps are all above the current bound is safe
    and leaves the bound unchanged *)
Definition data_ok {A} (lo : option Z) (e : elem A) : Prop :=
  match e with Item _ => True | Tst _ t => olt lo t | _ => False end.

Lemma data_ok_safe {A} lo (d r : list (elem A)) :
  Forall (data_ok lo) d -> wm_safe_from lo (d ++ r) = wm_safe_from lo r.
Proof.
  induction 1 as [|e d He Hd IH]; [reflexivity|].
  cbn [app]. rewrite wm_safe_from_cons.
  destruct e; cbn [data_ok] in He; try contradiction; cbn [wm_next].
  - exact IH.
  - rewrite (proj2 (wm_ok_olt lo v t) He). exact IH.
Qed.

(** ** element-wise operators *)
Definition wm_elementwise {A B} (M : machine (elem A) (elem B)) : Prop :=
  forall s e last, wm_ok last e = true ->
    wm_safe_from last (snd (mstep M s e)) = true /\
    fold_left wm_next (snd (mstep M s e)) last = wm_next last e.

Lemma wm_elementwise_from {A B} (M : machine (elem A) (elem B)) (H : wm_elementwise M) :
  forall l s last, wm_safe_from last l = true -> wm_safe_from last (snd (run_from M s l)) = true.
Proof.
  induction l as [|e l IH]; intros s last Hl; [reflexivity|].
  rewrite wm_safe_from_cons in Hl. apply andb_true_iff in Hl as [He Hl].
  rewrite snd_run_from_cons, wm_safe_from_app.
  destruct (H s e last He) as [H1 H2]. rewrite H1, H2. cbn [andb]. apply IH. exact Hl.
Qed.

Theorem wm_elementwise_safe {A B} (M : machine (elem A) (elem B)) :
  wm_elementwise M -> forall l, wm_safe l = true -> wm_safe (run M l) = true.
Proof. intros H l Hl. apply wm_elementwise_from; assumption. Qed.

Lemma map_elementwise {A B} (f : A -> B) : wm_elementwise (map_machine f).
Proof.
  intros s e last He. cbn [map_machine mstep snd].
  destruct e; cbn [emap wm_safe_from fold_left wm_next wm_ok] in *; rewrite ?He; split; reflexivity.
Qed.

Lemma filter_elementwise {A} (p : A -> bool) : wm_elementwise (filter_machine p).
Proof.
  intros s e last He. cbn [filter_machine mstep snd].
  destruct e; try destruct (p v);
    cbn [wm_safe_from fold_left wm_next wm_ok] in *; rewrite ?He; split; reflexivity.
Qed.

Lemma fold_left_wm_next_tst {A X} (g : X -> A) t (xs : list X) last :
  fold_left wm_next (map (fun x => Tst (g x) t) xs) last = last.
Proof. induction xs as [|x xs IH]; [reflexivity|]. cbn [map fold_left wm_next]. exact IH. Qed.
Lemma fold_left_wm_next_item {A X} (g : X -> A) (xs : list X) last :
  fold_left wm_next (map (fun x => Item (g x)) xs) last = last.
Proof. induction xs as [|x xs IH]; [reflexivity|]. cbn [map fold_left wm_next]. exact IH. Qed.

Lemma flat_map_elementwise {A B} (g : A -> list B) : wm_elementwise (flat_map_machine g).
Proof.
  intros s e last He. cbn [flat_map_machine mstep snd].
  destruct e; cbn [wm_safe_from fold_left wm_next wm_ok] in *; rewrite ?He;
    try (split; reflexivity).
  - split; [|apply (fold_left_wm_next_item (fun x => x))].
    rewrite <- (app_nil_r (map Item (g v))). rewrite data_ok_safe; [reflexivity|].
    apply Forall_forall. intros e Hin. apply in_map_iff in Hin as (x & <- & _). exact I.
  - split; [|apply (fold_left_wm_next_tst (fun x => x))].
    rewrite <- (app_nil_r (map _ (g v))). rewrite data_ok_safe; [reflexivity|].
    apply Forall_forall. intros e Hin. apply in_map_iff in Hin as (x & <- & _).
    cbn [data_ok]. destruct last; cbn [olt]; [apply Z.ltb_lt; exact He|exact I].
Qed.

Lemma rich_map_elementwise {A S O} (s0 : S) (f : S -> Z -> A -> S * O) :
  wm_elementwise (rich_map_machine s0 f).
Proof.
  intros s e last He. cbn [rich_map_machine mstep].
  destruct e as [[k v]|[k v] t|t| | |]; cbn [rich_step];
    try destruct (f _ k v); cbn [snd wm_safe_from fold_left wm_next wm_ok] in *;
    rewrite ?He; split; reflexivity.
Qed.

Theorem map_wm_safe {A B} (f : A -> B) :
  forall l, wm_safe l = true -> wm_safe (run (map_machine f) l) = true.
Proof. exact (wm_elementwise_safe _ (map_elementwise f)). Qed.
Theorem filter_wm_safe {A} (p : A -> bool) :
  forall l, wm_safe l = true -> wm_safe (run (filter_machine p) l) = true.
Proof. exact (wm_elementwise_safe _ (filter_elementwise p)). Qed.
Theorem flat_map_wm_safe {A B} (g : A -> list B) :
  forall l, wm_safe l = true -> wm_safe (run (flat_map_machine g) l) = true.
Proof. exact (wm_elementwise_safe _ (flat_map_elementwise g)). Qed.
Theorem key_by_wm_safe {A} (k : A -> Z) :
  forall l, wm_safe l = true -> wm_safe (run (key_by_machine k) l) = true.
Proof. exact (map_wm_safe _). Qed.
Theorem rich_map_wm_safe {A S O} (s0 : S) (f : S -> Z -> A -> S * O) :
  forall l, wm_safe l = true -> wm_safe (run (rich_map_machine s0 f) l) = true.
Proof. exact (wm_elementwise_safe _ (rich_map_elementwise s0 f)). Qed.

(** ** Fold and KeyedFold *)
(** "Safe regardless of the input" is FALSE for ungrammatical inputs: Terminate flushes the
    held-back watermark but does not open a new round, so a second flush in the same
    round can emit an older timestamp / an equal watermark. *)
Example fold_wm_unsafe_counterexample :
  let l := [Tst 1 5; Wm 10; Terminate; Tst 1 5; Wm 10; FAR] in
  run (fold_machine 0 Z.add) l = [Tst 1 5; Wm 10; Terminate; Tst 1 5; Wm 10; FAR]
  /\ wm_safe (run (fold_machine 0 Z.add) l) = false.
Proof. vm_compute. split; reflexivity. Qed.

Example kfold_wm_unsafe_counterexample :
  let l := [Tst (7, 1) 5; Wm 10; Terminate; Tst (7, 1) 5; Wm 10; FAR] in
  wm_safe (run (kfold_machine 0 Z.add) l) = false.
Proof. vm_compute. reflexivity. Qed.

(** Terminate, if present, is the last element *)
Fixpoint terminate_last {A} (l : list (elem A)) : bool :=
  match l with
  | [] => true
  | Terminate :: l' => match l' with [] => true | _ => false end
  | _ :: l' => terminate_last l'
  end.

Lemma wf_from_terminate_last {A} (l : list (elem A)) : forall b,
  wf_from b l = true -> terminate_last l = true.
Proof.
  induction l as [|e l IH]; intros b H; [reflexivity|].
  destruct e; cbn [wf_from terminate_last] in *; try (eapply IH; exact H).
  apply andb_true_iff in H as [_ H]. exact H.
Qed.

Lemma wf_terminate_last {A} (l : list (elem A)) : wf l = true -> terminate_last l = true.
Proof. apply wf_from_terminate_last. Qed.

Lemma flush_safe {X} (d : list (elem X)) (wmo : option Z) (marker : elem X) lo rest :
  Forall (data_ok lo) d -> (forall w, wmo = Some w -> olt lo w) ->
  wm_safe_from lo (d ++ (match wmo with Some w => [Wm w] | None => [] end) ++ marker :: rest)
  = wm_safe_from (match wmo with Some w => Some w | None => lo end) (marker :: rest).
Proof.
  intros Hd Hw. rewrite data_ok_safe by exact Hd.
  destruct wmo as [w|]; [|reflexivity].
  cbn [app]. rewrite wm_safe_from_cons.
  rewrite (proj2 (wm_ok_olt_wm lo w) (Hw w eq_refl)). reflexivity.
Qed.

Lemma olt_max_r lo u t : olt lo t -> olt lo (Z.max u t).
Proof. destruct lo; cbn [olt]; lia. Qed.
Lemma olt_max_l lo u t : olt lo u -> olt lo (Z.max u t).
Proof. destruct lo; cbn [olt]; lia. Qed.
Lemma olt_none t : olt None t.
Proof. exact I. Qed.

Definition fold_dpart {O} (s : @fstate O) : list (elem O) :=
  match f_acc s with
  | Some a => [match f_ts s with Some t => Tst a t | None => Item a end]
  | None => [] end.

Lemma fold_flush_eq {O} (s : @fstate O) m rest :
  fold_flush s m ++ rest =
  fold_dpart s ++ (match f_wm s with Some w => [Wm w] | None => [] end) ++ m :: rest.
Proof. unfold fold_flush, fold_dpart. rewrite <- !app_assoc. reflexivity. Qed.

Lemma fold_dpart_ok {O} (s : @fstate O) lo :
  (forall t, f_ts s = Some t -> olt lo t) -> Forall (data_ok lo) (fold_dpart s).
Proof.
  intros H. unfold fold_dpart. destruct (f_acc s); [|constructor].
  constructor; [|constructor]. destruct (f_ts s); cbn [data_ok]; auto.
Qed.

Lemma fold_wm_from {A O} (init : O) (f : O -> A -> O) : forall l s li lo,
  wm_safe_from li l = true -> ole lo li ->
  (forall w, f_wm s = Some w -> li = Some w /\ olt lo w) ->
  (forall t, f_ts s = Some t -> olt lo t) ->
  wm_safe_from lo (snd (run_from (fold_machine init f) s l)) = true.
Proof.
  induction l as [|e l IH]; intros s li lo Hl Hle Hw Ht; [reflexivity|].
  rewrite wm_safe_from_cons in Hl. apply andb_true_iff in Hl as [He Hl].
  rewrite snd_run_from_cons.
  destruct e; cbn [fold_machine mstep fold_step fst snd app wm_next] in *.
  - (* Item *) apply IH with (li := li); auto.
  - (* Tst *) apply wm_ok_olt in He.
    apply IH with (li := li); auto. cbn [f_ts]. intros t' E. injection E as <-.
    pose proof (ole_olt _ _ _ Hle He) as Hlo.
    destruct (f_ts s); [apply olt_max_r|]; exact Hlo.
  - (* Wm *) apply wm_ok_olt_wm in He.
    pose proof (ole_olt _ _ _ Hle He) as Hlo.
    apply IH with (li := Some t); auto.
    + eapply ole_olt_some; eauto.
    + cbn [f_wm]. intros w E. injection E as <-.
      destruct (f_wm s) as [u|] eqn:Eu.
      * destruct (Hw u eq_refl) as [-> Hu]. cbn [olt] in He.
        split; [f_equal; lia|apply olt_max_r; exact Hlo].
      * split; [reflexivity|exact Hlo].
  - (* FlushBatch *) apply IH with (li := li); auto.
  - (* Terminate *)
    rewrite fold_flush_eq, flush_safe;
      [|apply fold_dpart_ok; exact Ht|intros w E; apply (Hw w E)].
    rewrite wm_safe_from_cons. cbn [wm_ok wm_next andb].
    apply IH with (li := li); auto; cbn [finit f_wm f_ts]; try discriminate.
    destruct (f_wm s) as [w|]; [|exact Hle].
    destruct (Hw w eq_refl) as [-> _]. apply ole_refl.
  - (* FAR *)
    rewrite fold_flush_eq, flush_safe;
      [|apply fold_dpart_ok; exact Ht|intros w E; apply (Hw w E)].
    rewrite wm_safe_from_cons. cbn [wm_ok wm_next andb].
    apply IH with (li := None); auto; cbn [finit f_wm f_ts]; try discriminate. exact I.
Qed.

(** preservation form (composes in chains) *)
Theorem fold_wm_safe {A O} (init : O) (f : O -> A -> O) :
  forall l, wm_safe l = true -> wm_safe (run (fold_machine init f) l) = true.
Proof.
  intros l H. apply (fold_wm_from init f l finit None None H); cbn; auto; discriminate.
Qed.

Lemma fold_wm_any_from {A O} (init : O) (f : O -> A -> O) : forall l s,
  terminate_last l = true -> wm_safe_from None (snd (run_from (fold_machine init f) s l)) = true.
Proof.
  induction l as [|e l IH]; intros s Hl; [reflexivity|].
  rewrite snd_run_from_cons.
  destruct e; cbn [fold_machine mstep fold_step fst snd app terminate_last] in *;
    try (apply IH; exact Hl).
  - destruct l; [|discriminate]. rewrite snd_run_from_nil.
    rewrite fold_flush_eq, flush_safe;
      [|apply fold_dpart_ok; intros; exact I|intros; exact I].
    destruct (f_wm s); reflexivity.
  - rewrite fold_flush_eq, flush_safe;
      [|apply fold_dpart_ok; intros; exact I|intros; exact I].
    rewrite wm_safe_from_cons. cbn [wm_ok wm_next andb]. apply IH. exact Hl.
Qed.

(** regardless of the input's timestamps, as long as Terminate only occurs last *)
Theorem fold_wm_safe_any {A O} (init : O) (f : O -> A -> O) :
  forall l, terminate_last l = true -> wm_safe (run (fold_machine init f) l) = true.
Proof. intros l H. apply fold_wm_any_from. exact H. Qed.

Corollary fold_wm_safe_wf {A O} (init : O) (f : O -> A -> O) :
  forall l, wf l = true -> wm_safe (run (fold_machine init f) l) = true.
Proof. intros l H. apply fold_wm_safe_any, wf_terminate_last, H. Qed.

(** association lists *)
Lemma aget_aupd {V} k k' (upd : option V -> V) m :
  aget k' (aupd k upd m) = if Z.eqb k' k then Some (upd (aget k m)) else aget k' m.
Proof.
  induction m as [|[k0 v0] m IH]; cbn [aupd aget].
  - destruct (Z.eqb_spec k' k); reflexivity.
  - destruct (Z.eqb_spec k k0) as [->|Hn]; cbn [aget].
    + destruct (Z.eqb_spec k' k0); reflexivity.
    + rewrite IH. destruct (Z.eqb_spec k' k0) as [->|Hn'].
      * destruct (Z.eqb_spec k0 k); [congruence|reflexivity].
      * reflexivity.
Qed.

Definition kfold_dpart {O} (s : @kstate O) : list (elem (Z * O)) :=
  map (fun '(k, a) => match aget k (k_tss s) with Some t => Tst (k, a) t | None => Item (k, a) end)
      (k_accs s).

Lemma kfold_flush_eq {O} (s : @kstate O) m rest :
  kfold_flush s m ++ rest =
  kfold_dpart s ++ (match k_wm s with Some w => [Wm w] | None => [] end) ++ m :: rest.
Proof. unfold kfold_flush, kfold_dpart. rewrite <- !app_assoc. reflexivity. Qed.

Lemma kfold_dpart_ok {O} (s : @kstate O) lo :
  (forall k t, aget k (k_tss s) = Some t -> olt lo t) -> Forall (data_ok lo) (kfold_dpart s).
Proof.
  intros H. unfold kfold_dpart. apply Forall_forall. intros e Hin.
  apply in_map_iff in Hin as ([k a] & <- & _).
  destruct (aget k (k_tss s)) eqn:E; cbn [data_ok]; eauto.
Qed.

Lemma kfold_wm_from {A O} (init : O) (f : O -> A -> O) : forall l s li lo,
  wm_safe_from li l = true -> ole lo li ->
  (forall w, k_wm s = Some w -> li = Some w /\ olt lo w) ->
  (forall k t, aget k (k_tss s) = Some t -> olt lo t) ->
  wm_safe_from lo (snd (run_from (kfold_machine init f) s l)) = true.
Proof.
  induction l as [|e l IH]; intros s li lo Hl Hle Hw Ht; [reflexivity|].
  rewrite wm_safe_from_cons in Hl. apply andb_true_iff in Hl as [He Hl].
  rewrite snd_run_from_cons.
  destruct e as [[k v]|[k v] t|t| | |];
    cbn [kfold_machine mstep kfold_step fst snd app wm_next] in *.
  - (* Item *) apply IH with (li := li); auto.
  - (* Tst *) apply wm_ok_olt in He.
    apply IH with (li := li); auto. cbn [k_tss]. intros k' t' E.
    rewrite aget_aupd in E.
    pose proof (ole_olt _ _ _ Hle He) as Hlo.
    destruct (Z.eqb k' k); [|eapply Ht; exact E].
    injection E as <-.
    destruct (aget k (k_tss s)); [apply olt_max_r|]; exact Hlo.
  - (* Wm *) apply wm_ok_olt_wm in He.
    pose proof (ole_olt _ _ _ Hle He) as Hlo.
    apply IH with (li := Some t); auto.
    + eapply ole_olt_some; eauto.
    + cbn [k_wm]. intros w E. injection E as <-.
      destruct (k_wm s) as [u|] eqn:Eu.
      * destruct (Hw u eq_refl) as [-> Hu]. cbn [olt] in He.
        split; [f_equal; lia|apply olt_max_r; exact Hlo].
      * split; [reflexivity|exact Hlo].
  - (* FlushBatch *) apply IH with (li := li); auto.
  - (* Terminate *)
    rewrite kfold_flush_eq, flush_safe;
      [|apply kfold_dpart_ok; exact Ht|intros w E; apply (Hw w E)].
    rewrite wm_safe_from_cons. cbn [wm_ok wm_next andb].
    apply IH with (li := li); auto; cbn [kinit k_wm k_tss aget]; try discriminate.
    destruct (k_wm s) as [w|]; [|exact Hle].
    destruct (Hw w eq_refl) as [-> _]. apply ole_refl.
  - (* FAR *)
    rewrite kfold_flush_eq, flush_safe;
      [|apply kfold_dpart_ok; exact Ht|intros w E; apply (Hw w E)].
    rewrite wm_safe_from_cons. cbn [wm_ok wm_next andb].
    apply IH with (li := None); auto; cbn [kinit k_wm k_tss aget]; try discriminate. exact I.
Qed.

Theorem kfold_wm_safe {A O} (init : O) (f : O -> A -> O) :
  forall l, wm_safe l = true -> wm_safe (run (kfold_machine init f) l) = true.
Proof.
  intros l H. apply (kfold_wm_from init f l kinit None None H); cbn; auto; discriminate.
Qed.

Lemma kfold_wm_any_from {A O} (init : O) (f : O -> A -> O) : forall l s,
  terminate_last l = true -> wm_safe_from None (snd (run_from (kfold_machine init f) s l)) = true.
Proof.
  induction l as [|e l IH]; intros s Hl; [reflexivity|].
  rewrite snd_run_from_cons.
  destruct e as [[k v]|[k v] t|t| | |];
    cbn [kfold_machine mstep kfold_step fst snd app terminate_last] in *;
    try (apply IH; exact Hl).
  - destruct l; [|discriminate]. rewrite snd_run_from_nil.
    rewrite kfold_flush_eq, flush_safe;
      [|apply kfold_dpart_ok; intros; exact I|intros; exact I].
    destruct (k_wm s); reflexivity.
  - rewrite kfold_flush_eq, flush_safe;
      [|apply kfold_dpart_ok; intros; exact I|intros; exact I].
    rewrite wm_safe_from_cons. cbn [wm_ok wm_next andb]. apply IH. exact Hl.
Qed.

Theorem kfold_wm_safe_any {A O} (init : O) (f : O -> A -> O) :
  forall l, terminate_last l = true -> wm_safe (run (kfold_machine init f) l) = true.
Proof. intros l H. apply kfold_wm_any_from. exact H. Qed.

Corollary kfold_wm_safe_wf {A O} (init : O) (f : O -> A -> O) :
  forall l, wf l = true -> wm_safe (run (kfold_machine init f) l) = true.
Proof. intros l H. apply kfold_wm_safe_any, wf_terminate_last, H. Qed.

(** * Reorder: the sort *)
Section RSort.
  Context {A : Type}.
  Definition tle (x y : A * Z) : Prop := snd x <= snd y.

  Lemma rinsert_perm (x : A * Z) l : Permutation (rinsert x l) (x :: l).
  Proof.
    induction l as [|y l IH]; cbn [rinsert]; [reflexivity|].
    destruct (snd x <=? snd y); [reflexivity|].
    rewrite IH. apply perm_swap.
  Qed.

  Lemma rsort_perm (l : list (A * Z)) : Permutation (rsort l) l.
  Proof.
    induction l as [|x l IH]; [reflexivity|].
    change (rsort (x :: l)) with (rinsert x (rsort l)).
    rewrite rinsert_perm. now constructor.
  Qed.

  Lemma rinsert_forall (P : A * Z -> Prop) x l : P x -> Forall P l -> Forall P (rinsert x l).
  Proof.
    intros Hx Hl. eapply Permutation_Forall; [symmetry; apply rinsert_perm|].
    constructor; assumption.
  Qed.

  Lemma rinsert_sorted x l : StronglySorted tle l -> StronglySorted tle (rinsert x l).
  Proof.
    induction 1 as [|y l Hs IH Hy]; cbn [rinsert].
    - constructor; constructor.
    - destruct (Z.leb_spec (snd x) (snd y)).
      + constructor; [constructor; assumption|].
        constructor; [unfold tle; lia|].
        eapply Forall_impl; [|exact Hy]. unfold tle. intros; lia.
      + constructor; [exact IH|].
        apply rinsert_forall; [unfold tle; lia|exact Hy].
  Qed.

  Lemma rsort_sorted (l : list (A * Z)) : StronglySorted tle (rsort l).
  Proof.
    induction l as [|x l IH]; [constructor|].
    change (rsort (x :: l)) with (rinsert x (rsort l)). apply rinsert_sorted, IH.
  Qed.

  Lemma rsplit_spec w (l : list (A * Z)) : StronglySorted tle l ->
    fst (rsplit w l) ++ snd (rsplit w l) = l /\
    Forall (fun x => snd x <= w) (fst (rsplit w l)) /\
    Forall (fun x => w < snd x) (snd (rsplit w l)).
  Proof.
    induction 1 as [|y l Hs IH Hy]; cbn [rsplit].
    - repeat split; constructor.
    - destruct (Z.leb_spec (snd y) w).
      + destruct (rsplit w l) as [a b]. cbn [fst snd] in *.
        destruct IH as (E & Ha & Hb). repeat split.
        * cbn [app]. now rewrite E.
        * constructor; assumption.
        * exact Hb.
      + cbn [fst snd app]. repeat split; [constructor|].
        constructor; [lia|]. eapply Forall_impl; [|exact Hy]. unfold tle. intros; lia.
  Qed.

  (** The sort is stable: [rinsert] puts the new (earlier-arrived) element before the
      equal-timestamp elements already placed, so ties keep their arrival order. *)
  Lemma rinsert_filter_eq t (x : A * Z) l :
    filter (fun y => snd y =? t) (rinsert x l) =
    if snd x =? t then x :: filter (fun y => snd y =? t) l else filter (fun y => snd y =? t) l.
  Proof.
    induction l as [|y l IH]; cbn [rinsert].
    - cbn [filter]. destruct (snd x =? t); reflexivity.
    - destruct (Z.leb_spec (snd x) (snd y)).
      + cbn [filter]. destruct (snd x =? t); reflexivity.
      + cbn [filter]. rewrite IH.
        destruct (Z.eqb_spec (snd x) t) as [Ex|Ex]; [|reflexivity].
        destruct (Z.eqb_spec (snd y) t); [lia|reflexivity].
  Qed.

  Theorem rsort_stable (l : list (A * Z)) t :
    filter (fun x => snd x =? t) (rsort l) = filter (fun x => snd x =? t) l.
  Proof.
    induction l as [|x l IH]; [reflexivity|].
    change (rsort (x :: l)) with (rinsert x (rsort l)).
    rewrite rinsert_filter_eq, IH.
    cbn [filter]. destruct (snd x =? t); reflexivity.
  Qed.
End RSort.

(** ties leave in arrival order, however often the buffer is re-sorted *)
Example reorder_ties_keep_order :
  run reorder_machine [Tst 1 5; Tst 2 5; Wm 9; FAR] = [Tst 1 5; Tst 2 5; Wm 9; FAR]
  /\ run reorder_machine [Tst 1 5; Tst 2 5; Wm 3; Wm 9; FAR] = [Wm 3; Tst 1 5; Tst 2 5; Wm 9; FAR].
Proof. vm_compute. split; reflexivity. Qed.

(** * Reorder: watermark safety (G3), sortedness, permutation, coverage (G4) *)
Definition tst_of {A} (x : A * Z) : elem A := let '(v, t) := x in Tst v t.

Lemma map_tst_of {A} (xs : list (A * Z)) : map (fun '(v, t) => Tst v t) xs = map tst_of xs.
Proof. reflexivity. Qed.

Lemma tst_block_ok {A} lo (xs : list (A * Z)) :
  Forall (fun x => olt lo (snd x)) xs -> Forall (data_ok lo) (map tst_of xs).
Proof.
  induction 1 as [|[v t] xs Hx _ IH]; cbn [map tst_of]; constructor; [exact Hx|exact IH].
Qed.

Lemma reorder_wm_from {A} : forall (l : list (elem A)) buf li,
  wm_safe_from li l = true -> Forall (fun x => olt li (snd x)) buf ->
  wm_safe_from li (snd (run_from reorder_machine buf l)) = true.
Proof.
  induction l as [|e l IH]; intros buf li Hl Hbuf; [reflexivity|].
  rewrite wm_safe_from_cons in Hl. apply andb_true_iff in Hl as [He Hl].
  rewrite snd_run_from_cons.
  destruct e; cbn [reorder_machine mstep reorder_step wm_next] in *.
  - (* Item *) cbn [fst snd app]. rewrite wm_safe_from_cons. cbn [wm_ok wm_next andb]. auto.
  - (* Tst *) cbn [fst snd app]. apply wm_ok_olt in He. apply IH; [exact Hl|].
    apply Forall_app. split; [exact Hbuf|]. constructor; [exact He|constructor].
  - (* Wm *) apply wm_ok_olt_wm in He.
    pose proof (rsplit_spec t (rsort buf) (rsort_sorted buf)) as (E & Hrel & Hrest).
    destruct (rsplit t (rsort buf)) as [rel rest]. cbn [fst snd] in *.
    rewrite map_tst_of, <- app_assoc. rewrite data_ok_safe.
    + cbn [app]. rewrite wm_safe_from_cons, (proj2 (wm_ok_olt_wm li t) He). cbn [andb wm_next].
      apply IH; [exact Hl|exact Hrest].
    + apply tst_block_ok.
      assert (Hall : Forall (fun x => olt li (snd x)) (rel ++ rest)).
      { rewrite E. eapply Permutation_Forall; [symmetry; apply rsort_perm|exact Hbuf]. }
      apply Forall_app in Hall. tauto.
  - (* FlushBatch *) cbn [fst snd app]. rewrite wm_safe_from_cons. cbn [wm_ok wm_next andb]. auto.
  - (* Terminate *) cbn [fst snd app]. rewrite wm_safe_from_cons. cbn [wm_ok wm_next andb]. auto.
  - (* FAR *) cbn [fst snd]. rewrite map_tst_of, <- app_assoc. rewrite data_ok_safe.
    + cbn [app]. rewrite wm_safe_from_cons. cbn [wm_ok wm_next andb]. apply IH; [exact Hl|constructor].
    + apply tst_block_ok. eapply Permutation_Forall; [symmetry; apply rsort_perm|exact Hbuf].
Qed.

Theorem reorder_wm_safe {A} :
  forall l : list (elem A), wm_safe l = true -> wm_safe (run reorder_machine l) = true.
Proof. intros l H. apply reorder_wm_from; [exact H|constructor]. Qed.

(** without the hypothesis Reorder is not safe: it cannot repair a late element *)
Example reorder_wm_needs_hyp :
  wm_safe (run reorder_machine [Wm 10; Tst 1 5; FAR; Terminate]) = false.
Proof. vm_compute. reflexivity. Qed.

(** ** sortedness of the output *)
Definition last_ts {A} (xs : list (A * Z)) (lt : option Z) : option Z :=
  fold_left (fun _ x => Some (snd x)) xs lt.

Lemma ts_release {A} (xs : list (A * Z)) r : forall lt,
  StronglySorted tle xs -> Forall (fun x => ole lt (Some (snd x))) xs ->
  ts_nondecreasing lt (map tst_of xs ++ r) = ts_nondecreasing (last_ts xs lt) r.
Proof.
  induction xs as [|[v t] xs IH]; intros lt Hs Hlt; [reflexivity|].
  cbn [map tst_of app ts_nondecreasing last_ts fold_left].
  inversion Hs as [|? ? Hs' Hall]; subst. inversion Hlt as [|? ? Hx Hlt']; subst.
  replace (match lt with Some u => u <=? t | None => true end) with true.
  - cbn [andb]. apply IH; [exact Hs'|]. eapply Forall_impl; [|exact Hall].
    unfold tle. cbn [ole snd]. auto.
  - destruct lt; [|reflexivity]. cbn [ole snd] in Hx. symmetry. apply Z.leb_le. exact Hx.
Qed.

Lemma last_ts_le {A} (xs : list (A * Z)) w : forall lt,
  Forall (fun x => snd x <= w) xs -> ole lt (Some w) -> ole (last_ts xs lt) (Some w).
Proof.
  induction xs as [|x xs IH]; intros lt Hxs Hlt; [exact Hlt|].
  inversion Hxs; subst. cbn [last_ts fold_left]. apply IH; [assumption|]. cbn [ole]. assumption.
Qed.

Lemma reorder_sorted_from {A} : forall (l : list (elem A)) buf li lt,
  wm_safe_from li l = true -> Forall (fun x => olt li (snd x)) buf -> ole lt li ->
  ts_nondecreasing lt (snd (run_from reorder_machine buf l)) = true.
Proof.
  induction l as [|e l IH]; intros buf li lt Hl Hbuf Hlt; [reflexivity|].
  rewrite wm_safe_from_cons in Hl. apply andb_true_iff in Hl as [He Hl].
  rewrite snd_run_from_cons.
  destruct e; cbn [reorder_machine mstep reorder_step wm_next] in *.
  - cbn [fst snd app ts_nondecreasing]. eauto.
  - cbn [fst snd app]. apply wm_ok_olt in He. apply IH with (li := li); [exact Hl| |exact Hlt].
    apply Forall_app. split; [exact Hbuf|]. constructor; [exact He|constructor].
  - apply wm_ok_olt_wm in He.
    pose proof (rsplit_spec t (rsort buf) (rsort_sorted buf)) as (E & Hrel & Hrest).
    pose proof (rsort_sorted buf) as Hsorted.
    assert (Hall : Forall (fun x => olt li (snd x)) (rsort buf)).
    { eapply Permutation_Forall; [symmetry; apply rsort_perm|exact Hbuf]. }
    destruct (rsplit t (rsort buf)) as [rel rest]. cbn [fst snd] in *.
    rewrite <- E in Hsorted, Hall. apply Forall_app in Hall as [Hall _].
    assert (Hsrel : StronglySorted tle rel).
    { clear - Hsorted. induction rel as [|x rel IHr]; [constructor|].
      cbn [app] in Hsorted. inversion Hsorted as [|? ? Hs Hf]; subst.
      constructor; [apply IHr; exact Hs|]. apply Forall_app in Hf. tauto. }
    rewrite map_tst_of, <- app_assoc. rewrite ts_release; [|exact Hsrel|].
    + cbn [app ts_nondecreasing]. apply IH with (li := Some t); [exact Hl|exact Hrest|].
      apply last_ts_le; [exact Hrel|]. eapply ole_olt_some; eauto.
    + eapply Forall_impl; [|exact Hall]. intros x Hx. cbn beta in Hx.
      clear - Hx Hlt. destruct lt, li; cbn [ole olt] in *; try tauto; lia.
  - cbn [fst snd app ts_nondecreasing]. eauto.
  - cbn [fst snd app ts_nondecreasing]. eauto.
  - cbn [fst snd]. rewrite map_tst_of, <- app_assoc. rewrite ts_release.
    + cbn [app ts_nondecreasing]. apply IH with (li := None); [exact Hl|constructor|exact I].
    + apply rsort_sorted.
    + eapply Permutation_Forall; [symmetry; apply rsort_perm|].
      eapply Forall_impl; [|exact Hbuf]. intros x Hx. cbn beta in Hx.
      clear - Hx Hlt. destruct lt, li; cbn [ole olt] in *; try tauto; lia.
Qed.

(** the hypothesis on [Item]s of the requested statement is not needed *)
Theorem reorder_sorted_strong {A} : forall l : list (elem A),
  wm_safe l = true -> ts_nondecreasing None (run reorder_machine l) = true.
Proof. intros l H. apply (reorder_sorted_from l [] None None H); [constructor|exact I]. Qed.

Theorem reorder_sorted {A} : forall l : list (elem A),
  wm_safe l = true -> (forall v, ~ In (Item v) l) ->
  ts_nondecreasing None (run reorder_machine l) = true.
Proof. intros l H _. apply reorder_sorted_strong, H. Qed.

(** ** nothing lost, nothing duplicated *)
Fixpoint tdata_of {A} (l : list (elem A)) : list (A * Z) :=
  match l with
  | [] => []
  | Tst v t :: l' => (v, t) :: tdata_of l'
  | _ :: l' => tdata_of l'
  end.

Lemma tdata_of_app {A} (l1 l2 : list (elem A)) : tdata_of (l1 ++ l2) = tdata_of l1 ++ tdata_of l2.
Proof.
  induction l1 as [|e l1 IH]; [reflexivity|].
  destruct e; cbn [app tdata_of]; rewrite IH; reflexivity.
Qed.

Lemma tdata_of_map_tst {A} (xs : list (A * Z)) : tdata_of (map tst_of xs) = xs.
Proof.
  induction xs as [|[v t] xs IH]; [reflexivity|]. cbn [map tst_of tdata_of]. now rewrite IH.
Qed.

Lemma reorder_perm_from {A} : forall (l : list (elem A)) buf, no_end l ->
  Permutation (tdata_of (snd (run_from reorder_machine buf (l ++ [FAR])))) (buf ++ tdata_of l).
Proof.
  induction l as [|e l IH]; intros buf Hne.
  - cbn [app run_from reorder_machine mstep reorder_step snd tdata_of].
    rewrite map_tst_of, app_nil_r, tdata_of_app, tdata_of_map_tst. cbn [tdata_of].
    rewrite !app_nil_r. apply rsort_perm.
  - assert (Hne' : no_end l) by (intros x Hx; apply Hne; right; exact Hx).
    assert (He : e <> FAR /\ e <> Terminate) by (apply Hne; left; reflexivity).
    cbn [app]. rewrite snd_run_from_cons.
    destruct e; cbn [reorder_machine mstep reorder_step] in *; try (destruct He; congruence).
    + cbn [fst snd app tdata_of]. apply IH, Hne'.
    + cbn [fst snd app tdata_of]. rewrite IH by exact Hne'.
      rewrite <- app_assoc. reflexivity.
    + pose proof (rsplit_spec t (rsort buf) (rsort_sorted buf)) as (E & _ & _).
      destruct (rsplit t (rsort buf)) as [rel rest]. cbn [fst snd] in *.
      rewrite map_tst_of, !tdata_of_app, tdata_of_map_tst. cbn [tdata_of app].
      rewrite IH by exact Hne'. rewrite app_nil_r, app_assoc, E. apply Permutation_app_tail, rsort_perm.
    + cbn [fst snd app tdata_of]. apply IH, Hne'.
Qed.

Theorem reorder_perm {A} : forall l : list (elem A), no_end l ->
  Permutation (tdata_of (run reorder_machine (l ++ [FAR]))) (tdata_of l).
Proof. intros l H. apply (reorder_perm_from l [] H). Qed.

(** ** release only when covered *)
(** one watermark step: exactly the buffered elements with timestamp <= w leave (sorted),
    the ones kept are all > w, and nothing is lost *)
Theorem reorder_release_covered_step {A} (buf : list (A * Z)) w :
  let '(rest, out) := reorder_step buf (Wm w) in
  exists rel, out = map tst_of rel ++ [Wm w] /\
    Forall (fun x => snd x <= w) rel /\ Forall (fun x => w < snd x) rest /\
    StronglySorted tle rel /\ StronglySorted tle rest /\ Permutation (rel ++ rest) buf.
Proof.
  cbn [reorder_step].
  pose proof (rsplit_spec w (rsort buf) (rsort_sorted buf)) as (E & Hrel & Hrest).
  pose proof (rsort_sorted buf) as Hs.
  destruct (rsplit w (rsort buf)) as [rel rest]. cbn [fst snd] in *.
  exists rel. rewrite <- E in Hs. repeat split; try assumption.
  - clear - Hs. induction rel as [|x rel IHr]; [constructor|].
    cbn [app] in Hs. inversion Hs as [|? ? Hs' Hf]; subst.
    constructor; [apply IHr; exact Hs'|]. apply Forall_app in Hf. tauto.
  - clear - Hs. induction rel as [|x rel IHr]; [exact Hs|].
    cbn [app] in Hs. inversion Hs; subst. auto.
  - rewrite E. apply rsort_perm.
Qed.

(** run-level form: walking the output, every timestamped element is followed, before the
    next FAR, ... by a watermark only if that watermark covers it; [pend] collects the
    timestamps seen since the previous Wm / FAR *)
Fixpoint covered {A} (pend : list Z) (l : list (elem A)) : bool :=
  match l with
  | [] => true
  | Tst _ t :: l' => covered (t :: pend) l'
  | Wm w :: l' => forallb (fun t => t <=? w) pend && covered [] l'
  | FAR :: l' => covered [] l'
  | _ :: l' => covered pend l'
  end.

Lemma covered_release {A} (xs : list (A * Z)) r : forall pend,
  covered pend (map tst_of xs ++ r) = covered (rev (map snd xs) ++ pend) r.
Proof.
  induction xs as [|[v t] xs IH]; intros pend; [reflexivity|].
  cbn [map tst_of app covered snd rev]. rewrite IH, <- app_assoc. reflexivity.
Qed.

Lemma reorder_covered_from {A} : forall (l : list (elem A)) buf,
  covered [] (snd (run_from reorder_machine buf l)) = true.
Proof.
  induction l as [|e l IH]; intros buf; [reflexivity|].
  rewrite snd_run_from_cons.
  destruct e; cbn [reorder_machine mstep reorder_step]; try (cbn [fst snd app covered]; apply IH).
  - pose proof (rsplit_spec t (rsort buf) (rsort_sorted buf)) as (_ & Hrel & _).
    destruct (rsplit t (rsort buf)) as [rel rest]. cbn [fst snd] in *.
    rewrite map_tst_of, <- app_assoc, covered_release. cbn [app covered].
    rewrite IH, andb_true_r, app_nil_r.
    apply forallb_forall. intros x Hx. apply in_rev, in_map_iff in Hx as (y & <- & Hy).
    apply Z.leb_le. rewrite Forall_forall in Hrel. apply Hrel, Hy.
  - cbn [fst snd]. rewrite map_tst_of, <- app_assoc, covered_release. cbn [app covered]. apply IH.
Qed.

Theorem reorder_release_covered {A} : forall l : list (elem A),
  covered [] (run reorder_machine l) = true.
Proof. intros l. apply reorder_covered_from. Qed.

(** [rsort] is a sort: permutation + sorted (and stable, see [rsort_stable]) *)
Theorem rsort_correct {A} (l : list (A * Z)) :
  Permutation (rsort l) l /\ StronglySorted tle (rsort l).
Proof. split; [apply rsort_perm|apply rsort_sorted]. Qed.

(** * G5: a single producer's stream passes through Start unchanged *)
Definition single_state (last : option Z) : sstate :=
  {| s_n := 1; s_mterm := 1; s_mfar := 1;
     s_front := {| fmap := [last]; ffront := last |}; s_done := false |}.

Lemma single_state_init : start_init 1 = single_state None.
Proof. reflexivity. Qed.

Lemma compute_frontier_single t : compute_frontier [Some t] = Some t.
Proof. reflexivity. Qed.

Lemma single_step_plain A last (e : elem A) :
  match e with Item _ | Tst _ _ | FlushBatch => True | _ => False end ->
  start_step (single_state last) (0%nat, e) = (single_state last, [e]).
Proof. destruct e; intros H; try contradiction; reflexivity. Qed.

Lemma single_step_wm A last t : olt last t ->
  @start_step A (single_state last) (0%nat, Wm t) = (single_state (Some t), [Wm t]).
Proof.
  intros H. unfold start_step, single_state. cbn [s_done s_front s_n s_mterm s_mfar].
  unfold frontier_update. cbn [nth fmap ffront set_nth]. rewrite compute_frontier_single.
  destruct last as [t0|]; cbn [olt] in H.
  - destruct (Z.leb_spec t t0); [lia|]. destruct (Z.eqb_spec t0 t); [lia|]. reflexivity.
  - reflexivity.
Qed.

Lemma single_step_far A last :
  @start_step A (single_state last) (0%nat, FAR) = (single_state None, [FAR]).
Proof.
  unfold start_step, single_state. cbn [s_done s_front s_n s_mterm s_mfar].
  generalize TS_MAX. intros ts.
  unfold frontier_update. cbn [nth fmap ffront set_nth].
  destruct last as [t0|]; [destruct (ts <=? t0)|]; reflexivity.
Qed.

Lemma single_step_term A last :
  exists st, @start_step A (single_state last) (0%nat, Terminate) = (st, [Terminate]).
Proof. eexists. reflexivity. Qed.

Lemma start_single_from A : forall (l : list (elem A)) last,
  wm_safe_from last l = true -> terminate_last l = true ->
  snd (run_from (start_machine A 1) (single_state last) (map (fun e => (0%nat, e)) l)) = l.
Proof.
  induction l as [|e l IH]; intros last Hs Ht; [reflexivity|].
  rewrite wm_safe_from_cons in Hs. apply andb_true_iff in Hs as [He Hs].
  cbn [map]. rewrite snd_run_from_cons. cbn [start_machine mstep].
  destruct e; cbn [terminate_last wm_next] in *.
  - rewrite single_step_plain by exact I. cbn [fst snd app]. f_equal. apply IH; assumption.
  - rewrite single_step_plain by exact I. cbn [fst snd app]. f_equal. apply IH; assumption.
  - rewrite single_step_wm by (apply (@wm_ok_olt_wm A); exact He).
    cbn [fst snd app]. f_equal. apply IH; assumption.
  - rewrite single_step_plain by exact I. cbn [fst snd app]. f_equal. apply IH; assumption.
  - destruct l; [|discriminate].
    destruct (single_step_term A last) as [st ->]. reflexivity.
  - rewrite single_step_far. cbn [fst snd app]. f_equal. apply IH; assumption.
Qed.

(** strong form: only "Terminate is last" and watermark safety are needed *)
Theorem start_single_identity_strong : forall (A : Type) (l : list (elem A)),
  terminate_last l = true -> wm_safe l = true ->
  run (start_machine A 1) (map (fun e => (0%nat, e)) l) = l.
Proof. intros A l Ht Hs. unfold run. apply start_single_from; assumption. Qed.

Theorem start_single_identity : forall (A : Type) (l : list (elem A)),
  wf l = true -> wm_safe l = true ->
  (forall e, In e l -> e <> FlushBatch) -> (forall t, In (Wm t) l -> t < TS_MAX) ->
  run (start_machine A 1) (map (fun e => (0%nat, e)) l) = l.
Proof.
  intros A l Hwf Hs _ _. apply start_single_identity_strong; [apply wf_terminate_last, Hwf|exact Hs].
Qed.

(** both remaining hypotheses are necessary *)
Example start_single_needs_wm_safe :
  run (start_machine Z 1) (map (fun e => (0%nat, e)) [Wm 5; Wm 5; FAR; Terminate])
  = [Wm 5; FAR; Terminate].
Proof. vm_compute. reflexivity. Qed.
Example start_single_needs_terminate_last :
  run (start_machine Z 1) (map (fun e => (0%nat, e)) [FAR; Terminate; Item 1]) = [FAR; Terminate].
Proof. vm_compute. reflexivity. Qed.

(** sortedness of Reorder's output needs the input's watermark safety *)
Example reorder_sorted_needs_wm_safe :
  ts_nondecreasing None (run reorder_machine [Tst 1 20; Wm 30; Tst 2 5; FAR; Terminate]) = false.
Proof. vm_compute. reflexivity. Qed.

(** * Chains: the per-operator results lift through [compose] *)
Example chain_wf_wm_safe {A} (k : A -> Z) (p : A -> bool) (init : Z) (f : Z -> A -> Z) :
  let chain := compose (compose (compose reorder_machine (filter_machine p)) (key_by_machine k))
                       (kfold_machine init f) in
  forall l, wf l = true -> wm_safe l = true ->
    wf (run chain l) = true /\ wm_safe (run chain l) = true.
Proof.
  intros chain l Hwf Hs. split.
  - apply compose_wf; [|apply kfold_wf|exact Hwf].
    apply compose_wf; [|apply key_by_wf].
    apply compose_wf; [apply reorder_wf|apply filter_wf].
  - apply compose_wm_safe; [|apply kfold_wm_safe|exact Hs].
    apply compose_wm_safe; [|apply key_by_wm_safe].
    apply compose_wm_safe; [apply reorder_wm_safe|apply filter_wm_safe].
Qed.

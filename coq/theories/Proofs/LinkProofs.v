(** Proofs about the link models: wire framing (F1-F3), Batcher (B1), routing (E1),
    End operator per-receiver sequence (E2), the adaptive mode (E2b) and corollaries (E3).
    Everything about `Batcher`/`End` holds for the three batch modes and for EVERY clock
    ([clock], [t0] are universally quantified). *)
From Noir Require Import Base.Elem Model.End Model.Framing.
From Coq Require Import NArith ZifyBool.
Local Open Scope Z_scope.

(* ------------------------------------------------------------------ *)
(** * Generic list helpers *)

Lemma firstn_app_exact {X} (n : nat) (l1 l2 : list X) :
  length l1 = n -> firstn n (l1 ++ l2) = l1.
Proof.
  intros <-. rewrite firstn_app, Nat.sub_diag, firstn_all. cbn [firstn].
  now rewrite app_nil_r.
Qed.

Lemma skipn_app_exact {X} (n : nat) (l1 l2 : list X) :
  length l1 = n -> skipn n (l1 ++ l2) = l2.
Proof.
  intros <-. rewrite skipn_app, Nat.sub_diag, skipn_all. reflexivity.
Qed.

(* ------------------------------------------------------------------ *)
(** * F1: little-endian round trip *)

Lemma le_bytes_length : forall n x, length (le_bytes n x) = n.
Proof.
  induction n as [|n IH]; intros x; cbn [le_bytes length]; [reflexivity|].
  now rewrite IH.
Qed.

(** holds for every [x] (hence in particular for [x >= 0]) *)
Lemma le_bytes_are_bytes : forall n x, Forall is_byte (le_bytes n x).
Proof.
  induction n as [|n IH]; intros x; cbn [le_bytes]; constructor.
  - unfold is_byte. apply Z.mod_pos_bound. lia.
  - apply IH.
Qed.

Lemma le_bytes_bytes_nonneg : forall n x, 0 <= x -> Forall is_byte (le_bytes n x).
Proof. intros n x _. apply le_bytes_are_bytes. Qed.

Lemma le_value_bytes : forall n x, 0 <= x < 256 ^ Z.of_nat n -> le_value (le_bytes n x) = x.
Proof.
  induction n as [|n IH]; intros x H; cbn [le_bytes le_value].
  - change (256 ^ Z.of_nat 0) with 1 in H. lia.
  - rewrite Nat2Z.inj_succ, Z.pow_succ_r in H by lia.
    rewrite IH.
    + pose proof (Z.div_mod x 256). lia.
    + split.
      * apply Z.div_pos; lia.
      * apply Z.div_lt_upper_bound; lia.
Qed.

(* ------------------------------------------------------------------ *)
(** * F2: header round trip *)

Lemma encode_header_length : forall h, length (encode_header h) = HEADER_SIZE.
Proof.
  intros h. unfold encode_header. rewrite !app_length, !le_bytes_length. reflexivity.
Qed.

Theorem decode_encode_header : forall h,
  0 <= h_size h < 2^32 -> 0 <= h_replica h < 2^64 -> 0 <= h_block h < 2^64 ->
  decode_header (encode_header h) = h.
Proof.
  intros [sz rp bl]. cbn [h_size h_replica h_block]. intros Hs Hr Hb.
  unfold decode_header, encode_header. cbn [h_size h_replica h_block].
  assert (E4 : 256 ^ Z.of_nat 4 = 2^32) by reflexivity.
  assert (E8 : 256 ^ Z.of_nat 8 = 2^64) by reflexivity.
  f_equal.
  - rewrite (firstn_app_exact 4) by apply le_bytes_length.
    apply le_value_bytes. rewrite E4. exact Hs.
  - rewrite (skipn_app_exact 4) by apply le_bytes_length.
    rewrite (firstn_app_exact 8) by apply le_bytes_length.
    apply le_value_bytes. rewrite E8. exact Hr.
  - rewrite app_assoc.
    rewrite (skipn_app_exact 12) by (rewrite app_length, !le_bytes_length; reflexivity).
    rewrite <- (app_nil_r (le_bytes 8 bl)).
    rewrite (firstn_app_exact 8) by apply le_bytes_length.
    apply le_value_bytes. rewrite E8. exact Hb.
Qed.

(* ------------------------------------------------------------------ *)
(** * F3: stream round trip *)

Lemma decode_stream_frame : forall f r b body l,
  0 <= r < 2^64 -> 0 <= b < 2^64 -> Z.of_nat (length body) < 2^32 ->
  decode_stream (S f) (frame r b body ++ l) =
  match decode_stream f l with
  | Some fs => Some (({| h_size := Z.of_nat (length body); h_replica := r; h_block := b |}, body) :: fs)
  | None => None
  end.
Proof.
  intros f r b body l Hr Hb Hbody.
  unfold frame.
  set (h := {| h_size := Z.of_nat (length body); h_replica := r; h_block := b |}).
  rewrite <- app_assoc. cbn [decode_stream].
  destruct (Nat.ltb_spec (length (encode_header h ++ body ++ l)) HEADER_SIZE) as [H|_].
  { rewrite app_length, encode_header_length in H. lia. }
  rewrite (firstn_app_exact HEADER_SIZE) by apply encode_header_length.
  rewrite (skipn_app_exact HEADER_SIZE) by apply encode_header_length.
  rewrite decode_encode_header.
  2:{ subst h; cbn [h_size]. lia. }
  2:{ subst h; cbn [h_replica]. exact Hr. }
  2:{ subst h; cbn [h_block]. exact Hb. }
  replace (Z.to_nat (h_size h)) with (length body) by (subst h; cbn [h_size]; lia).
  destruct (Nat.ltb_spec (length (body ++ l)) (length body)) as [H|_].
  { rewrite app_length in H. lia. }
  rewrite (skipn_app_exact (length body)) by reflexivity.
  rewrite (firstn_app_exact (length body)) by reflexivity.
  reflexivity.
Qed.

Theorem decode_encode_stream :
  forall (msgs : list (Z * Z * list Z)) (rest : list Z) fuel,
    (length msgs < fuel)%nat ->
    (length rest < HEADER_SIZE)%nat ->
    Forall (fun m => let '(r, b, body) := m in
              0 <= r < 2^64 /\ 0 <= b < 2^64 /\ Z.of_nat (length body) < 2^32) msgs ->
    decode_stream fuel
      (concat (map (fun m => let '(r, b, body) := m in frame r b body) msgs) ++ rest)
    = Some (map (fun m => let '(r, b, body) := m in
                   ({| h_size := Z.of_nat (length body); h_replica := r; h_block := b |}, body))
                msgs).
Proof.
  induction msgs as [|[[r b] body] msgs IH]; intros rest fuel Hf Hrest Hall.
  - cbn [map concat app]. destruct fuel as [|f]; [reflexivity|].
    cbn [decode_stream].
    destruct (Nat.ltb_spec (length rest) HEADER_SIZE) as [_|H]; [reflexivity|lia].
  - destruct fuel as [|f]; [cbn [length] in Hf; lia|].
    inversion Hall as [|x xs Hh Hall']; subst x xs.
    cbv beta iota in Hh. destruct Hh as [Hr [Hb Hbody]].
    cbn [map concat]. rewrite <- app_assoc.
    rewrite decode_stream_frame by assumption.
    rewrite IH.
    + reflexivity.
    + cbn [length] in Hf. lia.
    + exact Hrest.
    + exact Hall'.
Qed.

(* ------------------------------------------------------------------ *)
(** * B1: Batcher *)
Local Close Scope Z_scope.
Local Open Scope nat_scope.

Section BatcherProofs.
  Context {A : Type}.

  (** one batcher fed a list of elements, the k-th enqueue (counting from [k]) reading
      [clock k] *)
  Fixpoint brun (clock : nat -> N) (m : batch_mode) (k : nat) (bs : @bstate A) (l : list (elem A))
    : @bstate A * list (list (elem A)) :=
    match l with
    | [] => (bs, [])
    | e :: l' =>
        let '(b1, s1) := enqueue m (clock k) bs e in
        let '(b2, s2) := brun clock m (S k) b1 l' in
        (b2, s1 ++ s2)
    end.

  (** In `Single` mode the buffer is never used: it is (and stays) empty. *)
  Definition mode_ok (m : batch_mode) (buf : list (elem A)) : Prop :=
    m = BSingle -> buf = [].

  Lemma flush_snoc now (buf : list (elem A)) e ls :
    flush now (buf ++ [e], ls) = (([], now), [buf ++ [e]]).
  Proof. unfold flush. cbn [fst]. destruct buf; reflexivity. Qed.

  (** an empty flush changes nothing (not even `last_send`); a non-empty one sends the whole
      buffer as one batch and records the time *)
  Theorem flush_spec : forall now (bs : @bstate A),
    flush now bs = match fst bs with [] => (bs, []) | _ => (([], now), [fst bs]) end /\
    fst (fst (flush now bs)) = [] /\
    snd (fst (flush now bs)) = (match fst bs with [] => snd bs | _ => now end) /\
    snd (flush now bs) = (match fst bs with [] => [] | _ => [fst bs] end) /\
    concat (snd (flush now bs)) = fst bs /\
    Forall (fun b => b <> []) (snd (flush now bs)).
  Proof.
    intros now [[|e buf] ls]; unfold flush; cbn [fst snd concat app]; repeat split;
      try constructor; try discriminate; try constructor. now rewrite app_nil_r.
  Qed.

  (** the three possible outcomes of an enqueue *)
  Lemma enqueue_cases m now (bs : @bstate A) e :
    (m = BSingle /\ enqueue m now bs e = (bs, [[e]])) \/
    (m <> BSingle /\ enqueue m now bs e = ((fst bs ++ [e], snd bs), []) /\
       length (fst bs ++ [e]) < max_size m) \/
    (m <> BSingle /\ enqueue m now bs e = (([], now), [fst bs ++ [e]]) /\
       (max_size m <= length (fst bs ++ [e]) \/
        exists n d, m = BAdaptive n d /\ (d < now - snd bs)%N)).
  Proof.
    destruct m as [n|n d|]; unfold enqueue; cbv zeta; cbn [fst snd max_size].
    - right. destruct (Nat.leb_spec n (length (fst bs ++ [e]))) as [H|H].
      + right. rewrite flush_snoc. split; [discriminate|]. split; [reflexivity|]. now left.
      + left. split; [discriminate|]. split; [reflexivity|exact H].
    - right. destruct (Nat.leb_spec n (length (fst bs ++ [e]))) as [H|H]; cbn [orb].
      + right. rewrite flush_snoc. split; [discriminate|]. split; [reflexivity|]. now left.
      + destruct (N.ltb_spec d (now - snd bs)) as [H'|H'].
        * right. rewrite flush_snoc. split; [discriminate|]. split; [reflexivity|].
          right. exists n, d. split; [reflexivity|exact H'].
        * left. split; [discriminate|]. split; [reflexivity|exact H].
    - left. split; reflexivity.
  Qed.

  Lemma enqueue_spec m now (bs bs1 : @bstate A) e sent :
    enqueue m now bs e = (bs1, sent) ->
    mode_ok m (fst bs) ->
    mode_ok m (fst bs1) /\ concat sent ++ fst bs1 = fst bs ++ [e].
  Proof.
    unfold mode_ok. intros H Hm.
    destruct (enqueue_cases m now bs e) as [[Em E]|[[Em [E _]]|[Em [E _]]]];
      rewrite E in H; inversion H; subst bs1 sent; cbn [fst snd concat app].
    - split; [exact Hm|]. now rewrite (Hm Em).
    - split; [intros; contradiction|reflexivity].
    - split; [intros; contradiction|]. now rewrite !app_nil_r.
  Qed.

  (** COUNTEREXAMPLE to the unconditional statement: in [BSingle] mode a non-empty initial
      buffer is never sent, so the order is not [buf ++ l]. *)
  Example batcher_sequence_counterexample :
    let '(bs', sent) := brun (fun _ => 0%N) BSingle 0 ([Wm 1%Z], 0%N) [Wm 2%Z : elem A] in
    concat sent ++ fst bs' = [Wm 2%Z; Wm 1%Z] /\ concat sent ++ fst bs' <> [Wm 1%Z] ++ [Wm 2%Z].
  Proof. cbn. split; [reflexivity|discriminate]. Qed.

  (** for every mode and EVERY clock: the clock decides only where batches are cut *)
  Theorem batcher_sequence : forall clock m k bs l bs' sent,
    mode_ok m (fst bs) ->
    brun clock m k bs l = (bs', sent) -> concat sent ++ fst bs' = fst bs ++ l.
  Proof.
    intros clock m k bs l; revert k bs.
    induction l as [|e l IH]; intros k bs bs' sent Hm H; cbn [brun] in H.
    - inversion H; subst. cbn [concat app]. now rewrite app_nil_r.
    - destruct (enqueue m (clock k) bs e) as [b1 s1] eqn:E1.
      destruct (brun clock m (S k) b1 l) as [b2 s2] eqn:E2. inversion H; subst.
      destruct (enqueue_spec _ _ _ _ _ _ E1 Hm) as [Hm1 Hs].
      specialize (IH _ _ _ _ Hm1 E2).
      rewrite concat_app, <- app_assoc, IH, app_assoc, Hs, <- app_assoc. reflexivity.
  Qed.

  (** the [BFixed] and [BAdaptive] instances need no side condition at all *)
  Corollary batcher_sequence_fixed : forall clock n k bs l bs' sent,
    brun clock (BFixed n) k bs l = (bs', sent) -> concat sent ++ fst bs' = fst bs ++ l.
  Proof. intros clock n k bs l bs' sent. apply batcher_sequence. discriminate. Qed.

  Corollary batcher_sequence_adaptive : forall clock n d k bs l bs' sent,
    brun clock (BAdaptive n d) k bs l = (bs', sent) -> concat sent ++ fst bs' = fst bs ++ l.
  Proof. intros clock n d k bs l bs' sent. apply batcher_sequence. discriminate. Qed.

  (** holds for every mode, also [BFixed 0] *)
  Theorem batcher_batches_nonempty : forall clock m k bs l bs' sent,
    brun clock m k bs l = (bs', sent) -> Forall (fun b => b <> []) sent.
  Proof.
    intros clock m k bs l; revert k bs.
    induction l as [|e l IH]; intros k bs bs' sent H; cbn [brun] in H.
    - inversion H; constructor.
    - destruct (enqueue m (clock k) bs e) as [b1 s1] eqn:E1.
      destruct (brun clock m (S k) b1 l) as [b2 s2] eqn:E2. inversion H; subst.
      apply Forall_app; split; [|eapply IH; eassumption].
      destruct (enqueue_cases m (clock k) bs e) as [[_ E]|[[_ [E _]]|[_ [E _]]]];
        rewrite E in E1; inversion E1; subst; repeat constructor; try discriminate.
      destruct (fst bs); discriminate.
  Qed.

  (** every batch has at most [max_size m] elements and the buffer stays below it, for every
      mode with a positive size and every clock *)
  Theorem batcher_bound : forall clock m k bs l bs' sent,
    1 <= max_size m -> length (fst bs) < max_size m ->
    brun clock m k bs l = (bs', sent) ->
    Forall (fun b => 1 <= length b <= max_size m) sent /\ length (fst bs') < max_size m.
  Proof.
    intros clock m k bs l; revert k bs.
    induction l as [|e l IH]; intros k bs bs' sent Hn Hb H; cbn [brun] in H.
    - inversion H; subst. split; [constructor|assumption].
    - destruct (enqueue m (clock k) bs e) as [b1 s1] eqn:E1.
      destruct (brun clock m (S k) b1 l) as [b2 s2] eqn:E2. inversion H; subst.
      assert (Hl : length (fst bs ++ [e]) = S (length (fst bs)))
        by (rewrite app_length; cbn [length]; lia).
      destruct (enqueue_cases m (clock k) bs e) as [[Em E]|[[_ [E Hlt]]|[_ [E _]]]];
        rewrite E in E1; inversion E1; subst b1 s1.
      + destruct (IH _ _ _ _ Hn Hb E2) as [F Hb']. split; [|exact Hb'].
        subst m. constructor; [cbn [length max_size]; lia|exact F].
      + destruct (IH _ (fst bs ++ [e], snd bs) _ _ Hn Hlt E2) as [F Hb']. split; assumption.
      + destruct (IH _ ([], clock k) _ _ Hn ltac:(cbn [fst length]; lia) E2) as [F Hb'].
        split; [|exact Hb']. constructor; [lia|exact F].
  Qed.

  Theorem batcher_fixed_bound : forall clock n k bs l bs' sent,
    1 <= n -> length (fst bs) < n ->
    brun clock (BFixed n) k bs l = (bs', sent) ->
    Forall (fun b => length b <= n) sent /\ length (fst bs') < n.
  Proof.
    intros clock n k bs l bs' sent Hn Hb H.
    destruct (batcher_bound clock (BFixed n) k bs l bs' sent Hn Hb H) as [F Hb'].
    split; [|exact Hb']. eapply Forall_impl; [|exact F]. cbn [max_size]. intros b Hb0; lia.
  Qed.

  (** (a) every batch sent in [BAdaptive n d] mode has between 1 and n elements, whatever
      the clock *)
  Theorem batcher_adaptive_bound : forall clock n d k bs l bs' sent,
    1 <= n -> length (fst bs) < n ->
    brun clock (BAdaptive n d) k bs l = (bs', sent) ->
    Forall (fun b => 1 <= length b <= n) sent /\ length (fst bs') < n.
  Proof. intros clock n d. exact (batcher_bound clock (BAdaptive n d)). Qed.

  (** every batch sent in [BFixed n] mode (n >= 1, buffer below n) has exactly n elements *)
  Theorem batcher_fixed_exact : forall clock n k bs l bs' sent,
    1 <= n -> length (fst bs) < n ->
    brun clock (BFixed n) k bs l = (bs', sent) ->
    Forall (fun b => length b = n) sent.
  Proof.
    intros clock n k bs l; revert k bs.
    induction l as [|e l IH]; intros k bs bs' sent Hn Hb H; cbn [brun] in H.
    - inversion H; subst. constructor.
    - destruct (enqueue (BFixed n) (clock k) bs e) as [b1 s1] eqn:E1.
      destruct (brun clock (BFixed n) (S k) b1 l) as [b2 s2] eqn:E2. inversion H; subst.
      unfold enqueue in E1. cbv zeta in E1. cbn [fst snd] in E1.
      assert (Hl : length (fst bs ++ [e]) = S (length (fst bs)))
        by (rewrite app_length; cbn [length]; lia).
      destruct (Nat.leb_spec n (length (fst bs ++ [e]))) as [Hle|Hlt].
      + rewrite flush_snoc in E1. inversion E1; subst.
        constructor; [lia|]. eapply (IH _ ([], clock k)); [exact Hn|cbn [fst length]; lia|exact E2].
      + inversion E1; subst. eapply IH; [exact Hn| |exact E2]. cbn [fst]. exact Hlt.
  Qed.
End BatcherProofs.

(* ------------------------------------------------------------------ *)
(** * E1: routing *)

Theorem targets_one : forall s hash rnd n, s <> SAll -> 1 <= n ->
  exists r, targets s hash rnd n = [r] /\ r < n.
Proof.
  intros s hash rnd n Hs Hn. destruct n as [|n]; [lia|].
  exists (N.to_nat (N.modulo (strategy_index s hash rnd) (N.of_nat (S n)))).
  split.
  - destruct s; try reflexivity. congruence.
  - pose proof (N.mod_upper_bound (strategy_index s hash rnd) (N.of_nat (S n))). lia.
Qed.

Theorem targets_all : forall hash rnd n, targets SAll hash rnd n = seq 0 n.
Proof. reflexivity. Qed.

Theorem targets_group_by_key_only : forall hash rnd rnd' n,
  targets SGroupBy hash rnd n = targets SGroupBy hash rnd' n.
Proof. reflexivity. Qed.

Theorem targets_only_one : forall hash rnd, targets SOnlyOne hash rnd 1 = [0].
Proof. reflexivity. Qed.

Lemma targets_lt : forall s hash rnd n r, In r (targets s hash rnd n) -> r < n.
Proof.
  intros s hash rnd n r H. destruct s.
  4:{ cbn [targets] in H. apply in_seq in H. lia. }
  all: destruct n as [|n]; [destruct H|];
    match type of H with In _ (targets ?s0 _ _ _) =>
      destruct (targets_one s0 hash rnd (S n) ltac:(discriminate) ltac:(lia)) as [r0 [E Hr]]
    end;
    rewrite E in H; destruct H as [<-|[]]; exact Hr.
Qed.

Lemma targets_NoDup : forall s hash rnd n, NoDup (targets s hash rnd n).
Proof.
  intros s hash rnd n. destruct s.
  4:{ apply seq_NoDup. }
  all: destruct n as [|n]; [constructor|]; cbn [targets]; constructor; [intros []|constructor].
Qed.

(* ------------------------------------------------------------------ *)
(** * E2: End — per receiver, exactly the sequence emitted towards it *)

(** ** list infrastructure *)
Lemma flat_map_flat_map {X Y Z} (f : X -> list Y) (g : Y -> list Z) (l : list X) :
  flat_map g (flat_map f l) = flat_map (fun x => flat_map g (f x)) l.
Proof.
  induction l as [|x l IH]; cbn [flat_map]; [reflexivity|].
  now rewrite flat_map_app, IH.
Qed.

Lemma flat_map_map {X Y Z} (f : X -> Y) (g : Y -> list Z) (l : list X) :
  flat_map g (map f l) = flat_map (fun x => g (f x)) l.
Proof.
  induction l as [|x l IH]; cbn [flat_map map]; [reflexivity|]. now rewrite IH.
Qed.

Lemma nth_map_in {X Y} (f : X -> Y) l i d d' :
  i < length l -> nth i (map f l) d = f (nth i l d').
Proof.
  intros H. rewrite (nth_indep _ _ (f d')) by (now rewrite map_length). apply map_nth.
Qed.

Lemma upd_nth_aux {X} i (f : X -> X) (d : X) : forall l k j,
  nth j (map (fun '(j0, x) => if Nat.eqb i j0 then f x else x) (combine (seq k (length l)) l)) d
  = if Nat.eqb i (k + j) && Nat.ltb j (length l) then f (nth j l d) else nth j l d.
Proof.
  induction l as [|x l IH]; intros k j.
  - cbn [length seq combine map]. rewrite andb_false_r. destruct j; reflexivity.
  - cbn [length seq combine map]. destruct j as [|j]; cbn [nth].
    + rewrite Nat.add_0_r. destruct (Nat.eqb i k); reflexivity.
    + rewrite IH. replace (S k + j) with (k + S j) by lia.
      change (Nat.ltb (S j) (S (length l))) with (Nat.ltb j (length l)). reflexivity.
Qed.

Lemma nth_upd_nth {X} i (f : X -> X) l j d :
  nth j (upd_nth i f l) d
  = if Nat.eqb i j && Nat.ltb j (length l) then f (nth j l d) else nth j l d.
Proof. unfold upd_nth. now rewrite upd_nth_aux. Qed.

Lemma upd_nth_length {X} i (f : X -> X) l : length (upd_nth i f l) = length l.
Proof.
  unfold upd_nth. now rewrite map_length, combine_length, seq_length, Nat.min_id.
Qed.

(** selecting the entry of index [i] out of an indexed list *)
Lemma pick_nth {X Y} (G : X -> list Y) (d : X) i :
  G d = [] ->
  forall l k,
    flat_map (fun '(j, x) => if Nat.eqb i j then G x else []) (combine (seq k (length l)) l)
    = if Nat.leb k i then G (nth (i - k) l d) else [].
Proof.
  intros Hd. induction l as [|x l IH]; intros k.
  - cbn [length seq combine flat_map]. destruct (Nat.leb k i); [|reflexivity].
    destruct (i - k); cbn [nth]; now rewrite Hd.
  - cbn [length seq combine flat_map]. rewrite IH.
    destruct (Nat.eqb_spec i k) as [->|Hne].
    + rewrite Nat.sub_diag. cbn [nth].
      destruct (Nat.leb_spec (S k) k); [lia|]. destruct (Nat.leb_spec k k); [|lia].
      now rewrite app_nil_r.
    + cbn [app]. destruct (Nat.leb_spec (S k) i), (Nat.leb_spec k i); try lia; try reflexivity.
      replace (i - k) with (S (i - S k)) by lia. reflexivity.
Qed.

Lemma count_NoDup {Y} (e : Y) r (T : list nat) :
  NoDup T ->
  flat_map (fun dr => if Nat.eqb r dr then [e] else []) T
  = if existsb (Nat.eqb r) T then [e] else [].
Proof.
  induction 1 as [|a T Hn Hnd IH]; cbn [flat_map existsb]; [reflexivity|].
  rewrite IH. destruct (Nat.eqb_spec r a) as [->|Hne]; cbn [orb app]; [|reflexivity].
  destruct (existsb (Nat.eqb a) T) eqn:E; [|reflexivity].
  apply existsb_exists in E. destruct E as [y [Hy Hay]].
  apply Nat.eqb_eq in Hay. subst y. contradiction.
Qed.

Lemma existsb_seq r k n : existsb (Nat.eqb r) (seq k n) = Nat.leb k r && Nat.ltb r (k + n).
Proof.
  destruct (existsb (Nat.eqb r) (seq k n)) eqn:E.
  - apply existsb_exists in E. destruct E as [y [Hy Hry]]. apply Nat.eqb_eq in Hry. subst y.
    apply in_seq in Hy. symmetry. apply andb_true_iff. split; [apply Nat.leb_le|apply Nat.ltb_lt]; lia.
  - destruct (Nat.leb_spec k r), (Nat.ltb_spec r (k + n)); try reflexivity. cbn [andb].
    rewrite <- E. apply existsb_exists. exists r. split; [apply in_seq; lia|apply Nat.eqb_refl].
Qed.

Lemma in_combine_seq {X} (d : X) (l : list X) : forall k j x,
  In (j, x) (combine (seq k (length l)) l) -> x = nth (j - k) l d /\ k <= j.
Proof.
  induction l as [|a l IH]; intros k j x H; cbn [length seq combine] in H; [destruct H|].
  destruct H as [H|H].
  - inversion H; subst. rewrite Nat.sub_diag. split; [reflexivity|lia].
  - destruct (IH _ _ _ H) as [E Hk]. split; [|lia].
    replace (j - k) with (S (j - S k)) by lia. exact E.
Qed.

Lemma nth_repeat_lt {X} (x d : X) n r : r < n -> nth r (repeat x n) d = x.
Proof.
  intros H. rewrite (nth_indep _ d x) by (now rewrite repeat_length). apply nth_repeat.
Qed.

Section EndProofs.
  Context {A : Type}.

  (** the batcher of replica [r] of block [b], its buffer and its `last_send` *)
  Definition bs_at (st : @bstates A) (b r : nat) : @bstate A := nth r (nth b st []) ([], 0%N).
  Definition buf_at (st : @bstates A) (b r : nat) : list (elem A) := fst (bs_at st b r).
  Definition last_at (st : @bstates A) (b r : nat) : N := snd (bs_at st b r).
  Definition inr (st : @bstates A) (b r : nat) : Prop :=
    b < length st /\ r < length (nth b st []).
  Definition allmode (m : batch_mode) (st : @bstates A) : Prop :=
    forall b r, mode_ok m (buf_at st b r).

  Definition addressed (s : strategy) (blocks : list nat) (b r : nat) (x : elem A * N * N) : bool :=
    let '(e, hash, rnd) := x in
    match e with
    | Item _ | Tst _ _ => existsb (Nat.eqb r) (targets s hash rnd (nth b blocks 0))
    | Wm _ | FAR | Terminate => true
    | FlushBatch => false
    end.

  Definition flushes (e : elem A) : bool :=
    match e with FAR | Terminate | FlushBatch => true | _ => false end.

  Definition elem_of (x : elem A * N * N) : elem A := fst (fst x).

  (** ** received *)
  Lemma received_app (o1 o2 : @eout A) b r :
    received (o1 ++ o2) b r = received o1 b r ++ received o2 b r.
  Proof. unfold received. apply flat_map_app. Qed.

  Lemma received_send db dr (sent : list (list (elem A))) b r :
    received (map (fun batch => (db, dr, batch)) sent) b r
    = if Nat.eqb b db && Nat.eqb r dr then concat sent else [].
  Proof.
    unfold received. rewrite flat_map_map.
    induction sent as [|x sent IH]; cbn [flat_map concat].
    - destruct (Nat.eqb b db && Nat.eqb r dr); reflexivity.
    - rewrite IH. destruct (Nat.eqb b db && Nat.eqb r dr); reflexivity.
  Qed.

  (** ** state update *)
  Lemma bs_at_upd (st : @bstates A) db dr bs1 b r :
    bs_at (upd_nth db (upd_nth dr (fun _ => bs1)) st) b r
    = if Nat.eqb db b && Nat.ltb b (length st)
      then (if Nat.eqb dr r && Nat.ltb r (length (nth b st [])) then bs1 else bs_at st b r)
      else bs_at st b r.
  Proof.
    unfold bs_at. rewrite nth_upd_nth.
    destruct (Nat.eqb db b && Nat.ltb b (length st)); [|reflexivity].
    now rewrite nth_upd_nth.
  Qed.

  Lemma inr_upd (st : @bstates A) db dr bs1 b r :
    inr st b r -> inr (upd_nth db (upd_nth dr (fun _ => bs1)) st) b r.
  Proof.
    unfold inr. intros [H1 H2]. rewrite upd_nth_length, nth_upd_nth. split; [exact H1|].
    destruct (Nat.eqb db b && Nat.ltb b (length st)); [|exact H2].
    now rewrite upd_nth_length.
  Qed.

  (** what a send towards (db, dr) does to the batcher of (b, r) and to what (b, r) receives *)
  Lemma send_to_at m now (st : @bstates A) db dr e b r :
    inr st b r ->
    inr (fst (send_to m now st db dr e)) b r /\
    bs_at (fst (send_to m now st db dr e)) b r
    = (if Nat.eqb b db && Nat.eqb r dr then fst (enqueue m now (bs_at st db dr) e)
       else bs_at st b r) /\
    received (snd (send_to m now st db dr e)) b r
    = (if Nat.eqb b db && Nat.eqb r dr then concat (snd (enqueue m now (bs_at st db dr) e))
       else []).
  Proof.
    intros Hin. unfold send_to. fold (bs_at st db dr).
    destruct (enqueue m now (bs_at st db dr) e) as [bs1 sent]. cbn [fst snd].
    split; [apply inr_upd; exact Hin|]. destruct Hin as [Hb Hr].
    rewrite received_send, bs_at_upd.
    destruct (Nat.eqb_spec b db) as [->|Hnb].
    - rewrite Nat.eqb_refl. destruct (Nat.ltb_spec db (length st)); [|lia]. cbn [andb].
      destruct (Nat.eqb_spec r dr) as [->|Hnr].
      + rewrite Nat.eqb_refl. destruct (Nat.ltb_spec dr (length (nth db st []))); [|lia].
        cbn [andb]. split; reflexivity.
      + destruct (Nat.eqb_spec dr r); [congruence|]. cbn [andb]. split; reflexivity.
    - destruct (Nat.eqb_spec db b); [congruence|]. cbn [andb]. split; reflexivity.
  Qed.

  (** ** invariants of the form "every batcher satisfies P, every batch sent satisfies Q" *)
  Definition allP (P : @bstate A -> Prop) (st : @bstates A) : Prop := forall b r, P (bs_at st b r).
  Definition allQ (Q : list (elem A) -> Prop) (out : @eout A) : Prop :=
    Forall (fun x => Q (snd x)) out.
  Definition binv (m : batch_mode) (P : @bstate A -> Prop) (Q : list (elem A) -> Prop) : Prop :=
    (forall now bs e, P bs ->
       P (fst (enqueue m now bs e)) /\ Forall Q (snd (enqueue m now bs e))) /\
    (forall now bs, P bs -> P (fst (flush now bs)) /\ Forall Q (snd (flush now bs))).

  Lemma send_to_inv m P Q now (st : @bstates A) db dr e :
    binv m P Q -> allP P st ->
    allP P (fst (send_to m now st db dr e)) /\ allQ Q (snd (send_to m now st db dr e)).
  Proof.
    intros [He _] Hst. unfold send_to. fold (bs_at st db dr).
    destruct (He now (bs_at st db dr) e (Hst db dr)) as [HP HQ].
    destruct (enqueue m now (bs_at st db dr) e) as [bs1 sent]. cbn [fst snd] in *. split.
    - intros b r. rewrite bs_at_upd.
      destruct (Nat.eqb db b && Nat.ltb b (length st)); [|apply Hst].
      destruct (Nat.eqb dr r && Nat.ltb r (length (nth b st []))); [exact HP|apply Hst].
    - unfold allQ. rewrite Forall_map. cbn [snd]. exact HQ.
  Qed.

  Lemma send_many_inv m P Q now e : binv m P Q -> forall dests (st : @bstates A),
    allP P st ->
    allP P (fst (send_many m now st dests e)) /\ allQ Q (snd (send_many m now st dests e)).
  Proof.
    intros Hb. induction dests as [|[db dr] ds IH]; intros st Hst; cbn [send_many].
    - split; [exact Hst|constructor].
    - destruct (send_to_inv m P Q now st db dr e Hb Hst) as [H1 H2].
      destruct (send_to m now st db dr e) as [st1 o1]. cbn [fst snd] in *.
      destruct (IH st1 H1) as [H3 H4].
      destruct (send_many m now st1 ds e) as [st2 o2]. cbn [fst snd] in *.
      split; [exact H3|]. apply Forall_app. split; assumption.
  Qed.

  (** ** flush_all *)
  Lemma bs_at_flush_all now (st : @bstates A) b r :
    bs_at (fst (flush_all now st)) b r = fst (flush now (bs_at st b r)).
  Proof.
    unfold flush_all, bs_at. cbn [fst].
    set (f := fun bs : @bstate A => fst (flush now bs)).
    change (nth r (nth b (map (map f) st) []) ([], 0%N) = f (nth r (nth b st []) ([], 0%N))).
    pose proof (map_nth (map f) st [] b) as H1. cbn [map] in H1. rewrite H1.
    pose proof (map_nth f (nth b st []) ([], 0%N) r) as H2.
    change (f ([], 0%N)) with (@nil (elem A), 0%N) in H2. exact H2.
  Qed.

  Lemma flush_all_inr now (st : @bstates A) b r :
    inr st b r -> inr (fst (flush_all now st)) b r.
  Proof.
    unfold flush_all, inr. cbn [fst]. intros [H1 H2]. rewrite map_length. split; [exact H1|].
    rewrite (nth_map_in _ _ _ _ []) by exact H1. now rewrite map_length.
  Qed.

  Lemma received_flush_all now (st : @bstates A) b r :
    received (snd (flush_all now st)) b r = buf_at st b r.
  Proof.
    unfold flush_all, buf_at, bs_at, received. cbn [snd]. rewrite flat_map_flat_map.
    rewrite (flat_map_ext _
      (fun '(j, per) => if Nat.eqb b j
         then (fun per0 : list (@bstate A) => fst (nth r per0 ([], 0%N))) per else [])).
    - rewrite (pick_nth (fun per0 : list (@bstate A) => fst (nth r per0 ([], 0%N))) [] b).
      + cbn [Nat.leb]. rewrite Nat.sub_0_r. reflexivity.
      + destruct r; reflexivity.
    - intros [j per]. rewrite flat_map_flat_map.
      rewrite (flat_map_ext _
        (fun '(j0, bs) => if Nat.eqb r j0
           then (fun bs0 : @bstate A => if Nat.eqb b j then fst bs0 else []) bs else [])).
      + rewrite (pick_nth (fun bs0 : @bstate A => if Nat.eqb b j then fst bs0 else []) ([], 0%N) r).
        * cbn [Nat.leb]. rewrite Nat.sub_0_r. reflexivity.
        * destruct (Nat.eqb b j); reflexivity.
      + intros [j0 [buf ls]]. rewrite flat_map_map. unfold flush. cbn [fst snd].
        destruct buf as [|x buf]; cbn [flat_map app snd].
        * destruct (Nat.eqb r j0), (Nat.eqb b j); reflexivity.
        * rewrite app_nil_r. destruct (Nat.eqb r j0), (Nat.eqb b j); reflexivity.
  Qed.

  Lemma flush_all_empty now (st : @bstates A) b r : buf_at (fst (flush_all now st)) b r = [].
  Proof. unfold buf_at. rewrite bs_at_flush_all. apply flush_spec. Qed.

  Lemma flush_all_inv m P Q now (st : @bstates A) :
    binv m P Q -> allP P st ->
    allP P (fst (flush_all now st)) /\ allQ Q (snd (flush_all now st)).
  Proof.
    intros [_ Hf] Hst. split.
    - intros b r. rewrite bs_at_flush_all. apply Hf, Hst.
    - unfold allQ, flush_all. cbn [snd]. apply Forall_forall. intros x Hx.
      apply in_flat_map in Hx. destruct Hx as [[b per] [Hbp Hx]].
      apply in_flat_map in Hx. destruct Hx as [[r bs] [Hrb Hx]].
      apply in_map_iff in Hx. destruct Hx as [batch [<- Hbatch]]. cbn [snd].
      destruct (in_combine_seq [] _ _ _ _ Hbp) as [-> _].
      destruct (in_combine_seq ([], 0%N) _ _ _ _ Hrb) as [-> _].
      rewrite !Nat.sub_0_r in Hbatch.
      destruct (Hf now _ (Hst b r)) as [_ HQ]. unfold bs_at in HQ.
      rewrite Forall_forall in HQ. apply HQ. exact Hbatch.
  Qed.

  (** ** how many times a receiver occurs in a destination list *)
  Definition cnt (b r : nat) (e : elem A) (dests : list (nat * nat)) : list (elem A) :=
    flat_map (fun '(db, dr) => if Nat.eqb b db && Nat.eqb r dr then [e] else []) dests.

  Lemma dests_count (T : nat -> list nat) (e : elem A) blocks b r :
    T 0 = [] -> (forall n, NoDup (T n)) ->
    cnt b r e (flat_map (fun '(b0, n) => map (fun r0 => (b0, r0)) (T n))
                (combine (seq 0 (length blocks)) blocks))
    = if existsb (Nat.eqb r) (T (nth b blocks 0)) then [e] else [].
  Proof.
    intros H0 Hnd. unfold cnt. rewrite flat_map_flat_map.
    rewrite (flat_map_ext _
      (fun '(j, n) => if Nat.eqb b j
         then (fun n0 => if existsb (Nat.eqb r) (T n0) then [e] else []) n else [])).
    - rewrite (pick_nth (fun n0 => if existsb (Nat.eqb r) (T n0) then [e] else []) 0 b).
      + cbn [Nat.leb]. rewrite Nat.sub_0_r. reflexivity.
      + rewrite H0. reflexivity.
    - intros [j n]. rewrite flat_map_map.
      destruct (Nat.eqb b j); cbn [andb].
      + apply count_NoDup. apply Hnd.
      + induction (T n) as [|x l IH]; cbn [flat_map]; [reflexivity|]. now rewrite IH.
  Qed.

  Lemma targets_0 s hash rnd : targets s hash rnd 0 = [].
  Proof. destruct s; reflexivity. Qed.

  (** the batchers `End::next` enqueues the element into *)
  Definition dests_of (s : strategy) (blocks : list nat) (x : elem A * N * N) : list (nat * nat) :=
    let '(e, hash, rnd) := x in
    match e with
    | Item _ | Tst _ _ =>
        flat_map (fun '(b, n) => map (fun r => (b, r)) (targets s hash rnd n))
                 (combine (seq 0 (length blocks)) blocks)
    | Wm _ | FAR | Terminate => all_dests blocks
    | FlushBatch => []
    end.

  Lemma dests_of_count s blocks (x : elem A * N * N) (e0 : elem A) b r :
    b < length blocks -> r < nth b blocks 0 ->
    cnt b r e0 (dests_of s blocks x) = if addressed s blocks b r x then [e0] else [].
  Proof.
    intros Hb Hr. destruct x as [[e hash] rnd].
    assert (Hall : cnt b r e0 (all_dests blocks) = [e0]).
    { unfold all_dests. rewrite (dests_count (fun n => seq 0 n)).
      - rewrite existsb_seq. cbn [Nat.leb andb].
        destruct (Nat.ltb_spec r (0 + nth b blocks 0)); [reflexivity|lia].
      - reflexivity.
      - intros n. apply seq_NoDup. }
    assert (Hdata : cnt b r e0
        (flat_map (fun '(b0, n) => map (fun r0 => (b0, r0)) (targets s hash rnd n))
                  (combine (seq 0 (length blocks)) blocks))
      = if existsb (Nat.eqb r) (targets s hash rnd (nth b blocks 0)) then [e0] else []).
    { apply (dests_count (fun n => targets s hash rnd n)).
      - apply targets_0.
      - intros n. apply targets_NoDup. }
    destruct e; cbn [dests_of addressed]; try exact Hall; try exact Hdata. reflexivity.
  Qed.

  (** ** send_many: per receiver, nothing lost or reordered *)
  Lemma allmode_binv m : binv m (fun bs : @bstate A => mode_ok m (fst bs)) (fun _ => True).
  Proof.
    split.
    - intros now bs e H. destruct (enqueue m now bs e) as [bs1 sent] eqn:E.
      destruct (enqueue_spec _ _ _ _ _ _ E H) as [H1 _]. cbn [fst snd].
      split; [exact H1|]. apply Forall_forall. intros; exact I.
    - intros now bs H. split; [|apply Forall_forall; intros; exact I].
      destruct (flush_spec now bs) as [_ [E _]]. rewrite E. intros _; reflexivity.
  Qed.

  Lemma send_many_spec m now e b r : forall dests (st : @bstates A) st' out,
    send_many m now st dests e = (st', out) -> inr st b r -> allmode m st ->
    inr st' b r /\ allmode m st' /\
    received out b r ++ buf_at st' b r = buf_at st b r ++ cnt b r e dests.
  Proof.
    induction dests as [|[db dr] ds IH]; intros st st' out H Hin Hm; cbn [send_many] in H.
    - inversion H; subst. cbn [cnt flat_map]. split; [exact Hin|]. split; [exact Hm|].
      unfold received; cbn [flat_map app]. now rewrite app_nil_r.
    - destruct (send_to_at m now st db dr e b r Hin) as [Hin1 [Hbs Hrc]].
      destruct (send_to_inv m _ _ now st db dr e (allmode_binv m) Hm) as [Hm1 _].
      destruct (send_to m now st db dr e) as [st1 o1] eqn:E1. cbn [fst snd] in *.
      destruct (send_many m now st1 ds e) as [st2 o2] eqn:E2. inversion H; subst st' out; clear H.
      destruct (IH _ _ _ E2 Hin1 Hm1) as [Hin2 [Hm2 Hs2]].
      split; [exact Hin2|]. split; [exact Hm2|].
      unfold cnt. cbn [flat_map]. fold (cnt b r e ds).
      rewrite received_app, <- app_assoc, Hs2, !app_assoc. f_equal.
      unfold buf_at at 1. rewrite Hrc, Hbs.
      destruct (Nat.eqb b db && Nat.eqb r dr) eqn:Eq.
      + apply andb_true_iff in Eq. destruct Eq as [Eb Er].
        apply Nat.eqb_eq in Eb. apply Nat.eqb_eq in Er. subst db dr.
        destruct (enqueue m now (bs_at st b r) e) as [bs1 sent] eqn:E.
        cbn [fst snd]. exact (proj2 (enqueue_spec _ _ _ _ _ _ E (Hm b r))).
      + cbn [app]. now rewrite app_nil_r.
  Qed.

  (** ** `End::next` as "enqueue towards the destinations, then flush everything if the
      element is FlushAndRestart / Terminate / FlushBatch" *)
  Definition step_norm clock s m blocks (st : @estate A) (x : elem A * N * N) : @estate A * @eout A :=
    let now := clock (fst st) in
    let '(st1, o1) := send_many m now (snd st) (dests_of s blocks x) (elem_of x) in
    let '(st2, o2) := if flushes (elem_of x) then flush_all now st1 else (st1, []) in
    ((S (fst st), st2), o1 ++ o2).

  Lemma end_step_norm clock s m blocks (st : @estate A) x :
    end_step clock s m blocks st x = step_norm clock s m blocks st x.
  Proof.
    destruct st as [k bst], x as [[e hash] rnd].
    unfold end_step, step_norm, elem_of. cbn [fst snd].
    destruct e; cbn [dests_of flushes send_many].
    - destruct (send_many _ _ _ _ _) as [st1 o1]. now rewrite app_nil_r.
    - destruct (send_many _ _ _ _ _) as [st1 o1]. now rewrite app_nil_r.
    - destruct (send_many _ _ _ _ _) as [st1 o1]. now rewrite app_nil_r.
    - destruct (flush_all _ _) as [st2 o2]. reflexivity.
    - destruct (send_many _ _ _ _ _) as [st1 o1]. destruct (flush_all _ _) as [st2 o2]. reflexivity.
    - destruct (send_many _ _ _ _ _) as [st1 o1]. destruct (flush_all _ _) as [st2 o2]. reflexivity.
  Qed.

  (** ** one step of End *)
  Lemma end_step_spec clock s m blocks (st : @estate A) x st' out b r :
    b < length blocks -> r < nth b blocks 0 ->
    end_step clock s m blocks st x = (st', out) -> inr (snd st) b r -> allmode m (snd st) ->
    fst st' = S (fst st) /\ inr (snd st') b r /\ allmode m (snd st') /\
    received out b r ++ buf_at (snd st') b r
    = buf_at (snd st) b r ++ (if addressed s blocks b r x then [elem_of x] else []) /\
    (flushes (elem_of x) = true -> buf_at (snd st') b r = []).
  Proof.
    intros Hb Hr H Hin Hm. rewrite end_step_norm in H. unfold step_norm in H.
    destruct (send_many m (clock (fst st)) (snd st) (dests_of s blocks x) (elem_of x))
      as [st1 o1] eqn:E1.
    destruct (send_many_spec _ _ _ b r _ _ _ _ E1 Hin Hm) as [Hin1 [Hm1 Hs1]].
    rewrite (dests_of_count s blocks x (elem_of x) b r Hb Hr) in Hs1.
    destruct (flushes (elem_of x)).
    - pose proof (flush_all_inr (clock (fst st)) st1 b r Hin1) as Hin2.
      pose proof (received_flush_all (clock (fst st)) st1 b r) as Hrc.
      pose proof (flush_all_empty (clock (fst st)) st1) as Hemp.
      destruct (flush_all (clock (fst st)) st1) as [st2 o2]. cbn [fst snd] in *.
      inversion H; subst st' out; clear H. cbn [fst snd].
      split; [reflexivity|]. split; [exact Hin2|].
      split; [intros b0 r0 _; apply Hemp|]. split; [|intros _; apply Hemp].
      rewrite received_app, Hrc, Hemp, app_nil_r. exact Hs1.
    - inversion H; subst st' out; clear H. cbn [fst snd].
      split; [reflexivity|]. split; [exact Hin1|]. split; [exact Hm1|].
      split; [|discriminate]. rewrite app_nil_r. exact Hs1.
  Qed.

  Lemma end_step_inv clock s m blocks P Q (st : @estate A) x :
    binv m P Q -> allP P (snd st) ->
    allP P (snd (fst (end_step clock s m blocks st x))) /\
    allQ Q (snd (end_step clock s m blocks st x)).
  Proof.
    intros Hb Hst. rewrite end_step_norm. unfold step_norm.
    destruct (send_many_inv m P Q (clock (fst st)) (elem_of x) Hb (dests_of s blocks x) _ Hst)
      as [H1 H2].
    destruct (send_many m (clock (fst st)) (snd st) (dests_of s blocks x) (elem_of x))
      as [st1 o1]. cbn [fst snd] in *.
    destruct (flushes (elem_of x)).
    - destruct (flush_all_inv m P Q (clock (fst st)) st1 Hb H1) as [H3 H4].
      destruct (flush_all (clock (fst st)) st1) as [st2 o2]. cbn [fst snd] in *.
      split; [exact H3|]. apply Forall_app. split; assumption.
    - cbn [fst snd]. split; [exact H1|]. apply Forall_app. split; [exact H2|constructor].
  Qed.

  (** ** the run invariants, from an arbitrary state *)
  Lemma run_from_cons clock t0 s m blocks (st : @estate A) x l :
    run_from (end_machine clock t0 s m blocks) st (x :: l)
    = let '(st1, o1) := end_step clock s m blocks st x in
      let '(st2, o2) := run_from (end_machine clock t0 s m blocks) st1 l in (st2, o1 ++ o2).
  Proof. reflexivity. Qed.

  Lemma end_run_spec clock t0 s m blocks b r :
    b < length blocks -> r < nth b blocks 0 ->
    forall l (st : @estate A) st' out,
      run_from (end_machine clock t0 s m blocks) st l = (st', out) ->
      inr (snd st) b r -> allmode m (snd st) ->
      fst st' = fst st + length l /\ inr (snd st') b r /\ allmode m (snd st') /\
      received out b r ++ buf_at (snd st') b r
      = buf_at (snd st) b r ++ map (fun x => fst (fst x)) (filter (addressed s blocks b r) l).
  Proof.
    intros Hb Hr. induction l as [|x l IH]; intros st st' out H Hin Hm.
    - cbn [run_from] in H. inversion H; subst. cbn [filter map length].
      split; [lia|]. split; [exact Hin|]. split; [exact Hm|]. unfold received. cbn [flat_map app].
      now rewrite app_nil_r.
    - rewrite run_from_cons in H.
      destruct (end_step clock s m blocks st x) as [st1 o1] eqn:E1.
      destruct (run_from (end_machine clock t0 s m blocks) st1 l) as [st2 o2] eqn:E2.
      inversion H; subst st' out; clear H.
      destruct (end_step_spec _ _ _ _ _ _ _ _ _ _ Hb Hr E1 Hin Hm) as [Hk1 [Hin1 [Hm1 [Hs1 _]]]].
      destruct (IH _ _ _ E2 Hin1 Hm1) as [Hk2 [Hin2 [Hm2 Hs2]]].
      split; [cbn [length]; lia|]. split; [exact Hin2|]. split; [exact Hm2|].
      rewrite received_app, <- app_assoc, Hs2, app_assoc, Hs1, <- app_assoc. f_equal.
      cbn [filter]. unfold elem_of. destruct (addressed s blocks b r x); reflexivity.
  Qed.

  Lemma end_run_inv clock t0 s m blocks P Q : binv m P Q ->
    forall l (st : @estate A), allP P (snd st) ->
      allP P (snd (fst (run_from (end_machine clock t0 s m blocks) st l))) /\
      allQ Q (snd (run_from (end_machine clock t0 s m blocks) st l)).
  Proof.
    intros Hb. induction l as [|x l IH]; intros st Hst.
    - cbn [run_from fst snd]. split; [exact Hst|constructor].
    - rewrite run_from_cons.
      destruct (end_step_inv clock s m blocks P Q st x Hb Hst) as [H1 H2].
      destruct (end_step clock s m blocks st x) as [st1 o1]. cbn [fst snd] in *.
      destruct (IH st1 H1) as [H3 H4].
      destruct (run_from (end_machine clock t0 s m blocks) st1 l) as [st2 o2]. cbn [fst snd] in *.
      split; [exact H3|]. apply Forall_app. split; assumption.
  Qed.

  (** ** the initial state *)
  Lemma einit_inr t0 blocks b r :
    b < length blocks -> r < nth b blocks 0 -> inr (snd (@einit A t0 blocks)) b r.
  Proof.
    intros Hb Hr. unfold inr, einit. cbn [snd]. rewrite map_length. split; [exact Hb|].
    rewrite (nth_map_in _ _ _ _ 0) by exact Hb. now rewrite repeat_length.
  Qed.

  Lemma einit_empty t0 blocks b r : buf_at (snd (@einit A t0 blocks)) b r = [].
  Proof.
    unfold buf_at, bs_at, einit. cbn [snd]. destruct (Nat.ltb_spec b (length blocks)) as [Hlt|Hge].
    - rewrite (nth_map_in _ _ _ _ 0) by exact Hlt.
      destruct (Nat.ltb_spec r (nth b blocks 0)) as [Hr|Hr].
      + now rewrite nth_repeat_lt by exact Hr.
      + rewrite nth_overflow by (now rewrite repeat_length). reflexivity.
    - rewrite (nth_overflow (map _ blocks)) by (rewrite map_length; exact Hge).
      destruct r; reflexivity.
  Qed.

  Lemma einit_last t0 blocks b r :
    b < length blocks -> r < nth b blocks 0 -> last_at (snd (@einit A t0 blocks)) b r = t0.
  Proof.
    intros Hb Hr. unfold last_at, bs_at, einit. cbn [snd].
    rewrite (nth_map_in _ _ _ _ 0) by exact Hb.
    now rewrite nth_repeat_lt by exact Hr.
  Qed.

  Lemma einit_allmode m t0 blocks : allmode m (snd (@einit A t0 blocks)).
  Proof. intros b0 r0 _. apply einit_empty. Qed.

  (** the state of End after pulling [l], and what the theorems observe of it *)
  Definition end_state clock t0 s m blocks (l : list (elem A * N * N)) : @estate A :=
    fst (run_from (end_machine clock t0 s m blocks) (einit t0 blocks) l).
  Definition steps_of (st : @estate A) : nat := fst st.
  Definition buffer_of (st : @estate A) (b r : nat) : list (elem A) := buf_at (snd st) b r.
  Definition last_send_of (st : @estate A) (b r : nat) : N := last_at (snd st) b r.

  Lemma end_state_run clock t0 s m blocks l :
    run_from (end_machine clock t0 s m blocks) (einit t0 blocks) l
    = (end_state clock t0 s m blocks l, run (end_machine clock t0 s m blocks) l).
  Proof. unfold end_state, run. cbn [minit end_machine]. now destruct (run_from _ _ l). Qed.

  Lemma end_state_snoc clock t0 s m blocks l x :
    end_state clock t0 s m blocks (l ++ [x])
    = fst (end_step clock s m blocks (end_state clock t0 s m blocks l) x) /\
    run (end_machine clock t0 s m blocks) (l ++ [x])
    = run (end_machine clock t0 s m blocks) l
      ++ snd (end_step clock s m blocks (end_state clock t0 s m blocks l) x).
  Proof.
    pose proof (end_state_run clock t0 s m blocks (l ++ [x])) as H.
    rewrite run_from_app, end_state_run in H. rewrite run_from_cons in H.
    destruct (end_step clock s m blocks (end_state clock t0 s m blocks l) x) as [st2 o2].
    cbn [run_from] in H. rewrite app_nil_r in H. inversion H. cbn [fst snd]. split; reflexivity.
  Qed.

  (** the run from the initial state: the sequence invariant *)
  Lemma end_init_spec clock t0 s m blocks l b r :
    b < length blocks -> r < nth b blocks 0 ->
    steps_of (end_state clock t0 s m blocks l) = length l /\
    inr (snd (end_state clock t0 s m blocks l)) b r /\
    allmode m (snd (end_state clock t0 s m blocks l)) /\
    received (run (end_machine clock t0 s m blocks) l) b r
      ++ buffer_of (end_state clock t0 s m blocks l) b r
    = map (fun x => fst (fst x)) (filter (addressed s blocks b r) l).
  Proof.
    intros Hb Hr.
    destruct (end_run_spec clock t0 s m blocks b r Hb Hr l _ _ _
                (end_state_run clock t0 s m blocks l) (einit_inr _ _ _ _ Hb Hr)
                (einit_allmode m t0 blocks)) as [Hk [Hin [Hm Hs]]].
    rewrite einit_empty in Hs. cbn [app] in Hs. cbn [einit fst] in Hk.
    repeat (split; [assumption|]). exact Hs.
  Qed.

  (** ** everything buffered is delivered by a flushing element *)
  Lemma end_link_flush clock t0 s m blocks l x b r :
    b < length blocks -> r < nth b blocks 0 -> flushes (fst (fst x)) = true ->
    received (run (end_machine clock t0 s m blocks) (l ++ [x])) b r
    = map (fun x => fst (fst x)) (filter (addressed s blocks b r) l)
      ++ (if addressed s blocks b r x then [fst (fst x)] else []).
  Proof.
    intros Hb Hr Hf.
    destruct (end_init_spec clock t0 s m blocks l b r Hb Hr) as [_ [Hin1 [Hm1 Hs1]]].
    destruct (end_state_snoc clock t0 s m blocks l x) as [_ ->].
    destruct (end_step clock s m blocks (end_state clock t0 s m blocks l) x) as [st2 o2] eqn:E2.
    destruct (end_step_spec _ _ _ _ _ _ _ _ b r Hb Hr E2 Hin1 Hm1) as [_ [_ [_ [Hs2 He]]]].
    rewrite (He Hf), app_nil_r in Hs2. cbn [snd].
    rewrite received_app, Hs2, app_assoc. unfold buffer_of in Hs1. now rewrite Hs1.
  Qed.

  Theorem end_link_sequence :
    forall clock t0 s m blocks (l : list (elem A * N * N)) hash rnd b r,
      b < length blocks -> r < nth b blocks 0 ->
      (forall x, In x l -> fst (fst x) <> Terminate) ->
      (match m with BFixed n => 1 <= n | BAdaptive n _ => 1 <= n | BSingle => True end) ->
      received (run (end_machine clock t0 s m blocks) (l ++ [(Terminate, hash, rnd)])) b r
      = map (fun x => fst (fst x)) (filter (addressed s blocks b r) l) ++ [Terminate].
  Proof.
    intros clock t0 s m blocks l hash rnd b r Hb Hr _ _.
    now rewrite (end_link_flush clock t0 s m blocks l (Terminate, hash, rnd) b r Hb Hr eq_refl).
  Qed.

  Theorem end_round_flushed :
    forall clock t0 s m blocks (l : list (elem A * N * N)) hash rnd b r,
      b < length blocks -> r < nth b blocks 0 ->
      (forall x, In x l -> fst (fst x) <> Terminate) ->
      (match m with BFixed n => 1 <= n | BAdaptive n _ => 1 <= n | BSingle => True end) ->
      received (run (end_machine clock t0 s m blocks) (l ++ [(FAR, hash, rnd)])) b r
      = map (fun x => fst (fst x)) (filter (addressed s blocks b r) l) ++ [FAR].
  Proof.
    intros clock t0 s m blocks l hash rnd b r Hb Hr _ _.
    now rewrite (end_link_flush clock t0 s m blocks l (FAR, hash, rnd) b r Hb Hr eq_refl).
  Qed.

  Theorem end_flushbatch_flushed :
    forall clock t0 s m blocks (l : list (elem A * N * N)) hash rnd b r,
      b < length blocks -> r < nth b blocks 0 ->
      (forall x, In x l -> fst (fst x) <> Terminate) ->
      (match m with BFixed n => 1 <= n | BAdaptive n _ => 1 <= n | BSingle => True end) ->
      received (run (end_machine clock t0 s m blocks) (l ++ [(FlushBatch, hash, rnd)])) b r
      = map (fun x => fst (fst x)) (filter (addressed s blocks b r) l).
  Proof.
    intros clock t0 s m blocks l hash rnd b r Hb Hr _ _.
    rewrite (end_link_flush clock t0 s m blocks l (FlushBatch, hash, rnd) b r Hb Hr eq_refl).
    cbn [addressed]. now rewrite app_nil_r.
  Qed.

  (** mid-stream safety: at any point what a receiver got is a prefix of what was addressed
      to it (the remainder is exactly its buffer) *)
  Theorem end_prefix :
    forall clock t0 s m blocks (l : list (elem A * N * N)) b r,
      b < length blocks -> r < nth b blocks 0 ->
      exists buf,
        received (run (end_machine clock t0 s m blocks) l) b r ++ buf
        = map (fun x => fst (fst x)) (filter (addressed s blocks b r) l).
  Proof.
    intros clock t0 s m blocks l b r Hb Hr.
    destruct (end_init_spec clock t0 s m blocks l b r Hb Hr) as [_ [_ [_ Hs]]].
    eexists. exact Hs.
  Qed.

  (** ... and that buffer is exactly what was addressed to the receiver and not yet sent *)
  Theorem end_buffer_pending :
    forall clock t0 s m blocks (l : list (elem A * N * N)) b r,
      b < length blocks -> r < nth b blocks 0 ->
      received (run (end_machine clock t0 s m blocks) l) b r
        ++ buffer_of (end_state clock t0 s m blocks l) b r
      = map (fun x => fst (fst x)) (filter (addressed s blocks b r) l).
  Proof. intros clock t0 s m blocks l b r Hb Hr. now apply end_init_spec. Qed.

  (* ---------------------------------------------------------------- *)
  (** * E2b: the adaptive mode *)

  (** (c) the sequence theorem in the adaptive mode, for EVERY clock: per receiver the
      concatenation of the batches is exactly the addressed subsequence, in order *)
  Corollary adaptive_link_sequence :
    forall clock t0 s n d blocks (l : list (elem A * N * N)) hash rnd b r,
      b < length blocks -> r < nth b blocks 0 ->
      received (run (end_machine clock t0 s (BAdaptive n d) blocks) (l ++ [(Terminate, hash, rnd)])) b r
      = map (fun x => fst (fst x)) (filter (addressed s blocks b r) l) ++ [Terminate].
  Proof.
    intros clock t0 s n d blocks l hash rnd b r Hb Hr.
    now rewrite (end_link_flush clock t0 s _ blocks l (Terminate, hash, rnd) b r Hb Hr eq_refl).
  Qed.

  (** the clock decides only WHERE the batches are cut: with two arbitrary clocks (and even
      two different adaptive parameters) every receiver gets the same sequence *)
  Corollary adaptive_clock_irrelevant :
    forall clock1 t01 clock2 t02 s n1 d1 n2 d2 blocks (l : list (elem A * N * N)) hash rnd b r,
      b < length blocks -> r < nth b blocks 0 ->
      received (run (end_machine clock1 t01 s (BAdaptive n1 d1) blocks) (l ++ [(Terminate, hash, rnd)])) b r
      = received (run (end_machine clock2 t02 s (BAdaptive n2 d2) blocks) (l ++ [(Terminate, hash, rnd)])) b r.
  Proof.
    intros. now rewrite !(end_link_flush _ _ _ _ _ l (Terminate, hash, rnd) b r) by auto.
  Qed.

  (** (a) size of the batches, for every mode with a positive size and every clock *)
  Lemma bound_binv m : 1 <= max_size m ->
    binv m (fun bs : @bstate A => length (fst bs) < max_size m)
           (fun batch => 1 <= length batch <= max_size m).
  Proof.
    intros Hn. split.
    - intros now bs e Hb.
      assert (Hl : length (fst bs ++ [e]) = S (length (fst bs)))
        by (rewrite app_length; cbn [length]; lia).
      destruct (enqueue_cases m now bs e) as [[Em E]|[[_ [E Hlt]]|[_ [E _]]]];
        rewrite E; cbn [fst snd].
      + split; [exact Hb|]. subst m. repeat constructor.
      + split; [exact Hlt|constructor].
      + split; [cbn [length]; lia|]. constructor; [lia|constructor].
    - intros now bs Hb. destruct (flush_spec now bs) as [E _]. rewrite E.
      destruct (fst bs) as [|x buf] eqn:Eb; cbn [fst snd].
      + rewrite Eb. split; [exact Hb|constructor].
      + split; [cbn [length]; lia|]. constructor; [cbn [length] in *; lia|constructor].
  Qed.

  Theorem end_batch_bound :
    forall clock t0 s m blocks (l : list (elem A * N * N)),
      1 <= max_size m ->
      Forall (fun '(b, r, batch) => 1 <= length batch <= max_size m)
             (run (end_machine clock t0 s m blocks) l).
  Proof.
    intros clock t0 s m blocks l Hn.
    destruct (end_run_inv clock t0 s m blocks _ _ (bound_binv m Hn) l (einit t0 blocks)) as [_ H].
    - intros b r. fold (buf_at (snd (@einit A t0 blocks)) b r). rewrite einit_empty.
      cbn [length]. lia.
    - unfold allQ in H. eapply Forall_impl; [|exact H]. intros [[b r] batch]. cbn [snd]. auto.
  Qed.

  Theorem adaptive_batch_bound :
    forall clock t0 s n d blocks (l : list (elem A * N * N)),
      1 <= n ->
      Forall (fun '(b, r, batch) => 1 <= length batch <= n)
             (run (end_machine clock t0 s (BAdaptive n d) blocks) l).
  Proof. intros clock t0 s n d. exact (end_batch_bound clock t0 s (BAdaptive n d)). Qed.

  (** (b) a late element flushes *)
  Lemma send_many_track m now e b r : forall dests (st : @bstates A),
    inr st b r ->
    (cnt b r e dests = [] ->
       bs_at (fst (send_many m now st dests e)) b r = bs_at st b r) /\
    (cnt b r e dests = [e] ->
       bs_at (fst (send_many m now st dests e)) b r = fst (enqueue m now (bs_at st b r) e)).
  Proof.
    induction dests as [|[db dr] ds IH]; intros st Hin; cbn [send_many].
    - cbn [fst cnt flat_map]. split; [reflexivity|discriminate].
    - destruct (send_to_at m now st db dr e b r Hin) as [Hin1 [Hbs _]].
      destruct (send_to m now st db dr e) as [st1 o1]. cbn [fst] in *.
      destruct (IH st1 Hin1) as [IH1 IH2].
      destruct (send_many m now st1 ds e) as [st2 o2]. cbn [fst] in *.
      unfold cnt. cbn [flat_map]. fold (cnt b r e ds).
      destruct (Nat.eqb b db && Nat.eqb r dr) eqn:Eq.
      + apply andb_true_iff in Eq. destruct Eq as [Eb Er].
        apply Nat.eqb_eq in Eb. apply Nat.eqb_eq in Er. subst db dr.
        split; [discriminate|]. intros H. cbn [app] in H. inversion H as [H'].
        rewrite (IH1 H'). exact Hbs.
      + cbn [app]. rewrite <- Hbs. split; assumption.
  Qed.

  Lemma enqueue_late n d now (bs : @bstate A) e :
    (d < now - snd bs)%N -> enqueue (BAdaptive n d) now bs e = (([], now), [fst bs ++ [e]]).
  Proof.
    intros H. unfold enqueue. cbv zeta. cbn [fst snd].
    apply N.ltb_lt in H. rewrite H, orb_true_r. apply flush_snoc.
  Qed.

  Theorem adaptive_late_flush :
    forall clock t0 s n d blocks (l : list (elem A * N * N)) x b r,
      b < length blocks -> r < nth b blocks 0 ->
      addressed s blocks b r x = true ->
      (d < clock (length l)
           - last_send_of (end_state clock t0 s (BAdaptive n d) blocks l) b r)%N ->
      buffer_of (end_state clock t0 s (BAdaptive n d) blocks (l ++ [x])) b r = [] /\
      received (run (end_machine clock t0 s (BAdaptive n d) blocks) (l ++ [x])) b r
      = map (fun x => fst (fst x)) (filter (addressed s blocks b r) (l ++ [x])).
  Proof.
    intros clock t0 s n d blocks l x b r Hb Hr Ha Hlate.
    set (m := BAdaptive n d) in *.
    destruct (end_init_spec clock t0 s m blocks l b r Hb Hr) as [Hk [Hin _]].
    destruct (end_init_spec clock t0 s m blocks (l ++ [x]) b r Hb Hr) as [_ [_ [_ Hs]]].
    assert (He : buffer_of (end_state clock t0 s m blocks (l ++ [x])) b r = []).
    { destruct (end_state_snoc clock t0 s m blocks l x) as [-> _].
      rewrite end_step_norm. unfold step_norm.
      set (st := end_state clock t0 s m blocks l) in *. unfold steps_of in Hk. rewrite Hk.
      destruct (send_many_track m (clock (length l)) (elem_of x) b r (dests_of s blocks x) (snd st) Hin)
        as [_ Ht].
      rewrite (dests_of_count s blocks x (elem_of x) b r Hb Hr), Ha in Ht.
      specialize (Ht eq_refl).
      destruct (send_many m (clock (length l)) (snd st) (dests_of s blocks x) (elem_of x))
        as [st1 o1]. cbn [fst] in Ht.
      destruct (flushes (elem_of x)).
      - pose proof (flush_all_empty (clock (length l)) st1 b r) as Hemp.
        destruct (flush_all (clock (length l)) st1) as [st2 o2]. exact Hemp.
      - unfold buffer_of, buf_at. cbn [fst snd]. rewrite Ht.
        unfold m. rewrite enqueue_late by exact Hlate. reflexivity. }
    split; [exact He|]. rewrite He, app_nil_r in Hs. exact Hs.
  Qed.

  (** what `last_send` is: the reading at setup until something is sent to the receiver,
      then the reading of the last step that sent it a batch (not in `Single` mode, which
      sends without touching `last_send`) *)
  Definition upd_last (ls now : N) (rcv : list (elem A)) : N :=
    match rcv with [] => ls | _ => now end.

  Lemma upd_last_app ls now r1 r2 :
    upd_last (upd_last ls now r1) now r2 = upd_last ls now (r1 ++ r2).
  Proof. destruct r1, r2; reflexivity. Qed.

  Lemma send_many_last m now e b r : m <> BSingle -> forall dests (st : @bstates A),
    inr st b r ->
    inr (fst (send_many m now st dests e)) b r /\
    last_at (fst (send_many m now st dests e)) b r
    = upd_last (last_at st b r) now (received (snd (send_many m now st dests e)) b r).
  Proof.
    intros Hm. induction dests as [|[db dr] ds IH]; intros st Hin; cbn [send_many].
    - cbn [fst snd]. split; [exact Hin|reflexivity].
    - destruct (send_to_at m now st db dr e b r Hin) as [Hin1 [Hbs Hrc]].
      destruct (send_to m now st db dr e) as [st1 o1]. cbn [fst snd] in *.
      destruct (IH st1 Hin1) as [Hin2 IH2].
      destruct (send_many m now st1 ds e) as [st2 o2]. cbn [fst snd] in *.
      split; [exact Hin2|].
      rewrite received_app, <- upd_last_app, IH2. f_equal.
      unfold last_at at 1. rewrite Hbs, Hrc.
      destruct (Nat.eqb b db && Nat.eqb r dr) eqn:Eq; [|reflexivity].
      apply andb_true_iff in Eq. destruct Eq as [Eb Er].
      apply Nat.eqb_eq in Eb. apply Nat.eqb_eq in Er. subst db dr.
      destruct (enqueue_cases m now (bs_at st b r) e) as [[Em _]|[[_ [E _]]|[_ [E _]]]];
        [contradiction| |]; rewrite E; cbn [fst snd concat]; [reflexivity|].
      destruct (fst (bs_at st b r)); reflexivity.
  Qed.

  Lemma flush_all_last now (st : @bstates A) b r :
    last_at (fst (flush_all now st)) b r
    = upd_last (last_at st b r) now (received (snd (flush_all now st)) b r).
  Proof.
    unfold last_at. rewrite bs_at_flush_all, received_flush_all. unfold buf_at.
    destruct (flush_spec now (bs_at st b r)) as [_ [_ [E _]]]. rewrite E.
    destruct (fst (bs_at st b r)); reflexivity.
  Qed.

  Theorem last_send_init : forall clock t0 s m blocks b r,
    b < length blocks -> r < nth b blocks 0 ->
    last_send_of (end_state clock t0 s m blocks []) b r = t0.
  Proof. intros. unfold last_send_of, end_state. cbn [run_from fst]. now apply einit_last. Qed.

  Theorem last_send_step : forall clock t0 s m blocks (l : list (elem A * N * N)) x b r,
    m <> BSingle -> b < length blocks -> r < nth b blocks 0 ->
    last_send_of (end_state clock t0 s m blocks (l ++ [x])) b r
    = match received (snd (end_step clock s m blocks (end_state clock t0 s m blocks l) x)) b r with
      | [] => last_send_of (end_state clock t0 s m blocks l) b r
      | _ => clock (length l)
      end.
  Proof.
    intros clock t0 s m blocks l x b r Hm Hb Hr.
    destruct (end_init_spec clock t0 s m blocks l b r Hb Hr) as [Hk [Hin _]].
    destruct (end_state_snoc clock t0 s m blocks l x) as [-> _].
    rewrite end_step_norm. unfold step_norm.
    set (st := end_state clock t0 s m blocks l) in *. unfold steps_of in Hk. rewrite Hk.
    destruct (send_many_last m (clock (length l)) (elem_of x) b r Hm (dests_of s blocks x) (snd st) Hin)
      as [Hin1 Hl1].
    destruct (send_many m (clock (length l)) (snd st) (dests_of s blocks x) (elem_of x))
      as [st1 o1]. cbn [fst snd] in *.
    change (match received ?o b r with [] => ?a | _ => ?c end) with (upd_last a c (received o b r)).
    destruct (flushes (elem_of x)).
    - pose proof (flush_all_last (clock (length l)) st1 b r) as Hl2.
      destruct (flush_all (clock (length l)) st1) as [st2 o2]. cbn [fst snd] in *.
      unfold last_send_of. cbn [snd]. rewrite received_app, <- upd_last_app, Hl2, Hl1. reflexivity.
    - unfold last_send_of. cbn [fst snd]. rewrite app_nil_r. exact Hl1.
  Qed.

  (* ---------------------------------------------------------------- *)
  (** * E3 *)
  Definition is_ctrl (e : elem A) : bool :=
    match e with Wm _ | FAR | Terminate => true | _ => false end.

  Lemma filter_map_filter {X Y} (p : Y -> bool) (q : X -> bool) (f : X -> Y) (l : list X) :
    (forall x, p (f x) = true -> q x = true) ->
    filter p (map f (filter q l)) = filter p (map f l).
  Proof.
    intros H. induction l as [|x l IH]; cbn [filter map]; [reflexivity|].
    destruct (q x) eqn:Q; cbn [filter map].
    - now rewrite IH.
    - destruct (p (f x)) eqn:P; [rewrite (H _ P) in Q; discriminate|exact IH].
  Qed.

  Lemma addressed_ctrl s blocks b r (x : elem A * N * N) :
    is_ctrl (fst (fst x)) = true -> addressed s blocks b r x = true.
  Proof. destruct x as [[e h] rn]; destruct e; cbn; congruence. Qed.

  (** every watermark / FlushAndRestart / Terminate of the input reaches every replica of
      every downstream block, in input order *)
  Corollary end_control_reaches_all :
    forall clock t0 s m blocks (l : list (elem A * N * N)) hash rnd b r,
      b < length blocks -> r < nth b blocks 0 ->
      (forall x, In x l -> fst (fst x) <> Terminate) ->
      (match m with BFixed n => 1 <= n | BAdaptive n _ => 1 <= n | BSingle => True end) ->
      filter is_ctrl (received (run (end_machine clock t0 s m blocks) (l ++ [(Terminate, hash, rnd)])) b r)
      = filter is_ctrl (map (fun x => fst (fst x)) l) ++ [Terminate].
  Proof.
    intros clock t0 s m blocks l hash rnd b r Hb Hr Hl Hm.
    rewrite (end_link_sequence clock t0 s m blocks l hash rnd b r Hb Hr Hl Hm).
    rewrite filter_app. cbn [filter is_ctrl]. f_equal.
    apply filter_map_filter. intros x. apply addressed_ctrl.
  Qed.

  (** for non-All strategies a data element is addressed to exactly one replica of each
      downstream block *)
  Corollary end_data_once_per_block :
    forall s blocks b (x : elem A * N * N),
      is_data (fst (fst x)) = true -> s <> SAll -> 1 <= nth b blocks 0 ->
      exists r0, r0 < nth b blocks 0 /\
        forall r, addressed s blocks b r x = true <-> r = r0.
  Proof.
    intros s blocks b [[e h] rn] Hd Hs Hn. cbn [fst] in Hd.
    destruct (targets_one s h rn (nth b blocks 0) Hs Hn) as [r0 [E Hr0]].
    exists r0. split; [exact Hr0|]. intros r.
    destruct e; try discriminate; cbn [addressed]; rewrite E; cbn [existsb];
      rewrite orb_false_r; apply Nat.eqb_eq.
  Qed.

  (** with [SAll] a data element is addressed to every replica (and to nothing else) *)
  Corollary end_data_all :
    forall blocks b r (x : elem A * N * N),
      is_data (fst (fst x)) = true ->
      (addressed SAll blocks b r x = true <-> r < nth b blocks 0).
  Proof.
    intros blocks b r [[e h] rn] Hd. cbn [fst] in Hd.
    destruct e; try discriminate; cbn [addressed targets]; rewrite existsb_seq;
      cbn [Nat.leb andb Nat.add]; apply Nat.ltb_lt.
  Qed.

  (** group-by: the receiving replica of a data element depends only on the key hash (and the
      block's replica count): two data elements with equal hashes — from any producer, with
      any random draw — are addressed to the same replica *)
  Corollary group_by_same_replica :
    forall blocks b r (e1 e2 : elem A) hash rnd1 rnd2,
      is_data e1 = true -> is_data e2 = true ->
      addressed SGroupBy blocks b r (e1, hash, rnd1) = addressed SGroupBy blocks b r (e2, hash, rnd2).
  Proof.
    intros blocks b r e1 e2 hash rnd1 rnd2 H1 H2.
    destruct e1; try discriminate; destruct e2; try discriminate; reflexivity.
  Qed.
End EndProofs.

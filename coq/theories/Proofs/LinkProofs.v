(** Proofs about the link models: wire framing (F1-F3), Batcher (B1), routing (E1),
    End operator per-receiver sequence (E2) and its corollaries (E3). *)
From Noir Require Import Base.Elem Model.End Model.Framing.
From Coq Require Import NArith ZifyBool.
Local Open Scope Z_scope.

(* ------------------------------------------------------------------ *)
(** * Generic list helpers *)

Lemma firstn_app_exact {X} (n : nat) (l1 l2 : list X) :
  length l1 = n -> firstn n (l1 ++ l2) = l1.
Proof.
  intros <-. rewrite firstn_app, Nat.sub_diag, firstn_all. cbn [firstn].
  now rewrite app_nil_r.
Qed.

Lemma skipn_app_exact {X} (n : nat) (l1 l2 : list X) :
  length l1 = n -> skipn n (l1 ++ l2) = l2.
Proof.
  intros <-. rewrite skipn_app, Nat.sub_diag, skipn_all. reflexivity.
Qed.

(* ------------------------------------------------------------------ *)
(** * F1: little-endian round trip *)

Lemma le_bytes_length : forall n x, length (le_bytes n x) = n.
Proof.
  induction n as [|n IH]; intros x; cbn [le_bytes length]; [reflexivity|].
  now rewrite IH.
Qed.

(** holds for every [x] (hence in particular for [x >= 0]) *)
Lemma le_bytes_are_bytes : forall n x, Forall is_byte (le_bytes n x).
Proof.
  induction n as [|n IH]; intros x; cbn [le_bytes]; constructor.
  - unfold is_byte. apply Z.mod_pos_bound. lia.
  - apply IH.
Qed.

Lemma le_bytes_bytes_nonneg : forall n x, 0 <= x -> Forall is_byte (le_bytes n x).
Proof. intros n x _. apply le_bytes_are_bytes. Qed.

Lemma le_value_bytes : forall n x, 0 <= x < 256 ^ Z.of_nat n -> le_value (le_bytes n x) = x.
Proof.
  induction n as [|n IH]; intros x H; cbn [le_bytes le_value].
  - change (256 ^ Z.of_nat 0) with 1 in H. lia.
  - rewrite Nat2Z.inj_succ, Z.pow_succ_r in H by lia.
    rewrite IH.
    + pose proof (Z.div_mod x 256). lia.
    + split.
      * apply Z.div_pos; lia.
      * apply Z.div_lt_upper_bound; lia.
Qed.

(* ------------------------------------------------------------------ *)
(** * F2: header round trip *)

Lemma encode_header_length : forall h, length (encode_header h) = HEADER_SIZE.
Proof.
  intros h. unfold encode_header. rewrite !app_length, !le_bytes_length. reflexivity.
Qed.

Theorem decode_encode_header : forall h,
  0 <= h_size h < 2^32 -> 0 <= h_replica h < 2^64 -> 0 <= h_block h < 2^64 ->
  decode_header (encode_header h) = h.
Proof.
  intros [sz rp bl]. cbn [h_size h_replica h_block]. intros Hs Hr Hb.
  unfold decode_header, encode_header. cbn [h_size h_replica h_block].
  assert (E4 : 256 ^ Z.of_nat 4 = 2^32) by reflexivity.
  assert (E8 : 256 ^ Z.of_nat 8 = 2^64) by reflexivity.
  f_equal.
  - rewrite (firstn_app_exact 4) by apply le_bytes_length.
    apply le_value_bytes. rewrite E4. exact Hs.
  - rewrite (skipn_app_exact 4) by apply le_bytes_length.
    rewrite (firstn_app_exact 8) by apply le_bytes_length.
    apply le_value_bytes. rewrite E8. exact Hr.
  - rewrite app_assoc.
    rewrite (skipn_app_exact 12) by (rewrite app_length, !le_bytes_length; reflexivity).
    rewrite <- (app_nil_r (le_bytes 8 bl)).
    rewrite (firstn_app_exact 8) by apply le_bytes_length.
    apply le_value_bytes. rewrite E8. exact Hb.
Qed.

(* ------------------------------------------------------------------ *)
(** * F3: stream round trip *)

Lemma decode_stream_frame : forall f r b body l,
  0 <= r < 2^64 -> 0 <= b < 2^64 -> Z.of_nat (length body) < 2^32 ->
  decode_stream (S f) (frame r b body ++ l) =
  match decode_stream f l with
  | Some fs => Some (({| h_size := Z.of_nat (length body); h_replica := r; h_block := b |}, body) :: fs)
  | None => None
  end.
Proof.
  intros f r b body l Hr Hb Hbody.
  unfold frame.
  set (h := {| h_size := Z.of_nat (length body); h_replica := r; h_block := b |}).
  rewrite <- app_assoc. cbn [decode_stream].
  destruct (Nat.ltb_spec (length (encode_header h ++ body ++ l)) HEADER_SIZE) as [H|_].
  { rewrite app_length, encode_header_length in H. lia. }
  rewrite (firstn_app_exact HEADER_SIZE) by apply encode_header_length.
  rewrite (skipn_app_exact HEADER_SIZE) by apply encode_header_length.
  rewrite decode_encode_header.
  2:{ subst h; cbn [h_size]. lia. }
  2:{ subst h; cbn [h_replica]. exact Hr. }
  2:{ subst h; cbn [h_block]. exact Hb. }
  replace (Z.to_nat (h_size h)) with (length body) by (subst h; cbn [h_size]; lia).
  destruct (Nat.ltb_spec (length (body ++ l)) (length body)) as [H|_].
  { rewrite app_length in H. lia. }
  rewrite (skipn_app_exact (length body)) by reflexivity.
  rewrite (firstn_app_exact (length body)) by reflexivity.
  reflexivity.
Qed.

Theorem decode_encode_stream :
  forall (msgs : list (Z * Z * list Z)) (rest : list Z) fuel,
    (length msgs < fuel)%nat ->
    (length rest < HEADER_SIZE)%nat ->
    Forall (fun m => let '(r, b, body) := m in
              0 <= r < 2^64 /\ 0 <= b < 2^64 /\ Z.of_nat (length body) < 2^32) msgs ->
    decode_stream fuel
      (concat (map (fun m => let '(r, b, body) := m in frame r b body) msgs) ++ rest)
    = Some (map (fun m => let '(r, b, body) := m in
                   ({| h_size := Z.of_nat (length body); h_replica := r; h_block := b |}, body))
                msgs).
Proof.
  induction msgs as [|[[r b] body] msgs IH]; intros rest fuel Hf Hrest Hall.
  - cbn [map concat app]. destruct fuel as [|f]; [reflexivity|].
    cbn [decode_stream].
    destruct (Nat.ltb_spec (length rest) HEADER_SIZE) as [_|H]; [reflexivity|lia].
  - destruct fuel as [|f]; [cbn [length] in Hf; lia|].
    inversion Hall as [|x xs Hh Hall']; subst x xs.
    cbv beta iota in Hh. destruct Hh as [Hr [Hb Hbody]].
    cbn [map concat]. rewrite <- app_assoc.
    rewrite decode_stream_frame by assumption.
    rewrite IH.
    + reflexivity.
    + cbn [length] in Hf. lia.
    + exact Hrest.
    + exact Hall'.
Qed.

(* ------------------------------------------------------------------ *)
(** * B1: Batcher *)
Local Close Scope Z_scope.
Local Open Scope nat_scope.

Section BatcherProofs.
  Context {A : Type}.

  Fixpoint brun (m : batch_mode) (buf : list (elem A)) (l : list (elem A))
    : list (elem A) * list (list (elem A)) :=
    match l with
    | [] => (buf, [])
    | e :: l' =>
        let '(b1, s1) := enqueue m buf e in
        let '(b2, s2) := brun m b1 l' in
        (b2, s1 ++ s2)
    end.

  (** In `Single` mode the buffer is never used: it is (and stays) empty. *)
  Definition mode_ok (m : batch_mode) (buf : list (elem A)) : Prop :=
    m = BSingle -> buf = [].

  Lemma enqueue_spec m buf e buf1 sent :
    enqueue m buf e = (buf1, sent) ->
    mode_ok m buf ->
    mode_ok m buf1 /\ concat sent ++ buf1 = buf ++ [e].
  Proof.
    unfold enqueue, mode_ok. destruct m as [n|].
    - destruct (Nat.leb n (length (buf ++ [e]))); intros H _; inversion H; subst; split;
        try discriminate; cbn [concat app]; now rewrite ?app_nil_r.
    - intros H Hm. inversion H; subst. rewrite (Hm eq_refl). split; [reflexivity|].
      reflexivity.
  Qed.

  (** COUNTEREXAMPLE to the unconditional statement: in [BSingle] mode a non-empty initial
      buffer is never sent, so the order is not [buf ++ l]. *)
  Example batcher_sequence_counterexample :
    let '(buf', sent) := brun BSingle [Wm 1%Z] [Wm 2%Z : elem A] in
    concat sent ++ buf' = [Wm 2%Z; Wm 1%Z] /\ concat sent ++ buf' <> [Wm 1%Z] ++ [Wm 2%Z].
  Proof. cbn. split; [reflexivity|discriminate]. Qed.

  Theorem batcher_sequence : forall m buf l buf' sent,
    mode_ok m buf ->
    brun m buf l = (buf', sent) -> concat sent ++ buf' = buf ++ l.
  Proof.
    intros m buf l; revert buf. induction l as [|e l IH]; intros buf buf' sent Hm H; cbn [brun] in H.
    - inversion H; subst. cbn [concat app]. now rewrite app_nil_r.
    - destruct (enqueue m buf e) as [b1 s1] eqn:E1.
      destruct (brun m b1 l) as [b2 s2] eqn:E2. inversion H; subst.
      destruct (enqueue_spec _ _ _ _ _ E1 Hm) as [Hm1 Hs].
      specialize (IH _ _ _ Hm1 E2).
      rewrite concat_app, <- app_assoc, IH, app_assoc, Hs, <- app_assoc. reflexivity.
  Qed.

  (** the [BFixed] instance needs no side condition at all *)
  Corollary batcher_sequence_fixed : forall n buf l buf' sent,
    brun (BFixed n) buf l = (buf', sent) -> concat sent ++ buf' = buf ++ l.
  Proof. intros n buf l buf' sent. apply batcher_sequence. discriminate. Qed.

  (** holds for every mode, also [BFixed 0] *)
  Theorem batcher_batches_nonempty : forall m buf l buf' sent,
    brun m buf l = (buf', sent) -> Forall (fun b => b <> []) sent.
  Proof.
    intros m buf l; revert buf. induction l as [|e l IH]; intros buf buf' sent H; cbn [brun] in H.
    - inversion H; constructor.
    - destruct (enqueue m buf e) as [b1 s1] eqn:E1.
      destruct (brun m b1 l) as [b2 s2] eqn:E2. inversion H; subst.
      apply Forall_app; split; [|eapply IH; eassumption].
      unfold enqueue in E1. destruct m as [n|].
      + destruct (Nat.leb n (length (buf ++ [e]))); inversion E1; subst; constructor; [|constructor].
        destruct buf; discriminate.
      + inversion E1; subst. constructor; [discriminate|constructor].
  Qed.

  Theorem batcher_fixed_bound : forall n buf l buf' sent,
    1 <= n -> length buf < n ->
    brun (BFixed n) buf l = (buf', sent) ->
    Forall (fun b => length b <= n) sent /\ length buf' < n.
  Proof.
    intros n buf l; revert buf. induction l as [|e l IH]; intros buf buf' sent Hn Hb H; cbn [brun] in H.
    - inversion H; subst. split; [constructor|assumption].
    - destruct (enqueue (BFixed n) buf e) as [b1 s1] eqn:E1.
      destruct (brun (BFixed n) b1 l) as [b2 s2] eqn:E2. inversion H; subst.
      unfold enqueue in E1.
      assert (Hl : length (buf ++ [e]) = S (length buf)) by (rewrite app_length; cbn [length]; lia).
      destruct (Nat.leb_spec n (length (buf ++ [e]))) as [Hle|Hlt]; inversion E1; subst.
      + destruct (IH [] _ _ Hn ltac:(cbn [length]; lia) E2) as [F Hb'].
        split; [|exact Hb']. constructor; [lia|exact F].
      + destruct (IH _ _ _ Hn Hlt E2) as [F Hb']. split; assumption.
  Qed.

  (** every batch sent in [BFixed n] mode (n >= 1, buffer below n) has exactly n elements *)
  Theorem batcher_fixed_exact : forall n buf l buf' sent,
    1 <= n -> length buf < n ->
    brun (BFixed n) buf l = (buf', sent) ->
    Forall (fun b => length b = n) sent.
  Proof.
    intros n buf l; revert buf. induction l as [|e l IH]; intros buf buf' sent Hn Hb H; cbn [brun] in H.
    - inversion H; subst. constructor.
    - destruct (enqueue (BFixed n) buf e) as [b1 s1] eqn:E1.
      destruct (brun (BFixed n) b1 l) as [b2 s2] eqn:E2. inversion H; subst.
      unfold enqueue in E1.
      assert (Hl : length (buf ++ [e]) = S (length buf)) by (rewrite app_length; cbn [length]; lia).
      destruct (Nat.leb_spec n (length (buf ++ [e]))) as [Hle|Hlt]; inversion E1; subst.
      + constructor; [lia|]. eapply (IH []); [exact Hn|cbn [length]; lia|exact E2].
      + eapply IH; eassumption.
  Qed.

  Theorem flush_spec : forall buf : list (elem A),
    fst (flush buf) = [] /\
    snd (flush buf) = (match buf with [] => [] | _ => [buf] end) /\
    concat (snd (flush buf)) = buf /\
    Forall (fun b => b <> []) (snd (flush buf)).
  Proof.
    intros [|e buf]; cbn [flush fst snd concat app]; repeat split; try constructor;
      try discriminate; try constructor. now rewrite app_nil_r.
  Qed.
End BatcherProofs.

(* ------------------------------------------------------------------ *)
(** * E1: routing *)

Theorem targets_one : forall s hash rnd n, s <> SAll -> 1 <= n ->
  exists r, targets s hash rnd n = [r] /\ r < n.
Proof.
  intros s hash rnd n Hs Hn. destruct n as [|n]; [lia|].
  exists (N.to_nat (N.modulo (strategy_index s hash rnd) (N.of_nat (S n)))).
  split.
  - destruct s; try reflexivity. congruence.
  - pose proof (N.mod_upper_bound (strategy_index s hash rnd) (N.of_nat (S n))). lia.
Qed.

Theorem targets_all : forall hash rnd n, targets SAll hash rnd n = seq 0 n.
Proof. reflexivity. Qed.

Theorem targets_group_by_key_only : forall hash rnd rnd' n,
  targets SGroupBy hash rnd n = targets SGroupBy hash rnd' n.
Proof. reflexivity. Qed.

Theorem targets_only_one : forall hash rnd, targets SOnlyOne hash rnd 1 = [0].
Proof. reflexivity. Qed.

Lemma targets_lt : forall s hash rnd n r, In r (targets s hash rnd n) -> r < n.
Proof.
  intros s hash rnd n r H. destruct s.
  4:{ cbn [targets] in H. apply in_seq in H. lia. }
  all: destruct n as [|n]; [destruct H|];
    match type of H with In _ (targets ?s0 _ _ _) =>
      destruct (targets_one s0 hash rnd (S n) ltac:(discriminate) ltac:(lia)) as [r0 [E Hr]]
    end;
    rewrite E in H; destruct H as [<-|[]]; exact Hr.
Qed.

Lemma targets_NoDup : forall s hash rnd n, NoDup (targets s hash rnd n).
Proof.
  intros s hash rnd n. destruct s.
  4:{ apply seq_NoDup. }
  all: destruct n as [|n]; [constructor|]; cbn [targets]; constructor; [intros []|constructor].
Qed.

(* ------------------------------------------------------------------ *)
(** * E2: End — per receiver, exactly the sequence emitted towards it *)

(** ** list infrastructure *)
Lemma flat_map_flat_map {X Y Z} (f : X -> list Y) (g : Y -> list Z) (l : list X) :
  flat_map g (flat_map f l) = flat_map (fun x => flat_map g (f x)) l.
Proof.
  induction l as [|x l IH]; cbn [flat_map]; [reflexivity|].
  now rewrite flat_map_app, IH.
Qed.

Lemma flat_map_map {X Y Z} (f : X -> Y) (g : Y -> list Z) (l : list X) :
  flat_map g (map f l) = flat_map (fun x => g (f x)) l.
Proof.
  induction l as [|x l IH]; cbn [flat_map map]; [reflexivity|]. now rewrite IH.
Qed.

Lemma nth_map_in {X Y} (f : X -> Y) l i d d' :
  i < length l -> nth i (map f l) d = f (nth i l d').
Proof.
  intros H. rewrite (nth_indep _ _ (f d')) by (now rewrite map_length). apply map_nth.
Qed.

Lemma upd_nth_aux {X} i (f : X -> X) (d : X) : forall l k j,
  nth j (map (fun '(j0, x) => if Nat.eqb i j0 then f x else x) (combine (seq k (length l)) l)) d
  = if Nat.eqb i (k + j) && Nat.ltb j (length l) then f (nth j l d) else nth j l d.
Proof.
  induction l as [|x l IH]; intros k j.
  - cbn [length seq combine map]. rewrite andb_false_r. destruct j; reflexivity.
  - cbn [length seq combine map]. destruct j as [|j]; cbn [nth].
    + rewrite Nat.add_0_r. destruct (Nat.eqb i k); reflexivity.
    + rewrite IH. replace (S k + j) with (k + S j) by lia.
      change (Nat.ltb (S j) (S (length l))) with (Nat.ltb j (length l)). reflexivity.
Qed.

Lemma nth_upd_nth {X} i (f : X -> X) l j d :
  nth j (upd_nth i f l) d
  = if Nat.eqb i j && Nat.ltb j (length l) then f (nth j l d) else nth j l d.
Proof. unfold upd_nth. now rewrite upd_nth_aux. Qed.

Lemma upd_nth_length {X} i (f : X -> X) l : length (upd_nth i f l) = length l.
Proof.
  unfold upd_nth. now rewrite map_length, combine_length, seq_length, Nat.min_id.
Qed.

(** selecting the entry of index [i] out of an indexed list *)
Lemma pick_nth {X Y} (G : X -> list Y) (d : X) i :
  G d = [] ->
  forall l k,
    flat_map (fun '(j, x) => if Nat.eqb i j then G x else []) (combine (seq k (length l)) l)
    = if Nat.leb k i then G (nth (i - k) l d) else [].
Proof.
  intros Hd. induction l as [|x l IH]; intros k.
  - cbn [length seq combine flat_map]. destruct (Nat.leb k i); [|reflexivity].
    destruct (i - k); cbn [nth]; now rewrite Hd.
  - cbn [length seq combine flat_map]. rewrite IH.
    destruct (Nat.eqb_spec i k) as [->|Hne].
    + rewrite Nat.sub_diag. cbn [nth].
      destruct (Nat.leb_spec (S k) k); [lia|]. destruct (Nat.leb_spec k k); [|lia].
      now rewrite app_nil_r.
    + cbn [app]. destruct (Nat.leb_spec (S k) i), (Nat.leb_spec k i); try lia; try reflexivity.
      replace (i - k) with (S (i - S k)) by lia. reflexivity.
Qed.

Lemma count_NoDup {Y} (e : Y) r (T : list nat) :
  NoDup T ->
  flat_map (fun dr => if Nat.eqb r dr then [e] else []) T
  = if existsb (Nat.eqb r) T then [e] else [].
Proof.
  induction 1 as [|a T Hn Hnd IH]; cbn [flat_map existsb]; [reflexivity|].
  rewrite IH. destruct (Nat.eqb_spec r a) as [->|Hne]; cbn [orb app]; [|reflexivity].
  destruct (existsb (Nat.eqb a) T) eqn:E; [|reflexivity].
  apply existsb_exists in E. destruct E as [y [Hy Hay]].
  apply Nat.eqb_eq in Hay. subst y. contradiction.
Qed.

Lemma existsb_seq r k n : existsb (Nat.eqb r) (seq k n) = Nat.leb k r && Nat.ltb r (k + n).
Proof.
  destruct (existsb (Nat.eqb r) (seq k n)) eqn:E.
  - apply existsb_exists in E. destruct E as [y [Hy Hry]]. apply Nat.eqb_eq in Hry. subst y.
    apply in_seq in Hy. symmetry. apply andb_true_iff. split; [apply Nat.leb_le|apply Nat.ltb_lt]; lia.
  - destruct (Nat.leb_spec k r), (Nat.ltb_spec r (k + n)); try reflexivity. cbn [andb].
    rewrite <- E. apply existsb_exists. exists r. split; [apply in_seq; lia|apply Nat.eqb_refl].
Qed.

Section EndProofs.
  Context {A : Type}.

  Definition buf_at (st : @estate A) (b r : nat) : list (elem A) := nth r (nth b st []) [].
  Definition inr (st : @estate A) (b r : nat) : Prop :=
    b < length st /\ r < length (nth b st []).
  Definition allmode (m : batch_mode) (st : @estate A) : Prop :=
    forall b r, mode_ok m (buf_at st b r).

  Definition addressed (s : strategy) (blocks : list nat) (b r : nat) (x : elem A * N * N) : bool :=
    let '(e, hash, rnd) := x in
    match e with
    | Item _ | Tst _ _ => existsb (Nat.eqb r) (targets s hash rnd (nth b blocks 0))
    | Wm _ | FAR | Terminate => true
    | FlushBatch => false
    end.

  Definition flushes (e : elem A) : bool :=
    match e with FAR | Terminate | FlushBatch => true | _ => false end.

  (** ** received *)
  Lemma received_app (o1 o2 : @eout A) b r :
    received (o1 ++ o2) b r = received o1 b r ++ received o2 b r.
  Proof. unfold received. apply flat_map_app. Qed.

  Lemma received_send db dr (sent : list (list (elem A))) b r :
    received (map (fun batch => (db, dr, batch)) sent) b r
    = if Nat.eqb b db && Nat.eqb r dr then concat sent else [].
  Proof.
    unfold received. rewrite flat_map_map.
    induction sent as [|x sent IH]; cbn [flat_map concat].
    - destruct (Nat.eqb b db && Nat.eqb r dr); reflexivity.
    - rewrite IH. destruct (Nat.eqb b db && Nat.eqb r dr); reflexivity.
  Qed.

  (** ** state update *)
  Lemma buf_at_upd (st : @estate A) db dr buf1 b r :
    buf_at (upd_nth db (upd_nth dr (fun _ => buf1)) st) b r
    = if Nat.eqb db b && Nat.ltb b (length st)
      then (if Nat.eqb dr r && Nat.ltb r (length (nth b st [])) then buf1 else buf_at st b r)
      else buf_at st b r.
  Proof.
    unfold buf_at. rewrite nth_upd_nth.
    destruct (Nat.eqb db b && Nat.ltb b (length st)); [|reflexivity].
    now rewrite nth_upd_nth.
  Qed.

  Lemma inr_upd (st : @estate A) db dr buf1 b r :
    inr st b r -> inr (upd_nth db (upd_nth dr (fun _ => buf1)) st) b r.
  Proof.
    unfold inr. intros [H1 H2]. rewrite upd_nth_length, nth_upd_nth. split; [exact H1|].
    destruct (Nat.eqb db b && Nat.ltb b (length st)); [|exact H2].
    now rewrite upd_nth_length.
  Qed.

  Lemma send_to_spec m (st : @estate A) db dr e st' out b r :
    send_to m st db dr e = (st', out) -> inr st b r -> allmode m st ->
    inr st' b r /\ allmode m st' /\
    received out b r ++ buf_at st' b r
    = buf_at st b r ++ (if Nat.eqb b db && Nat.eqb r dr then [e] else []).
  Proof.
    unfold send_to. fold (buf_at st db dr).
    destruct (enqueue m (buf_at st db dr) e) as [buf1 sent] eqn:E.
    intros H Hin Hm. inversion H; subst st' out; clear H.
    destruct (enqueue_spec _ _ _ _ _ E (Hm db dr)) as [Hm1 Hs].
    split; [apply inr_upd; exact Hin|]. split.
    - intros b0 r0. rewrite buf_at_upd.
      destruct (Nat.eqb db b0 && Nat.ltb b0 (length st)); [|apply Hm].
      destruct (Nat.eqb dr r0 && Nat.ltb r0 (length (nth b0 st []))); [exact Hm1|apply Hm].
    - rewrite received_send, buf_at_upd. destruct Hin as [Hb Hr].
      destruct (Nat.eqb_spec b db) as [->|Hnb].
      + rewrite Nat.eqb_refl. destruct (Nat.ltb_spec db (length st)); [|lia]. cbn [andb].
        destruct (Nat.eqb_spec r dr) as [->|Hnr].
        * rewrite Nat.eqb_refl. destruct (Nat.ltb_spec dr (length (nth db st []))); [|lia].
          cbn [andb]. exact Hs.
        * destruct (Nat.eqb_spec dr r); [congruence|]. cbn [andb app]. now rewrite app_nil_r.
      + destruct (Nat.eqb_spec db b); [congruence|]. cbn [andb app]. now rewrite app_nil_r.
  Qed.

  Lemma send_many_spec m e b r : forall dests (st : @estate A) st' out,
    send_many m st dests e = (st', out) -> inr st b r -> allmode m st ->
    inr st' b r /\ allmode m st' /\
    received out b r ++ buf_at st' b r
    = buf_at st b r ++
      flat_map (fun '(db, dr) => if Nat.eqb b db && Nat.eqb r dr then [e] else []) dests.
  Proof.
    induction dests as [|[db dr] ds IH]; intros st st' out H Hin Hm; cbn [send_many] in H.
    - inversion H; subst. cbn [flat_map]. split; [exact Hin|]. split; [exact Hm|].
      unfold received; cbn [flat_map app]. now rewrite app_nil_r.
    - destruct (send_to m st db dr e) as [st1 o1] eqn:E1.
      destruct (send_many m st1 ds e) as [st2 o2] eqn:E2. inversion H; subst st' out; clear H.
      destruct (send_to_spec _ _ _ _ _ _ _ _ _ E1 Hin Hm) as [Hin1 [Hm1 Hs1]].
      destruct (IH _ _ _ E2 Hin1 Hm1) as [Hin2 [Hm2 Hs2]].
      split; [exact Hin2|]. split; [exact Hm2|].
      cbn [flat_map]. rewrite received_app, <- app_assoc, Hs2, app_assoc, Hs1, <- app_assoc.
      reflexivity.
  Qed.

  (** ** flush_all *)
  Lemma nth_map_nil {X Y} (per : list X) r : nth r (map (fun _ => @nil Y) per) [] = [].
  Proof. revert r; induction per as [|x per IH]; intros [|r]; cbn [map nth]; auto. Qed.

  Lemma flush_all_spec (st : @estate A) st' out b r :
    flush_all st = (st', out) ->
    (inr st b r -> inr st' b r) /\ (forall b0 r0, buf_at st' b0 r0 = []) /\
    received out b r = buf_at st b r.
  Proof.
    unfold flush_all. intros H. inversion H; subst st' out; clear H. split; [|split].
    - unfold inr. intros [H1 H2]. rewrite map_length. split; [exact H1|].
      rewrite (nth_map_in _ _ _ _ []) by exact H1.
      now rewrite map_length.
    - intros b0 r0. unfold buf_at.
      destruct (Nat.ltb_spec b0 (length st)) as [Hlt|Hge].
      + rewrite (nth_map_in _ _ _ _ []) by exact Hlt.
        apply nth_map_nil.
      + rewrite (nth_overflow (map _ st)) by (rewrite map_length; exact Hge).
        destruct r0; reflexivity.
    - unfold received. rewrite flat_map_flat_map.
      rewrite (flat_map_ext _
        (fun '(j, per) => if Nat.eqb b j
           then (fun per0 : list (list (elem A)) => nth r per0 []) per else [])).
      + rewrite (pick_nth (fun per0 : list (list (elem A)) => nth r per0 []) [] b).
        * cbn [Nat.leb]. rewrite Nat.sub_0_r. reflexivity.
        * destruct r; reflexivity.
      + intros [j per]. rewrite flat_map_flat_map.
        rewrite (flat_map_ext _
          (fun '(j0, buf) => if Nat.eqb r j0
             then (fun buf0 : list (elem A) => if Nat.eqb b j then buf0 else []) buf else [])).
        * rewrite (pick_nth (fun buf0 : list (elem A) => if Nat.eqb b j then buf0 else []) [] r).
          -- cbn [Nat.leb]. rewrite Nat.sub_0_r. reflexivity.
          -- destruct (Nat.eqb b j); reflexivity.
        * intros [j0 buf]. destruct buf as [|x buf]; cbn [flat_map app].
          -- destruct (Nat.eqb r j0), (Nat.eqb b j); reflexivity.
          -- rewrite app_nil_r. destruct (Nat.eqb r j0), (Nat.eqb b j); reflexivity.
  Qed.

  (** ** how many times a receiver occurs in a destination list *)
  Lemma dests_count (T : nat -> list nat) (e : elem A) blocks b r :
    T 0 = [] -> (forall n, NoDup (T n)) ->
    flat_map (fun '(db, dr) => if Nat.eqb b db && Nat.eqb r dr then [e] else [])
      (flat_map (fun '(b0, n) => map (fun r0 => (b0, r0)) (T n))
                (combine (seq 0 (length blocks)) blocks))
    = if existsb (Nat.eqb r) (T (nth b blocks 0)) then [e] else [].
  Proof.
    intros H0 Hnd. rewrite flat_map_flat_map.
    rewrite (flat_map_ext _
      (fun '(j, n) => if Nat.eqb b j
         then (fun n0 => if existsb (Nat.eqb r) (T n0) then [e] else []) n else [])).
    - rewrite (pick_nth (fun n0 => if existsb (Nat.eqb r) (T n0) then [e] else []) 0 b).
      + cbn [Nat.leb]. rewrite Nat.sub_0_r. reflexivity.
      + rewrite H0. reflexivity.
    - intros [j n]. rewrite flat_map_map.
      destruct (Nat.eqb b j); cbn [andb].
      + apply count_NoDup. apply Hnd.
      + induction (T n) as [|x l IH]; cbn [flat_map]; [reflexivity|]. now rewrite IH.
  Qed.

  Lemma targets_0 s hash rnd : targets s hash rnd 0 = [].
  Proof. destruct s; reflexivity. Qed.

  (** ** one step of End *)
  Lemma end_step_spec s m blocks (st : @estate A) x st' out b r :
    b < length blocks -> r < nth b blocks 0 ->
    end_step s m blocks st x = (st', out) -> inr st b r -> allmode m st ->
    inr st' b r /\ allmode m st' /\
    received out b r ++ buf_at st' b r
    = buf_at st b r ++ (if addressed s blocks b r x then [fst (fst x)] else []) /\
    (flushes (fst (fst x)) = true -> buf_at st' b r = []).
  Proof.
    intros Hb Hr H Hin Hm. destruct x as [[e hash] rnd]. cbn [fst].
    assert (Hall : forall e0 : elem A,
      flat_map (fun '(db, dr) => if Nat.eqb b db && Nat.eqb r dr then [e0] else [])
               (all_dests blocks) = [e0]).
    { intros e0. unfold all_dests. rewrite (dests_count (fun n => seq 0 n)).
      - rewrite existsb_seq. cbn [Nat.leb andb]. destruct (Nat.ltb_spec r (0 + nth b blocks 0)); [reflexivity|lia].
      - reflexivity.
      - intros n. apply seq_NoDup. }
    assert (Hdata : forall e0 : elem A,
      flat_map (fun '(db, dr) => if Nat.eqb b db && Nat.eqb r dr then [e0] else [])
        (flat_map (fun '(b0, n) => map (fun r0 => (b0, r0)) (targets s hash rnd n))
                  (combine (seq 0 (length blocks)) blocks))
      = if existsb (Nat.eqb r) (targets s hash rnd (nth b blocks 0)) then [e0] else []).
    { intros e0. apply (dests_count (fun n => targets s hash rnd n)).
      - apply targets_0.
      - intros n. apply targets_NoDup. }
    assert (Hflush : forall e0 (st0 : @estate A) st1 o1,
      send_many m st0 (all_dests blocks) e0 = (st1, o1) -> inr st0 b r -> allmode m st0 ->
      forall st2 o2, flush_all st1 = (st2, o2) ->
      inr st2 b r /\ allmode m st2 /\
      received (o1 ++ o2) b r ++ buf_at st2 b r = buf_at st0 b r ++ [e0] /\
      buf_at st2 b r = []).
    { intros e0 st0 st1 o1 E1 Hin0 Hm0 st2 o2 E2.
      destruct (send_many_spec _ _ b r _ _ _ _ E1 Hin0 Hm0) as [Hin1 [Hm1 Hs1]].
      rewrite Hall in Hs1.
      destruct (flush_all_spec _ _ _ b r E2) as [Hin2 [Hemp Hrec]].
      split; [exact (Hin2 Hin1)|]. split; [intros b0 r0 _; apply Hemp|].
      split; [|apply Hemp].
      rewrite received_app, Hrec, Hemp, app_nil_r. exact Hs1. }
    cbn [end_step] in H.
    destruct e as [v|v t|t| | |]; cbn [addressed flushes].
    - destruct (send_many_spec _ _ b r _ _ _ _ H Hin Hm) as [Hin1 [Hm1 Hs1]].
      rewrite Hdata in Hs1. repeat (split; [assumption|]). discriminate.
    - destruct (send_many_spec _ _ b r _ _ _ _ H Hin Hm) as [Hin1 [Hm1 Hs1]].
      rewrite Hdata in Hs1. repeat (split; [assumption|]). discriminate.
    - destruct (send_many_spec _ _ b r _ _ _ _ H Hin Hm) as [Hin1 [Hm1 Hs1]].
      rewrite Hall in Hs1. repeat (split; [assumption|]). discriminate.
    - destruct (flush_all_spec _ _ _ b r H) as [Hin2 [Hemp Hrec]].
      split; [exact (Hin2 Hin)|]. split; [intros b0 r0 _; apply Hemp|].
      split; [|intros _; apply Hemp].
      rewrite Hrec, Hemp, !app_nil_r. reflexivity.
    - destruct (send_many m st (all_dests blocks) Terminate) as [st1 o1] eqn:E1.
      destruct (flush_all st1) as [st2 o2] eqn:E2. inversion H; subst st' out; clear H.
      destruct (Hflush _ _ _ _ E1 Hin Hm _ _ E2) as [H1 [H2 [H3 H4]]].
      repeat (split; [assumption|]). intros _; exact H4.
    - destruct (send_many m st (all_dests blocks) FAR) as [st1 o1] eqn:E1.
      destruct (flush_all st1) as [st2 o2] eqn:E2. inversion H; subst st' out; clear H.
      destruct (Hflush _ _ _ _ E1 Hin Hm _ _ E2) as [H1 [H2 [H3 H4]]].
      repeat (split; [assumption|]). intros _; exact H4.
  Qed.

  Definition elem_of (x : elem A * N * N) : elem A := fst (fst x).

  (** ** the run invariant, from an arbitrary state *)
  Lemma end_run_spec s m blocks b r :
    b < length blocks -> r < nth b blocks 0 ->
    forall l (st : @estate A) st' out,
      run_from (end_machine s m blocks) st l = (st', out) -> inr st b r -> allmode m st ->
      inr st' b r /\ allmode m st' /\
      received out b r ++ buf_at st' b r
      = buf_at st b r ++ map (fun x => fst (fst x)) (filter (addressed s blocks b r) l).
  Proof.
    intros Hb Hr. induction l as [|x l IH]; intros st st' out H Hin Hm.
    - cbn [run_from] in H. inversion H; subst. cbn [filter map].
      split; [exact Hin|]. split; [exact Hm|]. unfold received. cbn [flat_map app].
      now rewrite app_nil_r.
    - cbn [run_from end_machine mstep] in H.
      destruct (end_step s m blocks st x) as [st1 o1] eqn:E1.
      change (run_from {| mstate := estate; minit := einit blocks; mstep := end_step s m blocks |} st1 l)
        with (run_from (end_machine s m blocks) st1 l) in H.
      destruct (run_from (end_machine s m blocks) st1 l) as [st2 o2] eqn:E2.
      inversion H; subst st' out; clear H.
      destruct (end_step_spec _ _ _ _ _ _ _ _ _ Hb Hr E1 Hin Hm) as [Hin1 [Hm1 [Hs1 _]]].
      destruct (IH _ _ _ E2 Hin1 Hm1) as [Hin2 [Hm2 Hs2]].
      split; [exact Hin2|]. split; [exact Hm2|].
      rewrite received_app, <- app_assoc, Hs2, app_assoc, Hs1, <- app_assoc. f_equal.
      cbn [filter]. destruct (addressed s blocks b r x); reflexivity.
  Qed.

  (** ** the initial state *)
  Lemma einit_inr blocks b r :
    b < length blocks -> r < nth b blocks 0 -> inr (@einit A blocks) b r.
  Proof.
    intros Hb Hr. unfold inr, einit. rewrite map_length. split; [exact Hb|].
    rewrite (nth_map_in _ _ _ _ 0) by exact Hb. now rewrite repeat_length.
  Qed.

  Lemma einit_empty blocks b r : buf_at (@einit A blocks) b r = [].
  Proof.
    unfold buf_at, einit. destruct (Nat.ltb_spec b (length blocks)) as [Hlt|Hge].
    - rewrite (nth_map_in _ _ _ _ 0) by exact Hlt. apply nth_repeat.
    - rewrite (nth_overflow (map _ blocks)) by (rewrite map_length; exact Hge).
      destruct r; reflexivity.
  Qed.

  (** ** everything buffered is delivered by a flushing element *)
  Lemma end_link_flush s m blocks l x b r :
    b < length blocks -> r < nth b blocks 0 -> flushes (fst (fst x)) = true ->
    received (run (end_machine s m blocks) (l ++ [x])) b r
    = map (fun x => fst (fst x)) (filter (addressed s blocks b r) l)
      ++ (if addressed s blocks b r x then [fst (fst x)] else []).
  Proof.
    intros Hb Hr Hf. unfold run. rewrite run_from_app.
    destruct (run_from (end_machine s m blocks) (minit (end_machine s m blocks)) l)
      as [st1 o1] eqn:E1.
    cbn [run_from end_machine mstep].
    destruct (end_step s m blocks st1 x) as [st2 o2] eqn:E2. cbn [snd].
    cbn [minit end_machine] in E1.
    change (run_from {| mstate := estate; minit := einit blocks; mstep := end_step s m blocks |}
              (einit blocks) l)
      with (run_from (end_machine s m blocks) (einit blocks) l) in E1.
    destruct (end_run_spec s m blocks b r Hb Hr l _ _ _ E1 (einit_inr _ _ _ Hb Hr))
      as [Hin1 [Hm1 Hs1]].
    { intros b0 r0 _. apply einit_empty. }
    rewrite einit_empty in Hs1. cbn [app] in Hs1.
    destruct (end_step_spec _ _ _ _ _ _ _ _ _ Hb Hr E2 Hin1 Hm1) as [_ [_ [Hs2 He]]].
    rewrite (He Hf), app_nil_r in Hs2.
    rewrite app_nil_r, received_app, Hs2, app_assoc, Hs1. reflexivity.
  Qed.

  Theorem end_link_sequence :
    forall s m blocks (l : list (elem A * N * N)) hash rnd b r,
      b < length blocks -> r < nth b blocks 0 ->
      (forall x, In x l -> fst (fst x) <> Terminate) ->
      (match m with BFixed n => 1 <= n | BSingle => True end) ->
      received (run (end_machine s m blocks) (l ++ [(Terminate, hash, rnd)])) b r
      = map (fun x => fst (fst x)) (filter (addressed s blocks b r) l) ++ [Terminate].
  Proof.
    intros s m blocks l hash rnd b r Hb Hr _ _.
    now rewrite (end_link_flush s m blocks l (Terminate, hash, rnd) b r Hb Hr eq_refl).
  Qed.

  Theorem end_round_flushed :
    forall s m blocks (l : list (elem A * N * N)) hash rnd b r,
      b < length blocks -> r < nth b blocks 0 ->
      (forall x, In x l -> fst (fst x) <> Terminate) ->
      (match m with BFixed n => 1 <= n | BSingle => True end) ->
      received (run (end_machine s m blocks) (l ++ [(FAR, hash, rnd)])) b r
      = map (fun x => fst (fst x)) (filter (addressed s blocks b r) l) ++ [FAR].
  Proof.
    intros s m blocks l hash rnd b r Hb Hr _ _.
    now rewrite (end_link_flush s m blocks l (FAR, hash, rnd) b r Hb Hr eq_refl).
  Qed.

  Theorem end_flushbatch_flushed :
    forall s m blocks (l : list (elem A * N * N)) hash rnd b r,
      b < length blocks -> r < nth b blocks 0 ->
      (forall x, In x l -> fst (fst x) <> Terminate) ->
      (match m with BFixed n => 1 <= n | BSingle => True end) ->
      received (run (end_machine s m blocks) (l ++ [(FlushBatch, hash, rnd)])) b r
      = map (fun x => fst (fst x)) (filter (addressed s blocks b r) l).
  Proof.
    intros s m blocks l hash rnd b r Hb Hr _ _.
    rewrite (end_link_flush s m blocks l (FlushBatch, hash, rnd) b r Hb Hr eq_refl).
    cbn [addressed]. now rewrite app_nil_r.
  Qed.

  (** mid-stream safety: at any point what a receiver got is a prefix of what was addressed
      to it (the remainder is exactly its buffer) *)
  Theorem end_prefix :
    forall s m blocks (l : list (elem A * N * N)) b r,
      b < length blocks -> r < nth b blocks 0 ->
      exists buf,
        received (run (end_machine s m blocks) l) b r ++ buf
        = map (fun x => fst (fst x)) (filter (addressed s blocks b r) l).
  Proof.
    intros s m blocks l b r Hb Hr. unfold run.
    destruct (run_from (end_machine s m blocks) (minit (end_machine s m blocks)) l)
      as [st1 o1] eqn:E1.
    cbn [minit end_machine] in E1.
    change (run_from {| mstate := estate; minit := einit blocks; mstep := end_step s m blocks |}
              (einit blocks) l)
      with (run_from (end_machine s m blocks) (einit blocks) l) in E1.
    destruct (end_run_spec s m blocks b r Hb Hr l _ _ _ E1 (einit_inr _ _ _ Hb Hr))
      as [_ [_ Hs1]].
    { intros b0 r0 _. apply einit_empty. }
    rewrite einit_empty in Hs1. cbn [app] in Hs1.
    exists (buf_at st1 b r). cbn [snd]. exact Hs1.
  Qed.

  (* ---------------------------------------------------------------- *)
  (** * E3 *)
  Definition is_ctrl (e : elem A) : bool :=
    match e with Wm _ | FAR | Terminate => true | _ => false end.

  Lemma filter_map_filter {X Y} (p : Y -> bool) (q : X -> bool) (f : X -> Y) (l : list X) :
    (forall x, p (f x) = true -> q x = true) ->
    filter p (map f (filter q l)) = filter p (map f l).
  Proof.
    intros H. induction l as [|x l IH]; cbn [filter map]; [reflexivity|].
    destruct (q x) eqn:Q; cbn [filter map].
    - now rewrite IH.
    - destruct (p (f x)) eqn:P; [rewrite (H _ P) in Q; discriminate|exact IH].
  Qed.

  Lemma addressed_ctrl s blocks b r (x : elem A * N * N) :
    is_ctrl (fst (fst x)) = true -> addressed s blocks b r x = true.
  Proof. destruct x as [[e h] rn]; destruct e; cbn; congruence. Qed.

  (** every watermark / FlushAndRestart / Terminate of the input reaches every replica of
      every downstream block, in input order *)
  Corollary end_control_reaches_all :
    forall s m blocks (l : list (elem A * N * N)) hash rnd b r,
      b < length blocks -> r < nth b blocks 0 ->
      (forall x, In x l -> fst (fst x) <> Terminate) ->
      (match m with BFixed n => 1 <= n | BSingle => True end) ->
      filter is_ctrl (received (run (end_machine s m blocks) (l ++ [(Terminate, hash, rnd)])) b r)
      = filter is_ctrl (map (fun x => fst (fst x)) l) ++ [Terminate].
  Proof.
    intros s m blocks l hash rnd b r Hb Hr Hl Hm.
    rewrite (end_link_sequence s m blocks l hash rnd b r Hb Hr Hl Hm).
    rewrite filter_app. cbn [filter is_ctrl]. f_equal.
    apply filter_map_filter. intros x. apply addressed_ctrl.
  Qed.

  (** for non-All strategies a data element is addressed to exactly one replica of each
      downstream block *)
  Corollary end_data_once_per_block :
    forall s blocks b (x : elem A * N * N),
      is_data (fst (fst x)) = true -> s <> SAll -> 1 <= nth b blocks 0 ->
      exists r0, r0 < nth b blocks 0 /\
        forall r, addressed s blocks b r x = true <-> r = r0.
  Proof.
    intros s blocks b [[e h] rn] Hd Hs Hn. cbn [fst] in Hd.
    destruct (targets_one s h rn (nth b blocks 0) Hs Hn) as [r0 [E Hr0]].
    exists r0. split; [exact Hr0|]. intros r.
    destruct e; try discriminate; cbn [addressed]; rewrite E; cbn [existsb];
      rewrite orb_false_r; apply Nat.eqb_eq.
  Qed.

  (** with [SAll] a data element is addressed to every replica (and to nothing else) *)
  Corollary end_data_all :
    forall blocks b r (x : elem A * N * N),
      is_data (fst (fst x)) = true ->
      (addressed SAll blocks b r x = true <-> r < nth b blocks 0).
  Proof.
    intros blocks b r [[e h] rn] Hd. cbn [fst] in Hd.
    destruct e; try discriminate; cbn [addressed targets]; rewrite existsb_seq;
      cbn [Nat.leb andb Nat.add]; apply Nat.ltb_lt.
  Qed.

  (** group-by: the receiving replica of a data element depends only on the key hash (and the
      block's replica count): two data elements with equal hashes — from any producer, with
      any random draw — are addressed to the same replica *)
  Corollary group_by_same_replica :
    forall blocks b r (e1 e2 : elem A) hash rnd1 rnd2,
      is_data e1 = true -> is_data e2 = true ->
      addressed SGroupBy blocks b r (e1, hash, rnd1) = addressed SGroupBy blocks b r (e2, hash, rnd2).
  Proof.
    intros blocks b r e1 e2 hash rnd1 rnd2 H1 H2.
    destruct e1; try discriminate; destruct e2; try discriminate; reflexivity.
  Qed.
End EndProofs.

(** * C20 — fail-stop: proofs over the crash-propagation model (Model/Crash.v) *)
From Coq Require Import Arith Bool List Lia Wf_nat.
From Noir Require Import Model.Crash.
Import ListNotations.

(** bounded search is decidable *)
Lemma bounded_dec : forall (P : nat -> bool) k,
  (forall i, i < k -> P i = true) \/ (exists i, i < k /\ P i = false).
Proof.
  intros P k. induction k as [|k IH].
  - left. intros i Hi. lia.
  - destruct IH as [IH | [i [Hi HP]]].
    + destruct (P k) eqn:Hk.
      * left. intros i Hi. destruct (Nat.eq_dec i k) as [->|]; [assumption | apply IH; lia].
      * right. exists k. split; [lia | assumption].
    + right. exists i. split; [lia | assumption].
Qed.

(** sums over [0, k) *)
Fixpoint sum (f : nat -> nat) (k : nat) : nat :=
  match k with O => 0 | S k => sum f k + f k end.

Lemma sum_ext : forall f g k, (forall i, i < k -> f i = g i) -> sum f k = sum g k.
Proof.
  intros f g k H. induction k as [|k IH]; [reflexivity|]. cbn.
  rewrite IH, (H k); [reflexivity | lia | intros; apply H; lia].
Qed.

Lemma sum_dec_one : forall f g k r, r < k -> (forall i, i < k -> i <> r -> g i = f i) ->
  S (g r) = f r -> S (sum g k) = sum f k.
Proof.
  intros f g k r Hr Hext Hdec. induction k as [|k IH]; [lia|]. cbn.
  destruct (Nat.eq_dec r k) as [->|Hne].
  - rewrite (sum_ext g f k); [lia|]. intros i Hi. apply Hext; lia.
  - rewrite <- IH; [|lia|intros; apply Hext; lia]. rewrite (Hext k); [lia | lia | congruence].
Qed.

Definition b2n (b : bool) : nat := if b then 1 else 0.

Section Proofs.
  Variable n : nat.
  Variable link keeps : nat -> nat -> bool.
  Variable blk : nat -> nat.
  Variable faulty : nat -> bool.

  (** every link keeps its own channel open *)
  Hypothesis link_keeps : forall p c, link p c = true -> keeps p c = true.
  (** acyclic and finite: replicas are numbered topologically below [n] *)
  Hypothesis keeps_lt : forall p c, keeps p c = true -> p < c /\ c < n.

  Notation step := (step n link keeps blk faulty).
  Notation steps := (steps n link keeps blk faulty).
  Notation final := (final n link keeps blk faulty).
  Notation closing := (closing link).
  Notation consistent := (consistent link).
  Notation downstream := (downstream link).

  Lemma link_lt : forall p c, link p c = true -> p < c /\ c < n.
  Proof. intros p c H. apply keeps_lt, link_keeps, H. Qed.

  (** ** Monotonicity *)
  Lemma step_term_mono : forall s s', step s s' -> forall p c, term s p c = true -> term s' p c = true.
  Proof.
    intros s s' H p c Ht. destruct H; cbn; try assumption.
    destruct ((p =? p0) && (c =? c0)); [reflexivity | assumption].
  Qed.

  Lemma steps_term_mono : forall s s', steps s s' -> forall p c, term s p c = true -> term s' p c = true.
  Proof.
    intros s s' H. induction H; intros p c Ht; [assumption|].
    eapply step_term_mono; [eassumption | auto].
  Qed.

  Lemma step_closing_mono : forall s s' p, step s s' -> closing s p -> closing s' p.
  Proof. intros s s' p H Hc q Hq. eapply step_term_mono; [eassumption | apply Hc, Hq]. Qed.

  (** a finished thread stays finished *)
  Lemma step_status_stable : forall s s', step s s' -> forall r, st s r <> Running -> st s' r = st s r.
  Proof.
    intros s s' H r Hr. destruct H; cbn; try reflexivity;
      match goal with |- (if r =? ?x then _ else _) = _ =>
        destruct (Nat.eqb_spec r x) as [->|]; [contradiction | reflexivity] end.
  Qed.

  (** ** Consistency is invariant *)
  Lemma consistent_init : consistent init.
  Proof. split; cbn; intros; discriminate. Qed.

  Lemma step_consistent : forall s s', step s s' -> consistent s -> consistent s'.
  Proof.
    intros s s' H [I1 I2]. pose proof (step_closing_mono s s') as Hmono.
    pose proof (step_term_mono s s' H) as Htm.
    assert (Hold1 : forall p c, term s p c = true -> link p c = true /\ Crash.closing link s' p).
    { intros p c Ht0. destruct (I1 p c Ht0) as [Hl Hc]. split; [assumption | apply Hmono; assumption]. }
    assert (Hold2 : forall p, st s p = Done ->
              Crash.closing link s' p /\ forall c, link p c = true -> term s' p c = true).
    { intros p Hd0. destruct (I2 p Hd0) as [Hc Ha]. split; [apply Hmono; assumption|].
      intros c Hl. apply Htm; auto. }
    split.
    - (* delivered only on links, by closing replicas *)
      intros p c Ht. inversion H; subst; cbn in Ht; try (apply Hold1; assumption).
      destruct (Nat.eqb_spec p p0) as [E1|]; [|cbn in Ht; apply Hold1; assumption].
      destruct (Nat.eqb_spec c c0) as [E2|]; [|cbn in Ht; apply Hold1; assumption].
      subst p c. split; [assumption | apply Hmono; assumption].
    - (* Done replicas closed and delivered everywhere *)
      intros p Hd. inversion H; subst; cbn in Hd.
      + destruct (Nat.eqb_spec p r) as [E|]; [subst p|]; [discriminate | apply Hold2; assumption].
      + apply Hold2; assumption.
      + destruct (Nat.eqb_spec p p0) as [E|]; [subst p|]; [|apply Hold2; assumption].
        split; [apply Hmono; assumption | intros c Hl; apply Htm; auto].
      + destruct (Nat.eqb_spec p p0) as [E|]; [subst p|]; [discriminate | apply Hold2; assumption].
      + destruct (Nat.eqb_spec p c) as [E|]; [subst p|]; [discriminate | apply Hold2; assumption].
  Qed.

  Lemma steps_consistent : forall s s', steps s s' -> consistent s -> consistent s'.
  Proof. intros s s' H. induction H; intros Hc; [assumption|]. eapply step_consistent; eauto. Qed.

  (** ** Silence below a replica that never delivered a Terminate *)
  Lemma silent_link : forall s p d, consistent s -> (forall c, term s p c = false) -> link p d = true ->
    (forall c, term s d c = false) /\ st s d <> Done.
  Proof.
    intros s p d [I1 I2] Hp Hl. split.
    - intros c. destruct (term s d c) eqn:Ht; [|reflexivity].
      destruct (I1 d c Ht) as [_ Hc]. specialize (Hp d). rewrite (Hc p Hl) in Hp. discriminate.
    - intros Hd. destruct (I2 d Hd) as [Hc _]. specialize (Hp d). rewrite (Hc p Hl) in Hp. discriminate.
  Qed.

  Lemma silent_downstream : forall s r, consistent s -> (forall c, term s r c = false) ->
    forall d, downstream r d -> (forall c, term s d c = false) /\ st s d <> Done.
  Proof.
    intros s r Hc Hr d Hd. induction Hd as [c Hl | d c Hd [IH _] Hl].
    - eapply silent_link; eauto.
    - eapply silent_link; eauto.
  Qed.

  (** ** Nobody blocks forever *)
  Theorem no_blocked_forever : forall s, consistent s -> final s ->
    forall r, r < n -> st s r <> Running.
  Proof.
    intros s [I1 I2] Hfin r. induction r as [r IH] using lt_wf_ind. intros Hr Hrun.
    (* did every producer deliver its Terminate? *)
    destruct (bounded_dec (fun q => negb (link q r) || term s q r) r) as [Hall | [p0 [Hp0 Hmiss]]].
    - assert (Hclosing : Crash.closing link s r).
      { intros q Hq. destruct (link_lt _ _ Hq) as [Hlt _]. specialize (Hall q Hlt).
        rewrite Hq in Hall. exact Hall. }
      (* is some Terminate still to be delivered? *)
      destruct (bounded_dec (fun c => negb (link r c) || term s r c) n) as [Hdel | [c [Hc Hmiss]]].
      + apply (Hfin (set_st s r Done)). apply S_done; try assumption.
        intros c Hl. destruct (link_lt _ _ Hl) as [_ Hlt]. specialize (Hdel c Hlt).
        rewrite Hl in Hdel. exact Hdel.
      + apply orb_false_iff in Hmiss. destruct Hmiss as [Hl Ht]. apply negb_false_iff in Hl.
        destruct (st s c) eqn:Hsc.
        * apply (Hfin (set_term s r c)). apply S_term; assumption.
        * destruct (I2 c Hsc) as [Hcc _]. rewrite (Hcc r Hl) in Ht. discriminate.
        * apply (Hfin (set_st s r Crashed)). eapply S_send_fail; eassumption.
    - apply orb_false_iff in Hmiss. destruct Hmiss as [Hl Ht]. apply negb_false_iff in Hl.
      apply (Hfin (set_st s r Crashed)). apply S_recv_fail with (p0 := p0); try assumption.
      intros p Hk _. left. destruct (keeps_lt _ _ Hk) as [Hlt _]. apply IH; lia.
  Qed.

  (** ** The failure reaches everything downstream *)
  Theorem crash_propagates : forall s r, consistent s -> final s -> died_in_user_code s r ->
    forall d, downstream r d -> st s d = Crashed.
  Proof.
    intros s r Hc Hfin [_ Hsil] d Hd.
    destruct (silent_downstream s r Hc Hsil d Hd) as [_ Hnd].
    assert (Hdn : d < n).
    { destruct Hd as [c Hl | d' c _ Hl]; apply (link_lt _ _ Hl). }
    pose proof (no_blocked_forever s Hc Hfin d Hdn) as Hnr.
    destruct (st s d); [contradiction | contradiction | reflexivity].
  Qed.

  (** replicas that are not downstream end as well, either way *)
  Theorem upstream_unaffected_or_failed : forall s, consistent s -> final s ->
    forall r, r < n -> st s r = Done \/ st s r = Crashed.
  Proof.
    intros s Hc Hfin r Hr. pose proof (no_blocked_forever s Hc Hfin r Hr).
    destruct (st s r); [contradiction | now left | now right].
  Qed.

  (** ** Nothing downstream ever publishes: not in the final state, not earlier in the run *)
  Lemma died_stable : forall s s' r, steps s s' -> died_in_user_code s r -> died_in_user_code s' r.
  Proof.
    intros s s' r H. induction H as [|s s' s'' _ IH Hst]; intros Hd; [assumption|].
    specialize (IH Hd). destruct IH as [Hcr Hsil]. split.
    - rewrite (step_status_stable _ _ Hst r); [assumption | congruence].
    - intros c. inversion Hst; subst; cbn; try apply Hsil.
      destruct (Nat.eqb_spec r p) as [E|]; [subst r|]; cbn; [congruence | apply Hsil].
  Qed.

  Lemma panic_dies : forall s r, r < n -> faulty r = true -> st s r = Running ->
    (forall c, term s r c = false) ->
    step s (set_st s r Crashed) /\ died_in_user_code (set_st s r Crashed) r.
  Proof.
    intros s r Hr Hf Hrun Hsil. split; [apply S_panic; assumption|].
    split; cbn; [now rewrite Nat.eqb_refl | assumption].
  Qed.

  Theorem never_published : forall s1 s2 r d, consistent s1 -> steps s1 s2 ->
    died_in_user_code s2 r -> downstream r d -> ~ published s1 d.
  Proof.
    intros s1 s2 r d Hc Hsteps [_ Hsil] Hd.
    apply (silent_downstream s1 r Hc); [|assumption].
    intros c. destruct (term s1 r c) eqn:Ht; [|reflexivity].
    specialize (Hsil c). rewrite (steps_term_mono _ _ Hsteps r c Ht) in Hsil. discriminate.
  Qed.

  (** ** execute_blocking fails on every host that runs a crashed replica *)
  Theorem execute_fails : forall s host r, In r host -> st s r = Crashed -> host_fails s host = true.
  Proof.
    intros s host r Hin Hcr. apply existsb_exists. exists r. split; [assumption|]. now rewrite Hcr.
  Qed.

  (** ** Every execution is finite: maximal executions end in a [final] state.
      Measure: running threads plus Terminates still to be delivered. *)
  Definition is_running (x : status) : bool := match x with Running => true | _ => false end.
  Definition measure (s : state) : nat :=
    sum (fun r => b2n (is_running (st s r))) n +
    sum (fun p => sum (fun c => b2n (link p c && negb (term s p c))) n) n.

  Lemma measure_set_st : forall s r v, r < n -> st s r = Running -> v <> Running ->
    S (measure (set_st s r v)) = measure s.
  Proof.
    intros s r v Hr Hrun Hv. unfold measure. cbn [term set_st].
    rewrite <- (sum_dec_one (fun x => b2n (is_running (st s x)))
                           (fun x => b2n (is_running (st (set_st s r v) x))) n r Hr); [lia| |].
    - intros i _ Hne. cbn. destruct (Nat.eqb_spec i r); [contradiction | reflexivity].
    - cbn. rewrite Nat.eqb_refl, Hrun. destruct v; [contradiction | reflexivity | reflexivity].
  Qed.

  Lemma measure_set_term : forall s p c, link p c = true -> term s p c = false ->
    S (measure (set_term s p c)) = measure s.
  Proof.
    intros s p c Hl Ht. destruct (link_lt _ _ Hl) as [Hpc Hc]. unfold measure. cbn [st set_term].
    rewrite <- (sum_dec_one (fun x => sum (fun y => b2n (link x y && negb (term s x y))) n)
                  (fun x => sum (fun y => b2n (link x y && negb (term (set_term s p c) x y))) n)
                  n p); [lia | lia | |].
    - intros i _ Hne. apply sum_ext. intros j _. cbn.
      destruct (Nat.eqb_spec i p); [contradiction | reflexivity].
    - apply (sum_dec_one _ _ n c Hc).
      + intros j _ Hne. cbn. rewrite Nat.eqb_refl. destruct (Nat.eqb_spec j c); [contradiction | reflexivity].
      + cbn. rewrite !Nat.eqb_refl, Hl, Ht. reflexivity.
  Qed.

  Lemma step_measure : forall s s', step s s' -> measure s' < measure s.
  Proof.
    intros s s' H. inversion H; subst.
    - rewrite <- (measure_set_st s r Crashed); [lia | assumption | assumption | discriminate].
    - rewrite <- (measure_set_term s p c); [lia | assumption | assumption].
    - rewrite <- (measure_set_st s p Done); [lia | assumption | assumption | discriminate].
    - rewrite <- (measure_set_st s p Crashed); [lia | | assumption | discriminate].
      destruct (link_lt p c); [assumption | lia].
    - rewrite <- (measure_set_st s c Crashed); [lia | | assumption | discriminate].
      destruct (link_lt p0 c); [assumption | lia].
  Qed.

  Theorem step_terminates : well_founded (fun s' s => step s s').
  Proof.
    apply (well_founded_lt_compat _ measure). intros s' s H. apply step_measure, H.
  Qed.

  (** ** C20, whole runs from the initial state *)
  Theorem C20_fail_stop : forall s r, steps init s -> final s -> died_in_user_code s r ->
    (* every worker ended *)
    (forall x, x < n -> st s x = Done \/ st s x = Crashed) /\
    (* the failed replica and everything downstream crashed; no sink there published,
       at no moment of the run *)
    (forall d, downstream r d -> st s d = Crashed) /\
    (forall s1 d, steps init s1 -> steps s1 s -> downstream r d -> ~ published s1 d) /\
    (* every host running the failed replica or something downstream of it fails *)
    (forall host d, In d host -> d = r \/ downstream r d -> host_fails s host = true).
  Proof.
    intros s r Hsteps Hfin Hdied.
    pose proof (steps_consistent _ _ Hsteps consistent_init) as Hc.
    repeat split.
    - apply upstream_unaffected_or_failed; assumption.
    - apply crash_propagates; assumption.
    - intros s1 d H1 H2 Hd. eapply never_published; eauto.
      apply (steps_consistent _ _ H1 consistent_init).
    - intros host d Hin [-> | Hd].
      + eapply execute_fails; [eassumption | apply Hdied].
      + eapply execute_fails; [eassumption | eapply crash_propagates; eauto].
  Qed.
End Proofs.

(** ** The model is not vacuous: two sources (block 0: replicas 0, 1) shuffle into block 1
    (replicas 2, 3), which feeds the sink (replica 4). Replica 0 panics; source 1 is
    unaffected and finishes; 2 and 3 notice the vanished producer only once source 1 is gone
    too (they share the channel of block 0); the sink crashes and never publishes. *)
Module Example.
  Definition n := 5.
  Definition link (p c : nat) : bool :=
    ((p <? 2) && (2 <=? c) && (c <? 4)) || ((2 <=? p) && (p <? 4) && (c =? 4)).
  Definition blk (r : nat) : nat := if r <? 2 then 0 else if r <? 4 then 1 else 2.
  Definition faulty (r : nat) : bool := r =? 0.
  Notation step := (step n link link blk faulty).
  Notation steps := (steps n link link blk faulty).

  Definition s1 := set_st init 0 Crashed.
  Definition s2 := set_term s1 1 2.
  Definition s3 := set_term s2 1 3.
  Definition s4 := set_st s3 1 Done.
  Definition s5 := set_st s4 2 Crashed.
  Definition s6 := set_st s5 3 Crashed.
  Definition s7 := set_st s6 4 Crashed.

  Lemma link_cases : forall p c, link p c = true ->
    (p = 0 \/ p = 1) /\ (c = 2 \/ c = 3) \/ (p = 2 \/ p = 3) /\ c = 4.
  Proof.
    intros p c H. unfold link in H.
    repeat (apply orb_true_iff in H; destruct H as [H|H]);
      repeat (apply andb_true_iff in H; destruct H as [H ?]);
      repeat match goal with
             | H : (_ <? _) = true |- _ => apply Nat.ltb_lt in H
             | H : (_ <=? _) = true |- _ => apply Nat.leb_le in H
             | H : (_ =? _) = true |- _ => apply Nat.eqb_eq in H
             end; lia.
  Qed.

  Lemma run : steps init s7.
  Proof.
    assert (Hsrc : forall s, closing link s 1).
    { intros s q Hq. apply link_cases in Hq. lia. }
    assert (H1 : step init s1).
    { apply S_panic; [unfold n; lia | reflexivity | reflexivity | reflexivity]. }
    assert (H2 : step s1 s2).
    { apply S_term; [reflexivity | apply Hsrc | reflexivity | reflexivity | reflexivity]. }
    assert (H3 : step s2 s3).
    { apply S_term; [reflexivity | apply Hsrc | reflexivity | reflexivity | reflexivity]. }
    assert (H4 : step s3 s4).
    { apply S_done; [unfold n; lia | reflexivity | apply Hsrc |].
      intros c Hc. apply link_cases in Hc.
      destruct Hc as [[_ [-> | ->]] | [? _]]; [reflexivity | reflexivity | exfalso; lia]. }
    assert (H5 : step s4 s5).
    { apply (S_recv_fail n link link blk faulty s4 2 0); [reflexivity | reflexivity | reflexivity |].
      intros p Hp _. left. apply link_cases in Hp.
      destruct Hp as [[[-> | ->] _] | [_ ?]]; [discriminate | discriminate | exfalso; lia]. }
    assert (H6 : step s5 s6).
    { apply (S_recv_fail n link link blk faulty s5 3 0); [reflexivity | reflexivity | reflexivity |].
      intros p Hp _. left. apply link_cases in Hp.
      destruct Hp as [[[-> | ->] _] | [_ ?]]; [discriminate | discriminate | exfalso; lia]. }
    assert (H7 : step s6 s7).
    { apply (S_recv_fail n link link blk faulty s6 4 2); [reflexivity | reflexivity | reflexivity |].
      intros p Hp _. left. apply link_cases in Hp.
      destruct Hp as [[_ ?] | [[-> | ->] _]]; [exfalso; lia | discriminate | discriminate]. }
    repeat (eapply steps_step; [|eassumption]). apply steps_refl.
  Qed.

  Lemma link_bound : forall p c, link p c = true -> p < n /\ c < n.
  Proof. intros p c H. apply link_cases in H. unfold n. lia. Qed.

  Lemma ended_final : forall s, (forall r, r < n -> st s r <> Running) -> final n link link blk faulty s.
  Proof.
    intros s H s' Hs. inversion Hs; subst;
      try match goal with Hl : link _ _ = true |- _ => apply link_bound in Hl; destruct Hl end;
      (eapply H; [|eassumption]; assumption).
  Qed.

  Lemma s7_final : final n link link blk faulty s7.
  Proof.
    apply ended_final. intros r Hr. unfold n in Hr.
    do 5 (destruct r as [|r]; [discriminate|]). lia.
  Qed.

  (** the outcome: the failed replica and everything downstream crashed, the other source
      finished normally, every host that runs one of 0, 2, 3, 4 fails *)
  Lemma outcome : map (st s7) [0; 1; 2; 3; 4] = [Crashed; Done; Crashed; Crashed; Crashed].
  Proof. reflexivity. Qed.
End Example.

(** Statement-level definitions for the single-input Start (C05, C06, C17): the abstract
    "minimum over active upstream replicas" specification, the ideal Start that forwards
    every increase of it, stream well-formedness and watermark safety. All executable. *)
From Noir Require Export Base.Elem Model.Start.
Open Scope Z_scope.

(** ** Abstract view of a round: latest watermark and "has ended" per upstream replica *)
Record aview := { a_lat : list (option Z); a_ended : list bool }.
Definition aview_init (n : nat) : aview := {| a_lat := repeat None n; a_ended := repeat false n |}.

Definition omaxz (a : option Z) (t : Z) : option Z :=
  match a with Some x => Some (Z.max x t) | None => Some t end.

(** minimum of the latest watermarks of the replicas that have not ended; None if some
    active replica has not reported yet, or if no replica is active *)
Fixpoint active_min_aux (lat : list (option Z)) (ended : list bool) (acc : option (option Z))
  : option (option Z) :=
  (* acc = None: no active replica seen yet; Some None: an active one has not reported;
     Some (Some m): all active ones so far reported, minimum m *)
  match lat, ended with
  | l :: lat', e :: ended' =>
      if e then active_min_aux lat' ended' acc
      else match acc, l with
           | Some None, _ | _, None => active_min_aux lat' ended' (Some None)
           | None, Some t => active_min_aux lat' ended' (Some (Some t))
           | Some (Some m), Some t => active_min_aux lat' ended' (Some (Some (Z.min m t)))
           end
  | _, _ => acc
  end.
Definition active_min (v : aview) : option Z :=
  match active_min_aux (a_lat v) (a_ended v) None with Some (Some m) => Some m | _ => None end.

(** how one arrival changes the abstract view; at the end of the round (every replica
    ended) the view is reset *)
Definition aview_step {A} (v : aview) (x : nat * elem A) : aview :=
  let '(s, e) := x in
  match e with
  | Wm t => {| a_lat := set_nth s (omaxz (nth s (a_lat v) None) t) (a_lat v); a_ended := a_ended v |}
  | FAR =>
      let en := set_nth s true (a_ended v) in
      if forallb (fun b => b) en then aview_init (length en)
      else {| a_lat := a_lat v; a_ended := en |}
  | _ => v
  end.

(** The specification of C17 as a machine: at every arrival, if the active minimum has
    changed to a new value it is emitted, before the element itself is forwarded or the
    round is closed. Data is forwarded, FAR/Terminate are counted as in the real Start. *)
Record ispec := { i_view : aview; i_mterm : nat; i_mfar : nat; i_n : nat; i_done : bool }.
Definition ispec_init (n : nat) : ispec :=
  {| i_view := aview_init n; i_mterm := n; i_mfar := n; i_n := n; i_done := false |}.

Definition ispec_step {A} (st : ispec) (x : nat * elem A) : ispec * list (elem A) :=
  if i_done st then (st, []) else
  let '(s, e) := x in
  let before := active_min (i_view st) in
  (* view after this arrival, but before a possible end-of-round reset *)
  let v1 := match e with
            | FAR => {| a_lat := a_lat (i_view st); a_ended := set_nth s true (a_ended (i_view st)) |}
            | _ => aview_step (i_view st) x
            end in
  let after := active_min v1 in
  let wm := match before, after with
            | None, Some m => [Wm m]
            | Some a, Some m => if Z.eqb a m then [] else [Wm m]
            | _, None => []
            end in
  match e with
  | Wm _ => ({| i_view := v1; i_mterm := i_mterm st; i_mfar := i_mfar st; i_n := i_n st; i_done := false |}, wm)
  | FAR =>
      let mfar := pred (i_mfar st) in
      if Nat.eqb mfar 0 then
        ({| i_view := aview_init (i_n st); i_mterm := i_mterm st; i_mfar := i_n st; i_n := i_n st; i_done := false |},
         wm ++ [FAR])
      else ({| i_view := v1; i_mterm := i_mterm st; i_mfar := mfar; i_n := i_n st; i_done := false |}, wm)
  | Terminate =>
      let mt := pred (i_mterm st) in
      if Nat.eqb mt 0 then
        ({| i_view := i_view st; i_mterm := 0; i_mfar := i_mfar st; i_n := i_n st; i_done := true |}, [Terminate])
      else ({| i_view := i_view st; i_mterm := mt; i_mfar := i_mfar st; i_n := i_n st; i_done := false |}, [])
  | _ => (st, [e])
  end.

Definition ispec_machine (A : Type) (n : nat) : machine (nat * elem A) (elem A) :=
  {| mstate := ispec; minit := ispec_init n; mstep := ispec_step |}.

(** the known class F1: some FlushAndRestart arrival, by removing its sender from the active
    set, raises the active minimum while other replicas are still active *)
Fixpoint far_raises_min_from {A} (st : ispec) (l : list (nat * elem A)) : bool :=
  match l with
  | [] => false
  | x :: l' =>
      let '(st1, o) := ispec_step st x in
      match snd x with
      | FAR => existsb (fun e => match e with Wm _ => true | _ => false end) o
               || far_raises_min_from st1 l'
      | _ => far_raises_min_from st1 l'
      end
  end.
Definition far_raises_min {A} (n : nat) (l : list (nat * elem A)) : bool :=
  far_raises_min_from (ispec_init n) l.

(** ** Well-formed arrival sequences *)
(** every sender index is < n, and watermark values are below Timestamp::MAX *)
Definition arrivals_ok {A} (n : nat) (l : list (nat * elem A)) : Prop :=
  forall s e, In (s, e) l -> (s < n)%nat /\ (forall t, e = Wm t -> t < TS_MAX) /\ e <> FlushBatch.

(** the subsequence of one sender *)
Definition from_sender {A} (s : nat) (l : list (nat * elem A)) : list (elem A) :=
  map snd (filter (fun x => Nat.eqb (fst x) s) l).

(** stream grammar ((Item|Tst|Wm|FlushBatch)* FAR)+ Terminate, as a recogniser:
    state = (seen at least one FAR, currently right after a FAR) *)
Fixpoint wf_from {A} (nfar : bool) (l : list (elem A)) : bool :=
  match l with
  | [] => false
  | Terminate :: l' => nfar && match l' with [] => true | _ => false end
  | FAR :: l' => wf_from true l'
  | _ :: l' => wf_from false l'
  end.
(** [wf l]: rounds of data each closed by FAR, then Terminate directly after a FAR, last *)
Definition wf {A} (l : list (elem A)) : bool := wf_from false l.

(** watermark safety of an output sequence: within a round, after Wm t no element with
    timestamp <= t and no watermark <= t; the bound is reset at FAR *)
Fixpoint wm_safe_from {A} (last : option Z) (l : list (elem A)) : bool :=
  match l with
  | [] => true
  | Tst _ t :: l' => match last with Some w => (w <? t) | None => true end && wm_safe_from last l'
  | Wm t :: l' => match last with Some w => (w <? t) | None => true end && wm_safe_from (Some t) l'
  | FAR :: l' => wm_safe_from None l'
  | _ :: l' => wm_safe_from last l'
  end.
Definition wm_safe {A} (l : list (elem A)) : bool := wm_safe_from None l.

(** number of FARs a sender has delivered in a prefix *)
Definition fars {A} (l : list (elem A)) : nat :=
  length (filter (fun e => match e with FAR => true | _ => false end) l).

(** RoundSync: no replica's data of round k+1 overtakes another replica's FAR of round k.
    Executable form: walking the arrival sequence, a non-Terminate element from sender s is
    accepted only if s has delivered exactly as many FARs as the number of completed rounds *)
Fixpoint round_sync_from {A} (n : nat) (done_rounds : nat) (cnt : list nat) (l : list (nat * elem A)) : bool :=
  match l with
  | [] => true
  | (s, e) :: l' =>
      match e with
      | Terminate => round_sync_from n done_rounds cnt l'
      | FAR =>
          Nat.eqb (nth s cnt 0%nat) done_rounds &&
          let cnt1 := set_nth s (S (nth s cnt 0%nat)) cnt in
          if forallb (fun c => Nat.eqb c (S done_rounds)) cnt1
          then round_sync_from n (S done_rounds) cnt1 l'
          else round_sync_from n done_rounds cnt1 l'
      | _ => Nat.eqb (nth s cnt 0%nat) done_rounds && round_sync_from n done_rounds cnt l'
      end
  end.
Definition round_sync {A} (n : nat) (l : list (nat * elem A)) : bool :=
  round_sync_from n 0 (repeat 0%nat n) l.
